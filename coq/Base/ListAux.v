(* Small executable list helpers shared by the correspondence shards. *)
From Coq Require Import List Bool Arith.
Import ListNotations.

Fixpoint failing_from {A} (f : A -> bool) (i : nat) (l : list A) : list nat :=
  match l with
  | [] => []
  | x :: r => if f x then failing_from f (S i) r else i :: failing_from f (S i) r
  end.
(* indices of the cases on which the agreement predicate is false (diagnostics) *)
Definition failing {A} (f : A -> bool) (l : list A) : list nat := failing_from f 0 l.

Fixpoint list_eqb {A} (eqb : A -> A -> bool) (l1 l2 : list A) : bool :=
  match l1, l2 with
  | [], [] => true
  | x :: r1, y :: r2 => eqb x y && list_eqb eqb r1 r2
  | _, _ => false
  end.

Lemma list_eqb_refl {A} (eqb : A -> A -> bool) :
  (forall x, eqb x x = true) -> forall l, list_eqb eqb l l = true.
Proof. intros H l; induction l as [|x l IH]; cbn; [reflexivity|]. now rewrite H, IH. Qed.
