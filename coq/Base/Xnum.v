(* IEEE-754 special-value layer over exact rationals: NaN, -inf, +inf, finite q.
   Finite arithmetic is exact (the correspondence harness restricts finite inputs to values on
   which the float32 operations involved are exact). *)
From Coq Require Import QArith Bool.
Open Scope Q_scope.

Inductive xnum := XNaN | XNegInf | XPosInf | XFin (q : Q).

Definition xisnan (a : xnum) : bool := match a with XNaN => true | _ => false end.

Definition xneg (a : xnum) : xnum :=
  match a with XNaN => XNaN | XNegInf => XPosInf | XPosInf => XNegInf | XFin q => XFin (- q) end.

Definition xadd (a b : xnum) : xnum :=
  match a, b with
  | XNaN, _ | _, XNaN => XNaN
  | XPosInf, XNegInf | XNegInf, XPosInf => XNaN
  | XPosInf, _ | _, XPosInf => XPosInf
  | XNegInf, _ | _, XNegInf => XNegInf
  | XFin p, XFin q => XFin (p + q)
  end.
Definition xsub (a b : xnum) : xnum := xadd a (xneg b).

Definition Qleb (p q : Q) : bool := Qle_bool p q.
Definition Qltb (p q : Q) : bool := negb (Qle_bool q p).

(* IEEE comparisons: anything involving NaN is false *)
Definition xle (a b : xnum) : bool :=
  match a, b with
  | XNaN, _ | _, XNaN => false
  | XNegInf, _ => true
  | _, XPosInf => true
  | XPosInf, _ => false
  | _, XNegInf => false
  | XFin p, XFin q => Qleb p q
  end.
Definition xlt (a b : xnum) : bool :=
  match a, b with
  | XNaN, _ | _, XNaN => false
  | XNegInf, XNegInf => false
  | XNegInf, _ => true
  | XPosInf, _ => false
  | _, XPosInf => true
  | _, XNegInf => false
  | XFin p, XFin q => Qltb p q
  end.

(* jnp.clip(x, max=1) = minimum(x, 1); NaN propagates *)
Definition xclip_max1 (a : xnum) : xnum :=
  match a with
  | XNaN => XNaN
  | XNegInf => XNegInf
  | XPosInf => XFin 1
  | XFin q => if Qleb q 1 then XFin q else XFin 1
  end.

Definition xeqb (a b : xnum) : bool :=
  match a, b with
  | XNaN, XNaN | XNegInf, XNegInf | XPosInf, XPosInf => true
  | XFin p, XFin q => Qeq_bool p q
  | _, _ => false
  end.
