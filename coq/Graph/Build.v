(* C15 - formal model of model building in liesel (liesel/model/model.py, nodes.py).

   Written from the code: GraphBuilder._all_nodes_and_vars (worklist closure),
   GraphBuilder._do_set_missing_names / _set_missing_names (+ the Var.name setter cascade),
   _remove_model_seed_inputs, the reserved-name check, _add_model_log_*_node,
   _add_model_seed_nodes, Model.__init__ (duplicate checks, one-model check, output wiring,
   topological sort), the no_model_* guards, Model.pop_nodes_and_vars.

   The pre-build "world" is a snapshot of Python objects: node ids / var ids / group ids are
   positions in the three lists.  Definitions only; proofs are in BuildProofs.v. *)
From Coq Require Import List Arith Bool String Ascii DecimalString DecimalNat.
Import ListNotations.
Open Scope string_scope.
Open Scope list_scope.

Definition nid := nat.
Definition vid := nat.
Definition gid := nat.

Record pnode := mkN {
  n_name : string;                 (* "" = no name yet *)
  n_pos : list nid;                (* Node.inputs *)
  n_kw : list (string * nid);      (* Node.kwinputs, insertion order *)
  n_at : option nid;               (* Dist.at *)
  n_var : option vid;              (* Node.var *)
  n_seed : bool;                   (* Node.needs_seed *)
  n_isdist : bool;                 (* isinstance(node, Dist) *)
  n_inmodel : bool;                (* Node.model is not None *)
  n_outs : list nid;               (* Node.outputs (meaningful while in a model) *)
  n_groups : list gid
}.

Record pvar := mkV {
  v_name : string;
  v_value : nid;                   (* Var.value_node *)
  v_varvalue : nid;                (* Var.var_value_node *)
  v_dist : option nid;             (* Var.dist_node (None = NoDist) *)
  v_obs : bool;
  v_par : bool;
  v_groups : list gid;
  v_auto : bool                    (* Var.auto_transform *)
}.

Record world := mkW { w_nodes : list pnode; w_vars : list pvar; w_gnames : list string }.

Inductive berr := BadRef | Reserved | Frozen | DupNode | DupVar | DupGroup | InModel | Cycle
                | BadOrder | OutOfFuel | BadTransform.
Inductive result (A : Type) := Ok (a : A) | Err (e : berr).
Arguments Ok {A} a.
Arguments Err {A} e.

(* ------------------------------------------------------------------------------------------ *)
(* small list helpers                                                                         *)
Definition memn (x : nat) (l : list nat) : bool := existsb (Nat.eqb x) l.
Definition mems (x : string) (l : list string) : bool := existsb (String.eqb x) l.

(* dict.fromkeys: keep first occurrences, keep order *)
Fixpoint uniq_acc (acc l : list nat) : list nat :=
  match l with
  | [] => rev acc
  | x :: r => if memn x acc then uniq_acc acc r else uniq_acc (x :: acc) r
  end.
Definition uniq (l : list nat) : list nat := uniq_acc [] l.

Definition olist {A} (o : option A) : list A := match o with Some a => [a] | None => [] end.

Fixpoint has_dup (l : list string) : bool :=
  match l with [] => false | x :: r => mems x r || has_dup r end.

Fixpoint update {A} (l : list A) (i : nat) (f : A -> A) : list A :=
  match l, i with
  | [], _ => []
  | x :: r, 0 => f x :: r
  | x :: r, S j => x :: update r j f
  end.

(* ------------------------------------------------------------------------------------------ *)
(* readers                                                                                    *)
Definition getn (w : world) (i : nid) : option pnode := nth_error (w_nodes w) i.
Definition getv (w : world) (v : vid) : option pvar := nth_error (w_vars w) v.

(* Node.all_input_nodes / Dist.all_input_nodes : _unique_tuple(inputs, kwinputs.values(), [at]) *)
Definition all_ins (n : pnode) : list nid := uniq (n_pos n ++ map snd (n_kw n) ++ olist (n_at n)).
Definition ins_of (w : world) (i : nid) : list nid :=
  match getn w i with Some n => all_ins n | None => [] end.
Definition var_of (w : world) (i : nid) : option vid :=
  match getn w i with Some n => n_var n | None => None end.
Definition name_of (w : world) (i : nid) : string :=
  match getn w i with Some n => n_name n | None => "" end.
Definition inmodel_of (w : world) (i : nid) : bool :=
  match getn w i with Some n => n_inmodel n | None => false end.
(* Var.nodes *)
Definition var_nodes (v : pvar) : list nid := [v_value v; v_varvalue v] ++ olist (v_dist v).
Definition vnodes_of (w : world) (v : vid) : list nid :=
  match getv w v with Some pv => var_nodes pv | None => [] end.
Definition vname_of (w : world) (v : vid) : string :=
  match getv w v with Some pv => v_name pv | None => "" end.

Definition setn (w : world) (i : nid) (f : pnode -> pnode) : world :=
  mkW (update (w_nodes w) i f) (w_vars w) (w_gnames w).
Definition setv (w : world) (v : vid) (f : pvar -> pvar) : world :=
  mkW (w_nodes w) (update (w_vars w) v f) (w_gnames w).
Definition addn (w : world) (n : pnode) : world :=
  mkW (w_nodes w ++ [n]) (w_vars w) (w_gnames w).

Definition set_name (s : string) (n : pnode) : pnode :=
  mkN s (n_pos n) (n_kw n) (n_at n) (n_var n) (n_seed n) (n_isdist n) (n_inmodel n) (n_outs n) (n_groups n).
Definition set_kw (kw : list (string * nid)) (n : pnode) : pnode :=
  mkN (n_name n) (n_pos n) kw (n_at n) (n_var n) (n_seed n) (n_isdist n) (n_inmodel n) (n_outs n) (n_groups n).
Definition set_inputs (pos : list nid) (kw : list (string * nid)) (n : pnode) : pnode :=
  mkN (n_name n) pos kw (n_at n) (n_var n) (n_seed n) (n_isdist n) (n_inmodel n) (n_outs n) (n_groups n).
Definition set_needs_seed (b : bool) (n : pnode) : pnode :=
  mkN (n_name n) (n_pos n) (n_kw n) (n_at n) (n_var n) b (n_isdist n) (n_inmodel n) (n_outs n) (n_groups n).
Definition set_inmodel (b : bool) (n : pnode) : pnode :=
  mkN (n_name n) (n_pos n) (n_kw n) (n_at n) (n_var n) (n_seed n) (n_isdist n) b (n_outs n) (n_groups n).
Definition set_outs (o : list nid) (n : pnode) : pnode :=
  mkN (n_name n) (n_pos n) (n_kw n) (n_at n) (n_var n) (n_seed n) (n_isdist n) (n_inmodel n) o (n_groups n).
Definition set_vname (s : string) (v : pvar) : pvar :=
  mkV s (v_value v) (v_varvalue v) (v_dist v) (v_obs v) (v_par v) (v_groups v) (v_auto v).

(* ------------------------------------------------------------------------------------------ *)
(* GraphBuilder._all_nodes_and_vars : worklist, pop from the END of the Python list.
   The stack is kept with its top first, so  list.extend(xs)  is  rev xs ++ stack. *)
Definition succs (w : world) (n : nid) : list nid :=
  ins_of w n ++ match var_of w n with Some v => vnodes_of w v | None => [] end.

Fixpoint closure_loop (w : world) (fuel : nat) (stack seen_n : list nid) (seen_v : list vid)
  : option (list nid * list vid) :=
  match fuel with
  | 0 => None
  | S f =>
    match stack with
    | [] => Some (rev seen_n, rev seen_v)
    | n :: st =>
      if memn n seen_n then closure_loop w f st seen_n seen_v
      else
        let st1 := rev (ins_of w n) ++ st in
        match var_of w n with
        | None => closure_loop w f st1 (n :: seen_n) seen_v
        | Some v =>
          if memn v seen_v then closure_loop w f st1 (n :: seen_n) seen_v
          else closure_loop w f (rev (vnodes_of w v) ++ st1) (n :: seen_n) (v :: seen_v)
        end
    end
  end.

(* nodes = self.nodes.copy(); nodes.extend(node for var in self.vars for node in var.nodes);
   nodes = list(dict.fromkeys(nodes)) *)
Definition init_list (w : world) (rn : list nid) (rv : list vid) : list nid :=
  uniq (rn ++ flat_map (vnodes_of w) rv).

Definition cost_sum (w : world) : nat :=
  fold_right (fun i acc => List.length (succs w i) + acc) 0 (seq 0 (List.length (w_nodes w))).

Definition closure_fuel (w : world) (rn : list nid) (rv : list vid) : nat :=
  S (List.length (init_list w rn rv) + cost_sum w).

Definition closure (w : world) (rn : list nid) (rv : list vid) : option (list nid * list vid) :=
  closure_loop w (closure_fuel w rn rv) (rev (init_list w rn rv)) [] [].

(* ------------------------------------------------------------------------------------------ *)
(* names                                                                                      *)
Definition nat_str (k : nat) : string := NilEmpty.string_of_uint (Nat.to_uint k).

(* name = f"{prefix}{(counter := counter + 1)}"; while name in other: ...
   [c] is the next candidate number; returns the number after the one used, and the name *)
Fixpoint fresh_loop (fuel : nat) (pre : string) (c : nat) (other : list string) : option (nat * string) :=
  match fuel with
  | 0 => None
  | S f => let nm := (pre ++ nat_str c)%string in
           if mems nm other then fresh_loop f pre (S c) other else Some (S c, nm)
  end.
Definition fresh (pre : string) (c : nat) (other : list string) : option (nat * string) :=
  fresh_loop (S (List.length other)) pre c other.

Definition nonempty (s : string) : bool := negb (String.eqb s "").

(* Var.name setter (the variable is not in a model).
   proxy_fix = true : repaired code (66a7abc) - the VarValue proxy is renamed on its own condition
                      (its name is "" or the default derived from the old variable name);
   proxy_fix = false: code as found - the proxy is renamed only together with the value node *)
Definition set_var_name (proxy_fix : bool) (w : world) (v : vid) (name : string) : world :=
  match getv w v with
  | None => w
  | Some pv =>
    let old := v_name pv in
    let rename_value :=
      nonempty name && (String.eqb (name_of w (v_value pv)) "" || String.eqb (name_of w (v_value pv)) (old ++ "_value")%string) in
    let w0 := if rename_value then setn w (v_value pv) (set_name (name ++ "_value")%string) else w in
    let rename_proxy :=
      if proxy_fix
      then nonempty name && (String.eqb (name_of w0 (v_varvalue pv)) "" || String.eqb (name_of w0 (v_varvalue pv)) (old ++ "_var_value")%string)
      else rename_value in
    let w1 := if rename_proxy then setn w0 (v_varvalue pv) (set_name (name ++ "_var_value")%string) else w0 in
    let w2 :=
      match v_dist pv with
      | Some d =>
        if nonempty name && (String.eqb (name_of w1 d) "" || String.eqb (name_of w1 d) (old ++ "_log_prob")%string)
        then setn w1 d (set_name (name ++ "_log_prob")%string) else w1
      | None => w1
      end in
    setv w2 v (set_vname name)
  end.

(* _do_set_missing_names(_vars, "v") *)
Fixpoint name_vars (pf : bool) (w : world) (vs : list vid) (c : nat) (other : list string) : option world :=
  match vs with
  | [] => Some w
  | v :: r =>
    if nonempty (vname_of w v) then name_vars pf w r c other
    else match fresh "v" c other with
         | None => None
         | Some (c', nm) => name_vars pf (set_var_name pf w v nm) r c' (other ++ [nm])
         end
  end.

(* _do_set_missing_names(nodes, "n") *)
Fixpoint name_nodes (w : world) (ns : list nid) (c : nat) (other : list string) : option world :=
  match ns with
  | [] => Some w
  | n :: r =>
    if nonempty (name_of w n) then name_nodes w r c other
    else match fresh "n" c other with
         | None => None
         | Some (c', nm) => name_nodes (setn w n (set_name nm)) r c' (other ++ [nm])
         end
  end.

Definition set_missing_names (pf : bool) (w : world) (ns : list nid) (vs : list vid) : option world :=
  match name_vars pf w vs 0 (filter nonempty (map (vname_of w) vs)) with
  | None => None
  | Some w1 => name_nodes w1 ns 0 (filter nonempty (map (name_of w1) ns))
  end.

(* ------------------------------------------------------------------------------------------ *)
(* seeds                                                                                      *)
Definition suffixb (suf s : string) : bool :=
  let a := rev (list_ascii_of_string suf) in
  let b := rev (list_ascii_of_string s) in
  prefix (string_of_list_ascii a) (string_of_list_ascii b).

(* _remove_model_seed_inputs: seed.name.startswith("_model_") and seed.name.endswith("_seed") - a PATTERN,
   independent of the current name of the node that carries the seed input *)
Definition is_model_seed_name (s : string) : bool := prefix "_model_" s && suffixb "_seed" s.
(* the name _add_model_seed_nodes gives to the seed node of a node called [nm] *)
Definition seed_name_for (nm : string) : string := ("_model_" ++ nm ++ "_seed")%string.
(* GraphBuilder.build_model: node.name.startswith("_model") -> "has reserved name" *)
Definition build_reserved (s : string) : bool := prefix "_model" s.
(* Model.pop_nodes_and_vars / copy_nodes_and_vars: {nm: nd ... if not nm.startswith("_model")} *)
Definition pop_dropped (s : string) : bool := prefix "_model" s.
Definition reserved_name (s : string) : bool := build_reserved s.

Fixpoint kw_find (k : string) (kw : list (string * nid)) : option nid :=
  match kw with [] => None | (k', i) :: r => if String.eqb k k' then Some i else kw_find k r end.
Definition kw_remove (k : string) (kw : list (string * nid)) : list (string * nid) :=
  filter (fun p => negb (String.eqb k (fst p))) kw.

(* _remove_model_seed_inputs *)
Definition strip_one (w : world) (i : nid) : world :=
  match getn w i with
  | None => w
  | Some n =>
    match kw_find "seed" (n_kw n) with
    | None => w
    | Some s =>
      if n_inmodel n then w
      else if is_model_seed_name (name_of w s) then setn w i (set_kw (kw_remove "seed" (n_kw n))) else w
    end
  end.
Definition strip_seeds (w : world) (ns : list nid) : world := fold_left strip_one ns w.

Definition value_node (name : string) : pnode := mkN name [] [] None None false false false [] [].
Definition calc_node (name : string) (pos : list nid) : pnode := mkN name pos [] None None false false false [] [].

(* _add_model_seed_nodes : set_inputs with the positional inputs and {"seed": seed} | node.kwinputs *)
Definition add_seed_one (acc : world * result unit) (i : nid) : world * result unit :=
  let (w, r) := acc in
  match r with
  | Err _ => acc
  | Ok _ =>
    match getn w i with
    | None => acc
    | Some n =>
      if n_seed n then
        if n_inmodel n then (w, Err InModel)          (* set_inputs is guarded by no_model_method *)
        else
          let sid := List.length (w_nodes w) in
          let w1 := addn w (value_node (seed_name_for (n_name n))) in
          let kw := match kw_find "seed" (n_kw n) with
                    | Some s => ("seed", s) :: kw_remove "seed" (n_kw n)
                    | None => ("seed", sid) :: n_kw n
                    end in
          (setn w1 i (set_kw kw), Ok tt)
      else acc
    end
  end.

(* ------------------------------------------------------------------------------------------ *)
(* Model.__init__                                                                             *)
Definition groups_of (w : world) (ns : list nid) (vs : list vid) : list gid :=
  uniq (flat_map (fun i => match getn w i with Some n => n_groups n | None => [] end) ns
        ++ flat_map (fun v => match getv w v with Some pv => v_groups pv | None => [] end) vs).
Definition gname_of (w : world) (g : gid) : string := nth g (w_gnames w) "".

(* outputs: for node in nodes: for _input in node.all_input_nodes(): _input._add_output(node) *)
Definition outs_in (w : world) (ns : list nid) (i : nid) : list nid :=
  filter (fun m => memn i (ins_of w m)) ns.
Definition wire (w : world) (ns : list nid) : world :=
  fold_left (fun w' i => setn w' i (fun n => set_inmodel true (set_outs (outs_in w ns i) n))) ns w.

(* F9 variant (code as found): _clear_outputs(); _set_model() node by node, the guard fires inside
   _set_model, after the outputs of the offending node were cleared.  The nodes that were given the
   new model lose it again when the half-built model is discarded. *)
Fixpoint clear_until_inmodel (w : world) (ns : list nid) : world :=
  match ns with
  | [] => w
  | i :: r => if inmodel_of w i then setn w i (set_outs [])
              else clear_until_inmodel (setn w i (set_outs [])) r
  end.

(* order is a topological order of the nodes ns w.r.t. all_input_nodes *)
Fixpoint topo_scan (w : world) (order seen : list nid) : bool :=
  match order with
  | [] => true
  | n :: r => forallb (fun i => memn i seen) (ins_of w n) && negb (memn n seen) && topo_scan w r (n :: seen)
  end.
Definition is_topo (w : world) (ns order : list nid) : bool :=
  Nat.eqb (List.length order) (List.length ns) && forallb (fun n => memn n ns) order && topo_scan w order [].

Record model := mkM { m_nodes : list nid; m_vars : list vid }.

(* ------------------------------------------------------------------------------------------ *)
(* Var.transform(bijector=None), called by build_model for the variables with auto_transform.
   The flag is cleared on the ORIGINAL variable first ("avoid infinite recursion").  New objects:
   two InputGroup nodes (the inputs of the old distribution; the empty bijector arguments), the
   transformed Dist reading them, the new variable <name>_transformed (Value node, VarValue proxy, that Dist)
   and the Calc that becomes the value node of the original variable (inputs: proxy of the new variable and
   the two groups).  The old value node and the old distribution leave the variable. *)
Definition set_var_none (n : pnode) : pnode :=
  mkN (n_name n) (n_pos n) (n_kw n) (n_at n) None (n_seed n) (n_isdist n) (n_inmodel n) (n_outs n) (n_groups n).
Definition set_pos (pos : list nid) (n : pnode) : pnode :=
  mkN (n_name n) pos (n_kw n) (n_at n) (n_var n) (n_seed n) (n_isdist n) (n_inmodel n) (n_outs n) (n_groups n).
Definition derived (vname suffix : string) : string :=
  if String.eqb vname "" then "" else (vname ++ suffix)%string.

(* Var.strong: the value node is a Value node; in the snapshot: a non-Dist node without inputs *)
Definition strong_node (n : pnode) : bool :=
  match n_pos n, n_kw n with [], [] => negb (n_isdist n) | _, _ => false end.

Definition transform_default (w : world) (v : vid) : world * result unit :=
  match getv w v with
  | None => (w, Err BadRef)
  | Some pv =>
    match getn w (v_value pv), v_dist pv with
    | Some vn, Some d =>
      match getn w d with
      | None => (w, Err BadRef)
      | Some dn =>
        if negb (strong_node vn) then (w, Err BadTransform)            (* "is weak" *)
        else if n_inmodel vn then (w, Err InModel)                      (* value_node setter is guarded *)
        else
          let N := List.length (w_nodes w) in
          let V := List.length (w_vars w) in
          let tname := (v_name pv ++ "_transformed")%string in
          let gin := mkN "" (n_pos dn) (n_kw dn) None None false false false [] [] in
          let gbj := mkN "" [] [] None None false false false [] [] in
          let tdist := mkN (tname ++ "_log_prob") [N; N + 1] [] (Some (N + 4)) (Some V) (n_seed dn) true false [] [] in
          let tval := mkN (tname ++ "_value") [] [] None (Some V) false false false [] [] in
          let tproxy := mkN (tname ++ "_var_value") [N + 3] [] None (Some V) false false false [] [] in
          let calc := mkN (derived (v_name pv) "_value") [N + 4; N; N + 1] [] None (Some v) false false false [] [] in
          let w1 := addn (addn (addn (addn (addn (addn w gin) gbj) tdist) tval) tproxy) calc in
          let w2 := setn (setn (setn w1 (v_value pv) set_var_none) d set_var_none) (v_varvalue pv) (set_pos [N + 5]) in
          let tv := mkV tname (N + 3) (N + 4) (Some (N + 2)) false (v_par pv) [] false in
          let w3 := mkW (w_nodes w2) (w_vars w2 ++ [tv]) (w_gnames w2) in
          (setv w3 v (fun p => mkV (v_name p) (N + 5) (v_varvalue p) None (v_obs p) false (v_groups p) false), Ok tt)
      end
    | _, None => (w, Err BadTransform)                                  (* "has no distribution" *)
    | None, _ => (w, Err BadRef)
    end
  end.

Definition is_auto (w : world) (v : vid) : bool :=
  match getv w v with Some pv => v_auto pv | None => false end.

Definition transform_step (acc : world * result unit) (v : vid) : world * result unit :=
  match acc with
  | (w, Ok _) => if is_auto w v then transform_default w v else acc
  | _ => acc
  end.
Definition auto_transform_all (w : world) (vs : list vid) : world * result unit :=
  fold_left transform_step vs (w, Ok tt).

Section Variants.
  Variable strip : bool.         (* repaired code (005a821): build removes stale _model_*_seed inputs *)
  Variable check_first : bool.   (* repaired code (5ebbe54): one-model check before touching any node *)
  Variable proxy_fix : bool.     (* repaired code (66a7abc): Var.name renames the VarValue proxy on its own *)
  Variable topo : world -> list nid -> option (list nid).   (* networkx.topological_sort, oracle *)

  (* copy = true (Model(..., copy=True)): the checks and the wiring act on deep copies of the nodes; the
     originals - which may belong to a live model - are left exactly as they are.  The returned model
     lists the ids of the originals; the copies are the same graph, wired (see [copied_world]). *)
  Definition model_init (copy : bool) (w : world) (ns : list nid) (vs : list vid) : world * result model :=
    if has_dup (map (name_of w) ns) then (w, Err DupNode)
    else if has_dup (map (vname_of w) vs) then (w, Err DupVar)
    else if has_dup (map (gname_of w) (groups_of w ns vs)) then (w, Err DupGroup)
    else if negb copy && existsb (inmodel_of w) ns then
      ((if check_first then w else clear_until_inmodel w ns), Err InModel)
    else
      match topo w ns with
      | None => (w, Err Cycle)
      | Some order =>
        if is_topo w ns order then ((if copy then w else wire w ns), Ok (mkM ns vs)) else (w, Err BadOrder)
      end.

  Definition bind_closure (w : world) (rn : list nid) (rv : list vid)
             (k : list nid -> list vid -> world * result model) : world * result model :=
    match closure w rn rv with
    | None => (w, Err OutOfFuel)
    | Some (ns, vs) => k ns vs
    end.

  Definition dists_where (w : world) (vs : list vid) (p : pvar -> bool) : list nid :=
    flat_map (fun v => match getv w v with
                       | Some pv => if p pv then olist (v_dist pv) else []
                       | None => [] end) vs.

  (* GraphBuilder.build_model (no user-defined log-prob nodes) *)
  Definition build (copy : bool) (w : world) (rn : list nid) (rv : list vid) : world * result model :=
    bind_closure w rn rv (fun ns0 _ =>
    let w1 := if strip then strip_seeds w ns0 else w in
    bind_closure w1 rn rv (fun ns1 vs1 =>
    if existsb (fun i => reserved_name (name_of w1 i)) ns1 then (w1, Err Reserved) else
    match auto_transform_all w1 vs1 with
    | (wt, Err e) => (wt, Err e)
    | (wt, Ok _) =>
    bind_closure wt rn rv (fun nst vst =>
    match set_missing_names proxy_fix wt nst vst with
    | None => (wt, Err OutOfFuel)
    | Some w2 =>
      (* _model_log_lik *)
      bind_closure w2 rn rv (fun _ vs2 =>
      let lik := List.length (w_nodes w2) in
      let w3 := addn w2 (calc_node "_model_log_lik" (dists_where w2 vs2 v_obs)) in
      let rn3 := rn ++ [lik] in
      bind_closure w3 rn3 rv (fun _ vs3 =>
      let pri := List.length (w_nodes w3) in
      let w4 := addn w3 (calc_node "_model_log_prior" (dists_where w3 vs3 v_par)) in
      let rn4 := rn3 ++ [pri] in
      bind_closure w4 rn4 rv (fun ns4 _ =>
      let prob := List.length (w_nodes w4) in
      let w5 := addn w4 (calc_node "_model_log_prob"
                   (filter (fun i => match getn w4 i with Some n => n_isdist n | None => false end) ns4)) in
      let rn5 := rn4 ++ [prob] in
      bind_closure w5 rn5 rv (fun ns5 _ =>
      match fold_left add_seed_one ns5 (w5, Ok tt) with
      | (w6, Err e) => (w6, Err e)
      | (w6, Ok _) => bind_closure w6 rn5 rv (fun ns6 vs6 => model_init copy w6 ns6 vs6)
      end))))
    end)
    end)).

End Variants.

(* the world in which the nodes of a built model are wired: the result world itself, or - for
   copy=True - the copies, i.e. the same graph wired on its own *)
Definition copied_world (copy : bool) (w' : world) (m : model) : world :=
  if copy then wire w' (m_nodes m) else w'.

(* Model.pop_nodes_and_vars : the nodes lose the model; the returned dict omits the _model* nodes *)
Definition pop (w : world) (m : model) : world :=
  fold_left (fun w' i => setn w' i (set_inmodel false)) (m_nodes m) w.
Definition popped_nodes (w : world) (m : model) : list nid :=
  filter (fun i => negb (pop_dropped (name_of w i))) (m_nodes m).

(* ------------------------------------------------------------------------------------------ *)
(* structural mutators, guarded by no_model_method / no_model_setter                          *)
Inductive target := TNode (i : nid) | TVar (v : vid).
Inductive mutation :=
| MSetName (s : string)
| MSetInputs (pos : list nid) (kw : list (string * nid))
| MAddInputs (pos : list nid) (kw : list (string * nid))
| MNeedsSeed (b : bool)
| MValueNode (arg : nid)      (* var.value_node = <node>: also guarded by `value_node.model` of the ARGUMENT *)
| MDistNode (arg : nid)       (* var.dist_node = <dist>: also guarded by `dist_node.model` of the argument *)
| MOther.                     (* function, distribution, at, per_obs, observed, parameter: guarded by the
                                 target's model only, effect not modelled *)

(* Var.model is value_node.model *)
Definition target_inmodel (w : world) (t : target) : bool :=
  match t with
  | TNode i => inmodel_of w i
  | TVar v => match getv w v with Some pv => inmodel_of w (v_value pv) | None => false end
  end.

Fixpoint kw_merge (old new : list (string * nid)) : list (string * nid) :=
  match new with
  | [] => old
  | (k, i) :: r =>
    kw_merge (match kw_find k old with
              | Some _ => map (fun p => if String.eqb k (fst p) then (k, i) else p) old
              | None => old ++ [(k, i)] end) r
  end.

Definition do_mutation (pf : bool) (w : world) (t : target) (mu : mutation) : world :=
  match t, mu with
  | TNode i, MSetName s => setn w i (set_name s)
  | TNode i, MSetInputs pos kw => setn w i (set_inputs pos kw)
  | TNode i, MAddInputs pos kw => setn w i (fun n => set_inputs (n_pos n ++ pos) (kw_merge (n_kw n) kw) n)
  | TNode i, MNeedsSeed b => setn w i (set_needs_seed b)
  | TVar v, MSetName s => set_var_name pf w v s
  | _, _ => w
  end.

(* a node handed to the value_node / dist_node setter would become part of the variable: it must not
   belong to a model *)
Definition arg_inmodel (w : world) (mu : mutation) : bool :=
  match mu with
  | MValueNode i => inmodel_of w i
  | MDistNode i => inmodel_of w i
  | _ => false
  end.

Definition mutate (pf : bool) (w : world) (t : target) (mu : mutation) : world * result unit :=
  if target_inmodel w t || arg_inmodel w mu then (w, Err Frozen) else (do_mutation pf w t mu, Ok tt).
