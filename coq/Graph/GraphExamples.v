(* Non-vacuity examples for the C01 theorems: a 7-node diamond with a transient node in the middle,
   auto-update off, an assignment followed by a targeted update of a sibling (the interleaving the
   property text singles out), then a targeted update below the transient node, then a full update.

       0 x (Value)   1 y (Value)
       2 A = f(x)            cached
       3 T = f(A, y)         transient
       4 B = f(T)            cached
       5 C = f(y)            cached      (sibling: does not depend on x)
       6 D = f(B, C)         cached                                                               *)
From Coq Require Import List Bool Arith Lia.
Import ListNotations.
From LV Require Import Graph.Graph Graph.GraphProofs.

Definition exi (f : nat) (args : list nat) : nat := fold_left (fun acc a => 3 * acc + a) args f.

Definition exg : graph nat :=
  [ mkNode KValue [] 0; mkNode KValue [] 0; mkNode KCached [0] 1; mkNode KTrans [2; 1] 2;
    mkNode KCached [3] 3; mkNode KCached [1] 4; mkNode KCached [4; 5] 5 ].

Definition ex_ext0 : list nat := [1; 2; 0; 0; 0; 0; 0].
Definition ex_ops1 : list (op nat) := [SetAuto false; Assign 0 5; Update [5]].
Definition ex_rs1 := run exi 0 exg ex_ops1 (init exi 0 exg ex_ext0).

Lemma exg_wf : wf exg.
Proof. apply wfb_wf. reflexivity. Qed.

Lemma ex_rs1_RInv : RInv nat nat exi 0 exg ex_rs1.
Proof. apply run_RInv; [exact exg_wf|]. apply init_RInv. exact exg_wf. Qed.

(* after the assignment and the targeted update of the sibling C: A, B, D are dirty, the transient T
   reports itself outdated, C and the inputs are up to date; nothing was evaluated by update("C") *)
Lemma ex_state1 :
  flags_all exg (cur ex_rs1) = [false; false; true; true; true; false; true]
  /\ evald (step exi 0 exg (run exi 0 exg [SetAuto false; Assign 0 5] (init exi 0 exg ex_ext0)) (Update [5])) = []
  /\ value exi 0 exg (cur ex_rs1) 5 = denote exi 0 exg (vals (cur ex_rs1)) 5
  /\ value exi 0 exg (cur ex_rs1) 6 <> denote exi 0 exg (vals (cur ex_rs1)) 6.
Proof. vm_compute. repeat split; try reflexivity. discriminate. Qed.

(* the targeted update of B evaluates A and B (once each) and leaves D outdated *)
Lemma ex_state2 :
  let out := step exi 0 exg ex_rs1 (Update [4]) in
  evald out = [2; 4] /\ err out = false
  /\ flags_all exg (cur (st' out)) = [false; false; false; false; false; false; true]
  /\ evald (step exi 0 exg (st' out) (Update [])) = [6]
  /\ evald (step exi 0 exg (st' (step exi 0 exg (st' out) (Update []))) (Update [])) = [].
Proof. vm_compute. repeat split; reflexivity. Qed.

Lemma ex_path : path nat exg 2 4 /\ ~ path nat exg 6 4 /\ ~ path nat exg 0 5.
Proof.
  pose proof exg_wf as W. rewrite <- !(reaches_path nat exg W). vm_compute.
  repeat split; try reflexivity; discriminate.
Qed.

(* the hypotheses of the theorems hold of this object *)
Lemma ex_hyps :
  wf exg /\ RInv nat nat exi 0 exg ex_rs1 /\ [4] <> @nil nat
  /\ forallb (fun t => t <? length exg) [4] = true
  /\ auto (cur ex_rs1) = false
  /\ (exists k, outdated exg (cur ex_rs1) k = true).
Proof.
  split; [exact exg_wf|]. split; [exact ex_rs1_RInv|]. split; [discriminate|].
  split; [reflexivity|]. split; [reflexivity|]. exists 6. reflexivity.
Qed.
