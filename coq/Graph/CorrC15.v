(* Executable glue for the C15 correspondence shards: the model of Graph/Build.v is evaluated on the
   observed pre-operation snapshot and compared with the observed result / post-operation snapshot. *)
From Coq Require Import List Arith Bool String Ascii.
Import ListNotations.
From LV Require Import Base.ListAux Graph.Build.
Open Scope string_scope.
Open Scope list_scope.

Definition option_eqb {A} (e : A -> A -> bool) (a b : option A) : bool :=
  match a, b with Some x, Some y => e x y | None, None => true | _, _ => false end.
Definition pair_eqb {A B} (ea : A -> A -> bool) (eb : B -> B -> bool) (p q : A * B) : bool :=
  ea (fst p) (fst q) && eb (snd p) (snd q).
Definition nlist_eqb := list_eqb Nat.eqb.
Definition slist_eqb := list_eqb String.eqb.
Definition kw_eqb := list_eqb (pair_eqb String.eqb Nat.eqb).

(* l1 and l2 have the same elements with the same multiplicities *)
Fixpoint remove_first {A} (e : A -> A -> bool) (x : A) (l : list A) : option (list A) :=
  match l with
  | [] => None
  | y :: r => if e x y then Some r else match remove_first e x r with Some r' => Some (y :: r') | None => None end
  end.
Fixpoint perm_eqb {A} (e : A -> A -> bool) (l1 l2 : list A) : bool :=
  match l1 with
  | [] => match l2 with [] => true | _ => false end
  | x :: r => match remove_first e x l2 with Some l2' => perm_eqb e r l2' | None => false end
  end.

Definition pnode_eqb (a b : pnode) : bool :=
  String.eqb (n_name a) (n_name b) && nlist_eqb (n_pos a) (n_pos b) && kw_eqb (n_kw a) (n_kw b)
  && option_eqb Nat.eqb (n_at a) (n_at b) && option_eqb Nat.eqb (n_var a) (n_var b)
  && Bool.eqb (n_seed a) (n_seed b) && Bool.eqb (n_isdist a) (n_isdist b)
  && Bool.eqb (n_inmodel a) (n_inmodel b) && nlist_eqb (n_outs a) (n_outs b)
  && nlist_eqb (n_groups a) (n_groups b).
Definition pvar_eqb (a b : pvar) : bool :=
  String.eqb (v_name a) (v_name b) && Nat.eqb (v_value a) (v_value b) && Nat.eqb (v_varvalue a) (v_varvalue b)
  && option_eqb Nat.eqb (v_dist a) (v_dist b) && Bool.eqb (v_obs a) (v_obs b) && Bool.eqb (v_par a) (v_par b)
  && nlist_eqb (v_groups a) (v_groups b) && Bool.eqb (v_auto a) (v_auto b).

(* outputs are only observable while a node is in a model *)
Definition norm (n : pnode) : pnode := if n_inmodel n then n else set_outs [] n.
Definition world_eqb (a b : world) : bool :=
  list_eqb pnode_eqb (map norm (w_nodes a)) (map norm (w_nodes b))
  && list_eqb pvar_eqb (w_vars a) (w_vars b).

(* name-based canonical description of the nodes of a model *)
Record nsum := mkS {
  s_name : string; s_pos : list string; s_kw : list (string * string); s_at : option string;
  s_outs : list string; s_var : option string; s_seed : bool; s_inmodel : bool }.
Definition summary1 (w : world) (i : nid) : nsum :=
  match getn w i with
  | None => mkS "?" [] [] None [] None false false
  | Some n => mkS (n_name n) (map (name_of w) (n_pos n)) (map (fun p => (fst p, name_of w (snd p))) (n_kw n))
                  (option_map (name_of w) (n_at n)) (map (name_of w) (n_outs n))
                  (option_map (vname_of w) (n_var n)) (n_seed n) (n_inmodel n)
  end.
Definition nsum_eqb (a b : nsum) : bool :=
  String.eqb (s_name a) (s_name b) && slist_eqb (s_pos a) (s_pos b)
  && perm_eqb (pair_eqb String.eqb String.eqb) (s_kw a) (s_kw b)
  && option_eqb String.eqb (s_at a) (s_at b) && perm_eqb String.eqb (s_outs a) (s_outs b)
  && option_eqb String.eqb (s_var a) (s_var b) && Bool.eqb (s_seed a) (s_seed b)
  && Bool.eqb (s_inmodel a) (s_inmodel b).
Definition summary (w : world) (ns : list nid) : list nsum := map (summary1 w) ns.

Record vsum := mkVS { vs_name : string; vs_value : string; vs_varvalue : string; vs_dist : option string }.
Definition vsummary1 (w : world) (v : vid) : vsum :=
  match getv w v with
  | None => mkVS "?" "" "" None
  | Some pv => mkVS (v_name pv) (name_of w (v_value pv)) (name_of w (v_varvalue pv)) (option_map (name_of w) (v_dist pv))
  end.
Definition vsum_eqb (a b : vsum) : bool :=
  String.eqb (vs_name a) (vs_name b) && String.eqb (vs_value a) (vs_value b)
  && String.eqb (vs_varvalue a) (vs_varvalue b) && option_eqb String.eqb (vs_dist a) (vs_dist b).

(* the observed order (names) resolved against the model's own node ids *)
Definition resolve (w : world) (ns : list nid) (names : list string) : list nid :=
  flat_map (fun s => match find (fun i => String.eqb (name_of w i) s) ns with Some i => [i] | None => [] end) names.
Definition topo_obs (order : option (list string)) (w : world) (ns : list nid) : option (list nid) :=
  match order with
  | None => None
  | Some names => Some (resolve w ns names)
  end.

(* wit = [a0; a1; ...; ak] with a_i an input of a_(i+1) and a_k an input of a_0 *)
Fixpoint chain (w : world) (first prev : nid) (l : list nid) : bool :=
  match l with
  | [] => memn prev (ins_of w first)
  | x :: r => memn prev (ins_of w x) && chain w first x r
  end.
Definition is_cycle (w : world) (wit : list nid) : bool :=
  match wit with [] => false | a :: r => chain w a a r end.

(* names and model membership of the objects that existed before the operation *)
Definition old_part (w : world) (k : nat) : list (string * bool) :=
  map (fun n => (n_name n, n_inmodel n)) (firstn k (w_nodes w)).
Definition old_vnames (w : world) (k : nat) : list string :=
  map (fun v => (v_name v ++ (if v_auto v then "!auto" else ""))%string) (firstn k (w_vars w)).

(* records of the nodes that were in a model before the operation *)
Definition live_part (w0 w : world) : list pnode :=
  flat_map (fun p => if n_inmodel (fst p) then [snd p] else [])
           (combine (w_nodes w0) (firstn (List.length (w_nodes w0)) (w_nodes w))).

Definition res_ok {A} (r : result A) : bool := match r with Ok _ => true | Err _ => false end.

Inductive obs_build :=
| OBuilt (wo : world) (mo : list nid) (vo : list vid) (order : option (list string))
| ORejected (wo : world) (wit : list nid).

(* copy=false / copy=true *)
Definition agree_build (strip check_first proxy_fix : bool) (copy grow : bool) (w : world) (rn : list nid) (rv : list vid)
           (o : obs_build) : bool :=
  match o with
  | OBuilt wo mo vo order =>
    (* Model(roots, copy=True) first grows (and pops) a model from the originals themselves *)
    (if copy && grow then res_ok (snd (build strip check_first proxy_fix (topo_obs order) false w rn rv)) else true) &&
    match build strip check_first proxy_fix (topo_obs order) copy w rn rv with
    | (wm, Ok m) =>
      let k := List.length (w_nodes w) in
      list_eqb (pair_eqb String.eqb Bool.eqb) (old_part wm k) (old_part wo k)
      && slist_eqb (old_vnames wm (List.length (w_vars w))) (old_vnames wo (List.length (w_vars w)))
      (* nodes that belonged to a live model before the build are exactly as they were *)
      && list_eqb pnode_eqb (live_part w wm) (live_part w wo)
      && list_eqb pnode_eqb (live_part w wm) (live_part w w)
      (* the model's nodes: the result world, or (copy=True) the same graph wired on its own = the copies *)
      && perm_eqb nsum_eqb (summary (copied_world copy wm m) (m_nodes m)) (summary wo mo)
      && perm_eqb vsum_eqb (map (vsummary1 wm) (m_vars m)) (map (vsummary1 wo) vo)
    | (_, Err _) => false
    end
  | ORejected wo wit =>
    match build strip check_first proxy_fix (fun _ _ => None) (copy && negb grow) w rn rv with
    | (wm, Ok _) => false
    | (wm, Err e) =>
      list_eqb pnode_eqb (live_part w wm) (live_part w wo)
      && match e with
         | Cycle => is_cycle wm wit
                    && match closure wm rn rv with
                       | Some (ns, _) => forallb (fun i => memn i ns) wit
                       | None => false end
         | _ => true
         end
    end
  end.

(* when the observed order is not available the harness passes the model's own closure order check off:
   the oracle then is "some order exists" witnessed by the implementation having accepted *)
Definition agree_pop (w : world) (mo : list nid) (vo : list vid) (wo : world) (keys vkeys : list string) : bool :=
  let m := mkM mo vo in
  world_eqb (pop w m) wo
  && perm_eqb String.eqb (map (name_of w) (popped_nodes w m)) keys
  && perm_eqb String.eqb (map (vname_of w) vo) vkeys.

Definition agree_mutate (proxy_fix : bool) (w : world) (t : target) (mu : mutation) (rejected : bool) (wo : world) : bool :=
  match mutate proxy_fix w t mu with
  | (wm, Err _) => rejected && world_eqb wm wo && world_eqb w wo
  | (wm, Ok _) => negb rejected && match mu with
                                   | MOther | MValueNode _ | MDistNode _ => true
                                   | _ => world_eqb wm wo end
  end.

Inductive step :=
| SBuild (copy grow : bool) (w : world) (rn : list nid) (rv : list vid) (o : obs_build)
| SPop (w : world) (mo : list nid) (vo : list vid) (wo : world) (keys vkeys : list string)
| SMutate (w : world) (t : target) (mu : mutation) (rejected : bool) (wo : world)
(* the model object was dropped without pop (garbage collected): its nodes are free again *)
| SDrop (w : world) (mo : list nid) (wo : world).

(* the variant of the code the current tree implements: all three repairs present
   (strip = 005a821, check_first = 5ebbe54, proxy_fix = 66a7abc) *)
Definition agree_step (s : step) : bool :=
  match s with
  | SBuild copy grow w rn rv o => agree_build true true true copy grow w rn rv o
  | SPop w mo vo wo keys vkeys => agree_pop w mo vo wo keys vkeys
  | SMutate w t mu rej wo => agree_mutate true w t mu rej wo
  | SDrop w mo wo => world_eqb (pop w (mkM mo [])) wo
  end.

Definition agrees (c : list step) : bool := forallb agree_step c.

(* diagnostics: (case index, step index) pairs that disagree *)
Definition failing_steps (cs : list (list step)) : list (nat * list nat) :=
  flat_map (fun p => match failing agree_step (snd p) with [] => [] | l => [(fst p, l)] end)
           (combine (seq 0 (List.length cs)) cs).
