(* Executable glue for the C09 correspondence shards (no proofs).

   Layer D (exact, integer-valued real Liesel / dict models driven through the real KernelSequence,
   LieselInterface / DictInterface, GibbsKernel, MHKernel + mh_step):
     a case is a graph (extracted from the real model), the observed initial model state, the kernel
     sequence (kind, position keys, and how the harness' transition / proposal function computes the
     proposed value of every key from the state it RECEIVES: a function symbol applied to the values of
     some nodes of that state), and for every iteration: whether it raised, and for every kernel the
     acceptance the real code reported and the model state observed after that kernel.
     [verdict] checks that the initial state satisfies the hypothesis of the theorems ([goodb]), re-runs
     the model (memo instance, private copy with auto_update on) and compares every state.
   Layer F (real float models, built-in kernels under the real Engine): per kernel transition the set
     of stored nodes whose bits changed must lie in the set the frame theorem allows (descendants of the
     kernel's position keys), and must be empty after a rejected MH-type transition. *)
From Coq Require Import List ZArith Bool Arith.
Import ListNotations.
From LV Require Import Base.ListAux Graph.Graph Graph.CorrC01 Graph.Blockwise.

Definition zpst := pst Z.

Record kspec := mkKS {
  ks_kind : kkind;
  ks_keys : list nat;
  ks_prop : list (nat * fsym * list nat)   (* key, function symbol, nodes of the received state it reads *)
}.

Record obs := mkObs { o_vals : list Z; o_flags : list bool }.   (* node.value / outdated of every node *)

(* it_steps: per kernel (acceptance reported, error code reported, state observed after the kernel);
   it_final_only: the run went through EngineBuilder + Engine, only the state after the whole iteration was
   observed (it_steps then has one entry per kernel for acceptance / code, all carrying that final state) *)
Record iter := mkIt { it_raised : bool; it_final_only : bool; it_steps : list (bool * nat * obs) }.

Record c09case := mkCase {
  c_g : zgraph;
  c_st0 : obs;
  c_ks : list kspec;
  c_its : list iter
}.

Definition kernel_of (k : kspec) : kernel := mkK (ks_kind k) (ks_keys k).

Definition all_values (g : zgraph) (st : zpst) : list Z := mvalues_all interp 0%Z g (as_mstate st).

Definition eval_prop (g : zgraph) (st : zpst) (pr : list (nat * fsym * list nat)) : position Z :=
  let ev := all_values g st in
  map (fun x => match x with (k, f, args) => (k, interp f (map (getv 0%Z ev) args)) end) pr.

Definition dummy_ks := mkKS KAlways [] [].

Definition orc_of (g : zgraph) (kss : list kspec) (accs : list bool) : nat -> zpst -> proposal Z :=
  fun i st => (eval_prop g st (ks_prop (nth i kss dummy_ks)), nth i accs false).

(* contents of the interface's private model copy before a call: irrelevant (update_state_internal_indep);
   the shards run with an empty copy whose auto_update is on, as in the code *)
Definition internal0 (b : bool) : nat -> mstate Z :=
  fun _ => {| vals := []; dirty := []; touched := []; auto := b |}.

Definition zlist_eqb := list_eqb Z.eqb.
Definition blist_eqb := list_eqb Bool.eqb.

Definition state_agrees (g : zgraph) (st : zpst) (o : obs) : bool :=
  zlist_eqb (all_values g st) (o_vals o) && blist_eqb (pf st) (o_flags o).

Fixpoint states_agree (g : zgraph) (sts : list zpst) (os : list obs) : bool :=
  match sts, os with
  | [], [] => true
  | s :: sr, o :: or => state_agrees g s o && states_agree g sr or
  | _, _ => false
  end.

(* one iteration: Some new state if model and observation agree, None otherwise *)
Definition run_iter (b : bool) (g : zgraph) (kss : list kspec) (st : zpst) (it : iter) : option zpst :=
  let orc := orc_of g kss (map (fun x => fst (fst x)) (it_steps it)) in
  let codes := fun (i : nat) (_ : zpst) => nth i (map (fun x => snd (fst x)) (it_steps it)) 0%nat in
  match seq_from_c (memo interp 0%Z) g (internal0 b) orc codes 0 (map kernel_of kss) st with
  | None => if it_raised it then Some st else None
  | Some (stf, tr, _) =>
      if it_raised it then None
      else if it_final_only it
           then (if forallb (state_agrees g stf) (map snd (it_steps it)) then Some stf else None)
           else if states_agree g (tl tr ++ [stf]) (map snd (it_steps it)) then Some stf else None
  end.

Fixpoint first_bad (b : bool) (g : zgraph) (kss : list kspec) (st : zpst) (its : list iter) (i : nat)
  : option nat :=
  match its with
  | [] => None
  | it :: r => match run_iter b g kss st it with
               | Some st1 => first_bad b g kss st1 r (S i)
               | None => Some i
               end
  end.

Definition st_of (o : obs) : zpst := mkP (o_vals o) (o_flags o).

(* 0 = agrees; 1 = graph not well-formed; 2 = the observed initial state is not up to date and coherent;
   3 = a kernel with no steps ... unused; 4 + i = iteration i differs *)
Definition verdict (c : c09case) : nat :=
  if negb (wfb (c_g c)) then 1
  else if negb (goodb interp 0%Z Z.eqb (c_g c) (st_of (c_st0 c))) then 2
  else match first_bad true (c_g c) (c_ks c) (st_of (c_st0 c)) (c_its c) 0 with
       | None => match first_bad false (c_g c) (c_ks c) (st_of (c_st0 c)) (c_its c) 0 with
                 | None => 0
                 | Some i => 4 + i
                 end
       | Some i => 4 + i
       end.

Definition agrees (c : c09case) : bool := Nat.eqb (verdict c) 0.

(* ---- layer F: frame of the built-in kernels on real float models ------------------------------------ *)
Record fstep := mkFS {
  fs_kernel : nat;          (* index in the kernel list *)
  fs_moved : bool;          (* the transition info reports a move (always true for KAlways kernels) *)
  fs_changed : list nat     (* stored nodes (Value, Calc, Dist) whose stored value differs before/after (beyond a few ulps) *)
}.
Record fcase := mkF {
  f_g : zgraph;             (* shape only: kinds and inputs; function symbols are not used *)
  f_ks : list (kkind * list nat);
  f_steps : list fstep
}.

Definition may_change (g : zgraph) (keys : list nat) (j : nat) : bool :=
  existsb (fun i => getb (reach_tab g i) j) keys.

Definition fstep_ok (g : zgraph) (ks : list (kkind * list nat)) (s : fstep) : bool :=
  match nth_error ks (fs_kernel s) with
  | None => false
  | Some (kind, keys) =>
      forallb (may_change g keys) (fs_changed s)
      && match kind with
         | KMH => fs_moved s || match fs_changed s with [] => true | _ => false end
         | KAlways => true
         end
  end.

Definition fbad (c : fcase) : list nat :=
  map fst (filter (fun x => negb (fstep_ok (f_g c) (f_ks c) (snd x)))
                  (combine (seq 0 (length (f_steps c))) (f_steps c))).

Definition fagrees (c : fcase) : bool :=
  wfb (f_g c) && forallb (fun k => forallb (is_value (f_g c)) (snd k)) (f_ks c)
  && forallb (fstep_ok (f_g c) (f_ks c)) (f_steps c).
