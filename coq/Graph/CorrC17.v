(* Executable glue for the C17 correspondence shards (no proofs).

   Values are integers; node functions are the symbols of CorrC01 (FAff / FId / FSum); the harness
   distribution of a Var draws   sample f seed params = interp f (params ++ [seed])   (an affine function
   mod 1000003 of the parameter values the tfp-like object was built from and of an integer derived from
   the PRNG key it was handed); the current value enters the real code only through its shape, which is
   () for all integer values.

   A case = a graph (C01 conventions), the history of public operations applied before simulate, the
   description of every Dist node, the observed order of the draws (indices into the list of Dist nodes),
   the skip set (name ids: node k has id k, the j-th Var has id length g + j), the integers derived from
   jax.random.split(seed, number of selected distributions), and what the real model showed: before
   simulate, after simulate (values, flags, raised?), after a following update().
   [verdict] re-runs the model (memo instance, variant RefreshInputs) and compares:
     the state before simulate (everything), who was drawn, the raised flag, the values of all Value nodes
     after simulate, that every node the code reports as up to date shows the from-scratch value for the
     model's drawn values, everything after update(), and that the observed visiting order is valid
     ([order_okb]) and the drawn values form a joint ancestral sample ([jointb]). *)
From Coq Require Import List ZArith Bool Arith.
Import ListNotations.
From LV Require Import Base.ListAux Graph.Graph Graph.CorrC01 Graph.Simulate.

Definition zsample (f : fsym) (sd : Z) (params : list Z) (cur : Z) : Z := interp f (params ++ [sd]).

Record c17case := mkC17 {
  s_g : zgraph;
  s_ext0 : list Z;
  s_pre : list zop;
  s_dists : list (dinfo fsym);
  s_order : list nat;
  s_skip : list nat;
  s_seeds : list Z;
  s_pre_vals : list Z;  s_pre_flags : list bool;
  s_err : bool;
  s_vals : list Z;  s_flags : list bool;
  s_uvals : list Z;  s_uflags : list bool
}.

Definition dflt_d : dinfo fsym := mkD 0 [] 0 0 false [] FId.

Definition value_nodes_agree (g : zgraph) (a b : list Z) : bool :=
  forallb (fun kn => match kd (snd kn) with
                     | KValue => Z.eqb (nth (fst kn) a 0%Z) (nth (fst kn) b 0%Z)
                     | _ => true end)
          (combine (seq 0 (length g)) g).

(* every node that the code reports as up to date shows the from-scratch value under the values [ext] *)
Definition code_coherent (g : zgraph) (ext : list Z) (vals : list Z) (flags : list bool) : bool :=
  let dn := den_tab interp 0%Z g ext in
  forallb (fun k => nth k flags false || Z.eqb (nth k vals 0%Z) (nth k dn 0%Z)) (seq 0 (length g)).

Fixpoint nodupb (l : list nat) : bool :=
  match l with [] => true | x :: r => negb (mem x r) && nodupb r end.

Definition sel_idx (c : c17case) : list nat :=
  filter (fun j => selected (s_skip c) (nth j (s_dists c) dflt_d)) (seq 0 (length (s_dists c))).

(* 0 = agrees *)
Definition verdict (c : c17case) : nat :=
  let g := s_g c in
  if negb (wfb g) then 1
  else if negb (forallb (dinfo_okb g) (s_dists c)) then 2
  else
    let rs := mrun interp 0%Z g (s_pre c) (minit interp 0%Z g (s_ext0 c)) in
    if negb (state_agrees g (cur rs) (mkObs (s_pre_vals c) (s_pre_flags c) [] false)) then 3
    else
      let sel := sel_idx c in
      if negb (forallb (fun j => mem j sel) (s_order c) && nodupb (s_order c)
               && (s_err c || forallb (fun j => mem j (s_order c)) sel)
               && (length (s_seeds c) =? length sel)) then 4
      else
        let act := map (fun j => nth j (s_dists c) dflt_d) (s_order c) in
        let ds := combine act (s_seeds c) in
        let r := sim_loop_memo interp 0%Z zsample RefreshInputs g rs ds in
        if negb (Bool.eqb (snd r) (s_err c)) then 5
        else
          let mv := vals (cur (fst r)) in
          if negb (value_nodes_agree g mv (s_vals c)) then 6
          else if negb (code_coherent g mv (s_vals c) (s_flags c)) then 7
          else
            let r2 := st' (mstep interp 0%Z g (fst r) (Update [])) in
            if negb (state_agrees g (cur r2) (mkObs (s_uvals c) (s_uflags c) [] false)) then 8
            else if negb (order_okb g act) then 9
            else if negb (s_err c || jointb interp 0%Z zsample Z.eqb g ds (vals (cur rs)) mv) then 10
            else 0.

Definition agrees (c : c17case) : bool := Nat.eqb (verdict c) 0.

(* the same run with the literal (fuelled) readers the theorems are stated about (small graphs) *)
Definition agrees_lit (c : c17case) : bool :=
  let g := s_g c in
  wfb g &&
  let rs := run interp 0%Z g (s_pre c) (init interp 0%Z g (s_ext0 c)) in
  let act := map (fun j => nth j (s_dists c) dflt_d) (s_order c) in
  let r := sim_loop_lit interp 0%Z zsample RefreshInputs g rs (combine act (s_seeds c)) in
  Bool.eqb (snd r) (s_err c) && value_nodes_agree g (vals (cur (fst r))) (s_vals c).

(* which variant of the code the observation fits: used by the diagnosis only
   (true = the values after simulate are those of the NoRefresh variant, defect F6) *)
Definition fits_norefresh (c : c17case) : bool :=
  let g := s_g c in
  let rs := mrun interp 0%Z g (s_pre c) (minit interp 0%Z g (s_ext0 c)) in
  let act := map (fun j => nth j (s_dists c) dflt_d) (s_order c) in
  let r := sim_loop_memo interp 0%Z zsample NoRefresh g rs (combine act (s_seeds c)) in
  Bool.eqb (snd r) (s_err c) && value_nodes_agree g (vals (cur (fst r))) (s_vals c).

(* ---- real-tfd layer: one row per recorded draw --------------------------------------------------------
   vs = shape of the variable's value at the call, b / e = batch / event shape of its distribution rebuilt
   from scratch at the drawn values, obs = the sample_shape that tfp's sample received, fin = shape of the
   value after simulate.  The row agrees with the model when the current value ends in b ++ e, the code
   asked for [sample_shape vs b e], and the shape is preserved. *)
Record shrow := mkSh { sr_vs : list nat; sr_b : list nat; sr_e : list nat; sr_obs : list nat; sr_fin : list nat }.
Definition shrow_ok (r : shrow) : bool :=
  let n := length (sr_vs r) - length (sr_b r) - length (sr_e r) in
  list_eqb Nat.eqb (skipn n (sr_vs r)) (sr_b r ++ sr_e r)
  && list_eqb Nat.eqb (sample_shape (sr_vs r) (sr_b r) (sr_e r)) (sr_obs r)
  && list_eqb Nat.eqb (sr_obs r ++ sr_b r ++ sr_e r) (sr_fin r)
  && list_eqb Nat.eqb (sr_fin r) (sr_vs r).

(* the value cached by the Dist node of a variable: per_obs flag, shape of the variable's value, event shape,
   observed shape of the node's value (after simulate if the node reports itself up to date, and after
   update()) *)
Record lprow := mkLp { lp_per_obs : bool; lp_vs : list nat; lp_e : list nat; lp_obs : list nat }.
Definition lprow_ok (r : lprow) : bool :=
  list_eqb Nat.eqb (logprob_shape (lp_per_obs r) (lp_vs r) (lp_e r)) (lp_obs r).
