(* Non-vacuity for histories with raising node functions: on the 7-node diamond of GraphExamples.v
   (x, y; A = f(x) cached; T = f(A, y) transient; B = f(T); C = f(y); D = f(B, C)) the function of B raises
   whenever its result would be even.  x := 6 with auto-update on: A is evaluated, B raises; the exception
   leaves x = 6, A clean (and from scratch for x = 6), B and D outdated.  The history goes on: update(C)
   works, update(D) raises again at B, x := 5 repairs everything. *)
From Coq Require Import List Bool Arith Lia.
Import ListNotations.
From LV Require Import Graph.Graph Graph.GraphProofs Graph.GraphExamples Graph.GraphX Graph.GraphF
  Graph.GraphFProofs.

Definition exiF (f : nat) (args : list nat) : nat :=
  let t := exi f args in if (f =? 3) && Nat.even t then 0 else t.
Definition exErr (v : nat) : bool := v =? 0.

Definition ex_frs0 : rstate nat :=
  match finit exiF 0 exErr exg ex_ext0 with Some rs => rs | None => mkR (mkState [] [] [] true) [] end.

Lemma ex_finit : finit exiF 0 exErr exg ex_ext0 = Some ex_frs0.
Proof. vm_compute. reflexivity. Qed.

Lemma ex_raising :
  let o1 := fstep exiF 0 exErr exg ex_frs0 (XBase (Assign 0 6)) in
  err o1 = true /\ evald o1 = [2]
  /\ values_all exiF 0 exg (cur (st' o1)) = [6; 2; 9; 47; 41; 14; 182]
  /\ flags_all exg (cur (st' o1)) = [false; false; false; false; true; false; true]
  /\ coherent nat nat exiF 0 exg (cur (st' o1))
  /\ (let o2 := fstep exiF 0 exErr exg (st' o1) (XBase (Update [5])) in
      err o2 = false /\ evald o2 = []
      /\ (let o3 := fstep exiF 0 exErr exg (st' o2) (XBase (Update [6])) in
          err o3 = true /\ evald o3 = []
          /\ (let o4 := fstep exiF 0 exErr exg (st' o3) (XBase (Assign 0 5)) in
              err o4 = false /\ evald o4 = [2; 4; 6]
              /\ values_all exiF 0 exg (cur (st' o4)) = [5; 2; 8; 44; 53; 14; 218]
              /\ flags_all exg (cur (st' o4)) = [false; false; false; false; false; false; false]))).
Proof.
  intros o1. split; [vm_compute; reflexivity|]. split; [vm_compute; reflexivity|].
  split; [vm_compute; reflexivity|]. split; [vm_compute; reflexivity|]. split.
  - exact (coherent_F nat nat exiF 0 exErr exg exg_wf ex_ext0 ex_frs0 [XBase (Assign 0 6)] ex_finit).
  - vm_compute. repeat split; reflexivity.
Qed.

Definition ex_raising_full := conj ex_finit ex_raising.
