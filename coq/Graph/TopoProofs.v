(* C15 - the executable instance of the topological-sort oracle (naive_topo, Graph/BuildProofs.v)
   is SOUND: every order it returns is accepted by the checker is_topo that model_init applies to the
   oracle's answer.  The build theorems of BuildNames.v / Properties/C15.v are stated for an arbitrary
   oracle `topo`; this file discharges, for the instance used by the Examples and by the correspondence
   runs (CorrC15.v), that the BadOrder branch of model_init is unreachable on duplicate-free node lists. *)
From Coq Require Import List Arith Bool Lia Permutation.
Import ListNotations.
From LV Require Import Graph.Build Graph.BuildProofs.
Open Scope list_scope.

(* scanning a concatenation: the second part is scanned with the first part (reversed) already seen *)
Lemma topo_scan_app : forall w l1 l2 seen,
  topo_scan w (l1 ++ l2) seen = topo_scan w l1 seen && topo_scan w l2 (rev l1 ++ seen).
Proof.
  intros w l1; induction l1 as [|a l1 IH]; intros l2 seen.
  - reflexivity.
  - cbn [app topo_scan rev]. rewrite IH. rewrite <- app_assoc. cbn [app].
    rewrite andb_assoc. reflexivity.
Qed.

(* one Kahn layer: duplicate-free nodes, none seen yet, all inputs already seen *)
Lemma topo_scan_ready : forall w l seen,
  NoDup l -> (forall n, In n l -> ~ In n seen) ->
  (forall n, In n l -> forall i, In i (ins_of w n) -> In i seen) ->
  topo_scan w l seen = true.
Proof.
  intros w l; induction l as [|a l IH]; intros seen Hnd Hdis Hins; cbn [topo_scan]; [reflexivity|].
  inversion Hnd as [|x y Hna Hnd']; subst.
  apply andb_true_iff; split; [apply andb_true_iff; split|].
  - apply forallb_forall. intros i Hi. apply memn_In. apply (Hins a); [now left|assumption].
  - apply negb_true_iff. apply memn_false. apply Hdis. now left.
  - apply IH; [assumption| |].
    + intros n Hn [E|E]; [subst; contradiction|apply (Hdis n); [now right|assumption]].
    + intros n Hn i Hi. right. apply (Hins n); [now right|assumption].
Qed.

Lemma filter_partition_length : forall (A : Type) (p : A -> bool) (l : list A),
  length (filter p l) + length (filter (fun x => negb (p x)) l) = length l.
Proof.
  intros A p l; induction l as [|a l IH]; cbn [filter length]; [reflexivity|].
  destruct (p a); cbn [negb length]; lia.
Qed.

Lemma ntopo_step : forall w f pending done,
  ntopo w (S f) pending done =
  match pending with
  | [] => Some (rev done)
  | _ =>
    let ready := filter (fun n => forallb (fun i => memn i done) (ins_of w n)) pending in
    match ready with
    | [] => None
    | _ => ntopo w f (filter (fun n => negb (memn n ready)) pending) (rev ready ++ done)
    end
  end.
Proof. reflexivity. Qed.

Lemma ntopo_sound : forall w fuel pending done order,
  ntopo w fuel pending done = Some order ->
  NoDup pending -> (forall n, In n pending -> ~ In n done) ->
  topo_scan w (rev done) [] = true ->
  topo_scan w order [] = true /\ length order = length done + length pending /\
  (forall n, In n order -> In n done \/ In n pending).
Proof.
  intros w fuel; induction fuel as [|f IH]; intros pending done order H Hnd Hdis Hscan.
  - discriminate.
  - rewrite ntopo_step in H.
    destruct pending as [|p0 pr].
    + inversion H; subst. split; [assumption|]. split; [rewrite rev_length; cbn [length]; lia|].
      intros n Hn. left. now apply in_rev.
    + remember (p0 :: pr) as pend eqn:Ep.
      cbv zeta in H.
      remember (filter (fun n => forallb (fun i => memn i done) (ins_of w n)) pend) as ready eqn:Er.
      assert (Hnn : ready <> []) by (intro E; rewrite E in H; discriminate).
      assert (H' : ntopo w f (filter (fun n => negb (memn n ready)) pend) (rev ready ++ done) = Some order).
      { destruct ready; [congruence|exact H]. }
      clear H.
      assert (Hr_in : forall n, In n ready <-> In n pend /\ forallb (fun i => memn i done) (ins_of w n) = true).
      { intro n. rewrite Er. apply filter_In. }
      assert (Hr_nd : NoDup ready) by (rewrite Er; now apply NoDup_filter).
      destruct (IH _ _ _ H') as [Hs [Hl Hel]].
      * now apply NoDup_filter.
      * intros n Hn Hin. apply filter_In in Hn as [Hnp Hnr].
        apply negb_true_iff in Hnr. apply memn_false in Hnr.
        apply in_app_or in Hin as [Hin|Hin].
        -- apply Hnr. now apply in_rev.
        -- now apply (Hdis n).
      * rewrite rev_app_distr, rev_involutive, topo_scan_app, Hscan, rev_involutive, app_nil_r.
        cbn [andb]. apply topo_scan_ready.
        -- assumption.
        -- intros n Hn. apply Hr_in in Hn as [Hn _]. now apply Hdis.
        -- intros n Hn i Hi. apply Hr_in in Hn as [_ Hn]. rewrite forallb_forall in Hn.
           apply memn_In. now apply Hn.
      * split; [assumption|]. split.
        -- rewrite Hl, app_length, rev_length.
           assert (Hf : filter (fun n => negb (memn n ready)) pend =
                        filter (fun n => negb (forallb (fun i => memn i done) (ins_of w n))) pend).
           { apply filter_ext_in. intros n Hn. f_equal.
             destruct (forallb (fun i => memn i done) (ins_of w n)) eqn:Ef.
             - apply memn_In. apply Hr_in. now split.
             - apply memn_false. intro Hc. apply Hr_in in Hc as [_ Hc]. congruence. }
           rewrite Hf.
           pose proof (filter_partition_length _ (fun n => forallb (fun i => memn i done) (ins_of w n)) pend) as Hp.
           rewrite <- Er in Hp. lia.
        -- intros n Hn. destruct (Hel n Hn) as [Hd|Hp].
           ++ apply in_app_or in Hd as [Hd|Hd]; [|now left].
              right. apply in_rev in Hd. now apply Hr_in in Hd as [Hd _].
           ++ right. now apply filter_In in Hp as [Hp _].
Qed.

(* every answer of the executable oracle passes the check model_init applies to it *)
Theorem naive_topo_sound : forall w ns order,
  NoDup ns -> naive_topo w ns = Some order -> is_topo w ns order = true.
Proof.
  intros w ns order Hnd H. unfold naive_topo in H.
  destruct (ntopo_sound _ _ _ _ _ H Hnd) as [Hs [Hl Hel]].
  - intros n _ [].
  - reflexivity.
  - unfold is_topo. rewrite Hs. cbn [length] in Hl. rewrite Hl, Nat.eqb_refl. cbn [andb].
    rewrite andb_true_r. apply forallb_forall. intros n Hn. apply memn_In.
    destruct (Hel n Hn) as [[]|Hp]. exact Hp.
Qed.

(* hence: with this oracle model_init never answers BadOrder on a duplicate-free node list *)
Corollary naive_topo_order_respects_inputs : forall w ns order,
  NoDup ns -> naive_topo w ns = Some order ->
  NoDup order /\ (forall n, In n order <-> In n ns) /\
  (forall l1 b l2, order = l1 ++ b :: l2 -> forall a, In a (ins_of w b) -> In a l1).
Proof.
  intros w ns order Hnd H. pose proof (naive_topo_sound _ _ _ Hnd H) as Ht.
  destruct (topo_respects_inputs _ _ _ Ht) as [H1 [H2 H3]].
  split; [exact H1|]. split; [|exact H3].
  intro n. split; [apply H2|].
  unfold is_topo in Ht. apply andb_true_iff in Ht as [Ht _]. apply andb_true_iff in Ht as [Hl _].
  apply Nat.eqb_eq in Hl.
  apply (NoDup_length_incl H1); [lia|exact H2].
Qed.

(* ------------------------------------------------------------------------------------------ *)
(* COMPLETENESS: whenever some order of ns is accepted by is_topo, the executable oracle answers *)
Lemma filter_not_ready : forall (p : nat -> bool) pend,
  filter (fun n => negb (memn n (filter p pend))) pend = filter (fun n => negb (p n)) pend.
Proof.
  intros p pend. apply filter_ext_in. intros n Hn. f_equal.
  destruct (p n) eqn:Ef.
  - apply memn_In. apply filter_In. now split.
  - apply memn_false. intro Hc. apply filter_In in Hc as [_ Hc]. congruence.
Qed.

Lemma first_pending : forall (P : nat -> bool) ord,
  (exists n, In n ord /\ P n = true) ->
  exists l1 b l2, ord = l1 ++ b :: l2 /\ P b = true /\ forall x, In x l1 -> P x = false.
Proof.
  intros P ord; induction ord as [|a r IH]; intros [n [Hn Hp]]; [destruct Hn|].
  destruct (P a) eqn:Ea.
  - exists [], a, r. split; [reflexivity|]. split; [assumption|]. intros x [].
  - destruct Hn as [E|Hn]; [subst; congruence|].
    destruct (IH (ex_intro _ n (conj Hn Hp))) as [l1 [b [l2 [E [Hb Hl]]]]].
    exists (a :: l1), b, l2. split; [cbn [app]; now rewrite E|]. split; [assumption|].
    intros x [Hx|Hx]; [now subst|now apply Hl].
Qed.

Lemma ntopo_complete : forall w ord, topo_scan w ord [] = true ->
  forall fuel pending done,
  (forall n, In n ord <-> In n pending \/ In n done) ->
  length pending < fuel ->
  ntopo w fuel pending done <> None.
Proof.
  intros w ord Hord fuel; induction fuel as [|f IH]; intros pending done Hiff Hlen; [lia|].
  rewrite ntopo_step. destruct pending as [|p0 pr]; [discriminate|].
  remember (p0 :: pr) as pend eqn:Ep. cbv zeta.
  set (p := fun n => forallb (fun i => memn i done) (ins_of w n)).
  destruct (first_pending (fun n => memn n pend) ord) as [l1 [b [l2 [E [Hb Hl]]]]].
  { exists p0. split; [apply Hiff; left; rewrite Ep; now left|apply memn_In; rewrite Ep; now left]. }
  assert (Hbr : In b (filter p pend)).
  { apply filter_In. split; [now apply memn_In|]. unfold p. apply forallb_forall. intros i Hi.
    apply memn_In.
    destruct (topo_scan_spec _ _ _ Hord l1 b l2 E) as [_ [_ Hins]].
    destruct (Hins i Hi) as [[]|Hi1].
    assert (Hio : In i ord) by (rewrite E; apply in_or_app; now left).
    apply Hiff in Hio as [Hio|Hio]; [|assumption].
    apply memn_In in Hio. rewrite (Hl i Hi1) in Hio. discriminate. }
  destruct (filter p pend) as [|r0 rr] eqn:Er; [destruct Hbr|].
  rewrite <- Er. rewrite filter_not_ready. apply IH.
  - intro n. rewrite Hiff. rewrite in_app_iff, <- in_rev, !filter_In.
    split.
    + intros [Hn|Hn]; [|right; now right].
      destruct (p n) eqn:Epn; [right; left; now split|left; split; [assumption|reflexivity]].
    + intros [[Hn _]|[[Hn _]|Hn]]; [now left|now left|now right].
  - pose proof (filter_partition_length _ p pend) as Hp. rewrite Er in Hp. cbn [length] in Hp. unfold nid in *. lia.
Qed.

Theorem naive_topo_complete : forall w ns ord,
  is_topo w ns ord = true -> naive_topo w ns <> None.
Proof.
  intros w ns ord Ht. destruct (topo_respects_inputs _ _ _ Ht) as [H1 [H2 _]].
  unfold is_topo in Ht. apply andb_true_iff in Ht as [Ht Hs]. apply andb_true_iff in Ht as [Hl _].
  apply Nat.eqb_eq in Hl.
  unfold naive_topo. apply (ntopo_complete w ord Hs); [|lia].
  intro n. split.
  - intro Hn. left. now apply H2.
  - intros [Hn|[]]. apply (@NoDup_length_incl _ ord ns H1); [lia|exact H2|exact Hn].
Qed.

(* the executable oracle DECIDES orderability of a duplicate-free node list: it answers None exactly
   when no order is accepted by is_topo, and any answer it gives is accepted.  With it, model_init's
   outcomes Cycle (oracle None) and Ok coincide with "no topological order exists" / "one exists";
   BadOrder is unreachable. *)
Theorem naive_topo_decides : forall w ns, NoDup ns ->
  (naive_topo w ns = None <-> forall ord, is_topo w ns ord = false) /\
  (forall order, naive_topo w ns = Some order -> is_topo w ns order = true).
Proof.
  intros w ns Hnd. split; [split|].
  - intros Hn ord. destruct (is_topo w ns ord) eqn:E; [|reflexivity].
    exfalso. exact (naive_topo_complete _ _ _ E Hn).
  - intros Hall. destruct (naive_topo w ns) as [o|] eqn:E; [|reflexivity].
    pose proof (Hall o) as Ho. rewrite (naive_topo_sound _ _ _ Hnd E) in Ho. discriminate.
  - intros order. apply naive_topo_sound. exact Hnd.
Qed.

(* Model.__init__ with the executable oracle never ends in the BadOrder branch (an order the oracle
   returned but the checker rejected): the rejections that remain are the documented ones *)
Theorem model_init_naive_never_badorder : forall cf copy w ns vs, NoDup ns ->
  snd (model_init cf naive_topo copy w ns vs) <> Err BadOrder.
Proof.
  intros cf copy w ns vs Hnd. unfold model_init.
  destruct (has_dup (map (name_of w) ns)); [cbn; discriminate|].
  destruct (has_dup (map (vname_of w) vs)); [cbn; discriminate|].
  destruct (has_dup (map (gname_of w) (groups_of w ns vs))); [cbn; discriminate|].
  destruct (negb copy && existsb (inmodel_of w) ns); [cbn; discriminate|].
  destruct (naive_topo w ns) as [o|] eqn:E; [|cbn; discriminate].
  rewrite (naive_topo_sound _ _ _ Hnd E). cbn. discriminate.
Qed.


Lemma is_topo_members : forall w ns ord, is_topo w ns ord = true -> forall n, In n ns -> In n ord.
Proof.
  intros w ns ord Ht n Hn. destruct (topo_respects_inputs _ _ _ Ht) as [H1 [H2 _]].
  unfold is_topo in Ht. apply andb_true_iff in Ht as [Ht _]. apply andb_true_iff in Ht as [Hl _].
  apply Nat.eqb_eq in Hl. apply (@NoDup_length_incl _ ord ns H1); [lia|exact H2|exact Hn].
Qed.

(* a closed chain of input edges through a node of ns: the oracle answers None (rejection Cycle) *)
Theorem cycle_rejected_by_naive_topo : forall w ns a,
  NoDup ns -> path w a a -> In a ns -> naive_topo w ns = None.
Proof.
  intros w ns a Hnd P Ha. apply (proj1 (naive_topo_decides w ns Hnd)).
  intro ord. destruct (is_topo w ns ord) eqn:E; [|reflexivity].
  pose proof (cycle_has_no_order w ns ord a P (is_topo_members _ _ _ E a Ha)) as C. congruence.
Qed.


(* the answer is a rearrangement of the node list: nothing added, nothing lost, nothing repeated *)
Theorem naive_topo_permutation : forall w ns order,
  NoDup ns -> naive_topo w ns = Some order -> Permutation order ns.
Proof.
  intros w ns order Hnd H.
  destruct (naive_topo_order_respects_inputs _ _ _ Hnd H) as [H1 [H2 _]].
  apply NoDup_Permutation; assumption.
Qed.

Print Assumptions naive_topo_sound.
Print Assumptions naive_topo_decides.
Print Assumptions model_init_naive_never_badorder.
Print Assumptions cycle_rejected_by_naive_topo.
Print Assumptions naive_topo_permutation.
