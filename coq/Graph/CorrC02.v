(* Executable glue for the C02 correspondence shards (flavour D; the R-lemmas on the densities use
   Analytic/CorrC02.v).

   One case = one real built lsl.Model at one assignment of values:
     c_built    what the harness read from the real model through the public API: every node that is
                an instance of Dist (kind, flags of its variable, per_obs,
                init_dist().log_prob(at.value) converted exactly to rationals) and the values of the
                user-supplied log-lik / log-prior / log-prob nodes, if any
     i_stored   node.value of each of these distribution nodes (same order)
     i_reads    several readings of the three totals (Model.log_prob/log_lik/log_prior; the NodeStates
                in model.state; LieselInterface.log_prob / extract_position on that state;
                LieselInterface.update_state from the previous state; a model rebuilt from the popped
                nodes; ...) - None when a reading returned None
     c_tol      rounding tolerance (the code adds floats, the model adds rationals)
   The lemma of a shard says: the model's stored values and totals, computed by Coq from c_built, lie
   within c_tol of everything the implementation showed. *)
From Coq Require Import List QArith Qabs Bool Arith.
Import ListNotations.
From LV Require Import Graph.LogProb.
Open Scope Q_scope.

Record reading := mkRd { r_prob : option sval; r_lik : option sval; r_prior : option sval }.

Record c02case := mkCase {
  c_built : built;
  c_tol : Q;
  i_stored : list sval;
  i_reads : list reading
}.

Definition qclose (tol a b : Q) : bool := Qle_bool (Qabs (a - b)) tol.

Fixpoint lclose (tol : Q) (a b : list Q) : bool :=
  match a, b with
  | [], [] => true
  | x :: a', y :: b' => qclose tol x y && lclose tol a' b'
  | _, _ => false
  end.

(* same shape class (0-d / array of the same length) and numbers within tol *)
Definition sclose (tol : Q) (a b : sval) : bool :=
  match a, b with
  | Scalar x, Scalar y => qclose tol x y
  | Arr x, Arr y => lclose tol x y
  | _, _ => false
  end.

Definition oclose (tol : Q) (m : sval) (o : option sval) : bool :=
  match o with Some v => sclose tol m v | None => false end.

Fixpoint all2 {A B} (f : A -> B -> bool) (a : list A) (b : list B) : bool :=
  match a, b with
  | [], [] => true
  | x :: a', y :: b' => f x y && all2 f a' b'
  | _, _ => false
  end.

Definition stored_ok (k : c02case) : bool :=
  all2 (fun d v => sclose (c_tol k) (stored d) v) (nodes (c_built k)) (i_stored k).

Definition reading_ok (k : c02case) (r : reading) : bool :=
  oclose (c_tol k) (model_log_prob (c_built k)) (r_prob r)
  && oclose (c_tol k) (model_log_lik (c_built k)) (r_lik r)
  && oclose (c_tol k) (model_log_prior (c_built k)) (r_prior r).

Definition agrees (k : c02case) : bool :=
  stored_ok k && forallb (reading_ok k) (i_reads k) && negb (Nat.eqb (length (i_reads k)) 0).

Fixpoint failing_from {A} (f : A -> bool) (i : nat) (l : list A) : list nat :=
  match l with
  | [] => []
  | x :: r => if f x then failing_from f (S i) r else i :: failing_from f (S i) r
  end.
Definition failing {A} (f : A -> bool) (l : list A) : list nat := failing_from f 0%nat l.
