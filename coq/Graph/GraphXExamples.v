(* Non-vacuity for the extended histories: on the 7-node diamond of GraphExamples.v
   (x, y; A = f(x) cached; T = f(A, y) transient; B = f(T); C = f(y); D = f(B, C))
   a clean state is saved, restored with A alone marked outdated (its descendants B, D stay clean: the
   dirty set is not closed under outputs), then x (the parent of A) is assigned with auto-update off:
   B and D are flagged although the already-outdated A lies on the way; update(B) evaluates A and B. *)
From Coq Require Import List Bool Arith Lia.
Import ListNotations.
From LV Require Import Graph.Graph Graph.GraphProofs Graph.GraphExamples Graph.GraphX Graph.GraphXProofs.

Definition ex_xs : list (xop nat) := [XBase Save; XRestoreEdited 0 [2]; XBase (SetAuto false)].
Definition ex_xrs := xrun exi 0 exg ex_xs (init exi 0 exg ex_ext0).

Lemma ex_edited :
  flags_all exg (cur ex_xrs) = [false; false; true; true; false; false; false]
  /\ coherent nat nat exi 0 exg (cur ex_xrs)
  /\ (let out := xstep exi 0 exg ex_xrs (XBase (Assign 0 5)) in
      flags_all exg (cur (st' out)) = [false; false; true; true; true; false; true]
      /\ evald out = []
      /\ evald (xstep exi 0 exg (st' out) (XBase (Update [4]))) = [2; 4]
      /\ flags_all exg (cur (st' (xstep exi 0 exg (st' out) (XBase (Update [4])))))
         = [false; false; false; false; false; false; true]).
Proof.
  split; [vm_compute; reflexivity|]. split.
  - exact (coherent_xreach nat nat exi 0 exg exg_wf ex_ext0 ex_xs).
  - vm_compute. repeat split; reflexivity.
Qed.

Lemma ex_edited_hyps :
  wf exg /\ nth_error (snaps (xrun exi 0 exg [XBase Save] (init exi 0 exg ex_ext0))) 0 <> None
  /\ forallb (fun j => j <? length exg) [2] = true.
Proof. split; [exact exg_wf|]. split; [vm_compute; discriminate|reflexivity]. Qed.
