(* Iface.v - executable model of the Goose model interfaces (liesel/goose/interface.py, the deprecated
   alias liesel/model/goose.py:GooseModel is the same code) on top of the cached-graph machine Graph.v.

   NO PROOFS IN THIS FILE (IfaceProofs.v has them; CorrC03.v is the Z-valued glue of the shards).

   LieselInterface keeps a private hollow copy of the user's model (`self._model`, made by
   Model._copy_computational_model: every node state cleared, auto_update copied).  That copy is the
   explicit argument [internal : mstate] of [update_state], so that "the result does not depend on
   earlier calls" is a statement about the model and not an artefact of leaving the copy out.

     update_state(position, model_state):
         self._model.state = model_state                       restore internal st
         for node in self._model.nodes.values():               clear_flags
             node._outdated = False
         for key, value in position.items():                   assign_all  (stops at the first raising one)
             try: self._model.nodes[key].value = value         node name first
             except KeyError: self._model.vars[key].value = value      then variable name -> its value node
         self._model.update()                                  full sweep
         return self._model.state                              snapshot

     extract_position(keys, model_state):  model_state[key].value, on KeyError
                                           model_state[self._model.vars[key].value_node.name].value
     log_prob(model_state):                model_state["_model_log_prob"].value

   A ModelState (dict name -> NodeState(value, outdated)) is a [snap] of Graph.v (values, reported
   flags, the proof-only ghost).  What a NodeState shows is [view]: the value of a transient node is
   None (TransientNode.state), for the other nodes it is the stored value.

   Keys are numbers (the harness numbers the strings); [names] holds the two name spaces of a model:
   node names and variable names (a variable name maps to the position of its value node).  A node and
   a variable may share a name: the node wins ([resolve]).

   The flat interfaces (DictInterface, DataclassInterface, NamedTupleInterface) are finite-map
   overlays: section Flat.                                                                          *)
From Coq Require Import List Bool Arith.
Import ListNotations.
From LV Require Import Graph.Graph.

Fixpoint lookup (m : list (nat * nat)) (k : nat) : option nat :=
  match m with
  | [] => None
  | (k', i) :: r => if k' =? k then Some i else lookup r k
  end.

Record names := mkNames { nnode : list (nat * nat); nvar : list (nat * nat) }.

(* try: nodes[key] ... except KeyError: vars[key] *)
Definition resolve (nm : names) (k : nat) : option nat :=
  match lookup (nnode nm) k with
  | Some i => Some i
  | None => lookup (nvar nm) k
  end.

Section I.
Variables (V F : Type) (interp : F -> list V -> V) (dflt : V).
Variable I : impl V F.

Notation graph := (graph F).
Notation mstate := (mstate V).
Notation snap := (snap V).

(* for node in self._model.nodes.values(): node._outdated = False *)
Definition clear_flags (g : graph) (s : mstate) : mstate :=
  {| vals := vals s; dirty := repeat false (length g); touched := touched s; auto := auto s |}.

(* the assignment loop; (state reached, raised?).  An assignment raises when the key is neither a node
   nor a variable name (KeyError), or names a node / variable that cannot be assigned (AttributeError
   for Calc / Dist / transient nodes, RuntimeError for a weak variable); the loop stops there. *)
Fixpoint assign_all (g : graph) (nm : names) (s : mstate) (pos : list (nat * V)) : mstate * bool :=
  match pos with
  | [] => (s, false)
  | (k, v) :: r =>
      match resolve nm k with
      | None => (s, true)
      | Some i =>
          let out := step_with I g (mkR s []) (Assign i v) in
          if err out then (s, true) else assign_all g nm (cur (st' out)) r
      end
  end.

(* (new state of the private copy, returned model state or None when the call raises) *)
Definition update_state (g : graph) (nm : names) (internal : mstate) (pos : list (nat * V)) (st : snap)
  : mstate * option snap :=
  let s0 := clear_flags g (restore internal st) in
  let r := assign_all g nm s0 pos in
  if snd r then (fst r, None)
  else
    let s2 := fst (i_sweep I g full (fst r)) in
    (s2, Some (snapshot I g s2)).

(* NodeState.value as shown in a model state: None for transient nodes *)
Definition stval (g : graph) (st : snap) (i : nat) : option (option V) :=
  match nth_error g i with
  | Some n => match kd n with
              | KTrans => Some None
              | _ => Some (Some (getv dflt (sn_vals st) i))
              end
  | None => None
  end.

(* the whole dict: (value or None, outdated) for every node, in graph order *)
Definition view (g : graph) (st : snap) : list (option V * bool) :=
  map (fun k => (match stval g st k with Some (Some v) => Some v | _ => None end, getb (sn_flags st) k))
      (seq 0 (length g)).

(* None = raises (key is neither a node nor a variable name) *)
Fixpoint extract_position (g : graph) (nm : names) (keys : list nat) (st : snap)
  : option (list (option V)) :=
  match keys with
  | [] => Some []
  | k :: r =>
      match resolve nm k with
      | None => None
      | Some i =>
          match stval g st i, extract_position g nm r st with
          | Some v, Some vs => Some (v :: vs)
          | _, _ => None
          end
      end
  end.

(* lp = position of the node named "_model_log_prob" *)
Definition log_prob (g : graph) (lp : nat) (st : snap) : option (option V) := stval g st lp.

(* the interface object over its lifetime: the private copy after a sequence of calls *)
Definition run_calls (g : graph) (nm : names) (internal : mstate) (calls : list (list (nat * V) * snap))
  : mstate :=
  fold_left (fun i c => fst (update_state g nm i (fst c) (snd c))) calls internal.

(* Model._copy_computational_model at LieselInterface.__init__: all node states cleared
   (NodeState(None, True)), auto_update as the user's model has it at that moment *)
Definition hollow (g : graph) (a : bool) : mstate :=
  {| vals := repeat dflt (length g); dirty := repeat true (length g);
     touched := repeat true (length g); auto := a |}.

(* input values after the assignments, as a function of the position alone: later keys win *)
Definition overlay (nm : names) (e : list V) (pos : list (nat * V)) : list V :=
  fold_left (fun e kv => match resolve nm (fst kv) with Some i => upd e i (snd kv) | None => e end) pos e.

(* every key names an assignable node: a Value node, directly or as the value node of a variable *)
Definition pos_ok (g : graph) (nm : names) (keys : list nat) : bool :=
  forallb (fun k => match resolve nm k with
                    | Some i => match nth_error g i with
                                | Some n => match kd n with KValue => true | _ => false end
                                | None => false end
                    | None => false end) keys.

(* the same values assigned directly on a model, followed by a full update *)
Definition direct_ops (nm : names) (pos : list (nat * V)) : list (op V) :=
  flat_map (fun kv => match resolve nm (fst kv) with Some i => [Assign i (snd kv)] | None => [] end) pos
  ++ [Update []].

End I.

Arguments clear_flags {V F}.
Arguments assign_all {V F}.
Arguments update_state {V F}.
Arguments stval {V F}.
Arguments view {V F}.
Arguments extract_position {V F}.
Arguments log_prob {V F}.
Arguments run_calls {V F}.
Arguments hollow {V F}.
Arguments overlay {V}.
Arguments pos_ok {F}.
Arguments direct_ops {V}.

(* ---- flat interfaces ------------------------------------------------------------------------------
   DictInterface.update_state        model_state | position              (new keys are appended)
   DataclassInterface.update_state   copy.copy + setattr per key, RuntimeError for an unknown field
   NamedTupleInterface.update_state  model_state._replace( **position ), ValueError for an unknown field
   extract_position                  {key: model_state[key] / getattr(model_state, key)}
   A flat state is an association list with distinct keys in field order. *)
Section Flat.
Variable V : Type.

Definition fstate := list (nat * V).

Fixpoint fget (st : fstate) (k : nat) : option V :=
  match st with
  | [] => None
  | (k', v) :: r => if k' =? k then Some v else fget r k
  end.

Fixpoint fset (st : fstate) (k : nat) (v : V) : fstate :=
  match st with
  | [] => []
  | (k', v') :: r => if k' =? k then (k', v) :: r else (k', v') :: fset r k v
  end.

Definition fhas (st : fstate) (k : nat) : bool := match fget st k with Some _ => true | None => false end.

(* strict = dataclass / named tuple (unknown field raises); otherwise dict (unknown key is added) *)
Fixpoint fupdate (strict : bool) (pos : list (nat * V)) (st : fstate) : option fstate :=
  match pos with
  | [] => Some st
  | (k, v) :: r =>
      if fhas st k then fupdate strict r (fset st k v)
      else if strict then None
      else fupdate strict r (st ++ [(k, v)])
  end.

Fixpoint fextract (keys : list nat) (st : fstate) : option (list V) :=
  match keys with
  | [] => Some []
  | k :: r => match fget st k, fextract r st with
              | Some v, Some vs => Some (v :: vs)
              | _, _ => None
              end
  end.

End Flat.

Arguments fget {V}.
Arguments fset {V}.
Arguments fhas {V}.
Arguments fupdate {V}.
Arguments fextract {V}.
