(* Blockwise.v - executable model of how goose kernels act on the model state of a Liesel model
   (liesel/goose/interface.py: LieselInterface.update_state / extract_position, DictInterface;
    liesel/goose/mh.py: mh_step; liesel/goose/gibbs.py, nuts.py, hmc.py: unconditional write-back;
    liesel/goose/kernel_sequence.py: KernelSequence.transition; the engine's scan over iterations).

   NO PROOFS IN THIS FILE (they are in BlockwiseProofs.v), so that the model keeps evaluating when a
   proof breaks.  Built on the C01 model Graph.v (same V, F, interp, dflt; same graph type).

     pst                 the model-state pytree  {name: NodeState(value, outdated)}  as two lists in
                         graph order: pv = stored values (_value; transient nodes store None - their
                         entry is never read), pf = the reported outdated flags
     position            list (node position * value), in the order of the Position dict
     update_state I g internal pos st : option pst
                         LieselInterface.update_state, line by line:
                             self._model.state = model_state            (Graph.restore)
                             for node in nodes: node._outdated = False  (clear_flags)
                             for key, value in position.items(): node.value = value
                                                                        (Graph.step (Assign k v): value
                                                                         setter, flags the recursive
                                                                         outputs, full update if the
                                                                         private copy has auto_update)
                             self._model.update()                       (Graph.step (Update []))
                             return self._model.state                   (to_pst)
                         [internal] is the state of the interface's private model copy before the call
                         (left there by whatever called update_state last; arbitrary in the theorems);
                         None = the code raises (key is not a Value node / unknown).
                         A dict / dataclass / named-tuple model (state | position) is the instance
                         whose graph has only Value nodes.
     kernel              {| kk : KMH | KAlways; keys : position keys |}
                           KMH      RWKernel, IWLSKernel, MHKernel: mh_step computes
                                    update_state(proposal, state) and returns it or the untouched state
                                    (lax.cond(do_accept, proposed, model_state))
                           KAlways  GibbsKernel, NUTSKernel, HMCKernel: the new position is always
                                    written back with update_state
     proposal            (position, accept) - produced by the kernel-specific mechanism (random walk,
                         IWLS, user proposal / transition function, blackjax) from the state the kernel
                         receives; an arbitrary oracle in the theorems
     ktransition         one kernel transition
     seq_from / seq_transition
                         KernelSequence.transition: kernels in list order, each receives the state its
                         predecessor returned; also returns the list of received states
     iterate             the engine's scan: one seq_transition per iteration
     scratch g e         (specification) the stored values of a from-scratch model whose Value nodes
                         hold e                                                                      *)
From Coq Require Import List Bool Arith.
Import ListNotations.
From LV Require Import Graph.Graph.

Section B.
Variables (V F : Type) (interp : F -> list V -> V) (dflt : V).

Record pst := mkP { pv : list V; pf : list bool }.

Definition position := list (nat * V).

(* dict update  state | position  on the stored values *)
Definition overlay (pos : position) (l : list V) : list V :=
  fold_left (fun acc kv => upd acc (fst kv) (snd kv)) pos l.

Definition is_value (g : graph F) (k : nat) : bool :=
  match nth_error g k with
  | Some n => match kd n with KValue => true | _ => false end
  | None => false
  end.
Definition is_cached (g : graph F) (k : nat) : bool :=
  match nth_error g k with
  | Some n => match kd n with KCached => true | _ => false end
  | None => false
  end.

(* specification: stored values of the from-scratch model over the Value-node values e *)
Definition scratch (g : graph F) (e : list V) : list V :=
  map (fun k => if is_cached g k then denote interp dflt g e k else getv dflt e k) (seq 0 (length g)).

(* the pytree read as a state of the graph machine (flags as stored) *)
Definition as_mstate (st : pst) : mstate V :=
  {| vals := pv st; dirty := pf st; touched := pf st; auto := true |}.
(* node.value of every node when the model holds st *)
Definition pvalue (g : graph F) (st : pst) (k : nat) : V := value interp dflt g (as_mstate st) k.

(* executable test of the hypothesis of the theorems (BlockwiseProofs.good), given a decision of equality
   on values: right lengths, no flag raised, every cached node stores its from-scratch value *)
Definition goodb (veqb : V -> V -> bool) (g : graph F) (st : pst) : bool :=
  (length (pv st) =? length g) && (length (pf st) =? length g) && forallb negb (pf st)
  && (let d := den_tab interp dflt g (pv st) in
      forallb (fun k => if is_cached g k then veqb (getv dflt (pv st) k) (getv dflt d k) else true)
              (seq 0 (length g))).

Section Impl.
Variable I : impl V F.

Definition clear_flags (g : graph F) (s : mstate V) : mstate V :=
  {| vals := vals s; dirty := repeat false (length g); touched := repeat false (length g);
     auto := auto s |}.

Definition load (g : graph F) (internal : mstate V) (st : pst) : mstate V :=
  clear_flags g (restore internal (mkSnap (pv st) (pf st) (pf st))).

Definition to_pst (g : graph F) (s : mstate V) : pst := {| pv := vals s; pf := i_flags I g s |}.

Fixpoint assign_all (g : graph F) (rs : rstate V) (pos : position) : option (rstate V) :=
  match pos with
  | [] => Some rs
  | kv :: r =>
      let o := step_with I g rs (Assign (fst kv) (snd kv)) in
      if err o then None else assign_all g (st' o) r
  end.

Definition update_state (g : graph F) (internal : mstate V) (pos : position) (st : pst) : option pst :=
  match assign_all g {| cur := load g internal st; snaps := [] |} pos with
  | None => None
  | Some rs => Some (to_pst g (cur (st' (step_with I g rs (Update [])))))
  end.

(* LieselInterface.extract_position for keys that name stored nodes *)
Definition extract_position (keys : list nat) (st : pst) : position :=
  map (fun k => (k, getv dflt (pv st) k)) keys.

Inductive kkind := KMH | KAlways.
Record kernel := mkK { kk : kkind; keys : list nat }.
Definition proposal := (position * bool)%type.

Definition ktransition (g : graph F) (internal : mstate V) (k : kernel) (p : proposal) (st : pst)
  : option pst :=
  match update_state g internal (fst p) st with
  | None => None
  | Some prop =>
      match kk k with
      | KMH => Some (if snd p then prop else st)
      | KAlways => Some prop
      end
  end.

(* for i, kernel in enumerate(self._kernels):
       result = kernel.transition(keys[i], kernel_states[i], model_state, epoch)
       model_state = result.model_state
   returns the final state and the states the kernels received, in order *)
Fixpoint seq_from (g : graph F) (internal : nat -> mstate V) (orc : nat -> pst -> proposal)
         (i : nat) (ks : list kernel) (st : pst) : option (pst * list pst) :=
  match ks with
  | [] => Some (st, [])
  | k :: r =>
      match ktransition g (internal i) k (orc i st) st with
      | None => None
      | Some st1 =>
          match seq_from g internal orc (S i) r st1 with
          | None => None
          | Some (stf, tr) => Some (stf, st :: tr)
          end
      end
  end.

Definition seq_transition g internal orc ks st := seq_from g internal orc 0 ks st.

(* The same loop with the transition infos: every kernel also reports an error code (DefaultTransitionInfo.error_code,
   an arbitrary oracle [codes] of the kernel index and the received state: NaN acceptance probability 90, NUTS
   "maximum tree depth" 2, a user kernel's own codes ...).  The code goes into the infos dict and nowhere else:
       model_state = result.model_state            (unconditionally)
       infos[kernel.identifier] = result.info
   so the successor starts from the state its predecessor RETURNED whatever code it reported. *)
Fixpoint seq_from_c (g : graph F) (internal : nat -> mstate V) (orc : nat -> pst -> proposal)
         (codes : nat -> pst -> nat) (i : nat) (ks : list kernel) (st : pst)
  : option (pst * list pst * list nat) :=
  match ks with
  | [] => Some (st, [], [])
  | k :: r =>
      match ktransition g (internal i) k (orc i st) st with
      | None => None
      | Some st1 =>
          match seq_from_c g internal orc codes (S i) r st1 with
          | None => None
          | Some (stf, tr, cs) => Some (stf, st :: tr, codes i st :: cs)
          end
      end
  end.

(* the engine: one kernel-sequence transition per iteration, the carry holds the model state *)
Fixpoint iterate (g : graph F) (its : list ((nat -> mstate V) * (nat -> pst -> proposal)))
         (ks : list kernel) (st : pst) : option pst :=
  match its with
  | [] => Some st
  | it :: r =>
      match seq_transition g (fst it) (snd it) ks st with
      | None => None
      | Some (st1, _) => iterate g r ks st1
      end
  end.

End Impl.
End B.

Arguments mkP {V}.
Arguments pv {V}.
Arguments pf {V}.
Arguments overlay {V}.
Arguments is_value {F}.
Arguments is_cached {F}.
Arguments scratch {V F}.
Arguments as_mstate {V}.
Arguments goodb {V F}.
Arguments pvalue {V F}.
Arguments clear_flags {V F}.
Arguments load {V F}.
Arguments to_pst {V F}.
Arguments assign_all {V F}.
Arguments update_state {V F}.
Arguments extract_position {V}.
Arguments ktransition {V F}.
Arguments seq_from {V F}.
Arguments seq_transition {V F}.
Arguments seq_from_c {V F}.
Arguments iterate {V F}.
