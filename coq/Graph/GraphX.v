(* GraphX.v - additive extension of Graph.v (nothing in Graph.v is changed): one more public operation,

     model.state = <a state saved from this model in which some nodes were additionally marked outdated>

   i.e. the public state setter (Model.state, which is what Goose's LieselInterface.update_state uses) fed
   with an EDITED snapshot: values untouched, NodeState.outdated flipped to True for an arbitrary set of
   nodes.  This is how an outdated flag can enter the model without its recursive outputs being flagged
   (Node.state setter: _value, _outdated = state; nothing is propagated).  NO PROOFS IN THIS FILE
   (GraphXProofs.v).

     xop                 XBase o (an operation of Graph.v) | XRestoreEdited k marks
     edit_flags g marks l    l with the positions in marks raised (as a table over all nodes)
     restore_edited      the state setter on the edited k-th snapshot; the ghost [touched] is raised with
                         the flag (such a node counts as "an ancestor was assigned since it was computed":
                         the caller declared its value stale)
     xstep_with I / xrun_with I, xstep / xrun (lit), mxstep / mxrun (memo)
   A mark on a Value or transient node sets a private _outdated that no reader looks at (Value.outdated
   is False, TransientNode.outdated is computed); the model keeps it in [dirty], equally unread.
   Marks must name nodes of the model (err otherwise: the code's setter raises KeyError half-way, which
   is outside the modelled operation set). *)
From Coq Require Import List Bool Arith.
Import ListNotations.
From LV Require Import Graph.Graph.

Section GX.
Variables (V F : Type) (interp : F -> list V -> V) (dflt : V).

Inductive xop :=
| XBase (o : op V)
| XRestoreEdited (k : nat) (marks : list nat).

Definition memb (j : nat) (l : list nat) : bool := existsb (Nat.eqb j) l.

Definition edit_flags (g : graph F) (marks : list nat) (l : list bool) : list bool :=
  map (fun j => getb l j || memb j marks) (seq 0 (length g)).

Definition restore_edited (g : graph F) (s : mstate V) (sn : snap V) (marks : list nat) : mstate V :=
  {| vals := sn_vals sn;
     dirty := edit_flags g marks (sn_flags sn);
     touched := edit_flags g marks (sn_touched sn);
     auto := auto s |}.

Section XOps.
Variable I : impl V F.

Definition xstep_with (g : graph F) (rs : rstate V) (x : xop) : outcome V :=
  match x with
  | XBase o => step_with I g rs o
  | XRestoreEdited k marks =>
      match nth_error (snaps rs) k with
      | Some sn =>
          if forallb (fun j => j <? length g) marks
          then ok_out rs (restore_edited g (cur rs) sn marks, [])
          else err_out rs
      | None => err_out rs
      end
  end.

Definition xrun_with (g : graph F) (xs : list xop) (rs : rstate V) : rstate V :=
  fold_left (fun rs x => st' (xstep_with g rs x)) xs rs.
End XOps.

Definition xstep := xstep_with (lit interp dflt).
Definition xrun := xrun_with (lit interp dflt).
Definition mxstep := xstep_with (memo interp dflt).
Definition mxrun := xrun_with (memo interp dflt).

End GX.

Arguments XBase {V}.
Arguments XRestoreEdited {V}.
Arguments edit_flags {F}.
Arguments restore_edited {V F}.
Arguments xstep_with {V F}.
Arguments xrun_with {V F}.
Arguments xstep {V F}.
Arguments xrun {V F}.
Arguments mxstep {V F}.
Arguments mxrun {V F}.
