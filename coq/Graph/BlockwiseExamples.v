(* Non-vacuity examples for the C09 theorems.

       0 a (Value, block of kernel 0)     1 b (Value, block of kernel 1)     5 d (Value, no kernel)
       2 c  = f(a)        cached
       3 t  = f(c, b)     transient
       4 lp = f(t, a)     cached        (plays the role of _model_log_prob)
       6 e  = f(d)        cached        (derived from d only: no kernel may change it)
   kernel 0: MH-type on [a], proposes a := f(b) from the state it receives
   kernel 1: always-write-back (Gibbs/NUTS/HMC) on [b], proposes b := f(a) from the state it receives *)
From Coq Require Import List Bool Arith Lia.
Import ListNotations.
From LV Require Import Graph.Graph Graph.GraphProofs Graph.Blockwise Graph.BlockwiseProofs.

Definition bxi (f : nat) (args : list nat) : nat := fold_left (fun acc a => 3 * acc + a) args f.

Definition bxg : graph nat :=
  [ mkNode KValue [] 0; mkNode KValue [] 0; mkNode KCached [0] 1; mkNode KTrans [2; 1] 2;
    mkNode KCached [3; 0] 3; mkNode KValue [] 0; mkNode KCached [5] 4 ].

Lemma bxg_wf : wf bxg.
Proof. apply wfb_wf. reflexivity. Qed.

Definition bx_st0 : pst nat := to_pst (lit bxi 0) bxg (cur (init bxi 0 bxg [1; 2; 0; 0; 0; 7; 0])).

Definition bx_ks : list kernel := [mkK KMH [0]; mkK KAlways [1]].

(* proposals computed from the RECEIVED state: kernel 0 reads b, kernel 1 reads a *)
Definition bx_orc (acc0 : bool) : nat -> pst nat -> proposal nat :=
  fun i st => match i with
              | 0 => ([(0, getv 0 (pv st) 1 + 1)], acc0)
              | _ => ([(1, 2 * getv 0 (pv st) 0 + 1)], true)
              end.
Definition bx_orc_swapped : nat -> pst nat -> proposal nat :=
  fun i st => match i with
              | 0 => ([(1, 2 * getv 0 (pv st) 0 + 1)], true)
              | _ => ([(0, getv 0 (pv st) 1 + 1)], true)
              end.
Definition bx_int : nat -> mstate nat := fun i => {| vals := [9; 9]; dirty := [true]; touched := []; auto := Nat.even i |}.

Lemma bx_good : good nat nat bxi 0 bxg bx_st0.
Proof. apply init_good. exact bxg_wf. Qed.

Lemma bx_hyps :
  wf bxg /\ good nat nat bxi 0 bxg bx_st0 /\ keys_ok nat bxg bx_ks /\ dom_ok nat (bx_orc true) 0 bx_ks
  /\ pv bx_st0 = [1; 2; 4; 0; 124; 7; 19].
Proof.
  split; [exact bxg_wf|]. split; [exact bx_good|]. split; [|split].
  - intros k [<-|[<-|[]]]; reflexivity.
  - intros j k st H. destruct j as [|[|j]]; cbn in H;
      [injection H as <-|injection H as <-|destruct j; discriminate]; cbn; intros x Hx; exact Hx.
  - reflexivity.
Qed.

(* accepted: a := b+1 = 3, then kernel 1 receives the state with a = 3 and writes b := 2a+1 = 7; c, t, lp follow;
   d and e are untouched *)
Lemma bx_run_accept :
  seq_transition (lit bxi 0) bxg bx_int (bx_orc true) bx_ks bx_st0
  = Some (mkP [3; 7; 6; 0; 159; 7; 19] (repeat false 7),
          [bx_st0; mkP [3; 2; 6; 0; 144; 7; 19] (repeat false 7)]).
Proof. vm_compute. reflexivity. Qed.

(* rejected: kernel 1 receives the untouched state *)
Lemma bx_run_reject :
  seq_transition (lit bxi 0) bxg bx_int (bx_orc false) bx_ks bx_st0
  = Some (mkP [1; 3; 4; 0; 127; 7; 19] (repeat false 7), [bx_st0; bx_st0]).
Proof. vm_compute. reflexivity. Qed.

(* the order of the kernels matters *)
Lemma bx_order_matters :
  option_map fst (seq_transition (lit bxi 0) bxg bx_int (bx_orc true) bx_ks bx_st0)
  <> option_map fst (seq_transition (lit bxi 0) bxg bx_int bx_orc_swapped (rev bx_ks) bx_st0).
Proof. vm_compute. discriminate. Qed.

Lemma bx_paths : path nat bxg 0 4 /\ path nat bxg 1 4 /\ ~ path nat bxg 0 6 /\ ~ path nat bxg 1 2.
Proof.
  pose proof bxg_wf as W. rewrite <- !(reaches_path nat bxg W). vm_compute.
  repeat split; try reflexivity; discriminate.
Qed.

(* a key that names a cached node makes the code raise *)
Lemma bx_bad_key :
  update_state (lit bxi 0) bxg (bx_int 0) [(2, 5)] bx_st0 = None.
Proof. vm_compute. reflexivity. Qed.
