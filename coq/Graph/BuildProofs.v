(* C15 - proofs about the model of Graph/Build.v *)
From Coq Require Import List Arith Bool String Ascii Lia DecimalString DecimalNat FinFun.
Import ListNotations.
From LV Require Import Graph.Build.
Open Scope list_scope.

(* ------------------------------------------------------------------------------------------ *)
(* basic facts                                                                                *)
Lemma memn_In : forall x l, memn x l = true <-> In x l.
Proof.
  intros x l; unfold memn; rewrite existsb_exists; split.
  - intros [y [Hy He]]. apply Nat.eqb_eq in He. now subst.
  - intros H. exists x. split; [assumption|apply Nat.eqb_refl].
Qed.

Lemma memn_false : forall x l, memn x l = false <-> ~ In x l.
Proof.
  intros x l. split; intro H.
  - intro Hin. apply memn_In in Hin. congruence.
  - destruct (memn x l) eqn:E; [|reflexivity]. apply memn_In in E. contradiction.
Qed.

Lemma mems_In : forall x l, mems x l = true <-> In x l.
Proof.
  intros x l; unfold mems; rewrite existsb_exists; split.
  - intros [y [Hy He]]. apply String.eqb_eq in He. now subst.
  - intros H. exists x. split; [assumption|apply String.eqb_refl].
Qed.

(* ------------------------------------------------------------------------------------------ *)
(* frozen                                                                                     *)
Theorem mutate_frozen : forall pf w t mu,
  target_inmodel w t = true -> mutate pf w t mu = (w, Err Frozen).
Proof. intros pf w t mu H. unfold mutate. now rewrite H. Qed.

(* handing a node of a live model to the value_node / dist_node setter of any variable is rejected *)
Theorem mutate_frozen_arg : forall pf w t mu,
  arg_inmodel w mu = true -> mutate pf w t mu = (w, Err Frozen).
Proof. intros pf w t mu H. unfold mutate. rewrite H. now rewrite orb_true_r. Qed.

Theorem mutate_free : forall pf w t mu,
  target_inmodel w t = false -> arg_inmodel w mu = false ->
  mutate pf w t mu = (do_mutation pf w t mu, Ok tt).
Proof. intros pf w t mu H H'. unfold mutate. now rewrite H, H'. Qed.

(* ------------------------------------------------------------------------------------------ *)
(* topological order                                                                          *)
Lemma topo_scan_spec : forall w order seen,
  topo_scan w order seen = true ->
  forall l1 b l2, order = l1 ++ b :: l2 ->
    ~ In b seen /\ ~ In b l1 /\ forall a, In a (ins_of w b) -> In a seen \/ In a l1.
Proof.
  intros w order; induction order as [|n r IH]; intros seen H l1 b l2 E.
  - destruct l1; discriminate.
  - cbn in H. apply andb_true_iff in H as [H Hr]. apply andb_true_iff in H as [Hins Hn].
    apply negb_true_iff in Hn. apply memn_false in Hn.
    destruct l1 as [|x l1]; cbn in E; inversion E; subst.
    + split; [assumption|]. split; [intros []|]. intros a Ha. left.
      rewrite forallb_forall in Hins. apply memn_In. now apply Hins.
    + destruct (IH _ Hr l1 b l2 eq_refl) as [Hb [Hb1 Hins']].
      split; [intro Hs; apply Hb; now right|].
      split.
      * intros [Hx|Hx]; [subst; apply Hb; now left|now apply Hb1].
      * intros a Ha. destruct (Hins' a Ha) as [[Hx|Hx]|Hx].
        -- right. now left.
        -- now left.
        -- right. now right.
Qed.

(* every input of a node of the order occurs strictly before it, and no node occurs twice *)
Theorem topo_respects_inputs : forall w ns order,
  is_topo w ns order = true ->
  NoDup order /\
  (forall n, In n order -> In n ns) /\
  forall l1 b l2, order = l1 ++ b :: l2 -> forall a, In a (ins_of w b) -> In a l1.
Proof.
  intros w ns order H. unfold is_topo in H.
  apply andb_true_iff in H as [H Hs]. apply andb_true_iff in H as [_ Hin].
  split; [|split].
  - assert (G : forall seen o, topo_scan w o seen = true -> NoDup o).
    { intros seen o; revert seen; induction o as [|n r IH]; intros seen Hsc; [constructor|].
      constructor.
      - intro Hn. apply in_split in Hn as [l1 [l2 E]].
        cbn in Hsc. apply andb_true_iff in Hsc as [_ Hr].
        destruct (topo_scan_spec _ _ _ Hr l1 n l2 E) as [Hb _]. apply Hb. now left.
      - cbn in Hsc. apply andb_true_iff in Hsc as [_ Hr]. now apply IH in Hr. }
    now apply G in Hs.
  - intros n Hn. rewrite forallb_forall in Hin. apply memn_In. now apply Hin.
  - intros l1 b l2 E a Ha. destruct (topo_scan_spec _ _ _ Hs l1 b l2 E) as [_ [_ Hi]].
    destruct (Hi a Ha) as [[]|Hx]. assumption.
Qed.

(* a closed chain of input edges among the nodes of an order: the order is not topological *)
Inductive path (w : world) : nid -> nid -> Prop :=
| path_one : forall a b, In a (ins_of w b) -> path w a b
| path_step : forall a b c, In a (ins_of w b) -> path w b c -> path w a c.

Lemma path_before : forall w ns order, is_topo w ns order = true ->
  forall a b, path w a b -> In b order ->
  exists l1 l2 l3, order = l1 ++ a :: l2 ++ b :: l3.
Proof.
  intros w ns order H a b P. destruct (topo_respects_inputs _ _ _ H) as [Hnd [_ Hbefore]].
  induction P as [a b Hab|a b c Hab P IH]; intro Hb.
  - apply in_split in Hb as [l1 [l3 E]].
    pose proof (Hbefore l1 b l3 E a Hab) as Ha. apply in_split in Ha as [k1 [k2 E1]].
    exists k1, k2, l3. subst. now rewrite <- app_assoc.
  - destruct (IH Hb) as [l1 [l2 [l3 E]]].
    pose proof (Hbefore l1 b (l2 ++ c :: l3) E a Hab) as Ha. apply in_split in Ha as [k1 [k2 E1]].
    exists k1, (k2 ++ b :: l2), l3. subst. rewrite <- !app_assoc. cbn. rewrite <- ?app_assoc. reflexivity.
Qed.

Theorem cycle_has_no_order : forall w ns order a,
  path w a a -> In a order -> is_topo w ns order = false.
Proof.
  intros w ns order a P Ha. destruct (is_topo w ns order) eqn:E; [|reflexivity]. exfalso.
  destruct (path_before _ _ _ E _ _ P Ha) as [l1 [l2 [l3 E1]]].
  destruct (topo_respects_inputs _ _ _ E) as [Hnd _]. subst order.
  apply NoDup_remove_2 in Hnd. apply Hnd. apply in_or_app. right. apply in_or_app. right. now left.
Qed.

(* ------------------------------------------------------------------------------------------ *)
(* closure: GraphBuilder._all_nodes_and_vars                                                  *)
Inductive reach (w : world) (roots : list nid) : nid -> Prop :=
| reach_root : forall n, In n roots -> reach w roots n
| reach_succ : forall n m, reach w roots n -> In m (succs w n) -> reach w roots m.

Record cinv (w : world) (roots st sn : list nid) (sv : list vid) : Prop := mkInv {
  i_reach : forall n, In n st \/ In n sn -> reach w roots n;
  i_ins : forall n m, In n sn -> In m (ins_of w n) -> In m sn \/ In m st;
  i_vn : forall v m, In v sv -> In m (vnodes_of w v) -> In m sn \/ In m st;
  i_var : forall n v, In n sn -> var_of w n = Some v -> In v sv;
  i_varw : forall v, In v sv -> exists n, In n sn /\ var_of w n = Some v;
  i_nd : NoDup sn;
  i_ndv : NoDup sv;
  i_roots : forall r, In r roots -> In r sn \/ In r st
}.

Lemma in_succs_ins : forall w n m, In m (ins_of w n) -> In m (succs w n).
Proof. intros. unfold succs. apply in_or_app. now left. Qed.

Lemma in_succs_var : forall w n v m, var_of w n = Some v -> In m (vnodes_of w v) -> In m (succs w n).
Proof. intros w n v m Hv Hm. unfold succs. rewrite Hv. apply in_or_app. now right. Qed.

Lemma closure_loop_sound : forall w roots fuel st sn sv ns vs,
  cinv w roots st sn sv ->
  closure_loop w fuel st sn sv = Some (ns, vs) ->
  cinv w roots [] (rev ns) (rev vs).
Proof.
  intros w roots fuel; induction fuel as [|f IH]; intros st sn sv ns vs I H; [discriminate|].
  cbn in H. destruct st as [|n st].
  - inversion H; subst. now rewrite !rev_involutive.
  - destruct (memn n sn) eqn:Hm.
    + apply memn_In in Hm. eapply IH; [|exact H]. clear H IH.
      destruct I. constructor; try assumption.
      * intros x [Hx|Hx]; apply i_reach0; [left; now right|now right].
      * intros x m Hx Hi. destruct (i_ins0 x m Hx Hi) as [?|[?|?]]; [now left|subst; now left|now right].
      * intros v m Hv Hi. destruct (i_vn0 v m Hv Hi) as [?|[?|?]]; [now left|subst; now left|now right].
      * intros r Hr. destruct (i_roots0 r Hr) as [?|[?|?]]; [now left|subst; now left|now right].
    + apply memn_false in Hm.
      assert (Rn : reach w roots n) by (apply (i_reach _ _ _ _ _ I); left; now left).
      destruct (var_of w n) as [v|] eqn:Hv; [destruct (memn v sv) eqn:Hmv|].
      * (* var already seen *)
        apply memn_In in Hmv.
        eapply IH; [|exact H]. clear H IH. destruct I.
        constructor.
        -- intros x [Hx|[Hx|Hx]].
           ++ apply in_app_or in Hx as [Hx|Hx].
              ** apply in_rev in Hx. eapply reach_succ; [exact Rn|now apply in_succs_ins].
              ** apply i_reach0. left. now right.
           ++ now subst.
           ++ apply i_reach0. now right.
        -- intros x m [Hx|Hx] Hi.
           ++ subst x. right. apply in_or_app. left. now apply in_rev in Hi.
           ++ destruct (i_ins0 x m Hx Hi) as [?|[?|?]].
              ** left. now right.
              ** subst. left. now left.
              ** right. apply in_or_app. now right.
        -- intros v' m Hv' Hi. destruct (i_vn0 v' m Hv' Hi) as [?|[?|?]].
           ++ left. now right.
           ++ subst. left. now left.
           ++ right. apply in_or_app. now right.
        -- intros x v' [Hx|Hx] Hv'; [subst; rewrite Hv in Hv'; inversion Hv'; now subst|eauto].
        -- intros v' Hv'. destruct (i_varw0 v' Hv') as [x [Hx Hxv]]. exists x. split; [now right|assumption].
        -- constructor; assumption.
        -- assumption.
        -- intros r Hr. destruct (i_roots0 r Hr) as [?|[?|?]].
           ++ left. now right.
           ++ subst. left. now left.
           ++ right. apply in_or_app. now right.
      * (* new var *)
        apply memn_false in Hmv.
        eapply IH; [|exact H]. clear H IH. destruct I.
        constructor.
        -- intros x [Hx|[Hx|Hx]].
           ++ apply in_app_or in Hx as [Hx|Hx].
              ** apply in_rev in Hx. eapply reach_succ; [exact Rn|]. eapply in_succs_var; eassumption.
              ** apply in_app_or in Hx as [Hx|Hx].
                 --- apply in_rev in Hx. eapply reach_succ; [exact Rn|now apply in_succs_ins].
                 --- apply i_reach0. left. now right.
           ++ now subst.
           ++ apply i_reach0. now right.
        -- intros x m [Hx|Hx] Hi.
           ++ subst x. right. apply in_or_app. right. apply in_or_app. left. now apply in_rev in Hi.
           ++ destruct (i_ins0 x m Hx Hi) as [?|[?|?]].
              ** left. now right.
              ** subst. left. now left.
              ** right. apply in_or_app. right. apply in_or_app. now right.
        -- intros v' m [Hv'|Hv'] Hi.
           ++ subst v'. right. apply in_or_app. left. now apply in_rev in Hi.
           ++ destruct (i_vn0 v' m Hv' Hi) as [?|[?|?]].
              ** left. now right.
              ** subst. left. now left.
              ** right. apply in_or_app. right. apply in_or_app. now right.
        -- intros x v' [Hx|Hx] Hv'.
           ++ subst. rewrite Hv in Hv'. inversion Hv'. now left.
           ++ right. eauto.
        -- intros v' [Hv'|Hv'].
           ++ subst. exists n. split; [now left|assumption].
           ++ destruct (i_varw0 v' Hv') as [x [Hx Hxv]]. exists x. split; [now right|assumption].
        -- constructor; assumption.
        -- constructor; assumption.
        -- intros r Hr. destruct (i_roots0 r Hr) as [?|[?|?]].
           ++ left. now right.
           ++ subst. left. now left.
           ++ right. apply in_or_app. right. apply in_or_app. now right.
      * (* no var *)
        eapply IH; [|exact H]. clear H IH. destruct I.
        constructor.
        -- intros x [Hx|[Hx|Hx]].
           ++ apply in_app_or in Hx as [Hx|Hx].
              ** apply in_rev in Hx. eapply reach_succ; [exact Rn|now apply in_succs_ins].
              ** apply i_reach0. left. now right.
           ++ now subst.
           ++ apply i_reach0. now right.
        -- intros x m [Hx|Hx] Hi.
           ++ subst x. right. apply in_or_app. left. now apply in_rev in Hi.
           ++ destruct (i_ins0 x m Hx Hi) as [?|[?|?]].
              ** left. now right.
              ** subst. left. now left.
              ** right. apply in_or_app. now right.
        -- intros v' m Hv' Hi. destruct (i_vn0 v' m Hv' Hi) as [?|[?|?]].
           ++ left. now right.
           ++ subst. left. now left.
           ++ right. apply in_or_app. now right.
        -- intros x v' [Hx|Hx] Hv'; [subst; rewrite Hv in Hv'; discriminate|eauto].
        -- intros v' Hv'. destruct (i_varw0 v' Hv') as [x [Hx Hxv]]. exists x. split; [now right|assumption].
        -- constructor; assumption.
        -- assumption.
        -- intros r Hr. destruct (i_roots0 r Hr) as [?|[?|?]].
           ++ left. now right.
           ++ subst. left. now left.
           ++ right. apply in_or_app. now right.
Qed.

Lemma uniq_acc_spec : forall l acc,
  NoDup acc -> NoDup (uniq_acc acc l) /\ forall x, In x (uniq_acc acc l) <-> In x acc \/ In x l.
Proof.
  induction l as [|y l IH]; intros acc Hnd; cbn.
  - split; [now apply NoDup_rev|]. intros x. rewrite <- in_rev. tauto.
  - destruct (memn y acc) eqn:E.
    + apply memn_In in E. destruct (IH acc Hnd) as [H1 H2]. split; [assumption|].
      intros x. rewrite H2. split; [tauto|]. intros [?|[?|?]]; subst; tauto.
    + apply memn_false in E. destruct (IH (y :: acc)) as [H1 H2]; [now constructor|]. split; [assumption|].
      intros x. rewrite H2. cbn. tauto.
Qed.

Lemma uniq_NoDup : forall l, NoDup (uniq l).
Proof. intros l. apply (uniq_acc_spec l []). constructor. Qed.
Lemma uniq_In : forall l x, In x (uniq l) <-> In x l.
Proof. intros l x. destruct (uniq_acc_spec l [] (NoDup_nil _)) as [_ H]. rewrite H. cbn. tauto. Qed.

(* the result of the worklist is exactly the set of nodes reachable from the added nodes and variables
   through inputs and variable membership, without repetitions; the variables are exactly the
   variables of those nodes *)
Theorem closure_complete : forall w rn rv ns vs,
  closure w rn rv = Some (ns, vs) ->
  NoDup ns /\ NoDup vs /\
  (forall n, In n ns <-> reach w (init_list w rn rv) n) /\
  (forall v, In v vs <-> exists n, reach w (init_list w rn rv) n /\ var_of w n = Some v).
Proof.
  intros w rn rv ns vs H. unfold closure in H.
  apply (closure_loop_sound w (init_list w rn rv)) in H.
  - destruct H.
    assert (Hall : forall n, reach w (init_list w rn rv) n -> In n (rev ns)).
    { intros x R. induction R as [a Ha|a b R IH Hb].
      - destruct (i_roots0 a Ha) as [?|[]]. assumption.
      - unfold succs in Hb. apply in_app_or in Hb as [Hb|Hb].
        + destruct (i_ins0 a b IH Hb) as [?|[]]. assumption.
        + destruct (var_of w a) as [v|] eqn:Hv; [|destruct Hb].
          destruct (i_vn0 v b (i_var0 a v IH Hv) Hb) as [?|[]]. assumption. }
    split; [|split; [|split]].
    + apply NoDup_rev in i_nd0. now rewrite rev_involutive in i_nd0.
    + apply NoDup_rev in i_ndv0. now rewrite rev_involutive in i_ndv0.
    + intros n. split; intro Hn.
      * apply i_reach0. right. now apply in_rev in Hn.
      * apply in_rev. now apply Hall.
    + intros v. split; intro Hv.
      * apply in_rev in Hv. destruct (i_varw0 v Hv) as [n [Hn Hnv]]. exists n. split; [|assumption].
        apply i_reach0. now right.
      * destruct Hv as [n [R Hnv]]. apply in_rev. eapply i_var0; [apply Hall; exact R|exact Hnv].
  - constructor.
    + intros x [Hx|[]]. apply reach_root. now apply in_rev.
    + intros x m [].
    + intros v m [].
    + intros x v [].
    + intros v [].
    + constructor.
    + constructor.
    + intros r Hr. right. now apply in_rev in Hr.
Qed.

(* termination: the fuel of [closure] is never exhausted *)
Definition rem (w : world) (sn l : list nid) : nat :=
  fold_right (fun i acc => (if memn i sn then 0 else List.length (succs w i)) + acc) 0 l.

Lemma rem_cons : forall w (n : nid) (sn l : list nid), NoDup l -> memn n sn = false ->
  rem w (n :: sn) l + (if memn n l then List.length (succs w n) else 0) = rem w sn l.
Proof.
  intros w n sn l; induction l as [|i l IH]; intros Hnd Hn; [reflexivity|].
  inversion Hnd as [|? ? Hi Hnd']; subst. cbn [rem fold_right]. fold (rem w (n :: sn) l). fold (rem w sn l).
  specialize (IH Hnd' Hn).
  cbn [memn existsb]. destruct (Nat.eqb n i) eqn:E.
  - apply Nat.eqb_eq in E. subst i. rewrite Nat.eqb_refl. cbn [orb]. rewrite Hn.
    assert (Hl : memn n l = false) by now apply memn_false.
    rewrite Hl in IH. fold (memn n l). lia.
  - assert (E' : Nat.eqb i n = false) by (rewrite Nat.eqb_sym; exact E). rewrite E'. cbn [orb].
    fold (memn i sn). fold (memn n l). destruct (memn i sn); lia.
Qed.

Lemma succs_out_of_range : forall w n, List.length (w_nodes w) <= n -> succs w n = [].
Proof.
  intros w n H. unfold succs, ins_of, var_of, getn.
  assert (E : nth_error (w_nodes w) n = None) by now apply nth_error_None.
  now rewrite E.
Qed.

Lemma memn_seq : forall n N, memn n (seq 0 N) = false -> N <= n.
Proof. intros n N H. apply memn_false in H. rewrite in_seq in H. lia. Qed.

Lemma closure_loop_fuel : forall w fuel st sn sv,
  List.length st + rem w sn (seq 0 (List.length (w_nodes w))) < fuel ->
  closure_loop w fuel st sn sv <> None.
Proof.
  intros w fuel; induction fuel as [|f IH]; intros st sn sv H; [lia|].
  cbn. destruct st as [|n st]; [discriminate|].
  cbn [List.length] in H.
  destruct (memn n sn) eqn:Hm.
  - apply IH. lia.
  - pose proof (rem_cons w n sn _ (seq_NoDup (List.length (w_nodes w)) 0) Hm) as R.
    assert (C : List.length (succs w n) <= (if memn n (seq 0 (List.length (w_nodes w))) then List.length (succs w n) else 0)).
    { destruct (memn n (seq 0 (List.length (w_nodes w)))) eqn:E; [lia|].
      apply memn_seq in E. rewrite succs_out_of_range by assumption. cbn. lia. }
    assert (L : List.length (succs w n) =
                List.length (ins_of w n) + match var_of w n with Some v => List.length (vnodes_of w v) | None => 0 end).
    { unfold succs. rewrite app_length. destruct (var_of w n); reflexivity. }
    destruct (var_of w n) as [v|] eqn:Hv; [destruct (memn v sv)|]; cbn beta iota in L; apply IH;
      rewrite ?app_length, ?rev_length; cbn [List.length];
      destruct (memn n (seq 0 (List.length (w_nodes w)))); lia.
Qed.

Lemma rem_nil : forall w l, rem w [] l = fold_right (fun i acc => List.length (succs w i) + acc) 0 l.
Proof. intros w l; induction l as [|i l IH]; [reflexivity|]. cbn. now rewrite <- IH. Qed.

Theorem closure_terminates : forall w rn rv, closure w rn rv <> None.
Proof.
  intros w rn rv. unfold closure. apply closure_loop_fuel.
  unfold closure_fuel, cost_sum. rewrite rem_nil, rev_length. lia.
Qed.

(* ------------------------------------------------------------------------------------------ *)
(* updates                                                                                    *)
Lemma nth_update : forall A (l : list A) i j f,
  nth_error (update l i f) j = if Nat.eqb i j then option_map f (nth_error l j) else nth_error l j.
Proof.
  intros A l; induction l as [|x l IH]; intros i j f.
  - cbn. destruct (Nat.eqb i j); destruct j; reflexivity.
  - destruct i as [|i]; destruct j as [|j]; cbn; try reflexivity. apply IH.
Qed.

Lemma update_length : forall A (l : list A) i f, List.length (update l i f) = List.length l.
Proof. intros A l; induction l as [|x l IH]; intros [|i] f; cbn; auto. Qed.

Lemma getn_setn : forall w i j f,
  getn (setn w i f) j = if Nat.eqb i j then option_map f (getn w j) else getn w j.
Proof. intros. unfold getn, setn. cbn. apply nth_update. Qed.

Lemma getv_setn : forall w i f v, getv (setn w i f) v = getv w v.
Proof. reflexivity. Qed.

(* ------------------------------------------------------------------------------------------ *)
(* outputs are the exact inverse of inputs (Model.__init__ wiring)                             *)
Definition outs_of (w : world) (i : nid) : list nid :=
  match getn w i with Some n => n_outs n | None => [] end.

Definition wire_f (w : world) (ns : list nid) (i : nid) (n : pnode) : pnode :=
  set_inmodel true (set_outs (outs_in w ns i) n).

Lemma wire_fold_getn : forall w ns l w0 j,
  getn (fold_left (fun w' i => setn w' i (wire_f w ns i)) l w0) j =
  if memn j l then option_map (wire_f w ns j) (getn w0 j) else getn w0 j.
Proof.
  intros w ns l; induction l as [|i l IH]; intros w0 j; [reflexivity|].
  cbn [fold_left]. rewrite IH. rewrite getn_setn. cbn [memn existsb]. fold (memn j l).
  rewrite (Nat.eqb_sym j i).
  destruct (Nat.eqb i j) eqn:E.
  - apply Nat.eqb_eq in E. subst j. cbn [orb]. destruct (memn i l); [|reflexivity].
    destruct (getn w0 i); reflexivity.
  - cbn [orb]. reflexivity.
Qed.

Lemma getn_wire : forall w ns j,
  getn (wire w ns) j = if memn j ns then option_map (wire_f w ns j) (getn w j) else getn w j.
Proof. intros. unfold wire. apply (wire_fold_getn w ns ns w j). Qed.

Lemma ins_of_wire : forall w ns m, ins_of (wire w ns) m = ins_of w m.
Proof.
  intros. unfold ins_of. rewrite getn_wire. destruct (memn m ns); [|reflexivity].
  destruct (getn w m); reflexivity.
Qed.

Theorem outputs_inverse : forall w ns i m,
  In i ns -> i < List.length (w_nodes w) ->
  (In m (outs_of (wire w ns) i) <-> In m ns /\ In i (ins_of (wire w ns) m)).
Proof.
  intros w ns i m Hi Hlt. unfold outs_of. rewrite getn_wire.
  assert (Hm : memn i ns = true) by now apply memn_In. rewrite Hm.
  destruct (getn w i) as [n|] eqn:E.
  - cbn. unfold outs_in. rewrite filter_In, memn_In, ins_of_wire. tauto.
  - unfold getn in E. apply nth_error_None in E. lia.
Qed.

Theorem wire_sets_model : forall w ns i, In i ns -> i < List.length (w_nodes w) ->
  inmodel_of (wire w ns) i = true.
Proof.
  intros w ns i Hi Hlt. unfold inmodel_of. rewrite getn_wire.
  assert (Hm : memn i ns = true) by now apply memn_In. rewrite Hm.
  destruct (getn w i) as [n|] eqn:E; [reflexivity|].
  unfold getn in E. apply nth_error_None in E. lia.
Qed.

(* ------------------------------------------------------------------------------------------ *)
(* Model.__init__: what an accepted / rejected build guarantees                               *)
Lemma has_dup_false : forall l, has_dup l = false -> NoDup l.
Proof.
  induction l as [|x l IH]; intro H; [constructor|].
  cbn in H. apply orb_false_iff in H as [H1 H2]. constructor; [|now apply IH].
  intro Hin. apply mems_In in Hin. congruence.
Qed.

Lemma has_dup_true : forall l, has_dup l = true -> ~ NoDup l.
Proof.
  induction l as [|x l IH]; intro H; [discriminate|].
  cbn in H. intro Hnd. inversion Hnd; subst. apply orb_true_iff in H as [H|H].
  - apply mems_In in H. contradiction.
  - now apply IH.
Qed.

Theorem model_init_ok : forall cf topo copy w ns vs w' m,
  model_init cf topo copy w ns vs = (w', Ok m) ->
  m = mkM ns vs /\ w' = (if copy then w else wire w ns) /\
  NoDup (map (name_of w) ns) /\ NoDup (map (vname_of w) vs) /\
  NoDup (map (gname_of w) (groups_of w ns vs)) /\
  (copy = false -> forall i, In i ns -> inmodel_of w i = false) /\
  exists order, topo w ns = Some order /\ is_topo w ns order = true.
Proof.
  intros cf topo copy w ns vs w' m H. unfold model_init in H.
  destruct (has_dup (map (name_of w) ns)) eqn:D1; [discriminate|].
  destruct (has_dup (map (vname_of w) vs)) eqn:D2; [discriminate|].
  destruct (has_dup (map (gname_of w) (groups_of w ns vs))) eqn:D3; [discriminate|].
  destruct (negb copy && existsb (inmodel_of w) ns)%bool eqn:D4; [discriminate|].
  destruct (topo w ns) as [order|] eqn:D5; [|discriminate].
  destruct (is_topo w ns order) eqn:D6; [|discriminate].
  inversion H; subst. repeat split; try (now apply has_dup_false).
  - intros Hc i Hi. subst copy. cbn in D4. destruct (inmodel_of w i) eqn:E; [|reflexivity].
    assert (existsb (inmodel_of w) ns = true) by (apply existsb_exists; eauto). congruence.
  - exists order. now split.
Qed.

(* duplicate names, a node of another model, or no topological order: the build is rejected *)
Theorem model_init_rejects : forall cf topo copy w ns vs,
  (~ NoDup (map (name_of w) ns) \/ ~ NoDup (map (vname_of w) vs)
   \/ ~ NoDup (map (gname_of w) (groups_of w ns vs))
   \/ (copy = false /\ exists i, In i ns /\ inmodel_of w i = true) \/ topo w ns = None) ->
  exists e, snd (model_init cf topo copy w ns vs) = Err e.
Proof.
  intros cf topo copy w ns vs H. unfold model_init.
  destruct (has_dup (map (name_of w) ns)) eqn:D1; [eexists; reflexivity|].
  destruct (has_dup (map (vname_of w) vs)) eqn:D2; [eexists; reflexivity|].
  destruct (has_dup (map (gname_of w) (groups_of w ns vs))) eqn:D3; [eexists; reflexivity|].
  destruct (negb copy && existsb (inmodel_of w) ns)%bool eqn:D4; [eexists; reflexivity|].
  destruct H as [H|[H|[H|[H|H]]]].
  - exfalso. apply H. now apply has_dup_false.
  - exfalso. apply H. now apply has_dup_false.
  - exfalso. apply H. now apply has_dup_false.
  - destruct H as [Hc [i [Hi Hm]]]. subst copy. cbn in D4.
    assert (existsb (inmodel_of w) ns = true) by (apply existsb_exists; eauto). congruence.
  - rewrite H. eexists; reflexivity.
Qed.

(* repaired code: a rejected Model.__init__ leaves every object as it was *)
Theorem model_init_rejected_unchanged : forall topo copy w ns vs w' e,
  model_init true topo copy w ns vs = (w', Err e) -> w' = w.
Proof.
  intros topo copy w ns vs w' e H. unfold model_init in H.
  repeat match type of H with
         | (if ?c then _ else _) = _ => destruct c
         | match ?c with _ => _ end = _ => destruct c
         end; inversion H; reflexivity.
Qed.

(* ------------------------------------------------------------------------------------------ *)
(* pop                                                                                        *)
Lemma pop_fold_getn : forall l w0 j,
  getn (fold_left (fun w' i => setn w' i (set_inmodel false)) l w0) j =
  if memn j l then option_map (set_inmodel false) (getn w0 j) else getn w0 j.
Proof.
  induction l as [|i l IH]; intros w0 j; [reflexivity|].
  cbn [fold_left]. rewrite IH. rewrite getn_setn. cbn [memn existsb]. fold (memn j l).
  rewrite (Nat.eqb_sym j i).
  destruct (Nat.eqb i j) eqn:E.
  - apply Nat.eqb_eq in E. subst j. cbn [orb]. destruct (memn i l); [|reflexivity].
    destruct (getn w0 i); reflexivity.
  - reflexivity.
Qed.

(* popping unfreezes exactly the nodes of the model and changes nothing else *)
Theorem pop_spec : forall w m j,
  getn (pop w m) j = if memn j (m_nodes m) then option_map (set_inmodel false) (getn w j) else getn w j.
Proof. intros. unfold pop. apply pop_fold_getn. Qed.

Theorem pop_unfreezes : forall pf w m i mu, In i (m_nodes m) -> arg_inmodel (pop w m) mu = false ->
  mutate pf (pop w m) (TNode i) mu = (do_mutation pf (pop w m) (TNode i) mu, Ok tt).
Proof.
  intros pf w m i mu Hi Ha. apply mutate_free; [|exact Ha]. cbn. unfold inmodel_of. rewrite pop_spec.
  assert (H : memn i (m_nodes m) = true) by now apply memn_In. rewrite H.
  destruct (getn w i); reflexivity.
Qed.

Theorem pop_keeps_structure : forall w m j,
  ins_of (pop w m) j = ins_of w j /\ name_of (pop w m) j = name_of w j /\ var_of (pop w m) j = var_of w j.
Proof.
  intros. unfold ins_of, name_of, var_of. rewrite pop_spec.
  destruct (memn j (m_nodes m)); [|auto]. destruct (getn w j); auto.
Qed.

(* ------------------------------------------------------------------------------------------ *)
(* generated names                                                                            *)
Lemma nat_str_inj : forall a b, nat_str a = nat_str b -> a = b.
Proof.
  intros a b H. unfold nat_str in H.
  assert (E : Some (Nat.to_uint a) = Some (Nat.to_uint b)).
  { rewrite <- (NilEmpty.usu (Nat.to_uint a)), <- (NilEmpty.usu (Nat.to_uint b)). now rewrite H. }
  inversion E as [E']. rewrite <- (Unsigned.of_to a), <- (Unsigned.of_to b). now rewrite E'.
Qed.

Lemma append_inj : forall p x y, (p ++ x)%string = (p ++ y)%string -> x = y.
Proof. induction p as [|c p IH]; intros x y H; cbn in H; [assumption|]. inversion H. now apply IH. Qed.

Lemma fresh_loop_none : forall fuel pre c other,
  fresh_loop fuel pre c other = None ->
  forall k, k < fuel -> In (pre ++ nat_str (c + k))%string other.
Proof.
  induction fuel as [|f IH]; intros pre c other H k Hk; [lia|].
  cbn in H. destruct (mems (pre ++ nat_str c)%string other) eqn:E; [|discriminate].
  destruct k as [|k].
  - rewrite Nat.add_0_r. now apply mems_In.
  - replace (c + S k) with (S c + k) by lia. apply IH; [assumption|lia].
Qed.

Lemma fresh_loop_some : forall fuel pre c other c' nm,
  fresh_loop fuel pre c other = Some (c', nm) ->
  ~ In nm other /\ exists k, nm = (pre ++ nat_str k)%string /\ c <= k /\ c' = S k.
Proof.
  induction fuel as [|f IH]; intros pre c other c' nm H; [discriminate|].
  cbn in H. destruct (mems (pre ++ nat_str c)%string other) eqn:E.
  - destruct (IH _ _ _ _ _ H) as [H1 [k [H2 [H3 H4]]]]. split; [assumption|]. exists k. repeat split; auto; lia.
  - inversion H; subst. split.
    + intro Hin. apply mems_In in Hin. congruence.
    + exists c. auto.
Qed.

(* the while loop of _do_set_missing_names always finds a free name (fuel is never exhausted) *)
Theorem fresh_total : forall pre c other, fresh pre c other <> None.
Proof.
  intros pre c other H. unfold fresh in H.
  pose proof (fresh_loop_none _ _ _ _ H) as Hall.
  set (cands := map (fun k => (pre ++ nat_str (c + k))%string) (seq 0 (S (List.length other)))).
  assert (Hnd : NoDup cands).
  { unfold cands. apply Injective_map_NoDup; [|apply seq_NoDup].
    intros a b E. apply append_inj in E. apply nat_str_inj in E. lia. }
  assert (Hincl : incl cands other).
  { intros s Hs. unfold cands in Hs. apply in_map_iff in Hs as [k [Hk Hin]]. subst s.
    apply Hall. apply in_seq in Hin. lia. }
  pose proof (NoDup_incl_length Hnd Hincl) as L. unfold cands in L. rewrite map_length, seq_length in L. lia.
Qed.

Theorem fresh_spec : forall pre c other c' nm,
  fresh pre c other = Some (c', nm) -> ~ In nm other /\ (pre <> ""%string -> nm <> ""%string).
Proof.
  intros pre c other c' nm H. unfold fresh in H. apply fresh_loop_some in H as [H1 [k [H2 _]]].
  split; [assumption|]. intros Hp E. subst nm. destruct pre; [now apply Hp|discriminate].
Qed.

Lemma nonempty_true : forall s, nonempty s = true <-> s <> ""%string.
Proof.
  intros s. unfold nonempty. rewrite negb_true_iff. split.
  - intros H E. subst. discriminate.
  - intros H. apply String.eqb_neq. assumption.
Qed.

Lemma name_of_setn_name : forall w i s j,
  name_of (setn w i (set_name s)) j =
  if Nat.eqb i j then (match getn w j with Some _ => s | None => ""%string end) else name_of w j.
Proof.
  intros. unfold name_of. rewrite getn_setn. destruct (Nat.eqb i j); [|reflexivity].
  destruct (getn w j); reflexivity.
Qed.

(* _do_set_missing_names(nodes, "n"): never fails; afterwards every node of the list has a non-empty
   name, names that were present are kept, and if the names present were pairwise distinct then all
   names are pairwise distinct *)
Definition named_nodup (w : world) (ns : list nid) : Prop :=
  NoDup (filter nonempty (map (name_of w) ns)).

Lemma name_nodes_total : forall ns w c other, name_nodes w ns c other <> None.
Proof.
  induction ns as [|n r IH]; intros w c other; cbn [name_nodes]; [discriminate|].
  destruct (nonempty (name_of w n)); [apply IH|].
  destruct (fresh "n" c other) as [[c' nm]|] eqn:E; [apply IH|]. now apply fresh_total in E.
Qed.

Lemma name_nodes_keeps : forall ns w c other w' j,
  name_nodes w ns c other = Some w' -> name_of w j <> ""%string -> name_of w' j = name_of w j.
Proof.
  induction ns as [|n r IH]; intros w c other w' j H Hj; cbn [name_nodes] in H.
  - now inversion H.
  - destruct (nonempty (name_of w n)) eqn:En; [now apply (IH _ _ _ _ _ H)|].
    destruct (fresh "n" c other) as [[c' nm]|] eqn:E; [|discriminate].
    assert (Hne : n <> j).
    { intro; subst j. apply nonempty_true in Hj. congruence. }
    assert (K : name_of (setn w n (set_name nm)) j = name_of w j).
    { rewrite name_of_setn_name. apply Nat.eqb_neq in Hne. now rewrite Hne. }
    rewrite <- K. apply (IH _ _ _ _ _ H). now rewrite K.
Qed.

Theorem name_nodes_nonempty : forall ns w c other w',
  name_nodes w ns c other = Some w' ->
  forall j, In j ns -> j < List.length (w_nodes w) -> name_of w' j <> ""%string.
Proof.
  induction ns as [|n r IH]; intros w c other w' H j Hj Hlt; [destruct Hj|].
  cbn [name_nodes] in H. destruct (nonempty (name_of w n)) eqn:En.
  - destruct Hj as [Hj|Hj].
    + subst j. apply nonempty_true in En. rewrite (name_nodes_keeps _ _ _ _ _ _ H En). assumption.
    + now apply (IH _ _ _ _ H).
  - destruct (fresh "n" c other) as [[c' nm]|] eqn:E; [|discriminate].
    apply fresh_spec in E as [_ Hnm]. assert (Hnm' : nm <> ""%string) by (apply Hnm; discriminate).
    assert (L : List.length (w_nodes (setn w n (set_name nm))) = List.length (w_nodes w))
      by (cbn; apply update_length).
    destruct Hj as [Hj|Hj].
    + subst j.
      assert (K : name_of (setn w n (set_name nm)) n = nm).
      { rewrite name_of_setn_name, Nat.eqb_refl. destruct (getn w n) eqn:G; [reflexivity|].
        unfold getn in G. apply nth_error_None in G. lia. }
      rewrite (name_nodes_keeps _ _ _ _ _ _ H); rewrite K; assumption.
    + apply (IH _ _ _ _ H); [assumption|lia].
Qed.

(* ------------------------------------------------------------------------------------------ *)
(* an executable instance of the topological-sort oracle, used only in the Examples            *)
Fixpoint ntopo (w : world) (fuel : nat) (pending done : list nid) : option (list nid) :=
  match fuel with
  | 0 => None
  | S f =>
    match pending with
    | [] => Some (rev done)
    | _ =>
      let ready := filter (fun n => forallb (fun i => memn i done) (ins_of w n)) pending in
      match ready with
      | [] => None
      | _ => ntopo w f (filter (fun n => negb (memn n ready)) pending) (rev ready ++ done)
      end
    end
  end.
Definition naive_topo (w : world) (ns : list nid) : option (list nid) := ntopo w (S (List.length ns)) ns [].

Definition is_ok {A} (r : result A) : bool := match r with Ok _ => true | Err _ => false end.
Definition err_is {A} (e : berr) (r : result A) : bool :=
  match r with
  | Err Reserved => match e with Reserved => true | _ => false end
  | Err InModel => match e with InModel => true | _ => false end
  | Err Cycle => match e with Cycle => true | _ => false end
  | Err DupNode => match e with DupNode => true | _ => false end
  | _ => false
  end.

(* a = Value, s = Calc(a) needing a seed, x = Var(s) *)
Definition ex_seeded : world :=
  mkW [mkN "a" [] [] None None false false false [] [];
       mkN "s" [0] [] None (Some 0) true false false [] [];
       mkN "x_var_value" [1] [] None (Some 0) false false false [] []]
      [mkV "x" 1 2 None false false [] false] [].

Definition rebuild (strip : bool) (w : world) (rn : list nid) (rv : list vid) : world * result model * result model :=
  match build strip true true naive_topo false w rn rv with
  | (w1, Ok m) =>
    let w2 := pop w1 m in
    (w2, Ok m, snd (build strip true true naive_topo false w2 (popped_nodes w1 m) (m_vars m)))
  | (w1, Err e) => (w1, Err e, Err e)
  end.

(* with the repair (strip = true) the seeded model is rebuilt from its popped nodes with the same
   node names; the code as found (strip = false) rejects the rebuild: defect F8 *)
Theorem pop_rebuild_seeded_example :
  match rebuild true ex_seeded [] [0] with
  | (w2, Ok m1, Ok m2) =>
    match build true true true naive_topo false w2 (popped_nodes w2 m1) (m_vars m1) with
    | (w3, Ok m3) =>
      List.length (m_nodes m3) = List.length (m_nodes m1) /\
      forall s, In s (map (name_of w3) (m_nodes m3)) <-> In s (map (name_of w2) (m_nodes m1))
    | _ => False
    end
  | _ => False
  end.
Proof. vm_compute. split; [reflexivity|]. intros s; tauto. Qed.

Theorem pop_rebuild_seeded_refuted :
  exists w rn rv, match rebuild false w rn rv with
                  | (_, Ok _, Err Reserved) => True
                  | _ => False end.
Proof. exists ex_seeded, [], [0]. vm_compute. exact I. Qed.

(* a = Value, b = Calc(a), c = Calc(b); build(c); build(b) is rejected.  Code as found (check_first =
   false): the rejected build clears the outputs of b, a node of the live model: defect F9 *)
Definition ex_chain : world :=
  mkW [mkN "a" [] [] None None false false false [] [];
       mkN "b" [0] [] None None false false false [] [];
       mkN "c" [1] [] None None false false false [] []] [] [].

Definition second_build (cf : bool) : list nid * list nid * bool :=
  match build true cf true naive_topo false ex_chain [2] [] with
  | (w1, Ok _) =>
    match build true cf true naive_topo false w1 [1] [] with
    | (w2, r) => (outs_of w1 1, outs_of w2 1, err_is InModel r)
    end
  | _ => ([], [], false)
  end.

Theorem rejected_build_keeps_outputs_example : second_build true = ([2], [2], true).
Proof. vm_compute. reflexivity. Qed.

Theorem rejected_build_clears_outputs_refuted :
  exists w rn rv i,
    match build true false true naive_topo false w rn rv with
    | (w1, Ok m) =>
      match build true false true naive_topo false w1 [i] [] with
      | (w2, Err InModel) => In i (m_nodes m) /\ outs_of w1 i <> outs_of w2 i
      | _ => False
      end
    | _ => False
    end.
Proof. exists ex_chain, [2], [], 1. vm_compute. split; [tauto|discriminate]. Qed.

(* ------------------------------------------------------------------------------------------ *)
(* _do_set_missing_names(_vars, "v") and _set_missing_names                                    *)
Lemma set_var_name_nodes_length : forall pf w v nm,
  List.length (w_nodes (set_var_name pf w v nm)) = List.length (w_nodes w).
Proof.
  intros pf w v nm. unfold set_var_name. destruct (getv w v) as [pv|]; [|reflexivity].
  cbn [setv w_nodes].
  destruct (v_dist pv) as [d|];
    repeat match goal with |- context [if ?c then _ else _] => destruct c end;
    cbn [setn w_nodes]; rewrite ?update_length; reflexivity.
Qed.

Lemma set_var_name_vname : forall pf w v nm v',
  vname_of (set_var_name pf w v nm) v' =
  if Nat.eqb v v' then (match getv w v' with Some _ => nm | None => ""%string end) else vname_of w v'.
Proof.
  intros pf w v nm v'. unfold set_var_name.
  destruct (getv w v) as [pv|] eqn:G.
  - unfold vname_of, getv, setv. cbn [w_vars]. rewrite nth_update.
    match goal with |- context [update ?l _ _] => idtac | _ => idtac end.
    destruct (Nat.eqb v v') eqn:E.
    + apply Nat.eqb_eq in E. subst v'.
      assert (K : forall wx : world, w_vars wx = w_vars w -> 
                  match option_map (set_vname nm) (nth_error (w_vars wx) v) with Some pv0 => v_name pv0 | None => ""%string end
                  = match nth_error (w_vars w) v with Some _ => nm | None => ""%string end).
      { intros wx Hx. rewrite Hx. destruct (nth_error (w_vars w) v); reflexivity. }
      apply K. destruct (v_dist pv);
        repeat match goal with |- context [if ?c then _ else _] => destruct c end; reflexivity.
    + assert (K : forall wx : world, w_vars wx = w_vars w ->
                  match nth_error (w_vars wx) v' with Some pv0 => v_name pv0 | None => ""%string end
                  = match nth_error (w_vars w) v' with Some pv0 => v_name pv0 | None => ""%string end).
      { intros wx Hx. now rewrite Hx. }
      apply K. destruct (v_dist pv);
        repeat match goal with |- context [if ?c then _ else _] => destruct c end; reflexivity.
  - destruct (Nat.eqb v v') eqn:E; [|reflexivity].
    apply Nat.eqb_eq in E. subst v'. unfold vname_of. now rewrite G.
Qed.

Lemma name_vars_total : forall pf vs w c other, name_vars pf w vs c other <> None.
Proof.
  intros pf; induction vs as [|v r IH]; intros w c other; cbn [name_vars]; [discriminate|].
  destruct (nonempty (vname_of w v)); [apply IH|].
  destruct (fresh "v" c other) as [[c' nm]|] eqn:E; [apply IH|]. now apply fresh_total in E.
Qed.

Lemma name_vars_lengths : forall pf vs w c other w',
  name_vars pf w vs c other = Some w' ->
  List.length (w_nodes w') = List.length (w_nodes w).
Proof.
  intros pf; induction vs as [|v r IH]; intros w c other w' H; cbn [name_vars] in H.
  - now inversion H.
  - destruct (nonempty (vname_of w v)); [now apply (IH _ _ _ _ H)|].
    destruct (fresh "v" c other) as [[c' nm]|]; [|discriminate].
    rewrite (IH _ _ _ _ H). apply set_var_name_nodes_length.
Qed.

Lemma name_vars_keeps : forall pf vs w c other w' j,
  name_vars pf w vs c other = Some w' -> vname_of w j <> ""%string -> vname_of w' j = vname_of w j.
Proof.
  intros pf; induction vs as [|v r IH]; intros w c other w' j H Hj; cbn [name_vars] in H.
  - now inversion H.
  - destruct (nonempty (vname_of w v)) eqn:En; [now apply (IH _ _ _ _ _ H)|].
    destruct (fresh "v" c other) as [[c' nm]|] eqn:E; [|discriminate].
    assert (Hne : v <> j).
    { intro; subst j. apply nonempty_true in Hj. congruence. }
    assert (K : vname_of (set_var_name pf w v nm) j = vname_of w j).
    { rewrite set_var_name_vname. apply Nat.eqb_neq in Hne. now rewrite Hne. }
    rewrite <- K. apply (IH _ _ _ _ _ H). now rewrite K.
Qed.

Lemma name_vars_nonempty : forall pf vs w c other w',
  name_vars pf w vs c other = Some w' ->
  forall j, In j vs -> j < List.length (w_vars w) -> vname_of w' j <> ""%string.
Proof.
  intros pf; induction vs as [|v r IH]; intros w c other w' H j Hj Hlt; [destruct Hj|].
  cbn [name_vars] in H. destruct (nonempty (vname_of w v)) eqn:En.
  - destruct Hj as [Hj|Hj].
    + subst j. apply nonempty_true in En. rewrite (name_vars_keeps _ _ _ _ _ _ _ H En). assumption.
    + now apply (IH _ _ _ _ H).
  - destruct (fresh "v" c other) as [[c' nm]|] eqn:E; [|discriminate].
    apply fresh_spec in E as [_ Hnm]. assert (Hnm' : nm <> ""%string) by (apply Hnm; discriminate).
    assert (K : forall j, j < List.length (w_vars w) -> vname_of (set_var_name pf w v nm) j <> ""%string \/ vname_of (set_var_name pf w v nm) j = vname_of w j).
    { intros j0 Hj0. rewrite set_var_name_vname. destruct (Nat.eqb v j0); [|now right].
      left. destruct (getv w j0) eqn:G; [assumption|]. unfold getv in G. apply nth_error_None in G. lia. }
    assert (L : List.length (w_vars (set_var_name pf w v nm)) = List.length (w_vars w)).
    { unfold set_var_name. destruct (getv w v) as [pv|]; [|reflexivity]. cbn [setv w_vars]. rewrite update_length.
      destruct (v_dist pv); repeat match goal with |- context [if ?c then _ else _] => destruct c end; reflexivity. }
    destruct Hj as [Hj|Hj].
    + subst j.
      assert (K1 : vname_of (set_var_name pf w v nm) v = nm).
      { rewrite set_var_name_vname, Nat.eqb_refl. destruct (getv w v) eqn:G; [reflexivity|].
        unfold getv in G. apply nth_error_None in G. lia. }
      rewrite (name_vars_keeps _ _ _ _ _ _ _ H); rewrite K1; assumption.
    + apply (IH _ _ _ _ H); [assumption|lia].
Qed.

(* _set_missing_names never fails and leaves no node / variable of the closure unnamed *)
Theorem set_missing_names_total : forall pf w ns vs, set_missing_names pf w ns vs <> None.
Proof.
  intros pf w ns vs. unfold set_missing_names.
  destruct (name_vars pf w vs 0 _) as [w1|] eqn:E; [apply name_nodes_total|]. now apply name_vars_total in E.
Qed.

Lemma name_nodes_vars : forall ns w c other w', name_nodes w ns c other = Some w' -> w_vars w' = w_vars w.
Proof.
  induction ns as [|n r IH]; intros w c other w' H; cbn [name_nodes] in H.
  - now inversion H.
  - destruct (nonempty (name_of w n)); [now apply (IH _ _ _ _ H)|].
    destruct (fresh "n" c other) as [[c' nm]|]; [|discriminate]. now rewrite (IH _ _ _ _ H).
Qed.

Theorem set_missing_names_nonempty : forall pf w ns vs w',
  set_missing_names pf w ns vs = Some w' ->
  (forall n, In n ns -> n < List.length (w_nodes w) -> name_of w' n <> ""%string) /\
  (forall v, In v vs -> v < List.length (w_vars w) -> vname_of w' v <> ""%string).
Proof.
  intros pf w ns vs w' H. unfold set_missing_names in H.
  destruct (name_vars pf w vs 0 _) as [w1|] eqn:E; [|discriminate]. split.
  - intros n Hn Hlt. apply (name_nodes_nonempty _ _ _ _ _ H n Hn).
    now rewrite (name_vars_lengths _ _ _ _ _ _ E).
  - intros v Hv Hlt. unfold vname_of, getv. rewrite (name_nodes_vars _ _ _ _ _ H).
    now apply (name_vars_nonempty _ _ _ _ _ _ E).
Qed.

(* ------------------------------------------------------------------------------------------ *)
(* end to end: what an accepted build_model guarantees                                        *)
Lemma build_ok_inv : forall s cf pf topo copy w rn rv w' m,
  build s cf pf topo copy w rn rv = (w', Ok m) ->
  exists w6 rn', closure w6 rn' rv = Some (m_nodes m, m_vars m) /\
                 model_init cf topo copy w6 (m_nodes m) (m_vars m) = (w', Ok m).
Proof.
  intros s cf pf topo copy w rn rv w' m H. unfold build, bind_closure in H.
  repeat match type of H with
         | match ?c with _ => _ end = _ => destruct c eqn:?
         | (if ?c then _ else _) = _ => destruct c eqn:?
         end; try discriminate.
  match goal with
  | Hc : closure ?w6 ?rn6 rv = Some (?ns, ?vs), Hm : model_init _ _ _ ?w6 ?ns ?vs = _ |- _ =>
    pose proof (model_init_ok _ _ _ _ _ _ _ _ Hm) as [Em _]; subst m; exists w6, rn6; split; [exact Hc|exact Hm]
  end.
Qed.

Lemma name_of_wire : forall w ns i, name_of (wire w ns) i = name_of w i.
Proof.
  intros. unfold name_of. rewrite getn_wire. destruct (memn i ns); [|reflexivity].
  destruct (getn w i); reflexivity.
Qed.

Lemma fold_setn_length : forall (g : nid -> pnode -> pnode) l w0,
  List.length (w_nodes (fold_left (fun w' i => setn w' i (g i)) l w0)) = List.length (w_nodes w0).
Proof.
  intros g l; induction l as [|i l IH]; intros w0; [reflexivity|].
  cbn [fold_left]. rewrite IH. cbn. apply update_length.
Qed.

Lemma fold_setn_vars : forall (g : nid -> pnode -> pnode) l w0,
  w_vars (fold_left (fun w' i => setn w' i (g i)) l w0) = w_vars w0.
Proof.
  intros g l; induction l as [|i l IH]; intros w0; [reflexivity|].
  cbn [fold_left]. now rewrite IH.
Qed.

(* [wv] is the world in which the model's nodes are wired: the result world, or the copies for copy=True *)
Theorem build_ok_spec : forall s cf pf topo copy w rn rv w' m,
  build s cf pf topo copy w rn rv = (w', Ok m) ->
  let wv := copied_world copy w' m in
  NoDup (m_nodes m) /\ NoDup (m_vars m) /\
  NoDup (map (name_of wv) (m_nodes m)) /\
  NoDup (map (vname_of wv) (m_vars m)) /\
  (forall i a, In i (m_nodes m) -> In a (ins_of wv i) -> In a (m_nodes m)) /\
  (forall i v, In i (m_nodes m) -> var_of wv i = Some v -> In v (m_vars m)) /\
  (forall i j, In i (m_nodes m) -> i < List.length (w_nodes wv) ->
               (In j (outs_of wv i) <-> In j (m_nodes m) /\ In i (ins_of wv j))) /\
  (forall i, In i (m_nodes m) -> i < List.length (w_nodes wv) -> inmodel_of wv i = true) /\
  exists order, is_topo wv (m_nodes m) order = true.
Proof.
  intros s cf pf topo copy w rn rv w' m H wv.
  destruct (build_ok_inv _ _ _ _ _ _ _ _ _ _ H) as [w6 [rn' [Hc Hm]]].
  destruct (closure_complete _ _ _ _ _ Hc) as [Nn [Nv [Rn Rv]]].
  destruct (model_init_ok _ _ _ _ _ _ _ _ Hm) as [_ [Ew [Dn [Dv [_ [_ [order [_ Ho]]]]]]]].
  assert (Ewv : wv = wire w6 (m_nodes m)).
  { unfold wv, copied_world. destruct copy; now subst w'. }
  clearbody wv. subst wv.
  assert (L : List.length (w_nodes (wire w6 (m_nodes m))) = List.length (w_nodes w6)).
  { unfold wire. apply (fold_setn_length (fun i n => set_inmodel true (set_outs (outs_in w6 (m_nodes m) i) n))). }
  assert (Ei : forall i, ins_of (wire w6 (m_nodes m)) i = ins_of w6 i) by (intros; apply ins_of_wire).
  assert (Ev : forall i, var_of (wire w6 (m_nodes m)) i = var_of w6 i).
  { intros i. unfold var_of. rewrite getn_wire. destruct (memn i (m_nodes m)); [|reflexivity].
    destruct (getn w6 i); reflexivity. }
  split; [assumption|]. split; [assumption|].
  split. { erewrite map_ext; [exact Dn|]. intros; apply name_of_wire. }
  split.
  { erewrite map_ext; [exact Dv|]. intros v. unfold vname_of, getv, wire.
    now rewrite (fold_setn_vars (fun i n => set_inmodel true (set_outs (outs_in w6 (m_nodes m) i) n))). }
  split.
  { intros i a Hi Ha. rewrite Ei in Ha. apply Rn. apply Rn in Hi. eapply reach_succ; [exact Hi|now apply in_succs_ins]. }
  split.
  { intros i v Hi Hv. rewrite Ev in Hv. apply Rv. exists i. split; [now apply Rn|assumption]. }
  split.
  { intros i j Hi Hlt. apply outputs_inverse; [assumption|]. now rewrite <- L. }
  split.
  { intros i Hi Hlt. apply wire_sets_model; [assumption|]. now rewrite <- L. }
  exists order. unfold is_topo in *.
  apply andb_true_iff in Ho as [Ho1 Ho2]. apply andb_true_iff. split; [assumption|].
  clear - Ho2. generalize dependent (@nil nid). induction order as [|n r IH]; intros seen Hs; [reflexivity|].
  cbn in *. apply andb_true_iff in Hs as [Hs1 Hs2]. apply andb_true_iff. split; [|now apply IH].
  now rewrite ins_of_wire.
Qed.

(* copy=True: Model.__init__ does not touch the originals at all - in particular not the nodes of a
   live model that were handed to the builder *)
Theorem model_init_copy_keeps_originals : forall cf topo w ns vs w' r,
  model_init cf topo true w ns vs = (w', r) -> w' = w.
Proof.
  intros cf topo w ns vs w' r H. unfold model_init in H. cbn [negb andb] in H.
  repeat match type of H with
         | (if ?c then _ else _) = _ => destruct c
         | match ?c with _ => _ end = _ => destruct c
         end; inversion H; reflexivity.
Qed.

(* satisfiability of the hypotheses on concrete objects *)
Example closure_example : closure ex_seeded [] [0] = Some ([2; 1; 0], [0]).
Proof. vm_compute. reflexivity. Qed.

Example build_example :
  match build true true true naive_topo false ex_seeded [] [0] with
  | (w', Ok m) => map (name_of w') (m_nodes m) =
                  ["x_var_value"; "s"; "_model_s_seed"; "a"; "_model_log_prob"; "_model_log_prior"; "_model_log_lik"]%string
  | _ => False
  end.
Proof. vm_compute. reflexivity. Qed.

Example cycle_example :
  let w := mkW [mkN "a" [1] [] None None false false false [] []; mkN "b" [0] [] None None false false false [] []] [] [] in
  path w 0 0 /\ snd (build true true true naive_topo false w [0] []) = Err Cycle.
Proof.
  split.
  - eapply path_step with (b := 1); [cbn; auto|]. apply path_one. cbn. auto.
  - vm_compute. reflexivity.
Qed.

Example frozen_example :
  match build true true true naive_topo false ex_seeded [] [0] with
  | (w', Ok m) => mutate true w' (TNode 1) (MSetName "t") = (w', Err Frozen) /\ mutate true w' (TVar 0) (MSetName "t") = (w', Err Frozen)
  | _ => False
  end.
Proof. vm_compute. split; reflexivity. Qed.

Example names_example :
  let w := mkW [mkN "n0" [] [] None None false false false [] []; mkN "" [] [] None None false false false [] [];
                mkN "" [0; 1] [] None None false false false [] []] [] [] in
  option_map (fun w' => map (name_of w') [2; 1; 0]) (set_missing_names true w [2; 1; 0] []) = Some ["n1"; "n2"; "n0"]%string.
Proof. vm_compute. reflexivity. Qed.

(* ------------------------------------------------------------------------------------------ *)
(* Var.name and the VarValue proxy (defect F10, repaired by 66a7abc)                           *)
Lemma name_of_setv : forall w v f i, name_of (setv w v f) i = name_of w i.
Proof. reflexivity. Qed.

Lemma name_of_setn_other : forall w i s j, i <> j -> name_of (setn w i (set_name s)) j = name_of w j.
Proof. intros w i s j H. rewrite name_of_setn_name. apply Nat.eqb_neq in H. now rewrite H. Qed.

Lemma name_of_setn_same : forall w i s, i < List.length (w_nodes w) -> name_of (setn w i (set_name s)) i = s.
Proof.
  intros w i s H. rewrite name_of_setn_name, Nat.eqb_refl. destruct (getn w i) eqn:G; [reflexivity|].
  unfold getn in G. apply nth_error_None in G. lia.
Qed.

(* repaired code: naming a variable names its proxy whenever the proxy still carries the default name
   derived from the old variable name (or none) - whatever the name of the value node is *)
Theorem set_var_name_renames_proxy : forall w v pv nm,
  getv w v = Some pv -> nm <> ""%string ->
  v_value pv <> v_varvalue pv -> v_dist pv <> Some (v_varvalue pv) ->
  v_varvalue pv < List.length (w_nodes w) ->
  (name_of w (v_varvalue pv) = ""%string \/ name_of w (v_varvalue pv) = (v_name pv ++ "_var_value")%string) ->
  name_of (set_var_name true w v nm) (v_varvalue pv) = (nm ++ "_var_value")%string.
Proof.
  intros w v pv nm G Hnm Hvv Hd Hlt Hname. unfold set_var_name. rewrite G. rewrite name_of_setv.
  apply nonempty_true in Hnm. rewrite Hnm. cbn [andb].
  set (rv := (String.eqb (name_of w (v_value pv)) "" || String.eqb (name_of w (v_value pv)) (v_name pv ++ "_value")%string)%bool).
  set (w0 := if rv then setn w (v_value pv) (set_name (nm ++ "_value")%string) else w).
  assert (N0 : name_of w0 (v_varvalue pv) = name_of w (v_varvalue pv)).
  { unfold w0. destruct rv; [|reflexivity]. now apply name_of_setn_other. }
  assert (L0 : List.length (w_nodes w0) = List.length (w_nodes w)).
  { unfold w0. destruct rv; [|reflexivity]. cbn. apply update_length. }
  assert (C : (String.eqb (name_of w0 (v_varvalue pv)) "" || String.eqb (name_of w0 (v_varvalue pv)) (v_name pv ++ "_var_value")%string)%bool = true).
  { rewrite N0. apply orb_true_iff. destruct Hname as [H|H]; rewrite H; [left|right]; apply String.eqb_refl. }
  rewrite C.
  set (w1 := setn w0 (v_varvalue pv) (set_name (nm ++ "_var_value")%string)).
  assert (N1 : name_of w1 (v_varvalue pv) = (nm ++ "_var_value")%string).
  { unfold w1. apply name_of_setn_same. now rewrite L0. }
  destruct (v_dist pv) as [d|]; [|exact N1].
  match goal with |- context [if ?c then _ else _] => destruct c end; [|exact N1].
  rewrite name_of_setn_other; [exact N1|]. intro E. apply Hd. now subst.
Qed.

(* two unnamed variables whose value nodes carry their own names: own_a, own_b; both proxies are
   called "_var_value" by Var.__init__ *)
Definition ex_proxies : world :=
  mkW [mkN "own_a" [] [] None (Some 0) false false false [] [];
       mkN "own_b" [] [] None (Some 1) false false false [] [];
       mkN "_var_value" [0] [] None (Some 0) false false false [] [];
       mkN "_var_value" [1] [] None (Some 1) false false false [] []]
      [mkV "" 0 2 None false false [] false; mkV "" 1 3 None false false [] false] [].

Example unnamed_vars_named_values_example :
  match build true true true naive_topo false ex_proxies [] [0; 1] with
  | (w', Ok m) => map (vname_of w') (m_vars m) = ["v0"; "v1"]%string /\
                  In "v0_var_value"%string (map (name_of w') (m_nodes m)) /\
                  In "v1_var_value"%string (map (name_of w') (m_nodes m))
  | _ => False
  end.
Proof. vm_compute. split; [reflexivity|]. split; tauto. Qed.

(* code as found: the build of the same graph is rejected for duplicate node names although the only
   repeated name is the constructor-given "_var_value" *)
Theorem unnamed_vars_named_values_refuted :
  exists w rv,
    NoDup (filter (fun s => negb (String.eqb s "_var_value")) (map n_name (w_nodes w))) /\
    snd (build true true false naive_topo false w [] rv) = Err DupNode /\
    is_ok (snd (build true true true naive_topo false w [] rv)) = true.
Proof.
  exists ex_proxies, [0; 1]. split; [|split; vm_compute; reflexivity].
  cbn. repeat constructor; cbn; intuition discriminate.
Qed.

(* copy=True from the nodes of a LIVE model (a -> b -> c, built): accepted, and the live model keeps its
   outputs and its nodes *)
Example copy_build_from_live_model_example :
  match build true true true naive_topo false ex_chain [2] [] with
  | (w1, Ok m1) =>
    match build true true true naive_topo true w1 [2] [] with
    | (w2, Ok m2) => map (getn w2) (m_nodes m1) = map (getn w1) (m_nodes m1) /\
                     map (outs_of w2) [0; 1; 2] = [[1]; [2]; []] /\
                     map (name_of w2) (m_nodes m2) = ["_model_log_prob"; "_model_log_prior"; "_model_log_lik"; "c"; "b"; "a"]%string
    | _ => False
    end
  | _ => False
  end.
Proof. vm_compute. repeat split; reflexivity. Qed.

(* ------------------------------------------------------------------------------------------ *)
(* reserved names: the build-time check and the pop / copy filter agree; seed names match the
   stripping pattern whatever the seeded node is called later                                  *)
Theorem build_accepts_pop_keeps : forall s, build_reserved s = false -> pop_dropped s = false.
Proof. intros s H. exact H. Qed.

Theorem pop_keeps_accepted_nodes : forall w m i,
  In i (m_nodes m) -> build_reserved (name_of w i) = false -> In i (popped_nodes w m).
Proof.
  intros w m i Hi Hr. unfold popped_nodes. apply filter_In. split; [assumption|].
  now rewrite (build_accepts_pop_keeps _ Hr).
Qed.

(* a narrower build-time check (prefix "_model_" only, seeded change C15-4) would accept names that pop
   and copy drop *)
Theorem narrow_reserved_check_refuted :
  exists s, prefix "_model_" s = false /\ pop_dropped s = true /\
            popped_nodes (mkW [mkN s [] [] None None false false true [] []] [] []) (mkM [0] []) = [].
Proof. exists "_modelled_mean"%string. vm_compute. auto. Qed.

Lemma list_ascii_app : forall a b,
  list_ascii_of_string (a ++ b)%string = list_ascii_of_string a ++ list_ascii_of_string b.
Proof. induction a as [|c a IH]; intros b; cbn; [reflexivity|]. now rewrite IH. Qed.

Lemma prefix_app_list : forall a b, prefix (string_of_list_ascii a) (string_of_list_ascii (a ++ b)) = true.
Proof.
  induction a as [|c a IH]; intros b; cbn.
  - destruct (string_of_list_ascii b); reflexivity.
  - destruct (ascii_dec c c) as [_|N]; [apply IH|now elim N].
Qed.

Lemma suffixb_app : forall x suf, suffixb suf (x ++ suf)%string = true.
Proof.
  intros x suf. unfold suffixb. rewrite list_ascii_app, rev_app_distr. apply prefix_app_list.
Qed.

Lemma prefix_append : forall a b, prefix a (a ++ b)%string = true.
Proof.
  induction a as [|c a IH]; intros b; cbn; [destruct b; reflexivity|].
  destruct (ascii_dec c c) as [_|N]; [apply IH|now elim N].
Qed.

Theorem seed_name_matches_pattern : forall nm, is_model_seed_name (seed_name_for nm) = true.
Proof.
  intros nm. unfold is_model_seed_name, seed_name_for. apply andb_true_iff. split.
  - apply prefix_append.
  - change (suffixb "_seed" (("_model_" ++ nm) ++ "_seed")%string = true). apply suffixb_app.
Qed.

(* the stale seed input of a free node is removed by the next build whatever the node is called now *)
Theorem strip_one_removes_stale_seed : forall w i n s nm,
  getn w i = Some n -> kw_find "seed" (n_kw n) = Some s -> n_inmodel n = false ->
  name_of w s = seed_name_for nm ->
  strip_one w i = setn w i (set_kw (kw_remove "seed" (n_kw n))).
Proof.
  intros w i n s nm G K M N. unfold strip_one. rewrite G, K, M, N.
  now rewrite seed_name_matches_pattern.
Qed.

(* build, pop, rename the seeded node (s -> t), rebuild: accepted, with a fresh seed node for the new
   name.  Matching the stale seed by the exact name f"_model_{node.name}_seed" instead of the pattern
   (seeded change C15-6) would keep it: the pattern holds, the exact comparison fails *)
Example rename_between_pop_and_rebuild_example :
  match build true true true naive_topo false ex_seeded [] [0] with
  | (w1, Ok m1) =>
    let w2 := fst (mutate true (pop w1 m1) (TNode 1) (MSetName "t")) in
    match build true true true naive_topo false w2 (popped_nodes w2 m1) (m_vars m1) with
    | (w3, Ok m3) => In "_model_t_seed"%string (map (name_of w3) (m_nodes m3)) /\
                     ~ In "_model_s_seed"%string (map (name_of w3) (m_nodes m3)) /\
                     is_model_seed_name "_model_s_seed" = true /\
                     String.eqb "_model_s_seed" (seed_name_for "t") = false
    | _ => False
    end
  | _ => False
  end.
Proof. vm_compute. repeat split; try tauto. intros H. repeat destruct H as [H|H]; try discriminate; exact H. Qed.

(* ------------------------------------------------------------------------------------------ *)
(* auto_transform: build_model transforms exactly the flagged variables and clears the flag on the
   ORIGINAL variable, so a second build over the same variables finds nothing to transform     *)
Lemma getv_setv : forall w v f u,
  getv (setv w v f) u = if Nat.eqb v u then option_map f (getv w u) else getv w u.
Proof. intros. unfold getv, setv. cbn. apply nth_update. Qed.

Lemma transform_default_flags : forall w v w',
  transform_default w v = (w', Ok tt) ->
  forall u, is_auto w' u = true -> u <> v /\ is_auto w u = true.
Proof.
  intros w v w' H u Hu. unfold transform_default in H.
  destruct (getv w v) as [pv|] eqn:G; [|discriminate].
  destruct (getn w (v_value pv)) as [vn|]; destruct (v_dist pv) as [d|]; try discriminate.
  destruct (getn w d) as [dn|]; [|discriminate].
  destruct (negb (strong_node vn)); [discriminate|].
  destruct (n_inmodel vn); [discriminate|].
  inversion H as [Hw]. clear H. subst w'.
  unfold is_auto in Hu. rewrite getv_setv in Hu.
  destruct (Nat.eqb v u) eqn:E.
  - exfalso. match type of Hu with context [option_map ?f ?o] => destruct o end; cbn in Hu; discriminate.
  - apply Nat.eqb_neq in E. split; [congruence|].
    unfold getv in Hu. cbn [w_vars] in Hu.
    unfold is_auto, getv.
    destruct (Nat.lt_ge_cases u (List.length (w_vars w))) as [L|L].
    + rewrite nth_error_app1 in Hu by exact L. exact Hu.
    + rewrite nth_error_app2 in Hu by exact L.
      destruct (u - List.length (w_vars w)) as [|k]; cbn in Hu; [discriminate|].
      destruct k; discriminate.
Qed.

Lemma auto_transform_all_flags : forall vs w w',
  auto_transform_all w vs = (w', Ok tt) ->
  forall u, is_auto w' u = true -> ~ In u vs /\ is_auto w u = true.
Proof.
  unfold auto_transform_all.
  induction vs as [|v r IH]; intros w w' H u Hu; cbn [fold_left] in H.
  - inversion H; subst. split; [intros []|assumption].
  - cbn [transform_step] in H. destruct (is_auto w v) eqn:A.
    + destruct (transform_default w v) as [w1 [[]|e]] eqn:T.
      * destruct (IH _ _ H u Hu) as [N1 A1].
        destruct (transform_default_flags _ _ _ T u A1) as [N2 A2].
        split; [|assumption]. intros [E|E]; [now subst|now apply N1].
      * exfalso. clear - H. induction r as [|x r IHr]; cbn in H; [discriminate|now apply IHr].
    + destruct (IH _ _ H u Hu) as [N1 A1]. split; [|assumption].
      intros [E|E]; [subst; congruence|now apply N1].
Qed.

(* after the transforms no variable of the list carries the flag any more ... *)
Theorem auto_transform_clears_flags : forall w vs w',
  auto_transform_all w vs = (w', Ok tt) -> forall v, In v vs -> is_auto w' v = false.
Proof.
  intros w vs w' H v Hv. destruct (is_auto w' v) eqn:A; [|reflexivity].
  destruct (auto_transform_all_flags _ _ _ H v A) as [N _]. contradiction.
Qed.

(* ... and no new flag appears anywhere (in particular not on the new transformed variables) *)
Theorem auto_transform_no_new_flags : forall w vs w',
  auto_transform_all w vs = (w', Ok tt) -> forall u, is_auto w' u = true -> is_auto w u = true.
Proof. intros w vs w' H u A. now destruct (auto_transform_all_flags _ _ _ H u A). Qed.

(* a build over variables without the flag transforms nothing: the second build of a round trip *)
Theorem auto_transform_noop : forall vs w,
  (forall v, In v vs -> is_auto w v = false) -> auto_transform_all w vs = (w, Ok tt).
Proof.
  unfold auto_transform_all. induction vs as [|v r IH]; intros w H; [reflexivity|].
  cbn [fold_left transform_step]. rewrite (H v (or_introl eq_refl)). apply IH.
  intros u Hu. apply H. now right.
Qed.

(* rate = Value, scale ~ Dist(rate) with auto_transform, proxy *)
Definition ex_auto : world :=
  mkW [mkN "rate" [] [] None None false false false [] [];
       mkN "scale_value" [] [] None (Some 0) false false false [] [];
       mkN "scale_var_value" [1] [] None (Some 0) false false false [] [];
       mkN "scale_log_prob" [0] [] (Some 2) (Some 0) false true false [] []]
      [mkV "scale" 1 2 (Some 3) false true [] true] [].

Definition set_auto (b : bool) (p : pvar) : pvar :=
  mkV (v_name p) (v_value p) (v_varvalue p) (v_dist p) (v_obs p) (v_par p) (v_groups p) b.

(* build (transforms scale), pop, rebuild: accepted, same node and variable names, nothing transformed twice *)
Example auto_transform_round_trip_example :
  match build true true true naive_topo false ex_auto [] [0] with
  | (w1, Ok m1) =>
    map (vname_of w1) (m_vars m1) = ["scale"; "scale_transformed"]%string /\
    is_auto w1 0 = false /\ is_auto w1 1 = false /\
    match build true true true naive_topo false (pop w1 m1) (popped_nodes w1 m1) (m_vars m1) with
    | (w2, Ok m2) => List.length (m_nodes m2) = List.length (m_nodes m1) /\
                     map (vname_of w2) (m_vars m2) = ["scale_transformed"; "scale"]%string /\
                     List.length (w_vars w2) = List.length (w_vars w1)
    | _ => False
    end
  | _ => False
  end.
Proof. vm_compute. repeat split; reflexivity. Qed.

(* the flag left on the original (and reset on the new variable instead: seeded change C15-9): the next
   build tries to transform the already transformed, now weak, variable *)
Theorem auto_flag_left_on_original_refuted :
  exists w v w1, transform_default w v = (w1, Ok tt) /\
    snd (transform_default (setv w1 v (set_auto true)) v) = Err BadTransform.
Proof. exists ex_auto, 0. eexists. split; [vm_compute; reflexivity|vm_compute; reflexivity]. Qed.
