(* C02 - model of the three model totals of a built liesel model
   (liesel/model/model.py: _reduced_sum, GraphBuilder._add_model_log_lik_node /
   _add_model_log_prior_node / _add_model_log_prob_node; liesel/model/nodes.py: Dist.update,
   TransientDist.value, NoDist.value, Var.has_dist / observed / parameter).

   Self-contained: the general cached-graph machine (C01) is not used.  A built model is seen
   here through its distribution nodes at the current values: every node that is an instance of
   [Dist] (this includes the subclasses TransientDist and NoDist), together with the flags of the
   variable it belongs to (if any) and the per-observation log-densities that
   [init_dist().log_prob(at.value)] returns at the current values.

   The nodes are those of the FINAL built graph: GraphBuilder.build_model first applies the pending
   auto-transforms (Var.auto_transform: the variable loses its distribution, `<name>_transformed`
   carries the transformed one), then names the nodes and only then wires the three totals; so a
   transformed variable's distribution node is among [nodes] and the detached original one is not.
   The log-density values are whatever the wrapped distribution object returns (jax.Array, NumPy
   array, Python float, any object with .sum): [reduce] mirrors `arg.sum() if hasattr(arg, "sum")`.
   "Current values" are the values the Value nodes show now, however they were assigned (fresh
   object, equal object, the same buffer modified in place).

   Numbers are rationals: the real code adds floats, the correspondence compares up to a
   rounding tolerance; the theorems are about the exact sums. *)
From Coq Require Import List QArith Bool.
Import ListNotations.
Open Scope Q_scope.

(* ---- values ------------------------------------------------------------------------------ *)
(* a stored node value: a 0-d scalar, or an array (flattened) *)
Inductive sval := Scalar (q : Q) | Arr (l : list Q).

(* Python's built-in sum(iterable): left fold starting from the int 0 *)
Definition pysum (l : list Q) : Q := fold_left Qplus l 0.

(* _reduced_sum:  reduced = (arg.sum() if hasattr(arg, "sum") else arg for arg in args);
                  return sum(reduced)
   A Scalar models both a 0-d array (whose .sum() is itself) and a plain Python float
   (no .sum attribute, taken as it is). *)
Definition reduce (v : sval) : Q :=
  match v with Scalar q => q | Arr l => pysum l end.
Definition reduced_sum (args : list sval) : Q := pysum (map reduce args).

(* ---- distribution nodes ------------------------------------------------------------------- *)
Inductive dkind := KDist | KTransientDist | KNoDist.

Record varinfo := mkVar { observed : bool; parameter : bool }.

Record dnode := mkD {
  kind : dkind;
  var : option varinfo;      (* Node.var : the Var this node is the dist_node of, if any *)
  per_obs : bool;            (* Dist.per_obs *)
  obs : sval                 (* init_dist().log_prob(at.value) at the current values: a 0-d result is a
                                Scalar, an array result is Arr (flattened) *)
}.

(* Dist.update / TransientDist.value:
     log_prob = self.init_dist().log_prob(self.at.value)
     if not self.per_obs and hasattr(log_prob, "sum"): log_prob = log_prob.sum()
   (the .sum() of a 0-d array is the same 0-d array)
   NoDist.value = 0.0 *)
Definition dist_value (po : bool) (logp : sval) : sval :=
  if po then logp else Scalar (reduce logp).

Definition stored (d : dnode) : sval :=
  match kind d with
  | KNoDist => Scalar 0
  | _ => dist_value (per_obs d) (obs d)
  end.

(* ---- selection predicates, as coded ---------------------------------------------------------- *)
(* _add_model_log_prob_node:  inputs = (n for n in nodes if isinstance(n, Dist))
   TransientDist and NoDist are subclasses of Dist, so every kind passes. *)
Definition isinstance_Dist (k : dkind) : bool :=
  match k with KDist => true | KTransientDist => true | KNoDist => true end.
Definition sel_prob (d : dnode) : bool := isinstance_Dist (kind d).

(* Var.has_dist = not isinstance(self._dist_node, NoDist) *)
Definition has_dist (d : dnode) : bool :=
  match kind d with KNoDist => false | _ => true end.

(* _add_model_log_lik_node:   inputs = (v.dist_node for v in _vars if v.has_dist and v.observed)
   _add_model_log_prior_node: inputs = (v.dist_node for v in _vars if v.has_dist and v.parameter)
   Seen from the distribution node: it is selected iff it belongs to a variable with the flag.
   A Dist without a variable is reached by neither loop. *)
Definition sel_lik (d : dnode) : bool :=
  match var d with Some v => has_dist d && observed v | None => false end.
Definition sel_prior (d : dnode) : bool :=
  match var d with Some v => has_dist d && parameter v | None => false end.

(* ---- a built model (what the three totals depend on) ---------------------------------------- *)
Record built := mkB {
  nodes : list dnode;               (* all nodes of the model that are instances of Dist *)
  user_lik : option sval;           (* value of GraphBuilder.log_lik_node, if the user set one *)
  user_prior : option sval;
  user_prob : option sval
}.

Definition computed_total (sel : dnode -> bool) (ns : list dnode) : sval :=
  Scalar (reduced_sum (map stored (filter sel ns))).

(* if self.log_xxx_node: add(TransientIdentity(self.log_xxx_node, _name="_model_log_xxx")); return
   else:                 add(Calc(_reduced_sum, *inputs, _name="_model_log_xxx")) *)
Definition total (user : option sval) (sel : dnode -> bool) (ns : list dnode) : sval :=
  match user with Some v => v | None => computed_total sel ns end.

Definition model_log_prob (b : built) : sval := total (user_prob b) sel_prob (nodes b).
Definition model_log_lik (b : built) : sval := total (user_lik b) sel_lik (nodes b).
Definition model_log_prior (b : built) : sval := total (user_prior b) sel_prior (nodes b).

(* ---- specification side ------------------------------------------------------------------- *)
Definition qsum (l : list Q) : Q := fold_right Qplus 0 l.

(* the log-density of one distribution node at the current values: sum over its observations *)
Definition sval_total (v : sval) : Q :=
  match v with Scalar q => q | Arr l => qsum l end.
Definition node_logdens (d : dnode) : Q :=
  match kind d with KNoDist => 0 | _ => sval_total (obs d) end.

Definition is_observed (d : dnode) : bool :=
  match var d with Some v => observed v | None => false end.
Definition is_parameter (d : dnode) : bool :=
  match var d with Some v => parameter v | None => false end.

(* exactly one of observed / parameter *)
Definition one_role (d : dnode) : Prop :=
  exists v, var d = Some v /\ xorb (observed v) (parameter v) = true.
Definition one_role_b (d : dnode) : bool :=
  match var d with Some v => xorb (observed v) (parameter v) | None => false end.
Definition both_roles (d : dnode) : bool :=
  match var d with Some v => observed v && parameter v | None => false end.
Definition no_role (d : dnode) : bool :=
  match var d with Some v => negb (observed v) && negb (parameter v) | None => true end.

Definition no_user_nodes (b : built) : Prop :=
  user_lik b = None /\ user_prior b = None /\ user_prob b = None.

(* same node up to the per_obs switch *)
Definition same_but_per_obs (d d' : dnode) : Prop :=
  kind d = kind d' /\ var d = var d' /\ obs d = obs d'.

(* ---- the variable-centred view (how the code actually walks for log_lik / log_prior) ------- *)
(* a variable owns its _dist_node (possibly NoDist); Dist nodes without variable are listed apart *)
Record vrec := mkV { v_info : varinfo; v_kind : dkind; v_per_obs : bool; v_obs : sval }.
Record dfree := mkF { f_kind : dkind; f_per_obs : bool; f_obs : sval }.

Definition v_node (v : vrec) : dnode := mkD (v_kind v) (Some (v_info v)) (v_per_obs v) (v_obs v).
Definition f_node (f : dfree) : dnode := mkD (f_kind f) None (f_per_obs f) (f_obs f).
Definition v_has_dist (v : vrec) : bool := match v_kind v with KNoDist => false | _ => true end.

(* Var.nodes lists the dist node only if has_dist; so these are the Dist instances of the model *)
Definition nodes_of (vs : list vrec) (fs : list dfree) : list dnode :=
  map v_node (filter v_has_dist vs) ++ map f_node fs.

Definition var_view_lik (vs : list vrec) : sval :=
  Scalar (reduced_sum (map (fun v => stored (v_node v))
                           (filter (fun v => v_has_dist v && observed (v_info v)) vs))).
Definition var_view_prior (vs : list vrec) : sval :=
  Scalar (reduced_sum (map (fun v => stored (v_node v))
                           (filter (fun v => v_has_dist v && parameter (v_info v)) vs))).
