(* C02 on top of the cached-graph machine of C01 (Graph/Graph.v, Graph/GraphProofs.v).

   The `_model_log_prob` / `_model_log_lik` / `_model_log_prior` nodes of a built model are cached
   nodes (Calc) whose function is `_reduced_sum` over the selected distribution nodes, or - when the
   user supplied a node - a cached node whose function is the identity on that node
   (liesel/model/model.py: _add_model_log_*_node, _forward).  Node values are [sval]s.

   For every well-formed graph, every meaning of the other node functions and every history of the
   public operations: whenever such a node reports itself up to date, the value it holds (and that
   the model state carries, since the node is cached) is the reduced sum of the FROM-SCRATCH values
   of its inputs at the current values of the Value nodes, each input entering once per occurrence;
   the from-scratch value of a distribution node is its function (log-density, stored per
   observation or summed) applied to the from-scratch values of its own inputs (parameters and
   evaluation point). *)
From Coq Require Import List QArith Bool Arith Lia.
Import ListNotations.
From LV Require Import Graph.Graph Graph.GraphProofs Graph.LogProb Graph.LogProbProofs.
Open Scope nat_scope.

Section Bridge.
Variable F : Type.
Variable interp : F -> list sval -> sval.
Variable dflt : sval.
Variable g : graph F.
Hypothesis W : wf g.

(* meaning of the two function symbols the graph builder introduces *)
Definition means_reduced_sum (f : F) : Prop := forall vs, interp f vs = Scalar (reduced_sum vs).
Definition means_identity (f : F) : Prop := forall v, interp f [v] = v.

Definition reachable (ext0 : list sval) (ops : list (op sval)) : rstate sval :=
  run interp dflt g ops (init interp dflt g ext0).

Theorem total_node_is_sum (ext0 : list sval) (ops : list (op sval)) (k : nat) (n : node F) :
  let s := cur (reachable ext0 ops) in
  nth_error g k = Some n -> kd n = KCached -> means_reduced_sum (fs n) ->
  outdated g s k = false ->
  value interp dflt g s k = Scalar (reduced_sum (map (denote interp dflt g (vals s)) (ins n)))
  /\ getv dflt (vals s) k = value interp dflt g s k.
Proof.
  intros s E K M O.
  assert (Hk : k < length g) by (apply nth_error_Some; rewrite E; discriminate).
  pose proof (coherent_reachable sval F interp dflt g W ext0 ops k Hk O) as C.
  fold (reachable ext0 ops) in C. fold s in C.
  split.
  - rewrite C. rewrite (denote_unfold sval F interp dflt g W (vals s) k n E). rewrite K. apply M.
  - rewrite (value_unfold sval F interp dflt g W s k n E). rewrite K. reflexivity.
Qed.

(* the from-scratch value of a non-Value node (a distribution node in particular) is its function at
   the from-scratch values of its inputs *)
Theorem dist_node_from_scratch (ext : list sval) (d : nat) (nd : node F) :
  nth_error g d = Some nd -> kd nd <> KValue ->
  denote interp dflt g ext d = interp (fs nd) (map (denote interp dflt g ext) (ins nd)).
Proof.
  intros E K. rewrite (denote_unfold sval F interp dflt g W ext d nd E).
  destruct (kd nd); [contradiction|reflexivity|reflexivity].
Qed.

(* tie to the flat model of LogProb.v: if [ns] describes the distribution nodes of the graph at the
   current values (their from-scratch stored values are [stored]) and the total node's inputs are the
   selected ones, the value held by the graph node is the flat model's computed total *)
Theorem total_node_is_computed_total (ext0 : list sval) (ops : list (op sval)) (k : nat) (n : node F)
        (sel : dnode -> bool) (ns : list dnode) :
  let s := cur (reachable ext0 ops) in
  nth_error g k = Some n -> kd n = KCached -> means_reduced_sum (fs n) ->
  outdated g s k = false ->
  map (denote interp dflt g (vals s)) (ins n) = map stored (filter sel ns) ->
  value interp dflt g s k = computed_total sel ns.
Proof.
  intros s E K M O D.
  destruct (total_node_is_sum ext0 ops k n E K M O) as (V & _). fold s in V.
  rewrite V, D. reflexivity.
Qed.

(* a user-supplied node is forwarded unchanged, and the forwarded value is part of the state *)
Theorem forward_node_is_user_node (ext0 : list sval) (ops : list (op sval)) (k u : nat) (n : node F) :
  let s := cur (reachable ext0 ops) in
  nth_error g k = Some n -> kd n = KCached -> means_identity (fs n) -> ins n = [u] ->
  outdated g s k = false ->
  value interp dflt g s k = denote interp dflt g (vals s) u
  /\ getv dflt (vals s) k = value interp dflt g s k.
Proof.
  intros s E K M I O.
  assert (Hk : k < length g) by (apply nth_error_Some; rewrite E; discriminate).
  pose proof (coherent_reachable sval F interp dflt g W ext0 ops k Hk O) as C.
  fold (reachable ext0 ops) in C. fold s in C.
  split.
  - rewrite C. rewrite (denote_unfold sval F interp dflt g W (vals s) k n E). rewrite K, I. apply M.
  - rewrite (value_unfold sval F interp dflt g W s k n E). rewrite K. reflexivity.
Qed.

(* after model construction, a full update or an assignment with auto-update on, the totals are
   up to date (so the hypothesis [outdated = false] above holds) *)
Theorem total_clean_after_full_update (ext0 : list sval) (ops : list (op sval)) (o : op sval) (k : nat) :
  let rs := reachable ext0 ops in
  (o = Update [] \/ exists i v, o = Assign i v /\ auto (cur rs) = true) ->
  err (step interp dflt g rs o) = false ->
  k < length g ->
  outdated g (cur (st' (step interp dflt g rs o))) k = false.
Proof. intros rs H1 H2 H3. exact (full_update_clean_reach sval F interp dflt g W ext0 ops o H1 H2 k H3). Qed.

Theorem total_clean_after_init (ext0 : list sval) (k : nat) :
  k < length g -> outdated g (cur (init interp dflt g ext0)) k = false.
Proof. apply init_clean. exact W. Qed.

End Bridge.

(* ---- non-vacuity: a concrete 8-node model ------------------------------------------------------------
   0 mu (Value)   1 y (Value, vector)   2 mu_log_prob (Dist, prior of mu)   3 y_log_prob (Dist, per_obs)
   4 _model_log_lik = sum(3)   5 _model_log_prior = sum(2)   6 _model_log_prob = sum(2,3)
   The densities are stand-ins:  prior(mu) = -mu*mu,  lik_i = -(y_i - mu)^2. *)
Inductive xsym := XVal | XPrior | XLik | XSum.

Definition sq (q : Q) : Q := (q * q)%Q.
Definition xinterp (f : xsym) (vs : list sval) : sval :=
  match f, vs with
  | XPrior, [Scalar m] => Scalar (- sq m)%Q
  | XLik, [Scalar m; Arr ys] => Arr (map (fun y => - sq (y - m))%Q ys)
  | XSum, _ => Scalar (reduced_sum vs)
  | _, _ => Scalar 0%Q
  end.

Definition xg : graph xsym :=
  [ mkNode KValue [] XVal; mkNode KValue [] XVal;
    mkNode KCached [0%nat] XPrior; mkNode KCached [0%nat; 1%nat] XLik;
    mkNode KCached [3%nat] XSum; mkNode KCached [2%nat] XSum; mkNode KCached [2%nat; 3%nat] XSum ].

Definition xext0 : list sval := [Scalar 1%Q; Arr [2%Q; 3%Q]].
Definition xops : list (op sval) := [SetAuto false; Assign 0%nat (Scalar 2%Q); Update [6%nat]].

Lemma xg_wf : wf xg.
Proof. apply wfb_wf. reflexivity. Qed.

Lemma xsum_means : means_reduced_sum xsym xinterp XSum.
Proof. intros vs. reflexivity. Qed.

(* auto-update off, mu := 2, targeted update of _model_log_prob: the node is clean and holds
   -(2*2) + (-(2-2)^2 - (3-2)^2) = -5, while _model_log_lik (not a target) is still outdated *)
Example graph_example :
  let s := cur (reachable xsym xinterp (Scalar 0%Q) xg xext0 xops) in
  outdated xg s 6%nat = false
  /\ (reduce (value xinterp (Scalar 0%Q) xg s 6%nat) == -5)%Q
  /\ outdated xg s 4%nat = true.
Proof. cbv zeta. repeat split; vm_compute; reflexivity. Qed.

(* ---- the graph builder's step: appending the three total nodes -------------------------------------
   GraphBuilder.build_model calls _add_model_log_lik_node, _add_model_log_prior_node,
   _add_model_log_prob_node: three Calc(_reduced_sum, *inputs) nodes whose inputs are selected from
   the nodes / variables gathered so far - AFTER the auto-transform loop, i.e. [tg] below is the final
   user graph (with the `<name>_transformed` variables and their distribution nodes, without the
   detached original ones).  A node of the user's graph carries an optional tag
   "is an instance of Dist" with its class and the flags of its variable. *)
Section Builder.
Variable F : Type.
Variable fsum : F.

Record dtag := mkTag { g_kind : dkind; g_var : option varinfo }.
Record tnode := mkTN { tn : node F; ttag : option dtag }.

Definition tag_prob (t : dtag) : bool := isinstance_Dist (g_kind t).
Definition tag_has_dist (t : dtag) : bool := match g_kind t with KNoDist => false | _ => true end.
Definition tag_lik (t : dtag) : bool :=
  match g_var t with Some v => tag_has_dist t && observed v | None => false end.
Definition tag_prior (t : dtag) : bool :=
  match g_var t with Some v => tag_has_dist t && parameter v | None => false end.
Definition on_tag (p : dtag -> bool) (t : tnode) : bool :=
  match ttag t with Some x => p x | None => false end.

Fixpoint positions_from {A} (p : A -> bool) (i : nat) (l : list A) : list nat :=
  match l with
  | [] => []
  | a :: r => if p a then i :: positions_from p (S i) r else positions_from p (S i) r
  end.
Definition positions {A} (p : A -> bool) (l : list A) : list nat := positions_from p 0 l.

Definition total_node (p : dtag -> bool) (tg : list tnode) : node F :=
  mkNode KCached (positions (on_tag p) tg) fsum.

Definition with_totals (tg : list tnode) : graph F :=
  map tn tg ++ [total_node tag_lik tg; total_node tag_prior tg; total_node tag_prob tg].

Definition pos_lik (tg : list tnode) : nat := length tg.
Definition pos_prior (tg : list tnode) : nat := S (length tg).
Definition pos_prob (tg : list tnode) : nat := S (S (length tg)).

Lemma positions_from_spec {A} (p : A -> bool) (l : list A) : forall i k,
  In k (positions_from p i l) <-> exists a, i <= k /\ nth_error l (k - i) = Some a /\ p a = true.
Proof.
  induction l as [|a r IH]; intros i k; cbn [positions_from].
  - split; [intros []|]. intros (a & _ & E & _). destruct (k - i); discriminate.
  - assert (R : In k (positions_from p (S i) r) <->
               exists b, S i <= k /\ nth_error r (k - S i) = Some b /\ p b = true) by apply IH.
    destruct (p a) eqn:Pa.
    + cbn [In]. rewrite R. split.
      * intros [<-|(b & L & E & Pb)].
        -- exists a. rewrite Nat.sub_diag. repeat split; auto.
        -- exists b. repeat split; [lia| |exact Pb].
           replace (k - i) with (S (k - S i)) by lia. exact E.
      * intros (b & L & E & Pb). destruct (Nat.eq_dec i k) as [->|N]; [left; reflexivity|right].
        exists b. repeat split; [lia| |exact Pb].
        replace (k - i) with (S (k - S i)) in E by lia. exact E.
    + rewrite R. split.
      * intros (b & L & E & Pb). exists b. repeat split; [lia| |exact Pb].
        replace (k - i) with (S (k - S i)) by lia. exact E.
      * intros (b & L & E & Pb). destruct (Nat.eq_dec i k) as [->|N].
        -- rewrite Nat.sub_diag in E. cbn [nth_error] in E. inversion E. subst. congruence.
        -- exists b. repeat split; [lia| |exact Pb].
           replace (k - i) with (S (k - S i)) in E by lia. exact E.
Qed.

(* the inputs of a total node are exactly the selected positions ... *)
Lemma positions_spec {A} (p : A -> bool) (l : list A) (k : nat) :
  In k (positions p l) <-> exists a, nth_error l k = Some a /\ p a = true.
Proof.
  unfold positions. rewrite positions_from_spec. rewrite Nat.sub_0_r. split.
  - intros (a & _ & E & Pa). exists a. auto.
  - intros (a & E & Pa). exists a. repeat split; [lia|exact E|exact Pa].
Qed.

(* ... each exactly once *)
Lemma positions_from_NoDup {A} (p : A -> bool) (l : list A) : forall i, NoDup (positions_from p i l).
Proof.
  induction l as [|a r IH]; intros i; cbn [positions_from]; [constructor|].
  destruct (p a); [|apply IH]. constructor; [|apply IH].
  rewrite positions_from_spec. intros (b & L & _). lia.
Qed.

Lemma positions_NoDup {A} (p : A -> bool) (l : list A) : NoDup (positions p l).
Proof. apply positions_from_NoDup. Qed.

Lemma positions_lt {A} (p : A -> bool) (l : list A) (k : nat) : In k (positions p l) -> k < length l.
Proof.
  rewrite positions_spec. intros (a & E & _). apply nth_error_Some. rewrite E. discriminate.
Qed.

Lemma with_totals_nth_old (tg : list tnode) (k : nat) : k < length tg ->
  nth_error (with_totals tg) k = nth_error (map tn tg) k.
Proof. intros H. unfold with_totals. apply nth_error_app1. rewrite map_length. exact H. Qed.

Lemma with_totals_nth_new (tg : list tnode) (j : nat) :
  nth_error (with_totals tg) (length tg + j) =
  nth_error [total_node tag_lik tg; total_node tag_prior tg; total_node tag_prob tg] j.
Proof.
  unfold with_totals. rewrite nth_error_app2; rewrite map_length; [|lia].
  f_equal. lia.
Qed.

Theorem with_totals_wf (tg : list tnode) : wf (map tn tg) -> wf (with_totals tg).
Proof.
  intros W k n E. destruct (lt_dec k (length tg)) as [L|L].
  - rewrite (with_totals_nth_old tg k L) in E. exact (W k n E).
  - replace k with (length tg + (k - length tg)) in E by lia.
    rewrite with_totals_nth_new in E.
    assert (T : exists p, n = total_node p tg).
    { destruct (k - length tg) as [|[|[|j]]]; cbn in E;
        [injection E as <-; eexists; reflexivity ..|destruct j; discriminate]. }
    destruct T as (p & ->). split; [|discriminate].
    apply Forall_forall. intros i Hi. apply positions_lt in Hi. lia.
Qed.

Variable interp : F -> list sval -> sval.
Variable dflt : sval.

(* the built model's _model_log_prob: whenever it reports itself up to date it holds (in the model
   state) the reduced sum of the from-scratch values of ALL nodes that are instances of Dist, each
   exactly once; likewise _model_log_lik / _model_log_prior over the selected ones *)
Theorem built_totals (tg : list tnode) (ext0 : list sval) (ops : list (op sval)) :
  wf (map tn tg) -> means_reduced_sum F interp fsum ->
  let g := with_totals tg in
  let s := cur (run interp dflt g ops (init interp dflt g ext0)) in
  forall (p : dtag -> bool) (k : nat),
  (p = tag_lik /\ k = pos_lik tg) \/ (p = tag_prior /\ k = pos_prior tg) \/ (p = tag_prob /\ k = pos_prob tg) ->
  outdated g s k = false ->
  value interp dflt g s k
    = Scalar (reduced_sum (map (denote interp dflt g (vals s)) (positions (on_tag p) tg)))
  /\ getv dflt (vals s) k = value interp dflt g s k
  /\ NoDup (positions (on_tag p) tg)
  /\ (forall i, In i (positions (on_tag p) tg) <->
                exists t x, nth_error tg i = Some t /\ ttag t = Some x /\ p x = true).
Proof.
  intros W M g s p k Hk O.
  assert (E : nth_error g k = Some (total_node p tg)).
  { unfold g. destruct Hk as [(-> & ->)|[(-> & ->)|(-> & ->)]].
    - unfold pos_lik. rewrite <- (Nat.add_0_r (length tg)). rewrite with_totals_nth_new. reflexivity.
    - unfold pos_prior. replace (S (length tg)) with (length tg + 1) by lia.
      rewrite with_totals_nth_new. reflexivity.
    - unfold pos_prob. replace (S (S (length tg))) with (length tg + 2) by lia.
      rewrite with_totals_nth_new. reflexivity. }
  pose proof (with_totals_wf tg W) as Wg. fold g in Wg.
  destruct (total_node_is_sum F interp dflt g Wg ext0 ops k (total_node p tg) E eq_refl M O) as (V1 & V2).
  repeat split.
  - exact V1.
  - exact V2.
  - apply positions_NoDup.
  - rewrite positions_spec. intros (t & Et & Pt). unfold on_tag in Pt.
    destruct (ttag t) as [x|] eqn:Tx; [|discriminate]. exists t, x. auto.
  - intros (t & x & Et & Tx & Px). apply positions_spec. exists t. split; [exact Et|].
    unfold on_tag. rewrite Tx. exact Px.
Qed.

End Builder.

(* non-vacuity of [built_totals]: the concrete model above IS the builder's output on the tagged user
   graph (mu, y, prior of mu flagged parameter, likelihood of y flagged observed) *)
Definition xtg : list (tnode xsym) :=
  [ mkTN xsym (mkNode KValue [] XVal) None; mkTN xsym (mkNode KValue [] XVal) None;
    mkTN xsym (mkNode KCached [0%nat] XPrior) (Some (mkTag KDist (Some (mkVar false true))));
    mkTN xsym (mkNode KCached [0%nat; 1%nat] XLik) (Some (mkTag KDist (Some (mkVar true false)))) ].

Example builder_example :
  with_totals xsym XSum xtg = xg
  /\ wf (map (tn xsym) xtg)
  /\ positions (on_tag xsym tag_prob) xtg = [2%nat; 3%nat]
  /\ pos_prob xsym xtg = 6%nat.
Proof. split; [reflexivity|split; [apply wfb_wf; reflexivity|split; reflexivity]]. Qed.
