(* C02 on top of the cached-graph machine of C01 (Graph/Graph.v, Graph/GraphProofs.v).

   The `_model_log_prob` / `_model_log_lik` / `_model_log_prior` nodes of a built model are cached
   nodes (Calc) whose function is `_reduced_sum` over the selected distribution nodes, or - when the
   user supplied a node - a cached node whose function is the identity on that node
   (liesel/model/model.py: _add_model_log_*_node, _forward).  Node values are [sval]s.

   For every well-formed graph, every meaning of the other node functions and every history of the
   public operations: whenever such a node reports itself up to date, the value it holds (and that
   the model state carries, since the node is cached) is the reduced sum of the FROM-SCRATCH values
   of its inputs at the current values of the Value nodes, each input entering once per occurrence;
   the from-scratch value of a distribution node is its function (log-density, stored per
   observation or summed) applied to the from-scratch values of its own inputs (parameters and
   evaluation point). *)
From Coq Require Import List QArith Bool Arith Lia.
Import ListNotations.
From LV Require Import Graph.Graph Graph.GraphProofs Graph.LogProb Graph.LogProbProofs.
Open Scope nat_scope.

Section Bridge.
Variable F : Type.
Variable interp : F -> list sval -> sval.
Variable dflt : sval.
Variable g : graph F.
Hypothesis W : wf g.

(* meaning of the two function symbols the graph builder introduces *)
Definition means_reduced_sum (f : F) : Prop := forall vs, interp f vs = Scalar (reduced_sum vs).
Definition means_identity (f : F) : Prop := forall v, interp f [v] = v.

Definition reachable (ext0 : list sval) (ops : list (op sval)) : rstate sval :=
  run interp dflt g ops (init interp dflt g ext0).

Theorem total_node_is_sum (ext0 : list sval) (ops : list (op sval)) (k : nat) (n : node F) :
  let s := cur (reachable ext0 ops) in
  nth_error g k = Some n -> kd n = KCached -> means_reduced_sum (fs n) ->
  outdated g s k = false ->
  value interp dflt g s k = Scalar (reduced_sum (map (denote interp dflt g (vals s)) (ins n)))
  /\ getv dflt (vals s) k = value interp dflt g s k.
Proof.
  intros s E K M O.
  assert (Hk : k < length g) by (apply nth_error_Some; rewrite E; discriminate).
  pose proof (coherent_reachable sval F interp dflt g W ext0 ops k Hk O) as C.
  fold (reachable ext0 ops) in C. fold s in C.
  split.
  - rewrite C. rewrite (denote_unfold sval F interp dflt g W (vals s) k n E). rewrite K. apply M.
  - rewrite (value_unfold sval F interp dflt g W s k n E). rewrite K. reflexivity.
Qed.

(* the from-scratch value of a non-Value node (a distribution node in particular) is its function at
   the from-scratch values of its inputs *)
Theorem dist_node_from_scratch (ext : list sval) (d : nat) (nd : node F) :
  nth_error g d = Some nd -> kd nd <> KValue ->
  denote interp dflt g ext d = interp (fs nd) (map (denote interp dflt g ext) (ins nd)).
Proof.
  intros E K. rewrite (denote_unfold sval F interp dflt g W ext d nd E).
  destruct (kd nd); [contradiction|reflexivity|reflexivity].
Qed.

(* tie to the flat model of LogProb.v: if [ns] describes the distribution nodes of the graph at the
   current values (their from-scratch stored values are [stored]) and the total node's inputs are the
   selected ones, the value held by the graph node is the flat model's computed total *)
Theorem total_node_is_computed_total (ext0 : list sval) (ops : list (op sval)) (k : nat) (n : node F)
        (sel : dnode -> bool) (ns : list dnode) :
  let s := cur (reachable ext0 ops) in
  nth_error g k = Some n -> kd n = KCached -> means_reduced_sum (fs n) ->
  outdated g s k = false ->
  map (denote interp dflt g (vals s)) (ins n) = map stored (filter sel ns) ->
  value interp dflt g s k = computed_total sel ns.
Proof.
  intros s E K M O D.
  destruct (total_node_is_sum ext0 ops k n E K M O) as (V & _). fold s in V.
  rewrite V, D. reflexivity.
Qed.

(* a user-supplied node is forwarded unchanged, and the forwarded value is part of the state *)
Theorem forward_node_is_user_node (ext0 : list sval) (ops : list (op sval)) (k u : nat) (n : node F) :
  let s := cur (reachable ext0 ops) in
  nth_error g k = Some n -> kd n = KCached -> means_identity (fs n) -> ins n = [u] ->
  outdated g s k = false ->
  value interp dflt g s k = denote interp dflt g (vals s) u
  /\ getv dflt (vals s) k = value interp dflt g s k.
Proof.
  intros s E K M I O.
  assert (Hk : k < length g) by (apply nth_error_Some; rewrite E; discriminate).
  pose proof (coherent_reachable sval F interp dflt g W ext0 ops k Hk O) as C.
  fold (reachable ext0 ops) in C. fold s in C.
  split.
  - rewrite C. rewrite (denote_unfold sval F interp dflt g W (vals s) k n E). rewrite K, I. apply M.
  - rewrite (value_unfold sval F interp dflt g W s k n E). rewrite K. reflexivity.
Qed.

(* after model construction, a full update or an assignment with auto-update on, the totals are
   up to date (so the hypothesis [outdated = false] above holds) *)
Theorem total_clean_after_full_update (ext0 : list sval) (ops : list (op sval)) (o : op sval) (k : nat) :
  let rs := reachable ext0 ops in
  (o = Update [] \/ exists i v, o = Assign i v /\ auto (cur rs) = true) ->
  err (step interp dflt g rs o) = false ->
  k < length g ->
  outdated g (cur (st' (step interp dflt g rs o))) k = false.
Proof. intros rs H1 H2 H3. exact (full_update_clean_reach sval F interp dflt g W ext0 ops o H1 H2 k H3). Qed.

Theorem total_clean_after_init (ext0 : list sval) (k : nat) :
  k < length g -> outdated g (cur (init interp dflt g ext0)) k = false.
Proof. apply init_clean. exact W. Qed.

End Bridge.

(* ---- non-vacuity: a concrete 8-node model ------------------------------------------------------------
   0 mu (Value)   1 y (Value, vector)   2 mu_log_prob (Dist, prior of mu)   3 y_log_prob (Dist, per_obs)
   4 _model_log_lik = sum(3)   5 _model_log_prior = sum(2)   6 _model_log_prob = sum(2,3)
   The densities are stand-ins:  prior(mu) = -mu*mu,  lik_i = -(y_i - mu)^2. *)
Inductive xsym := XVal | XPrior | XLik | XSum.

Definition sq (q : Q) : Q := (q * q)%Q.
Definition xinterp (f : xsym) (vs : list sval) : sval :=
  match f, vs with
  | XPrior, [Scalar m] => Scalar (- sq m)%Q
  | XLik, [Scalar m; Arr ys] => Arr (map (fun y => - sq (y - m))%Q ys)
  | XSum, _ => Scalar (reduced_sum vs)
  | _, _ => Scalar 0%Q
  end.

Definition xg : graph xsym :=
  [ mkNode KValue [] XVal; mkNode KValue [] XVal;
    mkNode KCached [0%nat] XPrior; mkNode KCached [0%nat; 1%nat] XLik;
    mkNode KCached [3%nat] XSum; mkNode KCached [2%nat] XSum; mkNode KCached [2%nat; 3%nat] XSum ].

Definition xext0 : list sval := [Scalar 1%Q; Arr [2%Q; 3%Q]].
Definition xops : list (op sval) := [SetAuto false; Assign 0%nat (Scalar 2%Q); Update [6%nat]].

Lemma xg_wf : wf xg.
Proof. apply wfb_wf. reflexivity. Qed.

Lemma xsum_means : means_reduced_sum xsym xinterp XSum.
Proof. intros vs. reflexivity. Qed.

(* auto-update off, mu := 2, targeted update of _model_log_prob: the node is clean and holds
   -(2*2) + (-(2-2)^2 - (3-2)^2) = -5, while _model_log_lik (not a target) is still outdated *)
Example graph_example :
  let s := cur (reachable xsym xinterp (Scalar 0%Q) xg xext0 xops) in
  outdated xg s 6%nat = false
  /\ (reduce (value xinterp (Scalar 0%Q) xg s 6%nat) == -5)%Q
  /\ outdated xg s 4%nat = true.
Proof. cbv zeta. repeat split; vm_compute; reflexivity. Qed.
