(* Simulate.v - executable model of Model.simulate (liesel/model/model.py) on the cached-graph machine
   of Graph.v.  NO PROOFS IN THIS FILE (SimulateProofs.v has them; CorrC17.v is the Z-valued glue of the
   correspondence shards).

   The code (model.py, Model.simulate / Model._build_simulation_graph):

       dists = [node for node in self._simulation_nodes
                if isinstance(node, Dist) and node.at is not None
                and node.name not in skip and node.at.name not in skip
                and (node.var is not None and node.var.name not in skip)]
       seeds = jax.random.split(seed, len(dists))
       for dist, seed in zip(dists, seeds):
           input_names = [node.name for node in dist.all_input_nodes()]     # variant RefreshInputs only
           if input_names: self.update( *input_names )                       # (fix c4425c9)
           tfp_dist = dist.init_dist()               # reads  _input.value  of inputs and kwinputs
           ... sample_shape from the shape of dist.at.value ...
           value = tfp_dist.sample(sample_shape, seed)
           if isinstance(dist.at, VarValue): dist.at.inputs[0].value = value   # AttributeError -> raised
           else:                             dist.at.value = value

   Model.  A distribution node is described by a [dinfo]: its position, the positions of its
   parameter nodes (inputs, kwinputs), of its evaluation point [at], of the node that simulate assigns
   ([d_tgt] = at, or the input of at when at is a VarValue proxy), whether it belongs to a Var, the
   name ids that the skip test looks at, and its sampler symbol.  [sample f seed params cur] is the
   value drawn by sampler f from the seed, the parameter values and the value currently shown by [at]
   (the code uses the latter only through its shape); it is a Section variable (oracle for
   tfp's Distribution.sample), arbitrary in the theorems.  The per-distribution seeds
   (jax.random.split) are an input list; Python's zip = [combine].
   The order in which the distributions are visited (Model._simulation_nodes, a networkx topological
   sort of the simulation graph) is an input [order]; [order_ok] is what the theorems need of it and
   [sim_edges]/[sim_topo] describe the graph the code sorts (with and without the edges added by fix
   94cdd67).
   The code variant is the parameter [refresh]: RefreshInputs = the tree as repaired by c4425c9,
   NoRefresh = the tree before (defect F6).                                                        *)
From Coq Require Import List Bool Arith.
Import ListNotations.
From LV Require Import Graph.Graph.

Record dinfo (F : Type) := mkD {
  d_node : nat;            (* position of the Dist node *)
  d_params : list nat;     (* inputs then kwinputs (call order) *)
  d_at : nat;              (* Dist.at *)
  d_tgt : nat;             (* the node whose value simulate sets *)
  d_hasvar : bool;         (* node.var is not None *)
  d_names : list nat;      (* name ids of the Dist node, of at, and of the Var (if any) *)
  d_samp : F               (* sampler symbol *)
}.
Arguments mkD {F}.
Arguments d_node {F}.
Arguments d_params {F}.
Arguments d_at {F}.
Arguments d_tgt {F}.
Arguments d_hasvar {F}.
Arguments d_names {F}.
Arguments d_samp {F}.

Inductive refresh := NoRefresh | RefreshInputs.

Definition mem (x : nat) (l : list nat) : bool := existsb (Nat.eqb x) l.

(* the filter of Model.simulate *)
Definition selected {F} (skip : list nat) (d : dinfo F) : bool :=
  d_hasvar d && negb (existsb (fun nm => mem nm skip) (d_names d)).

Section Sim.
Variables (V F S : Type) (interp : F -> list V -> V) (dflt : V).
Variable sample : F -> S -> list V -> V -> V.

Notation dinfo := (dinfo F).

Section Impl.
Variable I : impl V F.
Variable rd : graph F -> mstate V -> list V.     (* table of node.value over all nodes *)

(* self.update( *names of dist.all_input_nodes() ): parameters and at; never empty *)
Definition refreshed (R : refresh) (g : graph F) (rs : rstate V) (d : dinfo) : rstate V :=
  match R with
  | NoRefresh => rs
  | RefreshInputs => st' (step_with I g rs (Update (d_params d ++ [d_at d])))
  end.

(* tfp_dist.sample(sample_shape, seed) on the values the inputs show now *)
Definition drawn (g : graph F) (s : mstate V) (d : dinfo) (sd : S) : V :=
  let tb := rd g s in
  sample (d_samp d) sd (map (getv dflt tb) (d_params d)) (getv dflt tb (d_at d)).

(* one distribution: refresh, draw, assign through the value setter (which honours auto_update and
   raises for nodes without a setter) *)
Definition draw1 (R : refresh) (g : graph F) (rs : rstate V) (d : dinfo) (sd : S) : outcome V :=
  let rs1 := refreshed R g rs d in
  step_with I g rs1 (Assign (d_tgt d) (drawn g (cur rs1) d sd)).

(* the loop; an exception ends it and leaves what was done so far *)
Fixpoint sim_loop (R : refresh) (g : graph F) (rs : rstate V) (ds : list (dinfo * S))
  : rstate V * bool :=
  match ds with
  | [] => (rs, false)
  | (d, sd) :: r =>
      let out := draw1 R g rs d sd in
      if err out then (st' out, true) else sim_loop R g (st' out) r
  end.

Definition simulate (R : refresh) (g : graph F) (rs : rstate V) (order : list dinfo)
           (skip : list nat) (seeds : list S) : rstate V * bool :=
  sim_loop R g rs (combine (filter (selected skip) order) seeds).

End Impl.

Definition sim_loop_lit := sim_loop (lit interp dflt) (values_all interp dflt).
Definition sim_loop_memo := sim_loop (memo interp dflt) (mvalues_all interp dflt).
Definition simulate_lit := simulate (lit interp dflt) (values_all interp dflt).
Definition simulate_memo := simulate (memo interp dflt) (mvalues_all interp dflt).

(* ---- specification: the joint ancestral sample, by recursion over the visited distributions, on
   from-scratch values ([ext] holds the values of the Value nodes; other positions are not read) ---- *)
Definition anc_draw (g : graph F) (ext : list V) (d : dinfo) (sd : S) : V :=
  sample (d_samp d) sd (map (denote interp dflt g ext) (d_params d)) (denote interp dflt g ext (d_at d)).
Definition anc1 (g : graph F) (ext : list V) (p : dinfo * S) : list V :=
  upd ext (d_tgt (fst p)) (anc_draw g ext (fst p) (snd p)).
Definition ancestral (g : graph F) (ext : list V) (ds : list (dinfo * S)) : list V :=
  fold_left (anc1 g) ds ext.

(* "every variable is drawn from its distribution evaluated at the newly drawn values of its
   ancestors": in the final values [fin] every visited variable holds the draw that its sampler makes
   from its seed and the from-scratch parameter values UNDER fin ([now] = the values when it was drawn,
   read only for the shape-giving current value of at) *)
Fixpoint joint (g : graph F) (ds : list (dinfo * S)) (now fin : list V) : Prop :=
  match ds with
  | [] => True
  | p :: r =>
      getv dflt fin (d_tgt (fst p))
      = sample (d_samp (fst p)) (snd p) (map (denote interp dflt g fin) (d_params (fst p)))
               (denote interp dflt g now (d_at (fst p)))
      /\ joint g r (anc1 g now p) fin
  end.

Fixpoint jointb (eqv : V -> V -> bool) (g : graph F) (ds : list (dinfo * S)) (now fin : list V) : bool :=
  match ds with
  | [] => true
  | p :: r =>
      eqv (getv dflt fin (d_tgt (fst p)))
          (sample (d_samp (fst p)) (snd p)
                  (map (getv dflt (den_tab interp dflt g fin)) (d_params (fst p)))
                  (getv dflt (den_tab interp dflt g now) (d_at (fst p))))
      && jointb eqv g r (anc1 g now p) fin
  end.

End Sim.

(* ---- what the theorems need of the visiting order ------------------------------------------------
   a variable drawn later (or the variable itself) is not an ancestor of a parameter of a distribution
   visited earlier; no variable is drawn twice *)
Fixpoint order_ok {F} (g : graph F) (act : list (dinfo F)) : Prop :=
  match act with
  | [] => True
  | d :: r =>
      (forall d', In d' (d :: r) -> forall p, In p (d_params d) -> reaches g (d_tgt d') p = false)
      /\ (forall d', In d' r -> d_tgt d' <> d_tgt d)
      /\ order_ok g r
  end.

Fixpoint order_okb {F} (g : graph F) (act : list (dinfo F)) : bool :=
  match act with
  | [] => true
  | d :: r =>
      forallb (fun d' => let rt := reach_tab g (d_tgt d') in
                         forallb (fun p => negb (getb rt p)) (d_params d)) (d :: r)
      && forallb (fun d' => negb (d_tgt d' =? d_tgt d)) r
      && order_okb g r
  end.

(* the description of a distribution fits the graph: the Dist node reads its parameters and then at;
   at is the assigned node itself or a transient node reading only it (VarValue proxy) *)
Definition nlist_eqb := fix eqb (l1 l2 : list nat) : bool :=
  match l1, l2 with
  | [], [] => true
  | x :: r1, y :: r2 => (x =? y) && eqb r1 r2
  | _, _ => false
  end.

Definition dinfo_okb {F} (g : graph F) (d : dinfo F) : bool :=
  match nth_error g (d_node d) with
  | Some n => nlist_eqb (ins n) (d_params d ++ [d_at d])
              && match kd n with KValue => false | _ => true end
  | None => false
  end
  && match nth_error g (d_at d) with
     | Some a => (d_tgt d =? d_at d)
                 || (match kd a with KTrans => true | _ => false end && nlist_eqb (ins a) [d_tgt d])
     | None => false
     end.

(* the assigned node has a value setter *)
Definition tgt_valueb {F} (g : graph F) (d : dinfo F) : bool :=
  match nth_error g (d_tgt d) with
  | Some n => match kd n with KValue => true | _ => false end
  | None => false
  end.

(* ---- the simulation graph that the code sorts (Model._build_simulation_graph) ---------------------
   every input edge i -> k, except that the edge at -> Dist is reversed; [extra = true] adds, for a
   Dist at a VarValue proxy, the edge Dist -> value node behind the proxy (fix 94cdd67; the code skips
   this edge when it would close a cycle, which does not happen for the hierarchical models the
   theorems are about).  [dists] lists ALL Dist nodes with an evaluation point. *)
Definition is_at {F} (dists : list (dinfo F)) (k i : nat) : bool :=
  existsb (fun d => (d_node d =? k) && (d_at d =? i)) dists.

Definition sim_edges {F} (extra : bool) (g : graph F) (dists : list (dinfo F)) : list (nat * nat) :=
  flat_map (fun kn => map (fun i => if is_at dists (fst kn) i then (fst kn, i) else (i, fst kn))
                          (ins (snd kn)))
           (combine (seq 0 (length g)) g)
  ++ (if extra then
        flat_map (fun d => if d_tgt d =? d_at d then [] else [(d_node d, d_tgt d)]) dists
      else []).

(* reachability along a list of edges, fuelled by the number of nodes *)
Fixpoint ereach (es : list (nat * nat)) (fuel : nat) (a b : nat) : bool :=
  (a =? b) ||
  match fuel with
  | 0 => false
  | S f => existsb (fun e => (fst e =? a) && ereach es f (snd e) b) es
  end.

(* the visited distributions come in an order that some topological order of the simulation graph
   induces: no edge path leads from a later one back to an earlier one *)
Fixpoint sim_topo (es : list (nat * nat)) (n : nat) (act : list nat) : Prop :=
  match act with
  | [] => True
  | a :: r => (forall b, In b r -> ereach es n b a = false) /\ sim_topo es n r
  end.
Fixpoint sim_topob (es : list (nat * nat)) (n : nat) (act : list nat) : bool :=
  match act with
  | [] => true
  | a :: r => forallb (fun b => negb (ereach es n b a)) r && sim_topob es n r
  end.

Arguments refreshed {V F}.
Arguments drawn {V F S}.
Arguments draw1 {V F S}.
Arguments sim_loop {V F S}.
Arguments simulate {V F S}.
Arguments sim_loop_lit {V F S}.
Arguments sim_loop_memo {V F S}.
Arguments simulate_lit {V F S}.
Arguments simulate_memo {V F S}.
Arguments anc_draw {V F S}.
Arguments anc1 {V F S}.
Arguments ancestral {V F S}.
Arguments joint {V F S}.
Arguments jointb {V F S}.

(* ---- shapes ----------------------------------------------------------------------------------------
       event_shape = tfp_dist.event_shape;  batch_shape = tfp_dist.batch_shape
       value_shape = jnp.asarray(dist.at.value).shape
       sample_index = len(value_shape) - len(batch_shape) - len(event_shape)
       sample_shape = value_shape[:sample_index]
       value = tfp_dist.sample(sample_shape, seed)
   where tfp_dist is the distribution object built (init_dist) from the parameter values read AFTER the
   inputs were brought up to date.  [tfp_sample] is the sampler of Section Sim decomposed accordingly:
   bshape f ps = batch shape of the distribution f built on the parameter values ps, eshape f = its event
   shape, draw f seed ps sh = tfp's sample(sh, seed). *)
Definition sample_shape (vs b e : list nat) : list nat := firstn (length vs - length b - length e) vs.

Section Shapes.
Variables (V F S : Type).
Variable shape_of : V -> list nat.
Variable bshape : F -> list V -> list nat.
Variable eshape : F -> list nat.
Variable draw : F -> S -> list V -> list nat -> V.

Definition tfp_sample (f : F) (sd : S) (ps : list V) (cur : V) : V :=
  draw f sd ps (sample_shape (shape_of cur) (bshape f ps) (eshape f)).

(* variant "hoisted" (seeded change C17-3): the sample shapes of all selected distributions are computed in
   a first loop, from the values the nodes show at entry (no refresh), the drawing loop refreshes the inputs
   and samples from the fresh distribution with the pre-computed shape *)
Section Hoisted.
Variables (interp : F -> list V -> V) (dflt : V).
Variable I : impl V F.
Variable rd : graph F -> mstate V -> list V.

Definition entry_sample_shape (g : graph F) (s : mstate V) (d : dinfo F) : list nat :=
  let tb := rd g s in
  sample_shape (shape_of (getv dflt tb (d_at d))) (bshape (d_samp d) (map (getv dflt tb) (d_params d)))
               (eshape (d_samp d)).

Fixpoint sim_loop_hoisted (g : graph F) (rs : rstate V) (ds : list (dinfo F * S * list nat))
  : rstate V * bool :=
  match ds with
  | [] => (rs, false)
  | (d, sd, sh) :: r =>
      let rs1 := refreshed I RefreshInputs g rs d in
      let tb := rd g (cur rs1) in
      let out := step_with I g rs1 (Assign (d_tgt d) (draw (d_samp d) sd (map (getv dflt tb) (d_params d)) sh)) in
      if err out then (st' out, true) else sim_loop_hoisted g (st' out) r
  end.

Definition simulate_hoisted (g : graph F) (rs : rstate V) (order : list (dinfo F)) (skip : list nat)
           (seeds : list S) : rstate V * bool :=
  let act := filter (selected skip) order in
  sim_loop_hoisted g rs (combine (combine act seeds) (map (entry_sample_shape g (cur rs)) act)).
End Hoisted.
End Shapes.

Arguments tfp_sample {V F S}.
Arguments entry_sample_shape {V F}.
Arguments sim_loop_hoisted {V F S}.
Arguments simulate_hoisted {V F S}.


(* Dist.update / the value a Dist node caches:  log_prob = init_dist().log_prob(at.value), summed up when
   per_obs is False.  Shape of the cached value for a current value of shape vs (ending in batch ++ event): *)
Definition logprob_shape (per_obs : bool) (vs e : list nat) : list nat :=
  if per_obs then firstn (length vs - length e) vs else [].
