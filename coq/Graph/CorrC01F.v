(* Executable glue for the C01 correspondence shards with raising node functions (GraphF.v).
   Function symbols: a symbol of CorrC01.v as it is, or one that RAISES when its result t satisfies
   t mod m = r (the harness wrapper raises for exactly these argument values).  The error value is an
   integer no node function produces; interpF is strict (an error argument gives an error).
   CorrC01.v / CorrC01X.v are left untouched. *)
From Coq Require Import List ZArith Bool Arith.
Import ListNotations.
From LV Require Import Base.ListAux Graph.Graph Graph.GraphX Graph.GraphF Graph.CorrC01.

Inductive ffsym := FPlain (f : fsym) | FRaise (f : fsym) (m r : Z).

Definition ERR : Z := (-1099511627776)%Z.
Definition isErrZ (v : Z) : bool := Z.eqb v ERR.

Definition interpF (f : ffsym) (args : list Z) : Z :=
  if existsb isErrZ args then ERR else
  match f with
  | FPlain f0 => interp f0 args
  | FRaise f0 m r => let t := interp f0 args in if Z.eqb (t mod m) r then ERR else t
  end.

Definition fgraph := graph ffsym.
Definition zfop := xop Z.

Record c01fcase := mkFCase {
  f_g : fgraph;
  f_ext0 : list Z;               (* value every node holds when the (last) build starts; only Value nodes matter *)
  f_outs : list (list nat);
  f_counted : list bool;
  f_init : obs;
  f_steps : list (zfop * obs)    (* o_err = the operation raised (before doing anything, or in mid-sweep) *)
}.

Definition fstate_agrees (g : fgraph) (s : mstate Z) (o : obs) : bool :=
  zlist_eqb (mvalues_all interpF 0%Z g s) (o_vals o) && blist_eqb (mflags_all g s) (o_flags o).

Fixpoint first_bad_f (g : fgraph) (cnt : list bool) (rs : rstate Z) (steps : list (zfop * obs)) (i : nat)
  : option nat :=
  match steps with
  | [] => None
  | (x, ob) :: r =>
      let out := mfstep interpF 0%Z isErrZ g rs x in
      if fstate_agrees g (cur (st' out)) ob
         && nlist_eqb (trace cnt (evald out)) (o_evald ob)
         && Bool.eqb (err out) (o_err ob)
      then first_bad_f g cnt (st' out) r (S i)
      else Some i
  end.

Definition outs_agree_f (g : fgraph) (os : list (list nat)) : bool :=
  list_eqb nlist_eqb (map (outs g) (seq 0 (length g))) os.

(* 0 = agrees; 1 = graph not well-formed; 2 = outputs differ; 3 = state after build differs (or the model's
   build raises); 4 + i = step i differs *)
Definition verdict_f (c : c01fcase) : nat :=
  if negb (wfb (f_g c)) then 1
  else if negb (outs_agree_f (f_g c) (f_outs c)) then 2
  else
    match mfinit interpF 0%Z isErrZ (f_g c) (f_ext0 c) with
    | None => 3
    | Some rs =>
        if negb (fstate_agrees (f_g c) (cur rs) (f_init c)) then 3
        else match first_bad_f (f_g c) (f_counted c) rs (f_steps c) 0 with
             | None => 0
             | Some i => 4 + i
             end
    end.

Definition agrees_f (c : c01fcase) : bool := Nat.eqb (verdict_f c) 0.

Fixpoint first_bad_lit_f (g : fgraph) (cnt : list bool) (rs : rstate Z) (steps : list (zfop * obs)) (i : nat)
  : option nat :=
  match steps with
  | [] => None
  | (x, ob) :: r =>
      let out := fstep interpF 0%Z isErrZ g rs x in
      if zlist_eqb (values_all interpF 0%Z g (cur (st' out))) (o_vals ob)
         && blist_eqb (flags_all g (cur (st' out))) (o_flags ob)
         && nlist_eqb (trace cnt (evald out)) (o_evald ob)
         && Bool.eqb (err out) (o_err ob)
      then first_bad_lit_f g cnt (st' out) r (S i)
      else Some i
  end.
Definition agrees_lit_f (c : c01fcase) : bool :=
  wfb (f_g c) &&
  match finit interpF 0%Z isErrZ (f_g c) (f_ext0 c) with
  | None => false
  | Some rs => match first_bad_lit_f (f_g c) (f_counted c) rs (f_steps c) 0 with
               | None => true | Some _ => false end
  end.
