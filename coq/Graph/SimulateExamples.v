(* Concrete witnesses for the C17 theorems (vm_compute on small nat-valued graphs).

   Graph A (a parent, a cached intermediate calculation reading the parent's proxy, a child):
       0 m   Value     hyper-parameter            5 y   Value     value node of Var y
       1 x   Value     value node of Var x        6 yv  Trans [5] proxy of y
       2 xv  Trans [1] proxy (VarValue) of x      7 dy  Cached [4; 6]  Dist of y: parameter c, at yv
       3 dx  Cached [0; 2]  Dist of x: parameter m, at xv
       4 c   Cached [2]     intermediate Calc of x
   Graph B = Graph A, except that c reads the value node of x directly (4 c Cached [1]).
   Graph C: a parameter computed from the log-probability node of another variable
       0 m  1 x  2 xv [1]  3 dx [0; 2]  4 d2 Cached [0; 2] (stand-alone Dist at xv)  5 c Cached [4]
       6 y  7 yv [6]  8 dy Cached [5; 7]                                                          *)
From Coq Require Import List Bool Arith Lia.
Import ListNotations.
From LV Require Import Graph.Graph Graph.GraphProofs Graph.Simulate Graph.SimulateProofs.

Definition exi (f : nat) (args : list nat) : nat := fold_left (fun acc a => 3 * acc + a) args f.
Definition exsample (f : nat) (sd : nat) (ps : list nat) (cur : nat) : nat := f + sd + 10 * fold_left Nat.add ps 0.

Definition gA : graph nat :=
  [ mkNode KValue [] 0; mkNode KValue [] 0; mkNode KTrans [1] 0; mkNode KCached [0; 2] 1;
    mkNode KCached [2] 2; mkNode KValue [] 0; mkNode KTrans [5] 0; mkNode KCached [4; 6] 3 ].
Definition gB : graph nat :=
  [ mkNode KValue [] 0; mkNode KValue [] 0; mkNode KTrans [1] 0; mkNode KCached [0; 2] 1;
    mkNode KCached [1] 2; mkNode KValue [] 0; mkNode KTrans [5] 0; mkNode KCached [4; 6] 3 ].
Definition DX : dinfo nat := mkD 3 [0] 2 1 true [3; 2; 8] 100.
Definition DY : dinfo nat := mkD 7 [4] 6 5 true [7; 6; 9] 200.
Definition ext0A : list nat := [1; 2; 0; 0; 0; 3; 0; 0].

Definition rsA_off := run exi 0 gA [SetAuto false] (init exi 0 gA ext0A).
Definition rsA_on := init exi 0 gA ext0A.
Definition rsB_on := init exi 0 gB ext0A.

Lemma gA_wf : wf gA. Proof. apply wfb_wf. reflexivity. Qed.
Lemma gB_wf : wf gB. Proof. apply wfb_wf. reflexivity. Qed.

Lemma rsA_off_RInv : RInv nat nat exi 0 gA rsA_off.
Proof. apply run_RInv; [exact gA_wf|]. apply init_RInv. exact gA_wf. Qed.

Lemma order_okb_ok {F} (g : graph F) (W : wf g) act : order_okb g act = true -> order_ok g act.
Proof.
  induction act as [|d r IH]; intros H; [exact I|].
  cbn [order_okb] in H. apply andb_true_iff in H. destruct H as [H H3].
  apply andb_true_iff in H. destruct H as [H1 H2]. cbn [order_ok]. split; [|split].
  - intros d' Hd' p Hp. rewrite forallb_forall in H1. specialize (H1 d' Hd').
    rewrite forallb_forall in H1. specialize (H1 p Hp). apply negb_true_iff in H1.
    destruct (Nat.lt_ge_cases p (length g)) as [Hlt|Hge].
    + rewrite (GraphMemo.reach_tab_lit F g W) in H1. unfold reach_lit, getb in H1.
      rewrite nth_map_seq in H1 by exact Hlt. exact H1.
    + apply reaches_none. apply nth_error_None. exact Hge.
  - intros d' Hd' Heq. rewrite forallb_forall in H2. specialize (H2 d' Hd').
    apply negb_true_iff, Nat.eqb_neq in H2. contradiction.
  - apply IH. exact H3.
Qed.

(* the hypotheses of simulate_spec hold of graph A, auto-update off, visiting order x, y *)
Lemma exA_hyps :
  let ds := combine (filter (selected []) [DX; DY]) [1; 2] in
  wf gA /\ RInv nat nat exi 0 gA rsA_off /\ auto (cur rsA_off) = false
  /\ Forall (dinfo_ok nat gA) (map fst ds) /\ Forall (tgt_value nat gA) (map fst ds)
  /\ order_ok gA (map fst ds) /\ ds <> [].
Proof.
  split; [exact gA_wf|]. split; [exact rsA_off_RInv|]. split; [reflexivity|].
  split; [|split; [|split]].
  - repeat constructor; apply (dinfo_okb_ok nat gA gA_wf); reflexivity.
  - repeat constructor; apply tgt_valueb_ok; reflexivity.
  - apply (order_okb_ok gA gA_wf). reflexivity.
  - discriminate.
Qed.

(* repaired variant: x is drawn, c is refreshed, y is drawn from the new c; a joint ancestral sample *)
Lemma exA_refresh :
  let r := simulate_lit exi 0 exsample RefreshInputs gA rsA_off [DX; DY] [] [1; 2] in
  snd r = false /\ getv 0 (vals (cur (fst r))) 1 = 111 /\ getv 0 (vals (cur (fst r))) 5 = 1372
  /\ denote exi 0 gA (vals (cur (fst r))) 4 = 117.
Proof. vm_compute. repeat split. Qed.

(* F6: variant as found (NoRefresh), auto-update off, an intermediate cached node between parent and
   child: all hypotheses of simulate_spec hold, but the child is drawn from the OLD parent-derived value
   (c = 8 from x = 2) although its parameter is 117 under the newly drawn parent *)
Theorem stale_witness :
  let ds := combine (filter (selected []) [DX; DY]) [1; 2] in
  let r := simulate_lit exi 0 exsample NoRefresh gA rsA_off [DX; DY] [] [1; 2] in
  snd r = false
  /\ getv 0 (vals (cur (fst r))) 5 = 282
  /\ ~ joint exi 0 exsample gA ds (vals (cur rsA_off)) (vals (cur (fst r))).
Proof.
  split; [reflexivity|]. split; [reflexivity|].
  intros [_ [H _]]. vm_compute in H. discriminate.
Qed.

(* with auto-update on (and nothing outdated) the variant as found draws the same values *)
Lemma exA_auto_on :
  simulate_lit exi 0 exsample NoRefresh gA rsA_on [DX; DY] [] [1; 2]
  = simulate_lit exi 0 exsample RefreshInputs gA rsA_on [DX; DY] [] [1; 2].
Proof. reflexivity. Qed.

(* skipping y by the name id of its proxy (6): only x is drawn, y keeps its value *)
Lemma exA_skip :
  let r := simulate_lit exi 0 exsample RefreshInputs gA rsA_off [DX; DY] [6] [1; 2] in
  snd r = false /\ getv 0 (vals (cur (fst r))) 1 = 111 /\ getv 0 (vals (cur (fst r))) 5 = 3.
Proof. vm_compute. repeat split. Qed.

(* ---- the simulation graph --------------------------------------------------------------------------- *)
Definition esB (extra : bool) := sim_edges extra gB [DX; DY].

(* 94cdd67: without the edge Dist -> value node the order y, x is a topological order of the simulation
   graph of graph B (c reads the value node of x directly), it is not a valid order, and simulate -
   repaired variant, auto-update on - draws y from the old x; with the edge the order y, x is excluded *)
Theorem order_witness :
  sim_topob (esB false) 10 [7; 3] = true
  /\ order_okb gB [DY; DX] = false
  /\ (let ds := combine [DY; DX] [1; 2] in
      let r := sim_loop_lit exi 0 exsample RefreshInputs gB rsB_on ds in
      snd r = false /\ ~ joint exi 0 exsample gB ds (vals (cur rsB_on)) (vals (cur (fst r))))
  /\ sim_topob (esB true) 10 [7; 3] = false
  /\ sim_topob (esB true) 10 [3; 7] = true
  /\ order_okb gB [DX; DY] = true.
Proof.
  split; [reflexivity|]. split; [reflexivity|]. split; [|repeat split].
  split; [reflexivity|]. intros [H _]. vm_compute in H. discriminate.
Qed.

(* a parameter computed from the log-probability node of another variable: the simulation graph of the
   code (with the 94cdd67 edges) does not order dx before dy *)
Definition gC : graph nat :=
  [ mkNode KValue [] 0; mkNode KValue [] 0; mkNode KTrans [1] 0; mkNode KCached [0; 2] 1;
    mkNode KCached [0; 2] 4; mkNode KCached [4] 2; mkNode KValue [] 0; mkNode KTrans [6] 0;
    mkNode KCached [5; 7] 3 ].
Definition CX : dinfo nat := mkD 3 [0] 2 1 true [3; 2; 9] 100.
Definition C2 : dinfo nat := mkD 4 [0] 2 1 false [4; 2] 0.
Definition CY : dinfo nat := mkD 8 [5] 7 6 true [8; 7; 10] 200.
Definition rsC_on := init exi 0 gC [1; 2; 0; 0; 0; 0; 3; 0; 0].

Theorem logprob_witness :
  wfb gC = true /\ forallb (dinfo_okb gC) [CX; C2; CY] = true
  /\ sim_topob (sim_edges true gC [CX; C2; CY]) 11 [8; 3] = true
  /\ order_okb gC [CY; CX] = false
  /\ (let ds := combine [CY; CX] [1; 2] in
      let r := sim_loop_lit exi 0 exsample RefreshInputs gC rsC_on ds in
      snd r = false /\ ~ joint exi 0 exsample gC ds (vals (cur rsC_on)) (vals (cur (fst r)))).
Proof.
  split; [reflexivity|]. split; [reflexivity|]. split; [reflexivity|]. split; [reflexivity|].
  split; [reflexivity|]. intros [H _]. vm_compute in H. discriminate.
Qed.

(* the hypotheses of sim_topo_order_ok hold of graph B with the code's simulation graph (94cdd67 edges)
   and the order x, y *)
Lemma exB_sim_hyps :
  let dists := [DX; DY] in let act := [DX; DY] in
  wf gB /\ forallb (dinfo_okb gB) dists = true
  /\ (forall d, In d act -> In d dists)
  /\ (forall d p, In d act -> In p (d_params d) -> p <> d_at d)
  /\ (forall d p q, In d act -> In p (d_params d) -> isdist nat dists q -> reaches gB q p = false)
  /\ (forall d p, In d act -> In p (d_params d) -> reaches gB (d_tgt d) p = false)
  /\ NoDup (map d_tgt act)
  /\ sim_topo (sim_edges true gB dists) (length gB + 2) (map d_node act).
Proof.
  cbv zeta. split; [exact gB_wf|]. split; [reflexivity|]. split; [auto|].
  split; [|split; [|split; [|split]]].
  - intros d p [<-|[<-|[]]] [<-|[]]; cbn; discriminate.
  - intros d p q Hd Hp [d0 [[<-|[<-|[]]] <-]]; destruct Hd as [<-|[<-|[]]]; destruct Hp as [<-|[]]; reflexivity.
  - intros d p [<-|[<-|[]]] [<-|[]]; reflexivity.
  - cbn. repeat constructor; cbn; intuition discriminate.
  - cbn [map sim_topo d_node DX DY]. split; [|split; [|exact I]].
    + intros b [<-|[]]. reflexivity.
    + intros b [].
Qed.

(* ---- shapes: values are their shapes -------------------------------------------------------------------
   V = list nat; a node function returns the shape of highest rank among its arguments (elementwise
   calculation / log-probability with broadcasting); batch shape of a distribution = that of its
   parameters, scalar events; tfp's sample(sh, seed) has shape sh ++ batch.
   Graph A, built on scalars; then auto-update off, x and y are assigned vectors of length 3 WITHOUT
   update: the cached calculation c between them still holds a scalar and is flagged outdated. *)
Definition shi (f : nat) (args : list (list nat)) : list nat :=
  fold_left (fun acc a => if length acc <? length a then a else acc) args [].
Definition sh_bshape (f : nat) (ps : list (list nat)) : list nat := shi f ps.
Definition sh_eshape (f : nat) : list nat := [].
Definition sh_draw (f : nat) (sd : nat) (ps : list (list nat)) (sh : list nat) : list nat :=
  sh ++ sh_bshape f ps ++ sh_eshape f.
Definition sh_id (v : list nat) : list nat := v.
Definition sh_sample := tfp_sample sh_id sh_bshape sh_eshape sh_draw.

Definition ext0S : list (list nat) := [[]; []; []; []; []; []; []; []].
Definition rsS_stale := run shi [] gA [SetAuto false; Assign 1 [3]; Assign 5 [3]] (init shi [] gA ext0S).
Definition rsS_fresh := run shi [] gA [SetAuto false; Assign 1 [3]; Assign 5 [3]; Update []] (init shi [] gA ext0S).

Lemma sh_draw_shape : forall f sd ps sh, sh_id (sh_draw f sd ps sh) = sh ++ sh_bshape f ps ++ sh_eshape f.
Proof. reflexivity. Qed.

Lemma rsS_stale_RInv : RInv (list nat) nat shi [] gA rsS_stale.
Proof. apply run_RInv; [exact gA_wf|]. apply init_RInv. exact gA_wf. Qed.

(* entry state: c (node 4) is outdated and still holds a scalar, x and y hold vectors of length 3 *)
Lemma exS_entry :
  flags_all gA (cur rsS_stale) = [false; false; false; true; true; false; false; true]
  /\ getv [] (vals (cur rsS_stale)) 4 = [] /\ getv [] (vals (cur rsS_stale)) 1 = [3]
  /\ getv [] (vals (cur rsS_stale)) 5 = [3].
Proof. vm_compute. repeat split. Qed.

(* the code (shapes from the refreshed distribution): x and y keep the shape (3,) *)
Lemma exS_kept :
  let r := simulate_lit shi [] sh_sample RefreshInputs gA rsS_stale [DX; DY] [] [0; 0] in
  snd r = false /\ getv [] (vals (cur (fst r))) 1 = [3] /\ getv [] (vals (cur (fst r))) 5 = [3].
Proof. vm_compute. repeat split. Qed.

(* hoisted sample shapes (seeded change C17-3): y goes from (3,) to (3, 3) on the stale entry state;
   on the updated entry state both variants agree *)
Theorem hoisted_witness :
  (let r := simulate_hoisted sh_id sh_bshape sh_eshape sh_draw [] (lit shi []) (values_all shi [])
                             gA rsS_stale [DX; DY] [] [0; 0] in
   snd r = false /\ getv [] (vals (cur (fst r))) 1 = [3] /\ getv [] (vals (cur (fst r))) 5 = [3; 3])
  /\ simulate_hoisted sh_id sh_bshape sh_eshape sh_draw [] (lit shi []) (values_all shi [])
                      gA rsS_fresh [DX; DY] [] [0; 0]
     = simulate_lit shi [] sh_sample RefreshInputs gA rsS_fresh [DX; DY] [] [0; 0].
Proof. vm_compute. repeat split. Qed.

(* the hypotheses of simulate_shapes hold of this entry state, including the compatibility premise of
   [shapes_kept] for both variables *)
Lemma exS_hyps :
  let ds := combine (filter (selected []) [DX; DY]) [0; 0] in
  wf gA /\ RInv (list nat) nat shi [] gA rsS_stale
  /\ (exists k, outdated gA (cur rsS_stale) k = true)
  /\ Forall (dinfo_ok nat gA) (map fst ds) /\ Forall (tgt_value nat gA) (map fst ds)
  /\ order_ok gA (map fst ds)
  /\ (forall f sd ps sh, sh_id (sh_draw f sd ps sh) = sh ++ sh_bshape f ps ++ sh_eshape f).
Proof.
  split; [exact gA_wf|]. split; [exact rsS_stale_RInv|]. split; [exists 4; reflexivity|].
  split; [|split; [|split]].
  - repeat constructor; apply (dinfo_okb_ok nat gA gA_wf); reflexivity.
  - repeat constructor; apply tgt_valueb_ok; reflexivity.
  - apply (order_okb_ok gA gA_wf). reflexivity.
  - exact sh_draw_shape.
Qed.
