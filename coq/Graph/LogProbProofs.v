(* C02 - proofs about the three model totals (model: Graph/LogProb.v).
   Everything is stated for ALL lists of distribution nodes, all flags, all per-observation values. *)
From Coq Require Import List QArith Bool Lia Lqa.
Import ListNotations.
From LV Require Import Graph.LogProb.
Open Scope Q_scope.

(* ---- sums ------------------------------------------------------------------------------------ *)
Lemma qsum_cons (x : Q) (l : list Q) : qsum (x :: l) = x + qsum l.
Proof. reflexivity. Qed.

Lemma fold_left_Qplus_acc (l : list Q) (a : Q) : fold_left Qplus l a == a + qsum l.
Proof.
  revert a. induction l as [|x l IH]; intros a; cbn [fold_left].
  - cbn. ring.
  - rewrite IH, qsum_cons. ring.
Qed.

Lemma pysum_qsum (l : list Q) : pysum l == qsum l.
Proof. unfold pysum. rewrite fold_left_Qplus_acc. ring. Qed.

Lemma qsum_app (a b : list Q) : qsum (a ++ b) == qsum a + qsum b.
Proof.
  induction a as [|x a IH]; cbn [app].
  - cbn. ring.
  - rewrite !qsum_cons, IH. ring.
Qed.

Lemma qsum_map_ext {A} (f g : A -> Q) (l : list A) :
  (forall d, In d l -> f d == g d) -> qsum (map f l) == qsum (map g l).
Proof.
  induction l as [|d l IH]; intros H; cbn [map].
  - reflexivity.
  - rewrite !qsum_cons. rewrite (H d (or_introl eq_refl)).
    rewrite IH; [reflexivity|]. intros e He. apply H. right. exact He.
Qed.

Lemma qsum_map_plus {A} (f g : A -> Q) (l : list A) :
  qsum (map (fun d => f d + g d) l) == qsum (map f l) + qsum (map g l).
Proof.
  induction l as [|d l IH]; cbn [map].
  - cbn. ring.
  - rewrite !qsum_cons. rewrite IH. ring.
Qed.

Lemma qsum_map_minus {A} (f g : A -> Q) (l : list A) :
  qsum (map (fun d => f d - g d) l) == qsum (map f l) - qsum (map g l).
Proof.
  induction l as [|d l IH]; cbn [map].
  - cbn. ring.
  - rewrite !qsum_cons. rewrite IH. ring.
Qed.

(* a filtered sum is the sum of the guarded terms *)
Lemma qsum_filter {A} (p : A -> bool) (f : A -> Q) (l : list A) :
  qsum (map f (filter p l)) == qsum (map (fun d => if p d then f d else 0) l).
Proof.
  induction l as [|d l IH]; cbn [filter map].
  - reflexivity.
  - rewrite qsum_cons. destruct (p d); cbn [map]; [rewrite qsum_cons|]; rewrite IH; ring.
Qed.

(* ---- one node ---------------------------------------------------------------------------------- *)
Lemma reduce_total (v : sval) : reduce v == sval_total v.
Proof. destruct v as [q|l]; cbn; [reflexivity|apply pysum_qsum]. Qed.

(* what a distribution node contributes to a total does not depend on per_obs (Leibniz equality) *)
Lemma reduce_dist_value (po : bool) (v : sval) : reduce (dist_value po v) = reduce v.
Proof. destruct po; reflexivity. Qed.

Lemma reduce_stored (d : dnode) : reduce (stored d) == node_logdens d.
Proof.
  unfold stored, node_logdens. destruct (kind d); try reflexivity;
    rewrite reduce_dist_value; apply reduce_total.
Qed.

Lemma reduced_sum_qsum (vs : list sval) : reduced_sum vs == qsum (map reduce vs).
Proof. unfold reduced_sum. apply pysum_qsum. Qed.

(* ---- the computed totals ------------------------------------------------------------------------- *)
Lemma computed_total_spec (sel : dnode -> bool) (ns : list dnode) :
  reduce (computed_total sel ns) == qsum (map node_logdens (filter sel ns)).
Proof.
  unfold computed_total. cbn [reduce]. rewrite reduced_sum_qsum, map_map.
  apply qsum_map_ext. intros d _. apply reduce_stored.
Qed.

Lemma computed_total_guarded (sel : dnode -> bool) (ns : list dnode) :
  reduce (computed_total sel ns) == qsum (map (fun d => if sel d then node_logdens d else 0) ns).
Proof. rewrite computed_total_spec. apply qsum_filter. Qed.

Lemma computed_total_scalar (sel : dnode -> bool) (ns : list dnode) :
  exists q, computed_total sel ns = Scalar q.
Proof. eexists. reflexivity. Qed.

(* the log-probability is the joint log-density: every distribution node enters exactly once *)
Theorem log_prob_is_joint (b : built) :
  user_prob b = None ->
  reduce (model_log_prob b) == qsum (map node_logdens (nodes b)).
Proof.
  intros U. unfold model_log_prob, total. rewrite U. rewrite computed_total_spec.
  assert (E : filter sel_prob (nodes b) = nodes b).
  { induction (nodes b) as [|d l IH]; cbn [filter]; [reflexivity|].
    unfold sel_prob at 1. destruct (kind d); cbn; f_equal; exact IH. }
  rewrite E. reflexivity.
Qed.

(* each distribution node enters the sum as often as it occurs in the model (positions of the list) *)
Theorem log_prob_each_once (b : built) :
  user_prob b = None ->
  model_log_prob b = Scalar (reduced_sum (map stored (nodes b))).
Proof.
  intros U. unfold model_log_prob, total, computed_total. rewrite U. do 3 f_equal.
  induction (nodes b) as [|d l IH]; cbn [filter]; [reflexivity|].
  unfold sel_prob at 1. destruct (kind d); cbn; f_equal; exact IH.
Qed.

Lemma nodist_zero (d : dnode) : has_dist d = false -> node_logdens d = 0.
Proof. unfold has_dist, node_logdens. destruct (kind d); intros H; try discriminate; reflexivity. Qed.

(* the log-likelihood / log-prior are the same sums restricted to observed / parameter variables *)
Theorem lik_selection (b : built) :
  user_lik b = None ->
  reduce (model_log_lik b) == qsum (map node_logdens (filter is_observed (nodes b))).
Proof.
  intros U. unfold model_log_lik, total. rewrite U. rewrite computed_total_guarded, qsum_filter.
  apply qsum_map_ext. intros d _. unfold sel_lik, is_observed.
  destruct (var d) as [v|]; [|reflexivity].
  destruct (has_dist d) eqn:H; cbn [andb]; [reflexivity|].
  rewrite (nodist_zero d H). destruct (observed v); reflexivity.
Qed.

Theorem prior_selection (b : built) :
  user_prior b = None ->
  reduce (model_log_prior b) == qsum (map node_logdens (filter is_parameter (nodes b))).
Proof.
  intros U. unfold model_log_prior, total. rewrite U. rewrite computed_total_guarded, qsum_filter.
  apply qsum_map_ext. intros d _. unfold sel_prior, is_parameter.
  destruct (var d) as [v|]; [|reflexivity].
  destruct (has_dist d) eqn:H; cbn [andb]; [reflexivity|].
  rewrite (nodist_zero d H). destruct (parameter v); reflexivity.
Qed.

(* ---- decomposition -------------------------------------------------------------------------------- *)
(* exact difference between log_prob and log_lik + log_prior, for every model without user nodes:
   the nodes counted by neither restricted sum, minus the nodes counted by both *)
Theorem decomposition_defect (b : built) :
  no_user_nodes b ->
  reduce (model_log_prob b) ==
    reduce (model_log_lik b) + reduce (model_log_prior b)
    + qsum (map node_logdens (filter no_role (nodes b)))
    - qsum (map node_logdens (filter both_roles (nodes b))).
Proof.
  intros (UL & UR & UP).
  rewrite (log_prob_is_joint b UP), (lik_selection b UL), (prior_selection b UR).
  rewrite !qsum_filter.
  rewrite <- !qsum_map_plus, <- qsum_map_minus.
  apply qsum_map_ext. intros d _.
  unfold is_observed, is_parameter, no_role, both_roles.
  destruct (var d) as [v|]; [|ring].
  destruct (observed v), (parameter v); cbn; ring.
Qed.

Lemma one_role_b_iff (d : dnode) : one_role d <-> one_role_b d = true.
Proof.
  unfold one_role, one_role_b. split.
  - intros (v & E & X). rewrite E. exact X.
  - destruct (var d) as [v|]; [|discriminate]. intros X. exists v. split; [reflexivity|exact X].
Qed.

Lemma filter_none {A} (p : A -> bool) (l : list A) :
  (forall d, In d l -> p d = false) -> filter p l = [].
Proof.
  induction l as [|d l IH]; intros H; cbn [filter]; [reflexivity|].
  rewrite (H d (or_introl eq_refl)). apply IH. intros e He. apply H. right. exact He.
Qed.

Theorem decomposition (b : built) :
  no_user_nodes b ->
  Forall one_role (nodes b) ->
  reduce (model_log_prob b) == reduce (model_log_lik b) + reduce (model_log_prior b).
Proof.
  intros U H. rewrite (decomposition_defect b U).
  rewrite Forall_forall in H.
  rewrite (filter_none no_role), (filter_none both_roles).
  - cbn. ring.
  - intros d Hd. destruct (H d Hd) as (v & E & X). unfold both_roles. rewrite E.
    destruct (observed v), (parameter v); try discriminate; reflexivity.
  - intros d Hd. destruct (H d Hd) as (v & E & X). unfold no_role. rewrite E.
    destruct (observed v), (parameter v); try discriminate; reflexivity.
Qed.

(* the totals computed by the code are Scalars, so the decomposition is an equation between them *)
Theorem decomposition_values (b : built) :
  no_user_nodes b -> Forall one_role (nodes b) ->
  exists p l r, model_log_prob b = Scalar p /\ model_log_lik b = Scalar l
                /\ model_log_prior b = Scalar r /\ p == l + r.
Proof.
  intros U H. pose proof (decomposition b U H) as D. destruct U as (UL & UR & UP).
  unfold model_log_prob, model_log_lik, model_log_prior, total in *.
  rewrite UL, UR, UP in *. unfold computed_total in *. cbn [reduce] in D.
  do 3 eexists. repeat split; try reflexivity. exact D.
Qed.

(* ---- the hypotheses of the decomposition are needed: counter-models -------------------------------- *)
Definition d_free : dnode := mkD KDist None true (Arr [(-1); (-2)]).
Definition d_both : dnode := mkD KDist (Some (mkVar true true)) true (Scalar (-3)).
Definition d_none : dnode := mkD KDist (Some (mkVar false false)) false (Arr [(-1 # 2)]).
Definition d_obs : dnode := mkD KDist (Some (mkVar true false)) true (Arr [(-1); (-5 # 4)]).
Definition d_par : dnode := mkD KTransientDist (Some (mkVar false true)) false (Arr [(-7 # 2)]).
Definition d_nod : dnode := mkD KNoDist (Some (mkVar false true)) true (Scalar 0).

Definition plain (ns : list dnode) : built := mkB ns None None None.

Theorem decomposition_needs_var :
  no_user_nodes (plain [d_obs; d_par; d_free]) /\
  ~ reduce (model_log_prob (plain [d_obs; d_par; d_free])) ==
    reduce (model_log_lik (plain [d_obs; d_par; d_free]))
    + reduce (model_log_prior (plain [d_obs; d_par; d_free])).
Proof. split; [repeat split|]. vm_compute. discriminate. Qed.

Theorem decomposition_needs_not_both :
  no_user_nodes (plain [d_obs; d_par; d_both]) /\
  ~ reduce (model_log_prob (plain [d_obs; d_par; d_both])) ==
    reduce (model_log_lik (plain [d_obs; d_par; d_both]))
    + reduce (model_log_prior (plain [d_obs; d_par; d_both])).
Proof. split; [repeat split|]. vm_compute. discriminate. Qed.

Theorem decomposition_needs_a_role :
  no_user_nodes (plain [d_obs; d_par; d_none]) /\
  ~ reduce (model_log_prob (plain [d_obs; d_par; d_none])) ==
    reduce (model_log_lik (plain [d_obs; d_par; d_none]))
    + reduce (model_log_prior (plain [d_obs; d_par; d_none])).
Proof. split; [repeat split|]. vm_compute. discriminate. Qed.

(* a user-supplied log-likelihood node replaces only that total: the log-probability is still the sum
   over all distribution nodes, so the decomposition is a statement about the computed totals *)
Theorem decomposition_needs_no_user_node :
  let b := mkB [d_obs; d_par] (Some (Scalar 1)) None None in
  Forall one_role (nodes b) /\
  ~ reduce (model_log_prob b) == reduce (model_log_lik b) + reduce (model_log_prior b).
Proof.
  cbv zeta. split.
  - repeat constructor; eexists; (split; [reflexivity|reflexivity]).
  - vm_compute. discriminate.
Qed.

(* hypotheses of [decomposition] are satisfiable on a non-trivial model (observed vector response,
   transient parameter prior stored summed, a variable without distribution) *)
Example decomposition_example :
  let b := plain [d_obs; d_par; d_nod] in
  no_user_nodes b /\ Forall one_role (nodes b) /\
  reduce (model_log_prob b) == -23 # 4 /\ reduce (model_log_lik b) == -9 # 4
  /\ reduce (model_log_prior b) == -7 # 2.
Proof.
  cbv zeta. split; [repeat split|]. split.
  - repeat constructor; eexists; (split; [reflexivity|reflexivity]).
  - repeat split; vm_compute; reflexivity.
Qed.

(* ---- per_obs ------------------------------------------------------------------------------------- *)
Lemma stored_per_obs (d d' : dnode) : same_but_per_obs d d' -> reduce (stored d) = reduce (stored d').
Proof.
  intros (K & _ & O). unfold stored. rewrite <- K, <- O.
  destruct (kind d); try reflexivity; rewrite !reduce_dist_value; reflexivity.
Qed.

Lemma sel_per_obs (d d' : dnode) : same_but_per_obs d d' ->
  sel_prob d = sel_prob d' /\ sel_lik d = sel_lik d' /\ sel_prior d = sel_prior d'.
Proof.
  intros (K & Vr & _). unfold sel_prob, sel_lik, sel_prior, has_dist. rewrite <- K, <- Vr. auto.
Qed.

Lemma computed_total_per_obs (sel : dnode -> bool) (ns ns' : list dnode) :
  Forall2 (fun d d' => same_but_per_obs d d' /\ sel d = sel d') ns ns' ->
  computed_total sel ns = computed_total sel ns'.
Proof.
  intros H. unfold computed_total, reduced_sum. do 2 f_equal.
  induction H as [|d d' l l' (S & E) _ IH]; cbn [filter]; [reflexivity|].
  rewrite <- E. destruct (sel d); cbn [map]; [|exact IH].
  rewrite (stored_per_obs d d' S). f_equal. exact IH.
Qed.

Lemma Forall2_weaken {A B} (P Q : A -> B -> Prop) (l : list A) (l' : list B) :
  (forall a b, P a b -> Q a b) -> Forall2 P l l' -> Forall2 Q l l'.
Proof. intros I H. induction H; constructor; auto. Qed.

(* storing any node's log-density per observation or summed changes none of the three totals *)
Theorem per_obs_irrelevant (ns ns' : list dnode) (ul ur up : option sval) :
  Forall2 same_but_per_obs ns ns' ->
  model_log_prob (mkB ns ul ur up) = model_log_prob (mkB ns' ul ur up)
  /\ model_log_lik (mkB ns ul ur up) = model_log_lik (mkB ns' ul ur up)
  /\ model_log_prior (mkB ns ul ur up) = model_log_prior (mkB ns' ul ur up).
Proof.
  intros H. unfold model_log_prob, model_log_lik, model_log_prior, total. cbn [nodes user_lik user_prior user_prob].
  repeat split.
  - destruct up; [reflexivity|]. apply computed_total_per_obs.
    eapply Forall2_weaken; [|exact H]. intros d d' S. split; [exact S|]. apply (sel_per_obs d d' S).
  - destruct ul; [reflexivity|]. apply computed_total_per_obs.
    eapply Forall2_weaken; [|exact H]. intros d d' S. split; [exact S|]. apply (sel_per_obs d d' S).
  - destruct ur; [reflexivity|]. apply computed_total_per_obs.
    eapply Forall2_weaken; [|exact H]. intros d d' S. split; [exact S|]. apply (sel_per_obs d d' S).
Qed.

Definition flip_per_obs (d : dnode) : dnode := mkD (kind d) (var d) (negb (per_obs d)) (obs d).

Lemma flip_same (ns : list dnode) (which : dnode -> bool) :
  Forall2 same_but_per_obs ns (map (fun d => if which d then flip_per_obs d else d) ns).
Proof.
  induction ns as [|d l IH]; cbn [map]; constructor; [|exact IH].
  destruct (which d); repeat split; reflexivity.
Qed.

(* non-vacuity: flipping per_obs really changes what the node stores, and still no total changes *)
Example per_obs_example :
  stored d_obs <> stored (flip_per_obs d_obs)
  /\ model_log_prob (plain [d_obs; d_par]) = model_log_prob (plain [flip_per_obs d_obs; flip_per_obs d_par]).
Proof. split; [vm_compute; discriminate|reflexivity]. Qed.

(* ---- user-supplied nodes ----------------------------------------------------------------------------- *)
(* a user node is forwarded unchanged (not reduced, not combined), and replaces only its own total *)
Theorem user_node_forwarded (ns : list dnode) (ul ur up : option sval) (v : sval) :
  (ul = Some v -> model_log_lik (mkB ns ul ur up) = v)
  /\ (ur = Some v -> model_log_prior (mkB ns ul ur up) = v)
  /\ (up = Some v -> model_log_prob (mkB ns ul ur up) = v).
Proof. repeat split; intros ->; reflexivity. Qed.

Theorem user_node_local (ns : list dnode) (ul ur up ul' ur' up' : option sval) :
  (up = None -> up' = None -> model_log_prob (mkB ns ul ur up) = model_log_prob (mkB ns ul' ur' up'))
  /\ (ul = None -> ul' = None -> model_log_lik (mkB ns ul ur up) = model_log_lik (mkB ns ul' ur' up'))
  /\ (ur = None -> ur' = None -> model_log_prior (mkB ns ul ur up) = model_log_prior (mkB ns ul' ur' up')).
Proof. repeat split; intros -> ->; reflexivity. Qed.

Example user_node_example :
  let b := mkB [d_obs; d_par] (Some (Arr [1; 2])) None (Some (Scalar 5)) in
  model_log_lik b = Arr [1; 2] /\ model_log_prob b = Scalar 5 /\ reduce (model_log_prior b) == -7 # 2.
Proof. cbv zeta. repeat split; vm_compute; reflexivity. Qed.

(* ---- variable-centred view = node-centred view -------------------------------------------------- *)
(* the code walks over the variables for log_lik / log_prior and over the nodes for log_prob *)
Lemma filter_map_comm {A B} (f : A -> B) (p : B -> bool) (l : list A) :
  filter p (map f l) = map f (filter (fun a => p (f a)) l).
Proof.
  induction l as [|a l IH]; cbn [map filter]; [reflexivity|].
  destruct (p (f a)); cbn [map]; rewrite IH; reflexivity.
Qed.

Lemma filter_filter {A} (p q : A -> bool) (l : list A) :
  filter p (filter q l) = filter (fun a => q a && p a) l.
Proof.
  induction l as [|a l IH]; cbn [filter]; [reflexivity|].
  destruct (q a); cbn [filter andb]; [destruct (p a)|]; rewrite IH; reflexivity.
Qed.

Theorem var_view_lik_ok (vs : list vrec) (fs : list dfree) :
  var_view_lik vs = computed_total sel_lik (nodes_of vs fs).
Proof.
  unfold var_view_lik, computed_total, nodes_of. do 2 f_equal.
  rewrite filter_app, map_app.
  rewrite (filter_none sel_lik (map f_node fs)).
  2:{ intros d Hd. apply in_map_iff in Hd. destruct Hd as (f & <- & _). reflexivity. }
  cbn [map]. rewrite app_nil_r.
  rewrite filter_map_comm, filter_filter, map_map.
  f_equal. apply filter_ext. intros v. unfold sel_lik, v_node, has_dist, v_has_dist. cbn.
  destruct (v_kind v); reflexivity.
Qed.

Theorem var_view_prior_ok (vs : list vrec) (fs : list dfree) :
  var_view_prior vs = computed_total sel_prior (nodes_of vs fs).
Proof.
  unfold var_view_prior, computed_total, nodes_of. do 2 f_equal.
  rewrite filter_app, map_app.
  rewrite (filter_none sel_prior (map f_node fs)).
  2:{ intros d Hd. apply in_map_iff in Hd. destruct Hd as (f & <- & _). reflexivity. }
  cbn [map]. rewrite app_nil_r.
  rewrite filter_map_comm, filter_filter, map_map.
  f_equal. apply filter_ext. intros v. unfold sel_prior, v_node, has_dist, v_has_dist. cbn.
  destruct (v_kind v); reflexivity.
Qed.
