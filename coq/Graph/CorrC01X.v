(* Executable glue for the C01 correspondence shards with extended histories (GraphX.xop: the operations
   of Graph.v plus the state setter on an edited snapshot).  Same observations and comparison as
   CorrC01.v, which is left untouched (other checks import it). *)
From Coq Require Import List ZArith Bool Arith.
Import ListNotations.
From LV Require Import Base.ListAux Graph.Graph Graph.GraphX Graph.CorrC01.

Definition zxop := xop Z.

Record c01xcase := mkXCase {
  x_g : zgraph;
  x_ext0 : list Z;
  x_outs : list (list nat);
  x_counted : list bool;
  x_init : obs;
  x_steps : list (zxop * obs)
}.

Fixpoint first_bad_x (g : zgraph) (cnt : list bool) (rs : rstate Z) (steps : list (zxop * obs)) (i : nat)
  : option nat :=
  match steps with
  | [] => None
  | (x, ob) :: r =>
      let out := mxstep interp 0%Z g rs x in
      if state_agrees g (cur (st' out)) ob
         && nlist_eqb (trace cnt (evald out)) (o_evald ob)
         && Bool.eqb (err out) (o_err ob)
      then first_bad_x g cnt (st' out) r (S i)
      else Some i
  end.

(* 0 = agrees; 1 = graph not well-formed; 2 = outputs differ; 3 = state after build differs;
   4 + i = step i differs *)
Definition verdict_x (c : c01xcase) : nat :=
  if negb (wfb (x_g c)) then 1
  else if negb (outs_agree (x_g c) (x_outs c)) then 2
  else
    let rs := minit interp 0%Z (x_g c) (x_ext0 c) in
    if negb (state_agrees (x_g c) (cur rs) (x_init c)) then 3
    else match first_bad_x (x_g c) (x_counted c) rs (x_steps c) 0 with
         | None => 0
         | Some i => 4 + i
         end.

Definition agrees_x (c : c01xcase) : bool := Nat.eqb (verdict_x c) 0.

Fixpoint first_bad_lit_x (g : zgraph) (cnt : list bool) (rs : rstate Z) (steps : list (zxop * obs)) (i : nat)
  : option nat :=
  match steps with
  | [] => None
  | (x, ob) :: r =>
      let out := xstep interp 0%Z g rs x in
      if zlist_eqb (values_all interp 0%Z g (cur (st' out))) (o_vals ob)
         && blist_eqb (flags_all g (cur (st' out))) (o_flags ob)
         && nlist_eqb (trace cnt (evald out)) (o_evald ob)
         && Bool.eqb (err out) (o_err ob)
      then first_bad_lit_x g cnt (st' out) r (S i)
      else Some i
  end.
Definition agrees_lit_x (c : c01xcase) : bool :=
  wfb (x_g c) &&
  match first_bad_lit_x (x_g c) (x_counted c) (init interp 0%Z (x_g c) (x_ext0 c)) (x_steps c) 0 with
  | None => true | Some _ => false end.
