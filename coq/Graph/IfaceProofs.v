(* IfaceProofs.v - proofs about the interface model Iface.v (literal instance of Graph.v). *)
From Coq Require Import List Bool Arith Lia.
Import ListNotations.
From LV Require Import Graph.Graph Graph.GraphProofs Graph.GraphMemo Graph.Iface.

Section P.
Variables (V F : Type) (interp : F -> list V -> V) (dflt : V).
Variable I : impl V F.

Lemma update_state_internal_irrel (g : graph F) nm (i1 i2 : mstate V) pos st :
  auto i1 = auto i2 -> update_state I g nm i1 pos st = update_state I g nm i2 pos st.
Proof. intros H. unfold update_state, restore. rewrite H. reflexivity. Qed.

End P.
