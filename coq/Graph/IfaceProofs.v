(* IfaceProofs.v - proofs about the interface model Iface.v (literal instance of Graph.v).

     update_state_internal_irrel   the private copy influences update_state only through its auto flag
     update_state_auto, run_calls_auto, history_independent     ... which no call changes: earlier calls
                                   cannot influence a later one (every state, every position)
     assign_all_err / update_state_raises_iff    when the call raises
     good_state                    the documented precondition: complete, coherent, no outdated flag
     is_scratch e r                r is the from-scratch state for the input values e
     update_state_spec             good state + valid keys: the result is_scratch (state inputs overlaid with
                                   the position), all flags false, and is again a good state
     scratch_view_unique           two from-scratch states for the same inputs show the same dict
     update_state_init / equals_direct / auto_irrelevant / update_extract / log_prob_spec
     extract_update                put-get, for every complete state
     update_state_memo_lit         what the shards run is the literal model
     flat laws                     dict / dataclass / named tuple overlays                              *)
From Coq Require Import List Bool Arith Lia.
Import ListNotations.
From LV Require Import Graph.Graph Graph.GraphProofs Graph.GraphMemo Graph.Iface.

Lemma upd_oob {A} (l : list A) k a : length l <= k -> upd l k a = l.
Proof.
  revert k; induction l as [|h t IH]; intros [|k] H; cbn in *; try reflexivity; try lia.
  f_equal. apply IH. lia.
Qed.

Lemma getb_repeat_false n k : getb (repeat false n) k = false.
Proof. unfold getb. apply nth_repeat. Qed.

Section P.
Variables (V F : Type) (interp : F -> list V -> V) (dflt : V).

Notation graph := (graph F).
Notation mstate := (mstate V).
Notation snap := (snap V).
Notation LIT := (lit interp dflt).
Notation MEMO := (memo interp dflt).
Notation value := (value interp dflt).
Notation denote := (denote interp dflt).
Notation getv := (getv dflt).
Notation sweep := (sweep_lit interp dflt).
Notation ustate := (update_state LIT).

Lemma getv_upd (e : list V) i v k :
  getv (upd e i v) k = if (k =? i) && (i <? length e) then v else getv e k.
Proof.
  unfold Graph.getv. destruct (Nat.eqb_spec k i) as [->|Hne]; cbn [andb].
  - destruct (Nat.ltb_spec i (length e)) as [Hl|Hl].
    + apply nth_upd_eq. exact Hl.
    + rewrite upd_oob by exact Hl. reflexivity.
  - apply nth_upd_neq. exact Hne.
Qed.

(* ---- the private copy matters only through its auto flag ----------------------------------------- *)
Lemma update_state_internal_irrel (I : impl V F) (g : graph) nm (i1 i2 : mstate) pos st :
  auto i1 = auto i2 -> update_state I g nm i1 pos st = update_state I g nm i2 pos st.
Proof. intros H. unfold update_state, restore. rewrite H. reflexivity. Qed.

(* ---- unconditional facts about the sweep ------------------------------------------------------------ *)
Lemma sweep_pres (g : graph) (P : mstate -> Prop) tgt :
  (forall s k v n, nth_error g k = Some n -> kd n = KCached -> P s -> P (set_node s k v)) ->
  forall s, P s -> P (fst (sweep g tgt s)).
Proof.
  intros H s Hs. unfold sweep_lit.
  assert (G : forall l st, P (fst st) -> P (fst (fold_left (sweep1 interp dflt g tgt) l st))).
  { induction l as [|k l IH]; intros st Hst; [exact Hst|]. cbn [fold_left]. apply IH.
    unfold sweep1. destruct (nth_error g k) as [n|] eqn:E; [|exact Hst].
    destruct (tgt k && outdated g (fst st) k); [|exact Hst].
    destruct (kd n) eqn:K; try exact Hst. cbn [fst]. apply (H _ _ _ n); auto. }
  apply G. exact Hs.
Qed.

Lemma sweep_auto (g : graph) tgt s : auto (fst (sweep g tgt s)) = auto s.
Proof. apply (sweep_pres g (fun x => auto x = auto s)); [|reflexivity]. intros; assumption. Qed.

Lemma sweep_vals_len (g : graph) tgt s : length (vals (fst (sweep g tgt s))) = length (vals s).
Proof.
  apply (sweep_pres g (fun x => length (vals x) = length (vals s))); [|reflexivity].
  intros s0 k v n _ _ H. cbn. rewrite upd_length. exact H.
Qed.

Lemma sweep_noncached (g : graph) tgt s k n : nth_error g k = Some n -> kd n <> KCached ->
  getv (vals (fst (sweep g tgt s))) k = getv (vals s) k.
Proof.
  intros E K. apply (sweep_pres g (fun x => getv (vals x) k = getv (vals s) k)); [|reflexivity].
  intros s0 k' v n' E' K' H. cbn [set_node vals]. rewrite getv_upd.
  destruct (Nat.eqb_spec k k') as [->|Hne]; cbn [andb]; [|exact H].
  rewrite E in E'. injection E' as <-. contradiction.
Qed.

(* ---- one assignment ------------------------------------------------------------------------------------- *)
Definition assigned (g : graph) (s : mstate) i v : mstate :=
  let s1 := assign_flag LIT g s i v in if auto s then fst (sweep g full s1) else s1.

Lemma step_assign_ok (g : graph) rs i v n : nth_error g i = Some n -> kd n = KValue ->
  err (step interp dflt g rs (Assign i v)) = false
  /\ cur (st' (step interp dflt g rs (Assign i v))) = assigned g (cur rs) i v.
Proof.
  intros E K. unfold step, step_with, assigned. rewrite E, K.
  destruct (auto (cur rs)); cbn; split; reflexivity.
Qed.

Lemma step_assign_err (g : graph) rs i v :
  (match nth_error g i with Some n => kd n <> KValue | None => True end) ->
  err (step interp dflt g rs (Assign i v)) = true.
Proof.
  intros H. unfold step, step_with. destruct (nth_error g i) as [n|]; [|reflexivity].
  destruct (kd n); try reflexivity. contradiction.
Qed.

Definition key_ok (g : graph) nm k : bool :=
  match resolve nm k with
  | Some i => match nth_error g i with
              | Some n => match kd n with KValue => true | _ => false end
              | None => false end
  | None => false end.

Lemma pos_ok_cons (g : graph) nm k ks : pos_ok g nm (k :: ks) = key_ok g nm k && pos_ok g nm ks.
Proof. reflexivity. Qed.

Lemma key_ok_inv (g : graph) nm k : key_ok g nm k = true ->
  exists i n, resolve nm k = Some i /\ nth_error g i = Some n /\ kd n = KValue.
Proof.
  unfold key_ok. destruct (resolve nm k) as [i|]; [|discriminate].
  destruct (nth_error g i) as [n|] eqn:E; [|discriminate].
  destruct (kd n) eqn:K; try discriminate. intros _. exists i, n. auto.
Qed.

Lemma assigned_auto (g : graph) s i v : auto (assigned g s i v) = auto s.
Proof. unfold assigned. destruct (auto s) eqn:A; [rewrite sweep_auto|]; cbn; auto. Qed.

Lemma assigned_len (g : graph) s i v : length (vals (assigned g s i v)) = length (vals s).
Proof. unfold assigned. destruct (auto s); [rewrite sweep_vals_len|]; cbn; apply upd_length. Qed.

Lemma assigned_vals (g : graph) s i v k n : nth_error g k = Some n -> kd n = KValue ->
  getv (vals (assigned g s i v)) k = getv (upd (vals s) i v) k.
Proof.
  intros E K. unfold assigned. destruct (auto s); [|reflexivity].
  rewrite (sweep_noncached g full _ k n E) by congruence. reflexivity.
Qed.

(* the loop of assignments raises exactly when some key does not name an assignable node *)
Lemma assign_all_err (g : graph) nm : forall pos s,
  snd (assign_all LIT g nm s pos) = negb (pos_ok g nm (map fst pos)).
Proof.
  induction pos as [|[k v] r IH]; intros s; [reflexivity|].
  cbn [assign_all map fst]. rewrite pos_ok_cons. unfold key_ok.
  destruct (resolve nm k) as [i|]; [|reflexivity].
  fold (step interp dflt g (mkR s []) (Assign i v)).
  destruct (nth_error g i) as [n|] eqn:E.
  - destruct (kd n) eqn:K.
    + destruct (step_assign_ok g (mkR s []) i v n E K) as [H1 H2]. rewrite H1. cbn [andb]. apply IH.
    + rewrite step_assign_err; [reflexivity|]. rewrite E. congruence.
    + rewrite step_assign_err; [reflexivity|]. rewrite E. congruence.
  - rewrite step_assign_err; [reflexivity|]. rewrite E. exact Logic.I.
Qed.

Lemma assign_all_cons_ok (g : graph) nm s k v r i n :
  resolve nm k = Some i -> nth_error g i = Some n -> kd n = KValue ->
  assign_all LIT g nm s ((k, v) :: r) = assign_all LIT g nm (assigned g s i v) r.
Proof.
  intros R E K. cbn [assign_all]. rewrite R.
  fold (step interp dflt g (mkR s []) (Assign i v)).
  destruct (step_assign_ok g (mkR s []) i v n E K) as [H1 H2]. rewrite H1, H2. reflexivity.
Qed.

Lemma assign_all_auto (g : graph) nm : forall pos s, auto (fst (assign_all LIT g nm s pos)) = auto s.
Proof.
  induction pos as [|[k v] r IH]; intros s; [reflexivity|].
  cbn [assign_all]. destruct (resolve nm k) as [i|]; [|reflexivity].
  fold (step interp dflt g (mkR s []) (Assign i v)).
  destruct (err (step interp dflt g (mkR s []) (Assign i v))) eqn:Er; [reflexivity|].
  rewrite IH. unfold step, step_with in *. cbn [cur] in *.
  destruct (nth_error g i) as [n|]; [|discriminate]. destruct (kd n); try discriminate.
  destruct (auto s) eqn:A; cbn; [rewrite sweep_auto|]; cbn; auto.
Qed.

Lemma update_state_auto (g : graph) nm i pos st : auto (fst (ustate g nm i pos st)) = auto i.
Proof.
  unfold update_state. destruct (snd (assign_all LIT g nm _ pos)); cbn [fst].
  - rewrite assign_all_auto. reflexivity.
  - cbn [i_sweep lit]. rewrite sweep_auto, assign_all_auto. reflexivity.
Qed.

Lemma run_calls_auto (g : graph) nm : forall calls i, auto (run_calls LIT g nm i calls) = auto i.
Proof.
  induction calls as [|c r IH]; intros i; [reflexivity|].
  unfold run_calls in *. cbn [fold_left]. rewrite IH. apply update_state_auto.
Qed.

(* the result (and the new private state) of a call does not depend on the calls made before *)
Theorem history_independent (g : graph) nm i0 calls pos st :
  ustate g nm (run_calls LIT g nm i0 calls) pos st = ustate g nm i0 pos st.
Proof. apply update_state_internal_irrel. apply run_calls_auto. Qed.

Theorem update_state_raises_iff (g : graph) nm i pos st :
  snd (ustate g nm i pos st) = None <-> pos_ok g nm (map fst pos) = false.
Proof.
  unfold update_state. rewrite assign_all_err.
  destruct (pos_ok g nm (map fst pos)); cbn; split; intros H; try reflexivity; discriminate.
Qed.

Lemma some_pos_ok (g : graph) nm i pos st r :
  snd (ustate g nm i pos st) = Some r -> pos_ok g nm (map fst pos) = true.
Proof.
  intros H. destruct (pos_ok g nm (map fst pos)) eqn:P; [reflexivity|].
  apply (proj2 (update_state_raises_iff g nm i pos st)) in P. rewrite P in H. discriminate.
Qed.

(* values of the Value nodes after the loop: the overlay; needs only a complete value list *)
Lemma overlay_cons nm (e : list V) k v r i : resolve nm k = Some i ->
  overlay nm e ((k, v) :: r) = overlay nm (upd e i v) r.
Proof. intros R. unfold overlay. cbn [fold_left fst snd]. rewrite R. reflexivity. Qed.

Lemma overlay_cons_none nm (e : list V) k v r : resolve nm k = None ->
  overlay nm e ((k, v) :: r) = overlay nm e r.
Proof. intros R. unfold overlay. cbn [fold_left fst snd]. rewrite R. reflexivity. Qed.

Lemma overlay_length nm : forall pos (e : list V), length (overlay nm e pos) = length e.
Proof.
  induction pos as [|[k v] r IH]; intros e; [reflexivity|].
  unfold overlay in *. cbn [fold_left fst snd]. destruct (resolve nm k) as [i|]; rewrite IH; [apply upd_length|reflexivity].
Qed.

Lemma overlay_agree nm j : forall pos (e1 e2 : list V), length e1 = length e2 -> getv e1 j = getv e2 j ->
  getv (overlay nm e1 pos) j = getv (overlay nm e2 pos) j.
Proof.
  induction pos as [|[k v] r IH]; intros e1 e2 L H; [exact H|].
  unfold overlay in *. cbn [fold_left fst snd]. destruct (resolve nm k) as [i|]; [|apply IH; auto].
  apply IH; [rewrite !upd_length; exact L|]. rewrite !getv_upd, L, H. reflexivity.
Qed.

Lemma assign_all_vals (g : graph) nm : forall pos s, length (vals s) = length g ->
  pos_ok g nm (map fst pos) = true ->
  length (vals (fst (assign_all LIT g nm s pos))) = length g
  /\ forall j n, nth_error g j = Some n -> kd n = KValue ->
       getv (vals (fst (assign_all LIT g nm s pos))) j = getv (overlay nm (vals s) pos) j.
Proof.
  induction pos as [|[k v] r IH]; intros s L P; [split; [exact L|reflexivity]|].
  cbn [map fst] in P. rewrite pos_ok_cons in P. apply andb_true_iff in P. destruct P as [P1 P2].
  destruct (key_ok_inv g nm k P1) as [i [n [R [E K]]]].
  rewrite (assign_all_cons_ok g nm s k v r i n R E K), (overlay_cons nm _ k v r i R).
  assert (L' : length (vals (assigned g s i v)) = length g) by (rewrite assigned_len; exact L).
  destruct (IH (assigned g s i v) L' P2) as [H1 H2]. split; [exact H1|].
  intros j m Ej Kj. rewrite (H2 j m Ej Kj).
  apply overlay_agree; [rewrite assigned_len, upd_length; reflexivity|].
  apply (assigned_vals g s i v j m Ej Kj).
Qed.

Section WF.
Variable g : graph.
Hypothesis W : wf g.

Notation Inv := (Inv V F interp dflt g).
Notation snap_ok := (snap_ok V F interp dflt g).
Notation RInv := (RInv V F interp dflt g).
Notation cached := (cached F g).

(* the precondition LieselInterface.update_state documents ("the model_state must be up-to-date"), plus:
   the state is a complete state of this model whose cached values are the from-scratch values *)
Definition good_state (st : snap) : Prop :=
  snap_ok st /\ forall k, k < length g -> getb (sn_flags st) k = false.

(* r is the from-scratch state (what Model.__init__ computes) for the input values e *)
Definition is_scratch (e : list V) (r : snap) : Prop :=
  good_state r /\ forall k n, nth_error g k = Some n -> kd n = KValue -> getv (sn_vals r) k = getv e k.

Lemma assigned_Inv s i v n : nth_error g i = Some n -> kd n = KValue -> Inv s -> Inv (assigned g s i v).
Proof.
  intros E K H. unfold assigned. pose proof (assign_flag_Inv V F interp dflt g W s i v n E K H) as H1.
  destruct (auto s); [|exact H1].
  exact (proj1 (sweep_spec V F interp dflt g W full _ (full_closed F g) H1)).
Qed.

Lemma assign_all_Inv nm : forall pos s, Inv s -> pos_ok g nm (map fst pos) = true ->
  Inv (fst (assign_all LIT g nm s pos)).
Proof.
  induction pos as [|[k v] r IH]; intros s H P; [exact H|].
  cbn [map fst] in P. rewrite pos_ok_cons in P. apply andb_true_iff in P. destruct P as [P1 P2].
  destruct (key_ok_inv g nm k P1) as [i [n [R [E K]]]].
  rewrite (assign_all_cons_ok g nm s k v r i n R E K). apply IH; [|exact P2].
  apply (assigned_Inv s i v n E K H).
Qed.

Lemma clear_Inv internal st : good_state st -> Inv (clear_flags g (restore internal st)).
Proof.
  intros [[[L1 [L2 L3]] [I G]] U]. cbn [vals dirty touched] in L1, L2, L3. split; [|split].
  - unfold lens, clear_flags, restore. cbn [vals dirty touched]. rewrite repeat_length. auto.
  - intros k Ck _. unfold clear_flags, restore. cbn [vals dirty touched]. apply (I k Ck).
    cbn [dirty]. apply U. apply (cached_lt F g k Ck).
  - intros k _ D. unfold clear_flags, restore in D. cbn [vals dirty touched] in D.
    rewrite getb_repeat_false in D. discriminate.
Qed.

Lemma good_state_cached st k n : good_state st -> nth_error g k = Some n -> kd n = KCached ->
  getv (sn_vals st) k = denote g (sn_vals st) k.
Proof.
  intros [[_ [I _]] U] E K. assert (C : cached k) by (exists n; auto).
  apply (I k C). cbn. apply U. apply (cached_lt F g k C).
Qed.

Lemma snapshot_good s : Inv s -> (forall k, k < length g -> outdated g s k = false) ->
  good_state (snapshot LIT g s).
Proof.
  intros H U. split; [apply (snapshot_ok V F interp dflt g W s H)|].
  intros k Hk. unfold snapshot. cbn [sn_flags i_flags lit]. rewrite (flags_lit_get V F g s k Hk). apply U. exact Hk.
Qed.

(* update_state on an up-to-date state with valid keys *)
Theorem update_state_spec nm internal pos st : good_state st -> pos_ok g nm (map fst pos) = true ->
  exists r, snd (ustate g nm internal pos st) = Some r
            /\ is_scratch (overlay nm (sn_vals st) pos) r.
Proof.
  intros G P. unfold update_state.
  set (s0 := clear_flags g (restore internal st)).
  rewrite assign_all_err, P. cbn [negb snd fst i_sweep lit].
  set (s1 := fst (assign_all LIT g nm s0 pos)).
  eexists. split; [reflexivity|].
  pose proof (clear_Inv internal st G) as I0. fold s0 in I0.
  pose proof (assign_all_Inv nm pos s0 I0 P) as I1. fold s1 in I1.
  assert (L0 : length (vals s0) = length g) by (destruct I0 as [[L _] _]; exact L).
  destruct (assign_all_vals g nm pos s0 L0 P) as [_ V1]. fold s1 in V1.
  destruct (sweep_spec V F interp dflt g W full s1 (full_closed F g) I1) as [I2 [C2 [_ [_ [_ [N2 _]]]]]].
  split.
  - apply snapshot_good; [exact I2|]. intros k Hk. apply C2; auto.
  - intros k n E K. cbn [snapshot sn_vals]. rewrite (N2 k n E) by congruence. apply (V1 k n E K).
Qed.

Lemma is_scratch_values e r : is_scratch e r ->
  forall k n, nth_error g k = Some n -> kd n <> KTrans -> getv (sn_vals r) k = denote g e k.
Proof.
  intros [G Vv] k n E K.
  assert (D : forall j, denote g (sn_vals r) j = denote g e j).
  { apply (den_agree V F interp dflt g W). intros i m Ei Ki. apply (Vv i m Ei Ki). }
  destruct (kd n) eqn:Kn; [| |contradiction].
  - rewrite (Vv k n E Kn). rewrite (denote_unfold V F interp dflt g W e k n E), Kn. reflexivity.
  - rewrite (good_state_cached r k n G E Kn). apply D.
Qed.

(* the same, spelled out: no flag, every non-transient node holds the from-scratch value for the state's
   input values overlaid with the position, and the result is again a good state (calls can be chained) *)
Theorem update_state_spec_explicit nm internal pos st : good_state st -> pos_ok g nm (map fst pos) = true ->
  exists r, snd (ustate g nm internal pos st) = Some r
    /\ (forall k, k < length g -> getb (sn_flags r) k = false)
    /\ (forall k n, nth_error g k = Some n -> kd n <> KTrans ->
          getv (sn_vals r) k = denote g (overlay nm (sn_vals st) pos) k)
    /\ good_state r.
Proof.
  intros G P. destruct (update_state_spec nm internal pos st G P) as [r [H S]].
  exists r. split; [exact H|]. split; [exact (proj2 (proj1 S))|]. split; [|exact (proj1 S)].
  apply (is_scratch_values _ r S).
Qed.

(* two from-scratch states for the same inputs show the same dict *)
Lemma scratch_view_unique e r1 r2 : is_scratch e r1 -> is_scratch e r2 -> view dflt g r1 = view dflt g r2.
Proof.
  intros S1 S2. unfold view. apply map_ext_in. intros k Hk. apply in_seq in Hk. destruct Hk as [_ Hk].
  cbn in Hk. f_equal.
  - unfold stval. destruct (nth_error g k) as [n|] eqn:E; [|reflexivity].
    destruct (kd n) eqn:K; try reflexivity.
    + rewrite (is_scratch_values e r1 S1 k n E), (is_scratch_values e r2 S2 k n E) by congruence. reflexivity.
    + rewrite (is_scratch_values e r1 S1 k n E), (is_scratch_values e r2 S2 k n E) by congruence. reflexivity.
  - destruct S1 as [[_ U1] _], S2 as [[_ U2] _]. rewrite U1, U2 by exact Hk. reflexivity.
Qed.

(* Model.__init__ on the input values e *)
Lemma init_is_scratch e : is_scratch e (snapshot LIT g (cur (init interp dflt g e))).
Proof.
  split.
  - apply snapshot_good; [exact (proj1 (init_RInv V F interp dflt g W e))|].
    intros k Hk. apply (init_clean V F interp dflt g W e k Hk).
  - intros k n E K. cbn [snapshot sn_vals init init_with cur i_sweep lit].
    rewrite (sweep_noncached g full _ k n E) by congruence. cbn [init_state vals].
    unfold Graph.getv at 1. rewrite nth_map_seq; [reflexivity|]. apply (wf_lt F g k n E).
Qed.

Theorem update_state_init nm internal pos st r : good_state st ->
  snd (ustate g nm internal pos st) = Some r ->
  view dflt g r = view dflt g (snapshot LIT g (cur (init interp dflt g (overlay nm (sn_vals st) pos)))).
Proof.
  intros G H. pose proof (some_pos_ok _ _ _ _ _ _ H) as P.
  destruct (update_state_spec nm internal pos st G P) as [r' [H' S]]. rewrite H in H'. injection H' as <-.
  apply (scratch_view_unique _ _ _ S (init_is_scratch _)).
Qed.

(* the same with both values of the private copy's auto_update (i.e. whatever the user's model had when the
   interface was created) and after any earlier calls *)
Theorem auto_irrelevant nm i1 i2 pos st : good_state st ->
  match snd (ustate g nm i1 pos st), snd (ustate g nm i2 pos st) with
  | Some r1, Some r2 => view dflt g r1 = view dflt g r2
  | None, None => True
  | _, _ => False
  end.
Proof.
  intros G. destruct (pos_ok g nm (map fst pos)) eqn:P.
  - destruct (update_state_spec nm i1 pos st G P) as [r1 [H1 S1]].
    destruct (update_state_spec nm i2 pos st G P) as [r2 [H2 S2]]. rewrite H1, H2.
    apply (scratch_view_unique _ _ _ S1 S2).
  - pose proof (proj2 (update_state_raises_iff g nm i1 pos st) P) as H1.
    pose proof (proj2 (update_state_raises_iff g nm i2 pos st) P) as H2. rewrite H1, H2. exact Logic.I.
Qed.

(* ---- direct assignment on a model -------------------------------------------------------------------- *)
Lemma run_app ops1 ops2 rs :
  run interp dflt g (ops1 ++ ops2) rs = run interp dflt g ops2 (run interp dflt g ops1 rs).
Proof. unfold run, run_with. apply fold_left_app. Qed.

Lemma direct_assigns nm : forall pos rs, pos_ok g nm (map fst pos) = true ->
  cur (run interp dflt g
         (flat_map (fun kv => match resolve nm (fst kv) with Some i => [Assign i (snd kv)] | None => [] end) pos) rs)
  = fst (assign_all LIT g nm (cur rs) pos).
Proof.
  induction pos as [|[k v] r IH]; intros rs P; [reflexivity|].
  cbn [map fst] in P. rewrite pos_ok_cons in P. apply andb_true_iff in P. destruct P as [P1 P2].
  destruct (key_ok_inv g nm k P1) as [i [n [R [E K]]]].
  rewrite (assign_all_cons_ok g nm (cur rs) k v r i n R E K).
  cbn [flat_map fst snd]. rewrite R. rewrite run_app. rewrite IH by exact P2.
  assert (Hc : cur (run interp dflt g [Assign i v] rs) = assigned g (cur rs) i v).
  { destruct (step_assign_ok g rs i v n E K) as [_ H2]. exact H2. }
  rewrite Hc. reflexivity.
Qed.

Theorem direct_is_scratch nm pos rs : RInv rs -> pos_ok g nm (map fst pos) = true ->
  is_scratch (overlay nm (vals (cur rs)) pos)
             (snapshot LIT g (cur (run interp dflt g (direct_ops nm pos) rs))).
Proof.
  intros [H _] P. unfold direct_ops. rewrite run_app.
  set (rs1 := run interp dflt g (flat_map _ pos) rs).
  assert (C1 : cur rs1 = fst (assign_all LIT g nm (cur rs) pos)) by (apply direct_assigns; exact P).
  unfold run, run_with. cbn [fold_left]. unfold step_with. cbn [st' ok_out with_cur cur i_sweep lit].
  rewrite C1. set (s1 := fst (assign_all LIT g nm (cur rs) pos)).
  pose proof (assign_all_Inv nm pos (cur rs) H P) as I1. fold s1 in I1.
  assert (L0 : length (vals (cur rs)) = length g) by (destruct H as [[L _] _]; exact L).
  destruct (assign_all_vals g nm pos (cur rs) L0 P) as [_ V1]. fold s1 in V1.
  destruct (sweep_spec V F interp dflt g W full s1 (full_closed F g) I1) as [I2 [C2 [_ [_ [_ [N2 _]]]]]].
  split.
  - apply snapshot_good; [exact I2|]. intros k Hk. apply C2; auto.
  - intros k n E K. cbn [snapshot sn_vals]. rewrite (N2 k n E) by congruence. apply (V1 k n E K).
Qed.

(* update_state(pos, model.state) shows what the model itself shows after the same values are assigned
   directly and the model is fully updated - whatever auto_update is on either side *)
Theorem equals_direct nm internal pos rs r : RInv rs ->
  (forall k, k < length g -> outdated g (cur rs) k = false) ->
  snd (ustate g nm internal pos (snapshot LIT g (cur rs))) = Some r ->
  view dflt g r = view dflt g (snapshot LIT g (cur (run interp dflt g (direct_ops nm pos) rs))).
Proof.
  intros R U H.
  assert (G : good_state (snapshot LIT g (cur rs))) by (apply snapshot_good; [exact (proj1 R)|exact U]).
  pose proof (some_pos_ok _ _ _ _ _ _ H) as P.
  destruct (update_state_spec nm internal pos _ G P) as [r' [H' S]]. rewrite H in H'. injection H' as <-.
  apply (scratch_view_unique _ _ _ S). apply direct_is_scratch; assumption.
Qed.

(* ---- log_prob ------------------------------------------------------------------------------------------ *)
Theorem log_prob_spec nm internal pos st r lp n : good_state st ->
  snd (ustate g nm internal pos st) = Some r ->
  nth_error g lp = Some n -> kd n = KCached ->
  log_prob dflt g lp r = Some (Some (denote g (overlay nm (sn_vals st) pos) lp)).
Proof.
  intros G H E K.
  pose proof (some_pos_ok _ _ _ _ _ _ H) as P.
  destruct (update_state_spec nm internal pos st G P) as [r' [H' S]]. rewrite H in H'. injection H' as <-.
  unfold log_prob, stval. rewrite E, K. rewrite (is_scratch_values _ r S lp n E) by congruence. reflexivity.
Qed.

(* the variant before repair 3a71d35: a transient "_model_log_prob" node has no value in any model state *)
Theorem log_prob_transient_none lp n (r : snap) : nth_error g lp = Some n -> kd n = KTrans ->
  log_prob dflt g lp r = Some None.
Proof. intros E K. unfold log_prob, stval. rewrite E, K. reflexivity. Qed.

(* ---- put-get: every complete state --------------------------------------------------------------------- *)
Lemma overlay_untouched nm i : forall pos (e : list V),
  (forall kv, In kv pos -> resolve nm (fst kv) <> Some i) -> getv (overlay nm e pos) i = getv e i.
Proof.
  induction pos as [|[k v] r IH]; intros e H; [reflexivity|].
  unfold overlay in *. cbn [fold_left fst snd].
  destruct (resolve nm k) as [i'|] eqn:R.
  - rewrite IH by (intros kv Hkv; apply H; right; exact Hkv). rewrite getv_upd.
    destruct (Nat.eqb_spec i i') as [->|Hne]; cbn [andb]; [|reflexivity].
    exfalso. apply (H (k, v)); [left; reflexivity|exact R].
  - apply IH. intros kv Hkv. apply H. right. exact Hkv.
Qed.

Lemma overlay_get nm : forall pos (e : list V) k v i,
  NoDup (map (fun kv => resolve nm (fst kv)) pos) -> In (k, v) pos -> resolve nm k = Some i ->
  i < length e -> getv (overlay nm e pos) i = v.
Proof.
  induction pos as [|[k0 v0] r IH]; intros e k v i N Hin R L; [contradiction|].
  cbn [map fst] in N. inversion N as [|x l Hnot N' Ex]; subst.
  destruct Hin as [Heq|Hin].
  - injection Heq as -> ->. rewrite (overlay_cons nm e k v r i R).
    rewrite overlay_untouched.
    + rewrite getv_upd, Nat.eqb_refl. apply Nat.ltb_lt in L. rewrite L. reflexivity.
    + intros kv Hkv Hr. apply Hnot. rewrite R. rewrite <- Hr. apply in_map_iff. exists kv. auto.
  - destruct (resolve nm k0) as [i0|] eqn:R0.
    + rewrite (overlay_cons nm e k0 v0 r i0 R0). apply (IH _ k v i N' Hin R). rewrite upd_length. exact L.
    + rewrite (overlay_cons_none nm e k0 v0 r R0). apply (IH _ k v i N' Hin R). exact L.
Qed.

Theorem extract_update nm internal pos st r : length (sn_vals st) = length g ->
  NoDup (map (fun kv => resolve nm (fst kv)) pos) ->
  snd (ustate g nm internal pos st) = Some r ->
  extract_position dflt g nm (map fst pos) r = Some (map (fun kv => Some (snd kv)) pos).
Proof.
  intros L N H.
  pose proof (some_pos_ok _ _ _ _ _ _ H) as P.
  unfold update_state in H. rewrite assign_all_err, P in H. cbn [negb snd fst i_sweep lit] in H.
  injection H as <-.
  set (s0 := clear_flags g (restore internal st)).
  assert (L0 : length (vals s0) = length g) by exact L.
  destruct (assign_all_vals g nm pos s0 L0 P) as [_ V1].
  assert (Hv : forall k v, In (k, v) pos -> exists i n, resolve nm k = Some i /\ nth_error g i = Some n /\ kd n = KValue
             /\ getv (vals (fst (sweep g full (fst (assign_all LIT g nm s0 pos))))) i = v).
  { intros k v Hin. assert (Hk : key_ok g nm k = true).
    { unfold pos_ok in P. rewrite forallb_forall in P. apply (P k). apply in_map_iff. exists (k, v). auto. }
    destruct (key_ok_inv g nm k Hk) as [i [n [R [E K]]]]. exists i, n. repeat split; auto.
    rewrite (sweep_noncached g full _ i n E) by congruence. rewrite (V1 i n E K).
    apply (overlay_get nm pos (vals s0) k v i N Hin R). rewrite L0. apply (wf_lt F g i n E). }
  set (rr := snapshot LIT g (fst (sweep g full (fst (assign_all LIT g nm s0 pos))))).
  assert (Hrr : forall i, getv (sn_vals rr) i
            = getv (vals (fst (sweep g full (fst (assign_all LIT g nm s0 pos))))) i) by reflexivity.
  assert (Gl : forall l, (forall k v, In (k, v) l -> In (k, v) pos) ->
            extract_position dflt g nm (map fst l) rr = Some (map (fun kv => Some (snd kv)) l)).
  { induction l as [|[k v] l IH]; intros Hl; [reflexivity|].
    cbn [map fst snd extract_position].
    destruct (Hv k v (Hl k v (or_introl eq_refl))) as [i [n [R [E [K Gv]]]]]. rewrite R.
    unfold stval at 1. rewrite E, K. rewrite Hrr, Gv.
    rewrite IH; [reflexivity|]. intros k' v' Hin. apply Hl. right. exact Hin. }
  apply Gl. auto.
Qed.

(* ---- get-put ---------------------------------------------------------------------------------------------- *)
Lemma overlay_same nm : forall pos (e : list V),
  (forall k v i, In (k, v) pos -> resolve nm k = Some i -> getv e i = v) ->
  forall j, getv (overlay nm e pos) j = getv e j.
Proof.
  induction pos as [|[k v] r IH]; intros e H j; [reflexivity|].
  unfold overlay in *. cbn [fold_left fst snd]. destruct (resolve nm k) as [i|] eqn:R.
  - assert (Hi : forall j', getv (upd e i v) j' = getv e j').
    { intros j'. rewrite getv_upd. destruct (Nat.eqb_spec j' i) as [->|]; cbn [andb]; [|reflexivity].
      destruct (i <? length e); [|reflexivity]. symmetry. apply (H k v i); [left; reflexivity|exact R]. }
    rewrite IH; [apply Hi|]. intros k' v' i' Hin R'. rewrite Hi. apply (H k' v' i'); [right; exact Hin|exact R'].
  - apply IH. intros k' v' i' Hin R'. apply (H k' v' i'); [right; exact Hin|exact R'].
Qed.

Lemma extract_values nm : forall pos (st : snap),
  extract_position dflt g nm (map fst pos) st = Some (map (fun kv => Some (snd kv)) pos) ->
  forall k v i, In (k, v) pos -> resolve nm k = Some i -> getv (sn_vals st) i = v.
Proof.
  induction pos as [|[k0 v0] r IH]; intros st H k v i Hin R; [contradiction|].
  cbn [map fst snd extract_position] in H.
  destruct (resolve nm k0) as [i0|] eqn:R0; [|discriminate].
  destruct (stval dflt g st i0) as [x|] eqn:Sv; [|discriminate].
  destruct (extract_position dflt g nm (map fst r) st) as [xs|] eqn:Ex; [|discriminate].
  injection H as Hx Hxs. destruct Hin as [Heq|Hin].
  - injection Heq as -> ->. rewrite R in R0. injection R0 as <-.
    unfold stval in Sv. destruct (nth_error g i) as [n|]; [|discriminate].
    destruct (kd n); injection Sv as <-; try discriminate; injection Hx as <-; reflexivity.
  - subst xs. apply (IH st Ex k v i Hin R).
Qed.

(* putting back what extract_position returns leaves an up-to-date state as it is *)
Theorem update_extract nm internal pos st r : good_state st ->
  extract_position dflt g nm (map fst pos) st = Some (map (fun kv => Some (snd kv)) pos) ->
  snd (ustate g nm internal pos st) = Some r ->
  view dflt g r = view dflt g st.
Proof.
  intros G Ex H.
  pose proof (some_pos_ok _ _ _ _ _ _ H) as P.
  destruct (update_state_spec nm internal pos st G P) as [r' [H' [G' S]]]. rewrite H in H'. injection H' as <-.
  pose proof (overlay_same nm pos (sn_vals st) (extract_values nm pos st Ex)) as Ov.
  apply (scratch_view_unique (sn_vals st)).
  - split; [exact G'|]. intros k n E K. rewrite (S k n E K). apply Ov.
  - split; [exact G|]. reflexivity.
Qed.

(* ---- what the shards execute ------------------------------------------------------------------------------ *)
Lemma assign_all_memo_lit nm : forall pos s, length (vals s) = length g ->
  assign_all MEMO g nm s pos = assign_all LIT g nm s pos.
Proof.
  induction pos as [|[k v] r IH]; intros s L; [reflexivity|].
  cbn [assign_all]. destruct (resolve nm k) as [i|]; [|reflexivity].
  fold (mstep interp dflt g (mkR s []) (Assign i v)). fold (step interp dflt g (mkR s []) (Assign i v)).
  rewrite (step_memo_lit V F interp dflt g W (mkR s []) (Assign i v) L).
  destruct (err (step interp dflt g (mkR s []) (Assign i v))) eqn:Er; [reflexivity|].
  apply IH. unfold step, step_with in *. cbn [cur] in *.
  destruct (nth_error g i) as [n|]; [|discriminate]. destruct (kd n); try discriminate.
  destruct (auto s); cbn; [rewrite sweep_vals_len|]; cbn; rewrite upd_length; exact L.
Qed.

Theorem update_state_memo_lit nm internal pos st : length (sn_vals st) = length g ->
  update_state MEMO g nm internal pos st = update_state LIT g nm internal pos st.
Proof.
  intros L. unfold update_state.
  rewrite (assign_all_memo_lit nm pos (clear_flags g (restore internal st)) L).
  destruct (snd (assign_all LIT g nm _ pos)) eqn:Er; [reflexivity|].
  cbn [i_sweep memo lit]. rewrite (sweep_memo_lit V F interp dflt g W).
  - rewrite (snapshot_memo V F interp dflt g W). reflexivity.
  - assert (H : forall pos s, length (vals s) = length g ->
                length (vals (fst (assign_all LIT g nm s pos))) = length g).
    { clear. induction pos as [|[k v] r IH]; intros s Ls; [exact Ls|].
      cbn [assign_all]. destruct (resolve nm k) as [i|]; [|exact Ls].
      fold (step interp dflt g (mkR s []) (Assign i v)).
      destruct (err (step interp dflt g (mkR s []) (Assign i v))) eqn:Er; [exact Ls|].
      apply IH. unfold step, step_with in *. cbn [cur] in *.
      destruct (nth_error g i) as [n|]; [|discriminate]. destruct (kd n); try discriminate.
      destruct (auto s); cbn; [rewrite sweep_vals_len|]; cbn; rewrite upd_length; exact Ls. }
    apply H. exact L.
Qed.

End WF.
End P.

(* ---- flat interfaces ------------------------------------------------------------------------------------------ *)
Section FlatLaws.
Variable V : Type.
Notation fstate := (fstate V).

Lemma fget_fset_eq (st : fstate) k v : fhas st k = true -> fget (fset st k v) k = Some v.
Proof.
  unfold fhas. induction st as [|[k' v'] r IH]; cbn; [discriminate|].
  destruct (Nat.eqb_spec k' k) as [->|Hne]; cbn.
  - rewrite Nat.eqb_refl. reflexivity.
  - destruct (Nat.eqb_spec k' k); [contradiction|]. exact IH.
Qed.

Lemma fget_fset_neq (st : fstate) k v k' : k <> k' -> fget (fset st k v) k' = fget st k'.
Proof.
  intros Hne. induction st as [|[k0 v0] r IH]; cbn; [reflexivity|].
  destruct (Nat.eqb_spec k0 k) as [->|H0]; cbn.
  - destruct (Nat.eqb_spec k k'); [contradiction|reflexivity].
  - destruct (k0 =? k'); [reflexivity|exact IH].
Qed.

Lemma fset_keys (st : fstate) k v : map fst (fset st k v) = map fst st.
Proof.
  induction st as [|[k0 v0] r IH]; cbn; [reflexivity|].
  destruct (k0 =? k); cbn; [reflexivity|]. f_equal. exact IH.
Qed.

Lemma fget_app_new (st : fstate) k v k' : fhas st k = false ->
  fget (st ++ [(k, v)]) k' = if k =? k' then (match fget st k' with Some x => Some x | None => Some v end) else fget st k'.
Proof.
  unfold fhas. induction st as [|[k0 v0] r IH]; cbn; intros H.
  - destruct (k =? k'); reflexivity.
  - destruct (Nat.eqb_spec k0 k) as [->|H0]; [discriminate|].
    destruct (Nat.eqb_spec k0 k') as [->|H1].
    + destruct (k =? k'); reflexivity.
    + apply IH. exact H.
Qed.

(* frame: keys that are not in the position keep their value *)
Lemma fupdate_frame strict : forall pos (st st' : fstate) k,
  fupdate strict pos st = Some st' -> ~ In k (map fst pos) -> fget st' k = fget st k.
Proof.
  induction pos as [|[k0 v0] r IH]; intros st st' k H Hn; cbn in *.
  - injection H as <-. reflexivity.
  - assert (Hne : k0 <> k) by (intros ->; apply Hn; left; reflexivity).
    assert (Hr : ~ In k (map fst r)) by (intros Hi; apply Hn; right; exact Hi).
    destruct (fhas st k0) eqn:Hh.
    + rewrite (IH _ _ k H Hr). apply fget_fset_neq. exact Hne.
    + destruct strict; [discriminate|]. rewrite (IH _ _ k H Hr). rewrite fget_app_new by exact Hh.
      destruct (Nat.eqb_spec k0 k); [contradiction|reflexivity].
Qed.

(* put-get *)
Lemma fupdate_get strict : forall pos (st st' : fstate) k v,
  NoDup (map fst pos) -> fupdate strict pos st = Some st' -> In (k, v) pos -> fget st' k = Some v.
Proof.
  induction pos as [|[k0 v0] r IH]; intros st st' k v N H Hin; [contradiction|].
  cbn [map fst] in N. inversion N as [|x l Hnot N' Ex]; subst. cbn in H.
  destruct Hin as [Heq|Hin].
  - injection Heq as -> ->. destruct (fhas st k) eqn:Hh.
    + rewrite (fupdate_frame strict r _ _ k H Hnot). apply fget_fset_eq. exact Hh.
    + destruct strict; [discriminate|]. rewrite (fupdate_frame false r _ _ k H Hnot).
      rewrite fget_app_new by exact Hh. rewrite Nat.eqb_refl.
      unfold fhas in Hh. destruct (fget st k); [discriminate|reflexivity].
  - destruct (fhas st k0); [apply (IH _ _ k v N' H Hin)|].
    destruct strict; [discriminate|]. apply (IH _ _ k v N' H Hin).
Qed.

Theorem flat_put_get strict pos (st st' : fstate) : NoDup (map fst pos) ->
  fupdate strict pos st = Some st' -> fextract (map fst pos) st' = Some (map snd pos).
Proof.
  intros N H.
  assert (G : forall l, incl l pos -> fextract (map fst l) st' = Some (map snd l)).
  { induction l as [|[k v] l IH]; intros Hl; [reflexivity|]. cbn.
    rewrite (fupdate_get strict pos st st' k v N H) by (apply Hl; left; reflexivity).
    rewrite IH; [reflexivity|]. intros x Hx. apply Hl. right. exact Hx. }
  apply G. apply incl_refl.
Qed.

(* dataclass / named tuple: the fields stay the same, in the same order *)
Theorem flat_strict_fields : forall pos (st st' : fstate),
  fupdate true pos st = Some st' -> map fst st' = map fst st.
Proof.
  induction pos as [|[k v] r IH]; intros st st' H; cbn in H.
  - injection H as <-. reflexivity.
  - destruct (fhas st k); [|discriminate]. rewrite (IH _ _ H). apply fset_keys.
Qed.

(* get-put: putting values the state already holds changes nothing *)
Lemma fset_same (st : fstate) k v : fget st k = Some v -> fset st k v = st.
Proof.
  induction st as [|[k0 v0] r IH]; cbn; [reflexivity|].
  destruct (Nat.eqb_spec k0 k) as [->|Hne]; intros H.
  - injection H as <-. reflexivity.
  - f_equal. apply IH. exact H.
Qed.

Theorem flat_get_put strict : forall pos (st : fstate),
  fextract (map fst pos) st = Some (map snd pos) -> fupdate strict pos st = Some st.
Proof.
  induction pos as [|[k v] r IH]; intros st H; [reflexivity|]. cbn in *.
  destruct (fget st k) as [x|] eqn:Gk; [|discriminate].
  destruct (fextract (map fst r) st) as [xs|] eqn:Ex; [|discriminate].
  injection H as -> ->. unfold fhas. rewrite Gk. rewrite (fset_same st k v Gk). apply IH. exact Ex.
Qed.

End FlatLaws.
