(* C01 - the boolean well-formedness test [wfb] (used by the correspondence runs to let a generated graph in
   and by the Examples through [wfb_wf]) is EXACT: it accepts a graph if and only if the graph meets the
   hypothesis [wf] of the theorems.  [wfb_wf] (GraphProofs.v) was the soundness half; this file adds
   completeness, so no graph the theorems cover is ever turned away by the test. *)
From Coq Require Import List Bool Arith Lia.
Import ListNotations.
From LV Require Import Graph.Graph Graph.GraphProofs.

Lemma wf_wfb_from {F} (g : graph F) : forall k0,
  (forall k n, nth_error g k = Some n ->
     Forall (fun i => i < k0 + k) (ins n) /\ (kd n = KValue -> ins n = [])) ->
  wfb_from k0 g = true.
Proof.
  induction g as [|n r IH]; intros k0 H; cbn [wfb_from]; [reflexivity|].
  apply andb_true_iff; split.
  - destruct (H 0 n eq_refl) as [Hf Hv]. unfold wf_node. apply andb_true_iff; split.
    + apply forallb_forall. intros i Hi. apply Nat.ltb_lt. rewrite Forall_forall in Hf.
      specialize (Hf i Hi). lia.
    + destruct (kd n) eqn:Ek; try (destruct (ins n); reflexivity).
      rewrite (Hv eq_refl). reflexivity.
  - apply IH. intros k m E. replace (S k0 + k) with (k0 + S k) by lia. apply (H (S k) m). exact E.
Qed.

Lemma wf_wfb {F} (g : graph F) : wf g -> wfb g = true.
Proof. intros W. unfold wfb. apply wf_wfb_from. intros k n E. exact (W k n E). Qed.

Theorem wfb_iff {F} (g : graph F) : wfb g = true <-> wf g.
Proof. split; [apply wfb_wf|apply wf_wfb]. Qed.

Print Assumptions wfb_iff.
