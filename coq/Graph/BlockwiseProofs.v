(* BlockwiseProofs.v - proofs about Blockwise.v (the C09 theorems).  Uses the invariant machinery of
   GraphProofs.v (Inv, sweep_spec, assign_flag_Inv, step_RInv, den_agree, den_unreached, path). *)
From Coq Require Import List Bool Arith Lia.
Import ListNotations.
From LV Require Import Graph.Graph Graph.GraphProofs Graph.GraphMemo Graph.Blockwise.

(* ---- list facts ------------------------------------------------------------------------------------ *)
Lemma nth_upd {A} (l : list A) : forall i k v d,
  nth k (upd l i v) d = if (k =? i) && (i <? length l) then v else nth k l d.
Proof.
  induction l as [|h t IH]; intros i k v d.
  - cbn. destruct i; cbn; rewrite andb_false_r; reflexivity.
  - destruct i as [|i]; destruct k as [|k]; cbn [upd nth length]; try reflexivity.
    rewrite IH. replace (S k =? S i) with (k =? i) by reflexivity.
    replace (S i <? S (length t)) with (i <? length t) by reflexivity. reflexivity.
Qed.

Lemma upd_same {A} (l : list A) : forall k d, upd l k (nth k l d) = l.
Proof.
  induction l as [|h t IH]; intros k d; [destruct k; reflexivity|].
  destruct k as [|k]; cbn; [reflexivity|]. rewrite IH. reflexivity.
Qed.

Lemma getb_repeat_false n k : getb (repeat false n) k = false.
Proof. unfold getb. apply nth_repeat. Qed.

Lemma map_all_false (f : nat -> bool) n : (forall k, k < n -> f k = false) ->
  map f (seq 0 n) = repeat false n.
Proof.
  intros H. apply (nth_ext _ _ false false).
  - rewrite map_length, seq_length, repeat_length. reflexivity.
  - intros k Hk. rewrite map_length, seq_length in Hk. rewrite nth_map_seq by exact Hk.
    rewrite nth_repeat. apply H. exact Hk.
Qed.

Lemma combine_map_l_aux {A B C} (f : A -> B) (l : list A) (l' : list C) :
  combine (map f l) l' = map (fun x => (f (fst x), snd x)) (combine l l').
Proof.
  revert l'. induction l as [|a l IH]; intros [|c l']; cbn; try reflexivity. rewrite IH. reflexivity.
Qed.

Section BP.
Variables (V F : Type) (interp : F -> list V -> V) (dflt : V).
Variable g : graph F.
Hypothesis W : wf g.

Notation LIT := (lit interp dflt).
Notation MEMO := (memo interp dflt).
Notation denote := (denote interp dflt).
Notation value := (value interp dflt).
Notation getv := (getv dflt).
Notation Inv := (Inv V F interp dflt g).
Notation RInv := (RInv V F interp dflt g).
Notation cached := (cached F g).
Notation scratch := (scratch interp dflt).
Notation pvalue := (pvalue interp dflt).
Notation path := (path F g).

(* The model state is up to date and coherent: no flag is raised and every cached node stores the value a
   from-scratch recomputation over the stored Value-node values gives (in particular the log-prob node) *)
Definition good (st : pst V) : Prop :=
  length (pv st) = length g /\ pf st = repeat false (length g) /\
  forall k, cached k -> getv (pv st) k = denote g (pv st) k.

(* ---- overlay ------------------------------------------------------------------------------------------ *)
Lemma overlay_cons kv r (l : list V) : overlay (kv :: r) l = overlay r (upd l (fst kv) (snd kv)).
Proof. reflexivity. Qed.

Lemma overlay_length pos : forall l : list V, length (overlay pos l) = length l.
Proof.
  induction pos as [|kv r IH]; intros l; [reflexivity|]. rewrite overlay_cons, IH. apply upd_length.
Qed.

Lemma overlay_get pos : forall (l1 l2 : list V) k, length l1 = length l2 -> getv l1 k = getv l2 k ->
  getv (overlay pos l1) k = getv (overlay pos l2) k.
Proof.
  induction pos as [|kv r IH]; intros l1 l2 k Hl Hg; [exact Hg|]. rewrite !overlay_cons. apply IH.
  - rewrite !upd_length. exact Hl.
  - unfold Graph.getv in *. rewrite !nth_upd. rewrite Hl. destruct ((k =? fst kv) && _); auto.
Qed.

Lemma overlay_notin pos : forall (l : list V) j, ~ In j (map fst pos) -> getv (overlay pos l) j = getv l j.
Proof.
  induction pos as [|kv r IH]; intros l j Hj; [reflexivity|]. rewrite overlay_cons. cbn [map In] in Hj. rewrite IH by tauto.
  unfold Graph.getv. apply nth_upd_neq. intros ->. tauto.
Qed.

Lemma overlay_extract ks : forall l : list V, overlay (map (fun k => (k, getv l k)) ks) l = l.
Proof.
  induction ks as [|k r IH]; intros l; [reflexivity|]. cbn [map]. rewrite overlay_cons. cbn [fst snd].
  replace (upd l k (getv l k)) with l by (symmetry; apply upd_same). apply IH.
Qed.

(* ---- kinds ---------------------------------------------------------------------------------------------- *)
Lemma is_value_spec k : is_value g k = true <-> exists n, nth_error g k = Some n /\ kd n = KValue.
Proof.
  unfold is_value. split.
  - destruct (nth_error g k) as [n|]; [|discriminate]. destruct (kd n) eqn:K; try discriminate.
    intros _. exists n. auto.
  - intros [n [E K]]. rewrite E, K. reflexivity.
Qed.

Lemma is_cached_spec k : is_cached g k = true <-> cached k.
Proof.
  unfold is_cached, GraphProofs.cached. split.
  - destruct (nth_error g k) as [n|]; [|discriminate]. destruct (kd n) eqn:K; try discriminate.
    intros _. exists n. auto.
  - intros [n [E K]]. rewrite E, K. reflexivity.
Qed.

Lemma not_cached_spec k n : nth_error g k = Some n -> kd n <> KCached -> is_cached g k = false.
Proof. intros E K. unfold is_cached. rewrite E. destruct (kd n); congruence. Qed.

(* ---- scratch ---------------------------------------------------------------------------------------------- *)
Lemma scratch_length e : length (scratch g e) = length g.
Proof. unfold Blockwise.scratch. rewrite map_length, seq_length. reflexivity. Qed.

Lemma scratch_get e k : k < length g ->
  getv (scratch g e) k = if is_cached g k then denote g e k else getv e k.
Proof. intros Hk. unfold Blockwise.scratch, Graph.getv at 1. apply nth_map_seq. exact Hk. Qed.

Lemma denote_scratch e k : denote g (scratch g e) k = denote g e k.
Proof.
  apply (den_agree V F interp dflt g W). intros i n E K.
  rewrite scratch_get by (eapply wf_lt; eauto). rewrite (not_cached_spec i n E); [reflexivity|congruence].
Qed.

Lemma good_scratch e : good (mkP (scratch g e) (repeat false (length g))).
Proof.
  split; [apply scratch_length|split; [reflexivity|]]. cbn [pv]. intros k Ck.
  rewrite denote_scratch. rewrite scratch_get by (apply cached_lt; exact Ck).
  apply is_cached_spec in Ck. rewrite Ck. reflexivity.
Qed.

Lemma scratch_good_id st : good st -> scratch g (pv st) = pv st.
Proof.
  intros [L [_ C]]. apply (nth_ext _ _ dflt dflt); [rewrite scratch_length; auto|].
  intros k Hk. rewrite scratch_length in Hk. fold (getv (scratch g (pv st)) k). fold (getv (pv st) k).
  rewrite scratch_get by exact Hk. destruct (is_cached g k) eqn:E; [|reflexivity].
  symmetry. apply C. apply is_cached_spec. exact E.
Qed.

(* ---- reading a good state ------------------------------------------------------------------------------------ *)
Lemma outdated_clean (s : mstate V) : (forall k, getb (dirty s) k = false) -> forall j, outdated g s j = false.
Proof.
  intros H j. induction j as [j IH] using lt_wf_ind.
  destruct (nth_error g j) as [n|] eqn:E.
  - rewrite (outdated_unfold V F g W s j n E). destruct (kd n); auto.
    apply not_true_is_false. intros Hx. apply existsb_exists in Hx. destruct Hx as [i [Hi Ho]].
    rewrite IH in Ho; [discriminate|]. exact (wf_in F g j n i W E Hi).
  - unfold outdated. cbn. rewrite E. reflexivity.
Qed.

Lemma good_pvalue st j : good st -> j < length g -> pvalue g st j = denote g (pv st) j.
Proof.
  intros [L [Fl C]] Hj. unfold Blockwise.pvalue.
  assert (I : inv V F interp dflt g (as_mstate st)).
  { intros k Ck _. cbn. apply C. exact Ck. }
  apply (inv_coherent V F interp dflt g W _ I j Hj).
  apply outdated_clean. intros k. unfold as_mstate. cbn [dirty]. rewrite Fl. apply getb_repeat_false.
Qed.

(* ---- LieselInterface.update_state ---------------------------------------------------------------------------- *)
Lemma load_Inv internal st : good st -> Inv (load g internal st).
Proof.
  intros [L [_ C]]. split; [|split].
  - unfold lens. cbn. rewrite !repeat_length. auto.
  - intros k Ck _. cbn. apply C. exact Ck.
  - intros k _ D. unfold load, clear_flags in D. cbn [dirty] in D. rewrite getb_repeat_false in D. discriminate.
Qed.

Lemma assign_all_none pos : forall rs, forallb (is_value g) (map fst pos) = false ->
  assign_all LIT g rs pos = None.
Proof.
  induction pos as [|kv r IH]; intros rs H; [discriminate|]. cbn [map forallb] in H. cbn [assign_all].
  unfold step_with. unfold is_value in H at 1.
  destruct (nth_error g (fst kv)) as [n|] eqn:E; [|reflexivity].
  destruct (kd n) eqn:K; try reflexivity. cbn [andb] in H.
  destruct (auto (cur rs)); cbn [ok_out err]; apply IH; exact H.
Qed.

Lemma assign_all_some pos : forall rs, RInv rs -> forallb (is_value g) (map fst pos) = true ->
  exists rs', assign_all LIT g rs pos = Some rs' /\ RInv rs' /\ auto (cur rs') = auto (cur rs) /\
    forall k n, nth_error g k = Some n -> kd n <> KCached ->
      getv (vals (cur rs')) k = getv (overlay pos (vals (cur rs))) k.
Proof.
  induction pos as [|kv r IH]; intros rs R H.
  - exists rs. cbn. auto.
  - cbn [map forallb] in H. apply andb_true_iff in H. destruct H as [Hv Hr].
    apply is_value_spec in Hv. destruct Hv as [n [E K]].
    pose proof (step_RInv V F interp dflt g W rs (Assign (fst kv) (snd kv)) R) as R1.
    cbn [assign_all].
    set (o := step_with LIT g rs (Assign (fst kv) (snd kv))) in *.
    change (step interp dflt g rs (Assign (fst kv) (snd kv))) with o in R1.
    destruct R as [I S].
    pose proof (assign_flag_Inv V F interp dflt g W (cur rs) (fst kv) (snd kv) n E K I) as I1.
    assert (Ho : err o = false /\ auto (cur (st' o)) = auto (cur rs) /\
                 forall k m, nth_error g k = Some m -> kd m <> KCached ->
                   getv (vals (cur (st' o))) k = getv (upd (vals (cur rs)) (fst kv) (snd kv)) k).
    { unfold o, step_with. rewrite E, K. destruct (auto (cur rs)) eqn:A; cbn [ok_out err st' cur with_cur fst i_sweep lit].
      - destruct (sweep_spec V F interp dflt g W full _ (full_closed F g) I1) as [_ [_ [_ [_ [_ [Vl Au]]]]]].
        split; [reflexivity|]. split; [rewrite Au; cbn; exact A|].
        intros k m Ek Km. rewrite (Vl k m Ek Km). reflexivity.
      - split; [reflexivity|]. split; [cbn; exact A|]. intros k m _ _. reflexivity. }
    destruct Ho as [He [Ha Hval]]. rewrite He.
    destruct (IH (st' o) R1 Hr) as [rs' [E' [R' [A' V']]]].
    exists rs'. split; [exact E'|]. split; [exact R'|]. split; [congruence|].
    intros k m Ek Km. rewrite (V' k m Ek Km). rewrite overlay_cons.
    apply overlay_get.
    + destruct R1 as [[[L1 _] _] _]. destruct I as [[L _] _]. rewrite upd_length. congruence.
    + exact (Hval k m Ek Km).
Qed.

(* The complete description of update_state on an up-to-date, coherent state: it raises iff a key does
   not name a Value node; otherwise the result is the from-scratch state over  state | position  -
   whatever the private model copy contained before, and whether or not it auto-updates. *)
Theorem update_state_eq internal pos st : good st ->
  update_state LIT g internal pos st =
    if forallb (is_value g) (map fst pos)
    then Some (mkP (scratch g (overlay pos (pv st))) (repeat false (length g)))
    else None.
Proof.
  intros G. unfold update_state.
  destruct (forallb (is_value g) (map fst pos)) eqn:Hv; [|rewrite assign_all_none by exact Hv; reflexivity].
  assert (R0 : RInv {| cur := load g internal st; snaps := [] |}).
  { split; [apply load_Inv; exact G|constructor]. }
  destruct (assign_all_some pos _ R0 Hv) as [rs' [E [[I S] [_ Vl]]]]. rewrite E. f_equal.
  cbn [step_with ok_out st' cur with_cur fst i_sweep lit].
  destruct (sweep_spec V F interp dflt g W full (cur rs') (full_closed F g) I)
    as [[[L1 _] [In1 _]] [Cl [_ [_ [_ [Vs _]]]]]].
  set (r := sweep_lit interp dflt g full (cur rs')) in *.
  unfold to_pst. cbn [i_flags lit]. f_equal.
  - apply (nth_ext _ _ dflt dflt); [rewrite scratch_length; exact L1|].
    intros k Hk. rewrite L1 in Hk.
    fold (getv (vals (fst r)) k). fold (getv (scratch g (overlay pos (pv st))) k).
    rewrite scratch_get by exact Hk.
    assert (Hval : forall i m, nth_error g i = Some m -> kd m <> KCached ->
               getv (vals (fst r)) i = getv (overlay pos (pv st)) i).
    { intros i m Ei Ki. rewrite (Vs i m Ei Ki). rewrite (Vl i m Ei Ki). reflexivity. }
    destruct (nth_error g k) as [n|] eqn:E'; [|apply nth_error_None in E'; lia].
    destruct (is_cached g k) eqn:Ck.
    + apply is_cached_spec in Ck. rewrite In1.
      * apply (den_agree V F interp dflt g W). intros i m Ei Ki. apply (Hval i m Ei). congruence.
      * exact Ck.
      * destruct Ck as [m [Em Km]]. specialize (Cl k Hk eq_refl).
        rewrite (outdated_unfold V F g W _ k m Em), Km in Cl. exact Cl.
    + apply (Hval k n E'). intros Kc. unfold is_cached in Ck. rewrite E', Kc in Ck. discriminate.
  - apply map_all_false. intros k Hk. apply Cl; auto.
Qed.

Lemma update_state_good internal pos st st' : good st ->
  update_state LIT g internal pos st = Some st' -> good st'.
Proof.
  intros G E. rewrite (update_state_eq internal pos st G) in E.
  destruct (forallb _ _); [|discriminate]. injection E as <-. apply good_scratch.
Qed.

(* history independence: the private copy's previous contents (values, flags, auto_update) do not matter *)
Theorem update_state_internal_indep i1 i2 pos st : good st ->
  update_state LIT g i1 pos st = update_state LIT g i2 pos st.
Proof. intros G. rewrite !update_state_eq by exact G. reflexivity. Qed.

(* ---- frame of update_state ------------------------------------------------------------------------------------- *)
Lemma reaches_self j : j < length g -> reaches g j j = true.
Proof. intros Hj. apply (reaches_path F g W). apply path_refl. exact Hj. Qed.

Lemma den_overlay_unreached pos j : forall e : list V,
  (forall i, In i (map fst pos) -> reaches g i j = false) ->
  denote g (overlay pos e) j = denote g e j.
Proof.
  induction pos as [|kv r IH]; intros e H; [reflexivity|]. rewrite overlay_cons.
  rewrite IH by (intros i Hi; apply H; right; exact Hi).
  apply (den_unreached V F interp dflt g W). apply H. left. reflexivity.
Qed.

Lemma update_state_frame internal pos st st' j : good st ->
  update_state LIT g internal pos st = Some st' -> j < length g ->
  (forall i, In i (map fst pos) -> reaches g i j = false) ->
  getv (pv st') j = getv (pv st) j /\ pvalue g st' j = pvalue g st j.
Proof.
  intros G E Hj H. pose proof (update_state_good internal pos st st' G E) as G'.
  rewrite (update_state_eq internal pos st G) in E.
  destruct (forallb _ _); [|discriminate]. injection E as <-.
  assert (Hnot : ~ In j (map fst pos)).
  { intros Hin. specialize (H j Hin). rewrite reaches_self in H by exact Hj. discriminate. }
  split.
  - cbn [pv]. rewrite scratch_get by exact Hj. destruct (is_cached g j) eqn:Cj.
    + rewrite den_overlay_unreached by exact H. symmetry. apply G. apply is_cached_spec. exact Cj.
    + apply overlay_notin. exact Hnot.
  - rewrite !good_pvalue by assumption. cbn [pv]. rewrite denote_scratch.
    apply den_overlay_unreached. exact H.
Qed.

(* ---- one kernel -------------------------------------------------------------------------------------------------- *)
Lemma ktransition_good internal k p st st' : good st ->
  ktransition LIT g internal k p st = Some st' -> good st'.
Proof.
  intros G E. unfold ktransition in E.
  destruct (update_state LIT g internal (fst p) st) as [prop|] eqn:U; [|discriminate].
  pose proof (update_state_good internal (fst p) st prop G U) as Gp.
  destruct (kk k); injection E as <-; [destruct (snd p)|]; assumption.
Qed.

Lemma value_node_path i j n : nth_error g j = Some n -> kd n = KValue -> path i j -> i = j.
Proof.
  intros E K P. destruct P as [i Hi|i m k n' P E' Hm]; [reflexivity|].
  rewrite E in E'. injection E' as <-. destruct (W k n E) as [_ Hn]. rewrite (Hn K) in Hm. destruct Hm.
Qed.

(* A kernel changes no Value node outside its position keys, and a stored or derived quantity only if
   it is reached from one of its position keys; flags stay down. *)
Theorem ktransition_frame internal k p st st' : good st ->
  ktransition LIT g internal k p st = Some st' -> incl (map fst (fst p)) (keys k) ->
  (forall j n, nth_error g j = Some n -> kd n = KValue -> ~ In j (keys k) ->
      getv (pv st') j = getv (pv st) j)
  /\ (forall j, j < length g -> (forall i, In i (keys k) -> ~ path i j) ->
      getv (pv st') j = getv (pv st) j /\ pvalue g st' j = pvalue g st j)
  /\ pf st' = pf st.
Proof.
  intros G E Hd.
  assert (Main : forall j, j < length g -> (forall i, In i (keys k) -> ~ path i j) ->
      getv (pv st') j = getv (pv st) j /\ pvalue g st' j = pvalue g st j).
  { intros j Hj Hp. unfold ktransition in E.
    destruct (update_state LIT g internal (fst p) st) as [prop|] eqn:U; [|discriminate].
    assert (Fr : getv (pv prop) j = getv (pv st) j /\ pvalue g prop j = pvalue g st j).
    { apply (update_state_frame internal (fst p) st prop j G U Hj).
      intros i Hi. apply not_true_is_false. intros Hr. apply (Hp i (Hd i Hi)).
      apply (reaches_path F g W). exact Hr. }
    destruct (kk k); injection E as <-; [destruct (snd p)|]; auto. }
  split; [|split].
  - intros j n Ej Kj Hn. apply Main; [eapply wf_lt; eauto|].
    intros i Hi P. apply Hn. rewrite <- (value_node_path i j n Ej Kj P). exact Hi.
  - exact Main.
  - pose proof (ktransition_good internal k p st st' G E) as G'.
    destruct G as [_ [Fl _]]. destruct G' as [_ [Fl' _]]. congruence.
Qed.

(* rejection: an MH-type kernel returns the very state it received; a kernel that always writes back
   returns it too when the position written is the one extracted from the received state *)
Theorem rejection_identity_mh internal k p st : good st -> kk k = KMH -> snd p = false ->
  forallb (is_value g) (map fst (fst p)) = true ->
  ktransition LIT g internal k p st = Some st.
Proof.
  intros G Kk Hr Hv. destruct p as [pos acc]. cbn [fst snd] in *. unfold ktransition. cbn [fst snd].
  rewrite (update_state_eq internal pos st G), Hv, Kk, Hr. reflexivity.
Qed.

Theorem rejection_identity_always internal k b st : good st ->
  forallb (is_value g) (keys k) = true ->
  ktransition LIT g internal k (extract_position dflt (keys k) st, b) st = Some st.
Proof.
  intros G Hv. unfold ktransition. cbn [fst snd]. rewrite (update_state_eq internal _ st G).
  unfold extract_position. rewrite map_map. cbn [fst]. rewrite map_id, Hv.
  rewrite overlay_extract. rewrite (scratch_good_id st G).
  assert (E : mkP (pv st) (repeat false (length g)) = st).
  { destruct G as [_ [Fl _]]. destruct st as [v f]. cbn in *. rewrite Fl. reflexivity. }
  rewrite E. destruct (kk k); [destruct b|]; reflexivity.
Qed.

(* ---- the kernel sequence --------------------------------------------------------------------------------------- *)
Lemma seq_from_good internal orc ks : forall i st stf tr, good st ->
  seq_from LIT g internal orc i ks st = Some (stf, tr) -> good stf /\ Forall good tr.
Proof.
  induction ks as [|k r IH]; intros i st stf tr G E; cbn [seq_from] in E.
  - injection E as <- <-. split; [exact G|constructor].
  - destruct (ktransition LIT g (internal i) k (orc i st) st) as [st1|] eqn:K; [|discriminate].
    destruct (seq_from LIT g internal orc (S i) r st1) as [[s2 t2]|] eqn:Sq; [|discriminate].
    injection E as <- <-. pose proof (ktransition_good _ _ _ _ _ G K) as G1.
    destruct (IH (S i) st1 s2 t2 G1 Sq) as [A B]. split; [exact A|constructor; assumption].
Qed.

(* the iteration is the left fold of the kernels: splitting the sequence anywhere *)
Theorem seq_from_app (I : impl V F) internal orc ks1 : forall ks2 i st,
  seq_from I g internal orc i (ks1 ++ ks2) st =
    match seq_from I g internal orc i ks1 st with
    | None => None
    | Some (s1, tr1) =>
        match seq_from I g internal orc (i + length ks1) ks2 s1 with
        | None => None
        | Some (s2, tr2) => Some (s2, tr1 ++ tr2)
        end
    end.
Proof.
  induction ks1 as [|k r IH]; intros ks2 i st.
  - cbn [app seq_from length]. rewrite Nat.add_0_r.
    destruct (seq_from I g internal orc i ks2 st) as [[s2 tr2]|]; reflexivity.
  - cbn [app seq_from length].
    destruct (ktransition I g (internal i) k (orc i st) st) as [st1|]; [|reflexivity].
    rewrite IH. rewrite Nat.add_succ_r. cbn [plus].
    destruct (seq_from I g internal orc (S i) r st1) as [[s1 tr1]|]; [|reflexivity].
    destruct (seq_from I g internal orc (S (i + length r)) ks2 s1) as [[s2 tr2]|]; reflexivity.
Qed.

(* kernel j receives the state st; kernel j+1 receives exactly what kernel j returned; the state after the
   last kernel is the result *)
Theorem seq_from_received (I : impl V F) internal orc ks : forall i0 st stf tr,
  seq_from I g internal orc i0 ks st = Some (stf, tr) ->
  length tr = length ks /\ nth 0 tr stf = st /\
  forall j k, nth_error ks j = Some k ->
    ktransition I g (internal (i0 + j)) k (orc (i0 + j) (nth j tr stf)) (nth j tr stf)
      = Some (nth (S j) tr stf).
Proof.
  induction ks as [|k r IH]; intros i0 st stf tr E; cbn [seq_from] in E.
  - injection E as <- <-. split; [reflexivity|]. split; [reflexivity|]. intros [|j] k H; discriminate.
  - destruct (ktransition I g (internal i0) k (orc i0 st) st) as [st1|] eqn:K; [|discriminate].
    destruct (seq_from I g internal orc (S i0) r st1) as [[s2 t2]|] eqn:Sq; [|discriminate].
    injection E as <- <-. destruct (IH (S i0) st1 s2 t2 Sq) as [L [H0 Hs]].
    split; [cbn; rewrite L; reflexivity|]. split; [reflexivity|].
    intros [|j] k' Hk.
    + cbn in Hk. injection Hk as <-. rewrite Nat.add_0_r. cbn [nth]. rewrite H0. exact K.
    + cbn in Hk. rewrite Nat.add_succ_r. cbn [nth]. exact (Hs j k' Hk).
Qed.

(* the error codes the kernels report have no influence on the states: the loop with infos computes exactly the
   states of [seq_from] (so kernel j+1 receives what kernel j returned whatever code kernel j reported), and
   records the reported codes in order *)
Theorem seq_from_c_states (I : impl V F) internal orc codes ks : forall i st,
  seq_from_c I g internal orc codes i ks st =
    match seq_from I g internal orc i ks st with
    | None => None
    | Some (stf, tr) => Some (stf, tr, map (fun js => codes (i + fst js) (snd js)) (combine (seq 0 (length tr)) tr))
    end.
Proof.
  induction ks as [|k r IH]; intros i st; cbn [seq_from_c seq_from]; [reflexivity|].
  destruct (ktransition I g (internal i) k (orc i st) st) as [st1|]; [|reflexivity].
  rewrite IH. destruct (seq_from I g internal orc (S i) r st1) as [[stf tr]|]; [|reflexivity].
  cbn [length seq combine map fst snd]. rewrite Nat.add_0_r. f_equal. f_equal. f_equal.
  rewrite <- seq_shift, combine_map_l_aux. rewrite map_map. apply map_ext. intros [j s]. cbn [fst snd].
  f_equal. lia.
Qed.

Definition keys_ok (ks : list kernel) : Prop :=
  forall k, In k ks -> forallb (is_value g) (keys k) = true.
Definition dom_ok (orc : nat -> pst V -> proposal V) (i0 : nat) (ks : list kernel) : Prop :=
  forall j k st, nth_error ks j = Some k -> incl (map fst (fst (orc (i0 + j) st))) (keys k).

Lemma forallb_incl (f : nat -> bool) l1 l2 : incl l1 l2 -> forallb f l2 = true -> forallb f l1 = true.
Proof.
  intros Hi H. rewrite forallb_forall in *. intros x Hx. apply H. apply Hi. exact Hx.
Qed.

(* no exception: position keys that name Value nodes and proposals inside the keys *)
Theorem seq_from_no_error internal orc ks : forall i0 st, good st -> keys_ok ks -> dom_ok orc i0 ks ->
  exists stf tr, seq_from LIT g internal orc i0 ks st = Some (stf, tr).
Proof.
  induction ks as [|k r IH]; intros i0 st G Hk Hd; cbn [seq_from].
  - eauto.
  - assert (Hv : forallb (is_value g) (map fst (fst (orc i0 st))) = true).
    { apply (forallb_incl _ _ (keys k)).
      - pose proof (Hd 0 k st eq_refl) as H. rewrite Nat.add_0_r in H. exact H.
      - apply Hk. left. reflexivity. }
    destruct (ktransition LIT g (internal i0) k (orc i0 st) st) as [st1|] eqn:K.
    + pose proof (ktransition_good _ _ _ _ _ G K) as G1.
      destruct (IH (S i0) st1 G1) as [stf [tr E]].
      * intros k' Hk'. apply Hk. right. exact Hk'.
      * intros j k' s Hj. pose proof (Hd (S j) k' s Hj) as H. rewrite Nat.add_succ_r in H. exact H.
      * rewrite E. eauto.
    + exfalso. destruct (orc i0 st) as [pos acc]. cbn [fst snd] in *. unfold ktransition in K.
      cbn [fst snd] in K. rewrite (update_state_eq _ pos st G), Hv in K.
      destruct (kk k); discriminate.
Qed.

(* ---- iterations ---------------------------------------------------------------------------------------------------- *)
Theorem iterate_good its ks : forall st st', good st -> iterate LIT g its ks st = Some st' -> good st'.
Proof.
  induction its as [|it r IH]; intros st st' G E; cbn [iterate] in E.
  - injection E as <-. exact G.
  - unfold seq_transition in E.
    destruct (seq_from LIT g (fst it) (snd it) 0 ks st) as [[s1 tr]|] eqn:Sq; [|discriminate].
    apply (IH s1 st'); [|exact E]. exact (proj1 (seq_from_good _ _ _ _ _ _ _ G Sq)).
Qed.

(* what coherence of a model state means, spelled out: no flag, and every node - stored or transient,
   the log-probability node included - shows the value recomputed from the stored Value-node values *)
Theorem good_coherent st : good st ->
  forall k, k < length g ->
    getb (pf st) k = false /\ pvalue g st k = denote g (pv st) k
    /\ (cached k -> getv (pv st) k = denote g (pv st) k).
Proof.
  intros G k Hk. split; [|split].
  - destruct G as [_ [Fl _]]. rewrite Fl. apply getb_repeat_false.
  - apply good_pvalue; assumption.
  - destruct G as [_ [_ C]]. apply C.
Qed.

(* the state of a freshly built model (what the engine is started from) is good *)
Theorem init_good ext0 : good (to_pst LIT g (cur (init interp dflt g ext0))).
Proof.
  destruct (init_RInv V F interp dflt g W ext0) as [[[L _] [I _]] _].
  pose proof (init_clean V F interp dflt g W ext0) as Cl.
  set (s := cur (init interp dflt g ext0)) in *.
  split; [exact L|split].
  - cbn. apply map_all_false. exact Cl.
  - intros k Ck. cbn [to_pst pv]. apply I; [exact Ck|].
    pose proof (cached_lt F g k Ck) as Hk. destruct Ck as [n [E K]].
    specialize (Cl k Hk). rewrite (outdated_unfold V F g W s k n E), K in Cl. exact Cl.
Qed.

(* ---- what the shards execute (memo instance) is the literal model ----------------------------------------------- *)
Lemma assign_all_memo pos : forall rs, RInv rs -> assign_all MEMO g rs pos = assign_all LIT g rs pos.
Proof.
  induction pos as [|kv r IH]; intros rs R; [reflexivity|]. cbn [assign_all].
  pose proof (step_memo_lit V F interp dflt g W rs (Assign (fst kv) (snd kv)) (RInv_len V F interp dflt g rs R)) as E.
  unfold mstep, step in E. rewrite E. destruct (err _); [reflexivity|]. apply IH.
  exact (step_RInv V F interp dflt g W rs _ R).
Qed.

Lemma assign_all_RInv pos : forall rs rs', RInv rs -> assign_all LIT g rs pos = Some rs' -> RInv rs'.
Proof.
  induction pos as [|kv r IH]; intros rs rs' R E; cbn [assign_all] in E.
  - injection E as <-. exact R.
  - destruct (err _); [discriminate|].
    apply (IH (st' (step_with LIT g rs (Assign (fst kv) (snd kv)))) rs'); [|exact E].
    exact (step_RInv V F interp dflt g W rs _ R).
Qed.

Theorem update_state_memo internal pos st : good st ->
  update_state MEMO g internal pos st = update_state LIT g internal pos st.
Proof.
  intros G. unfold update_state.
  assert (R0 : RInv {| cur := load g internal st; snaps := [] |}).
  { split; [apply load_Inv; exact G|constructor]. }
  rewrite assign_all_memo by exact R0.
  destruct (assign_all LIT g _ pos) as [rs|] eqn:E; [|reflexivity].
  pose proof (assign_all_RInv pos _ rs R0 E) as R.
  pose proof (step_memo_lit V F interp dflt g W rs (Update []) (RInv_len V F interp dflt g rs R)) as E1.
  unfold mstep, step in E1. rewrite E1. unfold to_pst. cbn [i_flags memo lit].
  rewrite (outd_tab_lit V F g W). reflexivity.
Qed.

Lemma ktransition_memo internal k p st : good st ->
  ktransition MEMO g internal k p st = ktransition LIT g internal k p st.
Proof. intros G. unfold ktransition. rewrite update_state_memo by exact G. reflexivity. Qed.

Lemma seq_from_memo internal orc ks : forall i st, good st ->
  seq_from MEMO g internal orc i ks st = seq_from LIT g internal orc i ks st.
Proof.
  induction ks as [|k r IH]; intros i st G; [reflexivity|]. cbn [seq_from].
  rewrite ktransition_memo by exact G.
  destruct (ktransition LIT g (internal i) k (orc i st) st) as [st1|] eqn:K; [|reflexivity].
  rewrite IH by exact (ktransition_good _ _ _ _ _ G K). reflexivity.
Qed.

Theorem iterate_memo its ks : forall st, good st -> iterate MEMO g its ks st = iterate LIT g its ks st.
Proof.
  induction its as [|it r IH]; intros st G; [reflexivity|]. cbn [iterate]. unfold seq_transition.
  rewrite seq_from_memo by exact G.
  destruct (seq_from LIT g (fst it) (snd it) 0 ks st) as [[s1 tr]|] eqn:Sq; [|reflexivity].
  apply IH. exact (proj1 (seq_from_good _ _ _ _ _ _ _ G Sq)).
Qed.

(* ---- the executable test of [good] used by the correspondence shards -------------------------------------- *)
Section Dec.
Variable veqb : V -> V -> bool.
Hypothesis veqb_eq : forall a b, veqb a b = true -> a = b.

Lemma goodb_good st : goodb interp dflt veqb g st = true -> good st.
Proof.
  unfold goodb. cbv zeta. intros H.
  apply andb_true_iff in H. destruct H as [H Hc]. apply andb_true_iff in H. destruct H as [H Hf].
  apply andb_true_iff in H. destruct H as [Hl1 Hl2]. apply Nat.eqb_eq in Hl1, Hl2.
  split; [exact Hl1|split].
  - apply (nth_ext _ _ false false); [rewrite repeat_length; exact Hl2|]. intros k Hk. rewrite nth_repeat.
    rewrite forallb_forall in Hf. specialize (Hf (nth k (pf st) false) (nth_In _ _ Hk)).
    destruct (nth k (pf st) false); [discriminate|reflexivity].
  - intros k Ck. rewrite forallb_forall in Hc. pose proof (cached_lt F g k Ck) as Hk.
    assert (Hin : In k (seq 0 (length g))) by (apply in_seq; lia).
    specialize (Hc k Hin). cbv beta in Hc. rewrite (proj2 (is_cached_spec k) Ck) in Hc.
    apply veqb_eq in Hc. rewrite Hc. rewrite (den_tab_lit V F interp dflt g W).
    unfold Graph.getv. apply nth_map_seq. exact Hk.
Qed.
End Dec.

End BP.
