(* Executable glue for the C03 correspondence shards (no proofs).

   Values are integers and node functions are the symbols of CorrC01.v (FAff / FId / FSum).
   A case is: the graph of a real lsl.Model (positions = a topological order chosen by the harness),
   its two name spaces (key number -> position), the position of "_model_log_prob", the initial input
   values, operations applied to the user's model before gs.LieselInterface(model) is created, and then
   a sequence of steps, each with what the real code showed:

     OUpdate pos si    r = iface.update_state(pos, pool[si]); pool.append(r)     BState raised? view(r)
     OExtract keys si  iface.extract_position(keys, pool[si])                    BPos raised? values
     OLogProb si       iface.log_prob(pool[si])                                  BLp value-or-None
     OModel o          an operation on the USER's model (not the private copy)   BModel raised?
     OSave             pool.append(model.state)  (the user's model)              BState false view

   pool[0] is model.state at the moment the interface is created.  [verdict] runs the model
   (Iface.update_state over the table-driven instance memo; IfaceProofs.update_state_memo_lit says it is
   the literal one) and compares every observation. *)
From Coq Require Import List ZArith Bool Arith.
Import ListNotations.
From LV Require Import Base.ListAux Graph.Graph Graph.Iface Graph.CorrC01.

Inductive iop :=
| OUpdate (pos : list (nat * Z)) (si : nat)
| OExtract (keys : list nat) (si : nat)
| OLogProb (si : nat)
| OModel (o : zop)
| OSave.

Inductive iobs :=
| BState (raised : bool) (st : list (option Z * bool))
| BPos (raised : bool) (vs : list (option Z))
| BLp (v : option Z)
| BModel (raised : bool).

Record c03case := mkC3 {
  k_g : zgraph;
  k_nm : names;
  k_lp : nat;
  k_ext0 : list Z;
  k_pre : list zop;
  k_state0 : list (option Z * bool);
  k_steps : list (iop * iobs)
}.

Definition oz_eqb (a b : option Z) : bool :=
  match a, b with
  | Some x, Some y => Z.eqb x y
  | None, None => true
  | _, _ => false
  end.
Definition ns_eqb (a b : option Z * bool) : bool := oz_eqb (fst a) (fst b) && Bool.eqb (snd a) (snd b).
Definition view_eqb := list_eqb ns_eqb.
Definition ozlist_eqb := list_eqb oz_eqb.

Definition zview (g : zgraph) (st : snap Z) := view 0%Z g st.

(* machine state of a case: user's model, private copy of the interface, pool of model states *)
Record mach := mkM { m_user : rstate Z; m_int : mstate Z; m_pool : list (snap Z) }.

Definition istep (g : zgraph) (nm : names) (lp : nat) (m : mach) (o : iop) (b : iobs) : option mach :=
  match o, b with
  | OUpdate pos si, BState raised v =>
      match nth_error (m_pool m) si with
      | None => None
      | Some st =>
          let r := update_state (memo interp 0%Z) g nm (m_int m) pos st in
          match snd r with
          | None => if raised then Some (mkM (m_user m) (fst r) (m_pool m)) else None
          | Some sn =>
              if negb raised && view_eqb (zview g sn) v
              then Some (mkM (m_user m) (fst r) (m_pool m ++ [sn])) else None
          end
      end
  | OExtract keys si, BPos raised vs =>
      match nth_error (m_pool m) si with
      | None => None
      | Some st =>
          match extract_position 0%Z g nm keys st with
          | None => if raised then Some m else None
          | Some xs => if negb raised && ozlist_eqb xs vs then Some m else None
          end
      end
  | OLogProb si, BLp v =>
      match nth_error (m_pool m) si with
      | None => None
      | Some st =>
          match log_prob 0%Z g lp st with
          | Some x => if oz_eqb x v then Some m else None
          | None => None
          end
      end
  | OModel o', BModel raised =>
      let out := mstep interp 0%Z g (m_user m) o' in
      if Bool.eqb (err out) raised then Some (mkM (st' out) (m_int m) (m_pool m)) else None
  | OSave, BState raised v =>
      let sn := snapshot (memo interp 0%Z) g (cur (m_user m)) in
      if negb raised && view_eqb (zview g sn) v
      then Some (mkM (m_user m) (m_int m) (m_pool m ++ [sn])) else None
  | _, _ => None
  end.

Fixpoint first_bad3 (g : zgraph) (nm : names) (lp : nat) (m : mach) (steps : list (iop * iobs)) (i : nat)
  : option nat :=
  match steps with
  | [] => None
  | (o, b) :: r =>
      match istep g nm lp m o b with
      | Some m' => first_bad3 g nm lp m' r (S i)
      | None => Some i
      end
  end.

(* 0 = agrees; 1 = graph not well-formed; 2 = "_model_log_prob" position out of range;
   3 = model.state at interface creation differs; 4 + i = step i differs *)
Definition verdict3 (c : c03case) : nat :=
  let g := k_g c in
  if negb (wfb g) then 1
  else if negb (k_lp c <? length g) then 2
  else
    let rs := mrun interp 0%Z g (k_pre c) (minit interp 0%Z g (k_ext0 c)) in
    let s0 := snapshot (memo interp 0%Z) g (cur rs) in
    if negb (view_eqb (zview g s0) (k_state0 c)) then 3
    else match first_bad3 g (k_nm c) (k_lp c)
                 (mkM rs (hollow 0%Z g (auto (cur rs))) [s0]) (k_steps c) 0 with
         | None => 0
         | Some i => 4 + i
         end.

Definition agrees3 (c : c03case) : bool := Nat.eqb (verdict3 c) 0.

(* ---- flat interfaces: dict / dataclass / named tuple on integer-valued states --------------------- *)
Inductive fop :=
| FUpdate (strict : bool) (pos : list (nat * Z))     (* result (None = raised) *)
| FExtract (keys : list nat).

Record flatcase := mkFC {
  f_state : list (nat * Z);
  f_op : fop;
  f_state_after : option (list (nat * Z));      (* FUpdate: returned state *)
  f_values : option (list Z)                    (* FExtract: returned values *)
}.

Definition kv_eqb (a b : nat * Z) : bool := Nat.eqb (fst a) (fst b) && Z.eqb (snd a) (snd b).

(* a dict is compared up to the order of its keys (keys are distinct) *)
Definition fsame (a b : list (nat * Z)) : bool :=
  Nat.eqb (length a) (length b)
  && forallb (fun kv => match fget b (fst kv) with Some v => Z.eqb v (snd kv) | None => false end) a.

Definition flat_agrees (c : flatcase) : bool :=
  match f_op c with
  | FUpdate strict pos =>
      match fupdate strict pos (f_state c), f_state_after c with
      | Some a, Some b => if strict then list_eqb kv_eqb a b else fsame a b
      | None, None => true
      | _, _ => false
      end
  | FExtract keys =>
      match fextract keys (f_state c), f_values c with
      | Some a, Some b => list_eqb Z.eqb a b
      | None, None => true
      | _, _ => false
      end
  end.
