(* Executable glue for the C01 correspondence shards (no proofs).

   Values are integers, function symbols are what the harness wraps around the real nodes:
     FAff salt coefs   (salt + sum_j coefs[j] * arg[j]) mod 1000003      user Calc / TransientCalc /
                                                                         Dist.log_prob (args, then at) /
                                                                         canonical value of an InputGroup
     FId               identity of the single argument                   VarValue, TransientIdentity
     FSum              Python sum of the arguments                       _model_log_lik/_prior/_prob
   A case is a graph (in a topological order chosen by the harness), the initial values of the Value
   nodes, the real Node.outputs of every node, and for every operation what the real model showed
   afterwards: node.value and node.outdated of every node, the set of cached nodes whose function was
   called, whether the operation raised.  [agrees] re-runs the model (memo instance) on the same
   operations and compares everything. *)
From Coq Require Import List ZArith Bool Arith.
Import ListNotations.
From LV Require Import Base.ListAux Graph.Graph.

Inductive fsym := FAff (salt : Z) (coefs : list Z) | FId | FSum.

Definition modulus : Z := 1000003%Z.

Fixpoint dot (cs args : list Z) : Z :=
  match cs, args with
  | c :: cs', a :: args' => (c * a + dot cs' args')%Z
  | _, _ => 0%Z
  end.

Definition interp (f : fsym) (args : list Z) : Z :=
  match f with
  | FAff salt cs => ((salt + dot cs args) mod modulus)%Z
  | FId => match args with x :: _ => x | [] => 0%Z end
  | FSum => fold_left Z.add args 0%Z
  end.

Definition zgraph := graph fsym.
Definition zop := op Z.

Record obs := mkObs {
  o_vals : list Z;        (* node.value of every node, in graph order *)
  o_flags : list bool;    (* node.outdated of every node *)
  o_evald : list nat;     (* cached nodes whose function was called during the operation, ascending *)
  o_err : bool            (* the operation raised *)
}.

Record c01case := mkCase {
  c_g : zgraph;
  c_ext0 : list Z;               (* value the node holds when the model is built (Value nodes; 0 elsewhere) *)
  c_outs : list (list nat);      (* sorted positions of node.outputs, for every node *)
  c_counted : list bool;         (* the node's function is a counting wrapper of the harness (the
                                    _model_log_* nodes run liesel's own function: calls not observed) *)
  c_init : obs;                  (* observation right after the model is built (o_evald, o_err unused) *)
  c_steps : list (zop * obs)
}.

Definition zlist_eqb := list_eqb Z.eqb.
Definition blist_eqb := list_eqb Bool.eqb.
Definition nlist_eqb := list_eqb Nat.eqb.

(* insertion sort of the evaluation trace (the harness reports the called nodes in ascending order) *)
Fixpoint insert (x : nat) (l : list nat) : list nat :=
  match l with
  | [] => [x]
  | y :: r => if x <=? y then x :: l else y :: insert x r
  end.
Definition sort (l : list nat) : list nat := fold_right insert [] l.

Definition state_agrees (g : zgraph) (s : mstate Z) (o : obs) : bool :=
  zlist_eqb (mvalues_all interp 0%Z g s) (o_vals o) && blist_eqb (mflags_all g s) (o_flags o).

(* index of the first step whose observation differs from the model (None = all agree) *)
Definition trace (cnt : list bool) (ev : list nat) : list nat :=
  filter (fun k => nth k cnt false) (sort ev).

Fixpoint first_bad (g : zgraph) (cnt : list bool) (rs : rstate Z) (steps : list (zop * obs)) (i : nat)
  : option nat :=
  match steps with
  | [] => None
  | (o, ob) :: r =>
      let out := mstep interp 0%Z g rs o in
      if state_agrees g (cur (st' out)) ob
         && nlist_eqb (trace cnt (evald out)) (o_evald ob)
         && Bool.eqb (err out) (o_err ob)
      then first_bad g cnt (st' out) r (S i)
      else Some i
  end.

Definition outs_agree (g : zgraph) (os : list (list nat)) : bool :=
  list_eqb nlist_eqb (map (outs g) (seq 0 (length g))) os.

(* 0 = agrees; 1 = graph not well-formed; 2 = outputs differ; 3 = state after build differs;
   4 + i = step i differs *)
Definition verdict (c : c01case) : nat :=
  if negb (wfb (c_g c)) then 1
  else if negb (outs_agree (c_g c) (c_outs c)) then 2
  else
    let rs := minit interp 0%Z (c_g c) (c_ext0 c) in
    if negb (state_agrees (c_g c) (cur rs) (c_init c)) then 3
    else match first_bad (c_g c) (c_counted c) rs (c_steps c) 0 with
         | None => 0
         | Some i => 4 + i
         end.

Definition agrees (c : c01case) : bool := Nat.eqb (verdict c) 0.

(* the same with the literal (fuelled) readers the theorems are stated about; used on the small
   graphs of every shard as a cross-check of GraphMemo.step_memo_lit on the very inputs *)
Fixpoint first_bad_lit (g : zgraph) (cnt : list bool) (rs : rstate Z) (steps : list (zop * obs)) (i : nat)
  : option nat :=
  match steps with
  | [] => None
  | (o, ob) :: r =>
      let out := step interp 0%Z g rs o in
      if zlist_eqb (values_all interp 0%Z g (cur (st' out))) (o_vals ob)
         && blist_eqb (flags_all g (cur (st' out))) (o_flags ob)
         && nlist_eqb (trace cnt (evald out)) (o_evald ob)
         && Bool.eqb (err out) (o_err ob)
      then first_bad_lit g cnt (st' out) r (S i)
      else Some i
  end.
Definition agrees_lit (c : c01case) : bool :=
  wfb (c_g c) &&
  match first_bad_lit (c_g c) (c_counted c) (init interp 0%Z (c_g c) (c_ext0 c)) (c_steps c) 0 with
  | None => true | Some _ => false end.
