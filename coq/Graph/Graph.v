(* Graph.v - executable model of liesel's cached computational graph
   (liesel/model/nodes.py: Node, Value, Calc, TransientNode, Dist ...; liesel/model/model.py: Model).

   NO PROOFS IN THIS FILE, so that the model keeps evaluating when a proof breaks:
     GraphProofs.v    invariant Inv / RInv, inv_coherent, sweep_spec, assign_flag_Inv, snapshot_ok,
                      step_RInv / run_RInv / init_RInv, reaches_path, the C01 theorems
     GraphMemo.v      step_with memo = step_with lit on reachable states (memo_reach, observe_memo_lit)
     GraphExamples.v  a concrete 7-node diamond with a transient node (non-vacuity)
     CorrC01.v        Z-valued instance (fsym, interp) and the agreement predicate of the C01 shards
   Shared by the checks for C01 (cache coherence), C03, C09, C13, C17.

   API (everything lives in Section G and is parametrised by
          V : Type                     node values
          F : Type                     function symbols
          interp : F -> list V -> V    meaning of a function symbol (arbitrary in the theorems)
          dflt : V                     filler for out-of-range reads; never reached on wf graphs)

     kind            KValue | KCached | KTrans
                       KValue   = Value / Data                      (holds an externally assigned value)
                       KCached  = Calc, Dist                        (caches _value, has an _outdated flag)
                       KTrans   = TransientCalc, TransientIdentity, VarValue, InputGroup, TransientDist
     node            {| kd; ins : list nat; fs : F |}  ins = argument nodes in call order (inputs, then
                       kwinputs, then - for a Dist - the evaluation point `at`); duplicates allowed
     graph           list node; position = position in (some) topological update order
     wf / wfb        inputs point to strictly smaller positions; Value nodes have no inputs
     mstate          {| vals; dirty; touched; auto |} = Node._value, Node._outdated, (ghost), Model._auto_update
     readers (fuelled, mirror the Python properties literally; fuel > k is enough on a wf graph):
       effv g s fuel k     Node.value         (transient nodes recompute from their inputs)
       outd g s fuel k     Node.outdated      (Value: False; cached: flag; transient: any(inputs outdated))
       den  g ext fuel k   from-scratch value when the Value nodes hold ext   (the specification)
       reachb g i fuel k   k is i or a recursive output of i   (set reached by Node.flag_outdated from i)
       value / outdated / denote / reaches   = the readers at fuel (S k)
     impl            record of the three graph traversals used by the operations, with two instances:
       lit             defined through the fuelled readers            (what the theorems talk about)
       memo            one left-to-right pass with a table            (what vm_compute runs; GraphMemo.v
                                                                       proves  step_with memo = step_with lit
                                                                       on every state reachable from init)
     sweep g tgt s   Model.update loop: returns (state, list of evaluated cached nodes in order)
     assign_flag     Value.value setter without the auto-update part
     tgt_tab         recursive inputs of the targets (Model._recursive_inputs) as a bool table
     op              Assign i v | SetAuto b | Update ts (ts = [] is the full update, as in the code)
                     | Save | Restore k
     rstate          {| cur : mstate; snaps : list snap |}
     step_with I g rs o : outcome = {| st'; evald; err |}   (err = the code raises and changes nothing)
     step := step_with lit, mstep := step_with memo, run, init, mrun, minit
     values_all / flags_all (and m-versions)   what `node.value` / `node.outdated` show for every node
     outs g k        positions that have k among their inputs (Node.outputs)                        *)
From Coq Require Import List Bool Arith.
Import ListNotations.

Inductive kind := KValue | KCached | KTrans.

Fixpoint upd {A} (l : list A) (k : nat) (a : A) : list A :=
  match l, k with
  | [], _ => []
  | _ :: t, 0 => a :: t
  | h :: t, S k' => h :: upd t k' a
  end.

Section G.
Variables (V F : Type) (interp : F -> list V -> V) (dflt : V).

Record node := mkNode { kd : kind; ins : list nat; fs : F }.
Definition graph := list node.

Definition wf (g : graph) : Prop :=
  forall k n, nth_error g k = Some n ->
    Forall (fun i => i < k) (ins n) /\ (kd n = KValue -> ins n = []).

Definition wf_node (k : nat) (n : node) : bool :=
  forallb (fun i => i <? k) (ins n)
  && match kd n, ins n with KValue, _ :: _ => false | _, _ => true end.
Fixpoint wfb_from (k : nat) (g : graph) : bool :=
  match g with [] => true | n :: r => wf_node k n && wfb_from (S k) r end.
Definition wfb (g : graph) : bool := wfb_from 0 g.

(* _value, _outdated of every node; touched is a ghost (never read by an operation): "an ancestor was
   assigned since this node was last computed"; auto = Model._auto_update *)
Record mstate := mkState { vals : list V; dirty : list bool; touched : list bool; auto : bool }.

Definition getv (l : list V) k := nth k l dflt.
Definition getb (l : list bool) k := nth k l false.

(* ---- readers --------------------------------------------------------------------------------- *)
(* Node.value: Value/Calc/Dist return _value; transient nodes evaluate their function on the values of
   their inputs (TransientCalc.value, InputGroup.value, TransientDist.value) *)
Fixpoint effv (g : graph) (s : mstate) (fuel k : nat) : V :=
  match fuel with 0 => dflt | S f =>
    match nth_error g k with
    | Some n => match kd n with
                | KTrans => interp (fs n) (map (effv g s f) (ins n))
                | _ => getv (vals s) k
                end
    | None => dflt end end.

(* Node.outdated: Value.outdated = False; Node.outdated = _outdated;
   TransientNode.outdated = any(_input.outdated for _input in all_input_nodes()) *)
Fixpoint outd (g : graph) (s : mstate) (fuel k : nat) : bool :=
  match fuel with 0 => true | S f =>
    match nth_error g k with
    | Some n => match kd n with
                | KValue => false
                | KCached => getb (dirty s) k
                | KTrans => existsb (outd g s f) (ins n)
                end
    | None => false end end.

(* specification: the value a from-scratch recomputation gives when the Value nodes hold ext *)
Fixpoint den (g : graph) (ext : list V) (fuel k : nat) : V :=
  match fuel with 0 => dflt | S f =>
    match nth_error g k with
    | Some n => match kd n with
                | KValue => getv ext k
                | _ => interp (fs n) (map (den g ext f) (ins n))
                end
    | None => dflt end end.

(* k is i itself or is reached from i through output edges (the nodes Node.flag_outdated visits
   when started at i; read backwards: k = i or one of k's inputs is reached) *)
Fixpoint reachb (g : graph) (i : nat) (fuel k : nat) : bool :=
  match fuel with 0 => false | S f =>
    match nth_error g k with
    | Some n => (k =? i) || existsb (reachb g i f) (ins n)
    | None => false end end.

Definition value g s k := effv g s (S k) k.
Definition outdated g s k := outd g s (S k) k.
Definition denote g ext k := den g ext (S k) k.
Definition reaches g i k := reachb g i (S k) k.

(* ---- one node of Model.update's loop ------------------------------------------------------------
     for node in self._sorted_nodes:
         if [node in inputs and] node.outdated: node.update()
   Calc.update / Dist.update: _value = function(values of inputs); _outdated = False.
   TransientNode.update and Value.update do nothing. *)
Definition set_node (s : mstate) (k : nat) (v : V) : mstate :=
  {| vals := upd (vals s) k v; dirty := upd (dirty s) k false;
     touched := upd (touched s) k false; auto := auto s |}.

Definition sweep1 (g : graph) (tgt : nat -> bool) (st : mstate * list nat) (k : nat)
  : mstate * list nat :=
  match nth_error g k with
  | Some n =>
      if tgt k && outdated g (fst st) k then
        match kd n with
        | KCached => (set_node (fst st) k (interp (fs n) (map (value g (fst st)) (ins n))),
                      snd st ++ [k])
        | _ => st
        end
      else st
  | None => st
  end.

Definition sweep_lit (g : graph) (tgt : nat -> bool) (s : mstate) : mstate * list nat :=
  fold_left (sweep1 g tgt) (seq 0 (length g)) (s, []).

Definition reach_lit (g : graph) (i : nat) : list bool := map (reaches g i) (seq 0 (length g)).
Definition flags_lit (g : graph) (s : mstate) : list bool := map (outdated g s) (seq 0 (length g)).
Definition values_all (g : graph) (s : mstate) : list V := map (value g s) (seq 0 (length g)).

(* ---- the same traversals as single passes with a table (for vm_compute) ------------------------- *)
Definition tab {A} (f : nat -> node -> list A -> A) (g : graph) : list A :=
  fold_left (fun acc n => acc ++ [f (length acc) n acc]) g [].

Definition effv_tab (g : graph) (s : mstate) : list V :=
  tab (fun k n acc => match kd n with
                      | KTrans => interp (fs n) (map (getv acc) (ins n))
                      | _ => getv (vals s) k end) g.
Definition outd_tab (g : graph) (s : mstate) : list bool :=
  tab (fun k n acc => match kd n with
                      | KValue => false
                      | KCached => getb (dirty s) k
                      | KTrans => existsb (getb acc) (ins n) end) g.
Definition den_tab (g : graph) (ext : list V) : list V :=
  tab (fun k n acc => match kd n with
                      | KValue => getv ext k
                      | _ => interp (fs n) (map (getv acc) (ins n)) end) g.
Definition reach_tab (g : graph) (i : nat) : list bool :=
  tab (fun k n acc => (k =? i) || existsb (getb acc) (ins n)) g.

(* sweep carrying the table ev of the effective values of the nodes already passed *)
Definition msweep1 (tgt : nat -> bool) (st : mstate * list nat * list V) (n : node)
  : mstate * list nat * list V :=
  let '(s, tr, ev) := st in
  let k := length ev in
  match kd n with
  | KValue => (s, tr, ev ++ [getv (vals s) k])
  | KTrans => (s, tr, ev ++ [interp (fs n) (map (getv ev) (ins n))])
  | KCached =>
      if tgt k && getb (dirty s) k then
        let v := interp (fs n) (map (getv ev) (ins n)) in
        (set_node s k v, tr ++ [k], ev ++ [v])
      else (s, tr, ev ++ [getv (vals s) k])
  end.
Definition sweep_memo (g : graph) (tgt : nat -> bool) (s : mstate) : mstate * list nat :=
  fst (fold_left (msweep1 tgt) g (s, [], [])).

Record impl := mkImpl {
  i_reach : graph -> nat -> list bool;            (* table of  reaches g i k  over all k *)
  i_flags : graph -> mstate -> list bool;         (* table of  outdated g s k  over all k *)
  i_sweep : graph -> (nat -> bool) -> mstate -> mstate * list nat }.
Definition lit := mkImpl reach_lit flags_lit sweep_lit.
Definition memo := mkImpl reach_tab outd_tab sweep_memo.

Section Ops.
Variable I : impl.

(* ---- Value.value setter:   self._value = value
                              for node in self.outputs: node.flag_outdated()     (recursive outputs)
                              [if self.model.auto_update: self.model.update()]   (done in step)   *)
Definition flag_desc (g : graph) (i : nat) (l : list bool) : list bool :=
  let rt := i_reach I g i in
  map (fun k => getb l k || (negb (k =? i) && getb rt k)) (seq 0 (length g)).

Definition assign_flag (g : graph) (s : mstate) (i : nat) (v : V) : mstate :=
  {| vals := upd (vals s) i v; dirty := flag_desc g i (dirty s);
     touched := flag_desc g i (touched s); auto := auto s |}.

(* ---- Model._recursive_inputs of the targets: k is a target or has a target among its recursive
   outputs, i.e. some target is reached from k *)
Definition tgt_tab (g : graph) (ts : list nat) : list bool :=
  map (fun k => let rt := i_reach I g k in existsb (getb rt) ts) (seq 0 (length g)).

(* ---- Model.state getter / setter ------------------------------------------------------------------
   getter: {name: NodeState(node.value or None, node.outdated)};  setter: _value, _outdated = saved *)
Record snap := mkSnap { sn_vals : list V; sn_flags : list bool; sn_touched : list bool }.
Definition snapshot (g : graph) (s : mstate) : snap :=
  {| sn_vals := vals s; sn_flags := i_flags I g s; sn_touched := touched s |}.
Definition restore (s : mstate) (sn : snap) : mstate :=
  {| vals := sn_vals sn; dirty := sn_flags sn; touched := sn_touched sn; auto := auto s |}.

Inductive op :=
| Assign (i : nat) (v : V)      (* model.nodes[i].value = v   /  var.value = v *)
| SetAuto (b : bool)            (* model.auto_update = b *)
| Update (ts : list nat)        (* model.update( *names );  no names = full update *)
| Save                          (* snaps.append(model.state) *)
| Restore (k : nat).            (* model.state = snaps[k] *)

Record rstate := mkR { cur : mstate; snaps : list snap }.
Record outcome := mkO { st' : rstate; evald : list nat; err : bool }.

Definition with_cur (rs : rstate) (s : mstate) : rstate := {| cur := s; snaps := snaps rs |}.
Definition ok_out (rs : rstate) (r : mstate * list nat) : outcome :=
  {| st' := with_cur rs (fst r); evald := snd r; err := false |}.
Definition err_out (rs : rstate) : outcome := {| st' := rs; evald := []; err := true |}.

Definition full (_ : nat) : bool := true.

Definition step_with (g : graph) (rs : rstate) (o : op) : outcome :=
  let s := cur rs in
  match o with
  | Assign i v =>
      match nth_error g i with
      | Some n =>
          match kd n with
          | KValue =>
              let s1 := assign_flag g s i v in
              if auto s then ok_out rs (i_sweep I g full s1) else ok_out rs (s1, [])
          | _ => err_out rs            (* Calc/Dist/transient nodes have no value setter: AttributeError *)
          end
      | None => err_out rs             (* no such node: KeyError *)
      end
  | SetAuto b =>
      ok_out rs ({| vals := vals s; dirty := dirty s; touched := touched s; auto := b |}, [])
  | Update [] => ok_out rs (i_sweep I g full s)
  | Update ts =>
      if forallb (fun t => t <? length g) ts
      then let tt := tgt_tab g ts in ok_out rs (i_sweep I g (getb tt) s)
      else err_out rs                  (* unknown name: KeyError before anything is updated *)
  | Save => {| st' := {| cur := s; snaps := snaps rs ++ [snapshot g s] |}; evald := []; err := false |}
  | Restore k =>
      match nth_error (snaps rs) k with
      | Some sn => ok_out rs (restore s sn, [])
      | None => err_out rs             (* harness-side error, no such snapshot *)
      end
  end.

Definition run_with (g : graph) (ops : list op) (rs : rstate) : rstate :=
  fold_left (fun rs o => st' (step_with g rs o)) ops rs.

(* Model.__init__: every node is updated once in topological order (unconditionally; the same as a full
   sweep from the all-outdated state); auto_update = True *)
Definition init_state (g : graph) (ext0 : list V) : mstate :=
  {| vals := map (getv ext0) (seq 0 (length g)); dirty := repeat true (length g);
     touched := repeat true (length g); auto := true |}.
Definition init_with (g : graph) (ext0 : list V) : rstate :=
  {| cur := fst (i_sweep I g full (init_state g ext0)); snaps := [] |}.

End Ops.

Definition step := step_with lit.
Definition run := run_with lit.
Definition init := init_with lit.
Definition mstep := step_with memo.
Definition mrun := run_with memo.
Definition minit := init_with memo.

Definition mvalues_all := effv_tab.
Definition flags_all := flags_lit.
Definition mflags_all := outd_tab.

(* Node.outputs: the nodes that list k among their inputs *)
Definition outs (g : graph) (k : nat) : list nat :=
  map fst (filter (fun jn => existsb (Nat.eqb k) (ins (snd jn))) (combine (seq 0 (length g)) g)).

End G.

Arguments mkNode {F}.
Arguments kd {F}.
Arguments ins {F}.
Arguments fs {F}.
Arguments wf {F}.
Arguments wfb {F}.
Arguments wf_node {F}.
Arguments wfb_from {F}.
Arguments mkState {V}.
Arguments vals {V}.
Arguments dirty {V}.
Arguments touched {V}.
Arguments auto {V}.
Arguments getv {V}.
Arguments outd {V F}.
Arguments outdated {V F}.
Arguments reachb {F}.
Arguments reaches {F}.
Arguments set_node {V}.
Arguments tab {F A}.
Arguments outd_tab {V F}.
Arguments reach_tab {F}.
Arguments reach_lit {F}.
Arguments flags_lit {V F}.
Arguments flags_all {V F}.
Arguments mflags_all {V F}.
Arguments mkSnap {V}.
Arguments sn_vals {V}.
Arguments sn_flags {V}.
Arguments sn_touched {V}.
Arguments restore {V}.
Arguments Assign {V}.
Arguments SetAuto {V}.
Arguments Update {V}.
Arguments Save {V}.
Arguments Restore {V}.
Arguments mkR {V}.
Arguments cur {V}.
Arguments snaps {V}.
Arguments mkO {V}.
Arguments st' {V}.
Arguments evald {V}.
Arguments err {V}.
Arguments with_cur {V}.
Arguments ok_out {V}.
Arguments err_out {V}.
Arguments outs {F}.
Arguments effv {V F}.
Arguments den {V F}.
Arguments value {V F}.
Arguments denote {V F}.
Arguments sweep1 {V F}.
Arguments sweep_lit {V F}.
Arguments values_all {V F}.
Arguments mvalues_all {V F}.
Arguments effv_tab {V F}.
Arguments den_tab {V F}.
Arguments msweep1 {V F}.
Arguments sweep_memo {V F}.
Arguments mkImpl {V F}.
Arguments i_reach {V F}.
Arguments i_flags {V F}.
Arguments i_sweep {V F}.
Arguments lit {V F}.
Arguments memo {V F}.
Arguments flag_desc {V F}.
Arguments assign_flag {V F}.
Arguments tgt_tab {V F}.
Arguments snapshot {V F}.
Arguments step_with {V F}.
Arguments run_with {V F}.
Arguments init_state {V F}.
Arguments init_with {V F}.
Arguments step {V F}.
Arguments run {V F}.
Arguments init {V F}.
Arguments mstep {V F}.
Arguments mrun {V F}.
Arguments minit {V F}.
