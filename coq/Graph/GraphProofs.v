(* GraphProofs.v - proofs about the cached-graph machine of Graph.v (literal, fuelled readers).

   Reusable interface (everything is for an arbitrary value type V, function symbols F, meaning
   interp : F -> list V -> V and filler dflt):

     wf_in, wfb_wf                   well-formedness facts; the boolean test implies wf
     effv_fuel, outd_fuel, den_fuel, reachb_fuel     fuel irrelevance of the four readers on wf graphs
     value_agree, outdated_agree, den_agree          what the readers depend on
     path g i k                      inductive "k is i or a recursive output of i"; reaches_path : reaches = path
     lens / inv / ghost / Inv        the state invariant (lengths, cached-and-clean nodes hold the
                                     from-scratch value, dirty -> touched)
     coherent, inv_coherent          Inv -> every node that reports itself up to date (transient ones
                                     included) shows its from-scratch value
     tgt_closed, sweep_spec          Model.update's sweep: keeps Inv, cleans the (input-closed) target set,
                                     evaluates each cached node at most once and only dirty+touched ones,
                                     leaves everything else alone
     assign_flag_Inv, assign_flag_frame      Value.value setter (without auto-update)
     snap_ok, snapshot_ok, restore_Inv       Model.state getter / setter
     RInv, step_RInv, run_RInv, init_RInv    the invariant along arbitrary operation histories
     the C01 theorems (restated in Properties/C01.v)                                                 *)
From Coq Require Import List Bool Arith Lia.
Import ListNotations.
From LV Require Import Graph.Graph.

(* ---- lists ------------------------------------------------------------------------------------- *)
Lemma upd_length {A} (l : list A) k a : length (upd l k a) = length l.
Proof. revert k; induction l as [|h t IH]; intros [|k]; cbn; auto. Qed.

Lemma nth_upd_eq {A} (l : list A) k a d : k < length l -> nth k (upd l k a) d = a.
Proof.
  revert k; induction l as [|h t IH]; intros [|k] H; cbn in *; try lia; auto.
  apply IH; lia.
Qed.

Lemma nth_upd_neq {A} (l : list A) k j a d : j <> k -> nth j (upd l k a) d = nth j l d.
Proof.
  revert k j; induction l as [|h t IH]; intros [|k] [|j] H; cbn; auto; try lia.
Qed.

Lemma nth_map_seq {A} (f : nat -> A) n k d : k < n -> nth k (map f (seq 0 n)) d = f k.
Proof.
  intros H. rewrite (nth_indep _ d (f 0)) by (rewrite map_length, seq_length; exact H).
  rewrite map_nth. rewrite seq_nth by exact H. reflexivity.
Qed.

Lemma existsb_ext_in {A} (f g : A -> bool) l :
  (forall x, In x l -> f x = g x) -> existsb f l = existsb g l.
Proof.
  induction l as [|h t IH]; cbn; intros H; [reflexivity|].
  rewrite H by auto. rewrite IH; auto.
Qed.

Lemma existsb_false {A} (f : A -> bool) l : existsb f l = false -> forall x, In x l -> f x = false.
Proof.
  induction l as [|h t IH]; cbn; intros H x Hx; [contradiction|].
  apply orb_false_iff in H. destruct H as [H1 H2]. destruct Hx as [<-|Hx]; auto.
Qed.

Lemma NoDup_snoc {A} (l : list A) x : NoDup l -> ~ In x l -> NoDup (l ++ [x]).
Proof.
  induction 1 as [|y l Hy Hl IH]; cbn; intros Hx.
  - constructor; [intros []|constructor].
  - constructor.
    + intros H. apply in_app_or in H. destruct H as [H|[H|[]]]; [auto|]. apply Hx. left. auto.
    + apply IH. intros H. apply Hx. right. exact H.
Qed.

Section P.
Variables (V F : Type) (interp : F -> list V -> V) (dflt : V).

Notation graph := (graph F).
Notation mstate := (mstate V).
Notation effv := (effv interp dflt).
Notation den := (den interp dflt).
Notation value := (value interp dflt).
Notation denote := (denote interp dflt).
Notation getv := (getv dflt).
Notation LIT := (lit interp dflt).

(* ---- well-formedness ----------------------------------------------------------------------------- *)
Lemma wf_in (g : graph) k n i : wf g -> nth_error g k = Some n -> In i (ins n) -> i < k.
Proof.
  intros W E Hi. destruct (W k n E) as [Hf _]. rewrite Forall_forall in Hf. auto.
Qed.

Lemma wf_lt (g : graph) k n : nth_error g k = Some n -> k < length g.
Proof. intros E. apply nth_error_Some. congruence. Qed.

Lemma wfb_from_wf (g : graph) : forall k0, wfb_from k0 g = true ->
  forall k n, nth_error g k = Some n ->
    Forall (fun i => i < k0 + k) (ins n) /\ (kd n = KValue -> ins n = []).
Proof.
  induction g as [|h t IH]; intros k0 H k n E.
  - destruct k; discriminate.
  - cbn in H. apply andb_true_iff in H. destruct H as [Hn Ht].
    destruct k as [|k]; cbn in E.
    + injection E as <-. unfold wf_node in Hn. apply andb_true_iff in Hn. destruct Hn as [H1 H2].
      split.
      * rewrite Forall_forall. intros i Hi. rewrite forallb_forall in H1.
        specialize (H1 i Hi). apply Nat.ltb_lt in H1. lia.
      * intros Hk. rewrite Hk in H2. destruct (ins h); [reflexivity|discriminate].
    + destruct (IH (S k0) Ht k n E) as [A B]. split; [|exact B].
      rewrite Forall_forall in *. intros i Hi. specialize (A i Hi). lia.
Qed.

Lemma wfb_wf (g : graph) : wfb g = true -> wf g.
Proof. intros H k n E. exact (wfb_from_wf g 0 H k n E). Qed.

(* ---- fuel irrelevance ------------------------------------------------------------------------------ *)
Section WF.
Variable g : graph.
Hypothesis W : wf g.

Lemma effv_fuel2 s : forall f1 f2 k, k < f1 -> k < f2 -> effv g s f1 k = effv g s f2 k.
Proof.
  induction f1 as [|f1 IH]; intros [|f2] k H1 H2; try lia. cbn.
  destruct (nth_error g k) as [n|] eqn:E; [|reflexivity].
  destruct (kd n); try reflexivity. f_equal. apply map_ext_in. intros i Hi.
  pose proof (wf_in g k n i W E Hi). apply IH; lia.
Qed.
Lemma effv_fuel s f k : k < f -> effv g s f k = value g s k.
Proof. intros H. unfold Graph.value. apply effv_fuel2; lia. Qed.

Lemma outd_fuel2 (s : mstate) : forall f1 f2 k, k < f1 -> k < f2 -> outd g s f1 k = outd g s f2 k.
Proof.
  induction f1 as [|f1 IH]; intros [|f2] k H1 H2; try lia. cbn.
  destruct (nth_error g k) as [n|] eqn:E; [|reflexivity].
  destruct (kd n); try reflexivity. apply existsb_ext_in. intros i Hi.
  pose proof (wf_in g k n i W E Hi). apply IH; lia.
Qed.
Lemma outd_fuel (s : mstate) f k : k < f -> outd g s f k = outdated g s k.
Proof. intros H. unfold outdated. apply outd_fuel2; lia. Qed.

Lemma den_fuel2 e : forall f1 f2 k, k < f1 -> k < f2 -> den g e f1 k = den g e f2 k.
Proof.
  induction f1 as [|f1 IH]; intros [|f2] k H1 H2; try lia. cbn.
  destruct (nth_error g k) as [n|] eqn:E; [|reflexivity].
  destruct (kd n); try reflexivity; f_equal; apply map_ext_in; intros i Hi;
    pose proof (wf_in g k n i W E Hi); apply IH; lia.
Qed.
Lemma den_fuel e f k : k < f -> den g e f k = denote g e k.
Proof. intros H. unfold Graph.denote. apply den_fuel2; lia. Qed.

Lemma reachb_fuel2 i : forall f1 f2 k, k < f1 -> k < f2 -> reachb g i f1 k = reachb g i f2 k.
Proof.
  induction f1 as [|f1 IH]; intros [|f2] k H1 H2; try lia. cbn.
  destruct (nth_error g k) as [n|] eqn:E; [|reflexivity].
  f_equal. apply existsb_ext_in. intros j Hj.
  pose proof (wf_in g k n j W E Hj). apply IH; lia.
Qed.
Lemma reachb_fuel i f k : k < f -> reachb g i f k = reaches g i k.
Proof. intros H. unfold reaches. apply reachb_fuel2; lia. Qed.

(* one-step unfoldings at the canonical fuel *)
Lemma value_unfold s k n : nth_error g k = Some n ->
  value g s k = match kd n with
                | KTrans => interp (fs n) (map (value g s) (ins n))
                | _ => getv (vals s) k end.
Proof.
  intros E. unfold Graph.value at 1. cbn. rewrite E. destruct (kd n); try reflexivity.
  f_equal. apply map_ext_in. intros i Hi. apply effv_fuel. exact (wf_in g k n i W E Hi).
Qed.

Lemma outdated_unfold (s : mstate) k n : nth_error g k = Some n ->
  outdated g s k = match kd n with
                   | KValue => false
                   | KCached => getb (dirty s) k
                   | KTrans => existsb (outdated g s) (ins n) end.
Proof.
  intros E. unfold outdated at 1. cbn. rewrite E. destruct (kd n); try reflexivity.
  apply existsb_ext_in. intros i Hi. apply outd_fuel. exact (wf_in g k n i W E Hi).
Qed.

Lemma denote_unfold e k n : nth_error g k = Some n ->
  denote g e k = match kd n with
                 | KValue => getv e k
                 | _ => interp (fs n) (map (denote g e) (ins n)) end.
Proof.
  intros E. unfold Graph.denote at 1. cbn. rewrite E.
  destruct (kd n); try reflexivity; f_equal; apply map_ext_in; intros i Hi; apply den_fuel;
    exact (wf_in g k n i W E Hi).
Qed.

Lemma reaches_unfold i k n : nth_error g k = Some n ->
  reaches g i k = (k =? i) || existsb (reaches g i) (ins n).
Proof.
  intros E. unfold reaches at 1. cbn. rewrite E. f_equal.
  apply existsb_ext_in. intros j Hj. apply reachb_fuel. exact (wf_in g k n j W E Hj).
Qed.

Lemma reaches_none i k : nth_error g k = None -> reaches g i k = false.
Proof. intros E. unfold reaches. cbn. rewrite E. reflexivity. Qed.

(* ---- what the readers depend on ---------------------------------------------------------------------- *)
Lemma value_agree (s1 s2 : mstate) : forall k,
  (forall i, i <= k -> getv (vals s1) i = getv (vals s2) i) -> value g s1 k = value g s2 k.
Proof.
  intros k. induction k as [k IH] using lt_wf_ind. intros H.
  destruct (nth_error g k) as [n|] eqn:E.
  - rewrite !(value_unfold _ k n E). destruct (kd n); try (apply H; lia).
    f_equal. apply map_ext_in. intros i Hi. pose proof (wf_in g k n i W E Hi).
    apply IH; [lia|]. intros j Hj. apply H. lia.
  - unfold Graph.value. cbn. rewrite E. reflexivity.
Qed.

Lemma outdated_agree (s1 s2 : mstate) : forall k,
  (forall i, i <= k -> getb (dirty s1) i = getb (dirty s2) i) -> outdated g s1 k = outdated g s2 k.
Proof.
  intros k. induction k as [k IH] using lt_wf_ind. intros H.
  destruct (nth_error g k) as [n|] eqn:E.
  - rewrite !(outdated_unfold _ k n E). destruct (kd n); try reflexivity; try (apply H; lia).
    apply existsb_ext_in. intros i Hi. pose proof (wf_in g k n i W E Hi).
    apply IH; [lia|]. intros j Hj. apply H. lia.
  - unfold outdated. cbn. rewrite E. reflexivity.
Qed.

Lemma den_agree e1 e2 :
  (forall i n, nth_error g i = Some n -> kd n = KValue -> getv e1 i = getv e2 i) ->
  forall k, denote g e1 k = denote g e2 k.
Proof.
  intros H k. induction k as [k IH] using lt_wf_ind.
  destruct (nth_error g k) as [n|] eqn:E.
  - rewrite !(denote_unfold _ k n E). destruct (kd n) eqn:K; try (apply (H k n E K));
      f_equal; apply map_ext_in; intros i Hi; apply IH; exact (wf_in g k n i W E Hi).
  - unfold Graph.denote. cbn. rewrite E. reflexivity.
Qed.

(* ---- reachability ------------------------------------------------------------------------------------- *)
Inductive path : nat -> nat -> Prop :=
| path_refl i : i < length g -> path i i
| path_step i j k n : path i j -> nth_error g k = Some n -> In j (ins n) -> path i k.

Lemma path_lt i k : path i k -> k < length g.
Proof. intros P; destruct P; auto. eapply wf_lt; eauto. Qed.

Lemma reaches_path i k : reaches g i k = true <-> path i k.
Proof.
  split.
  - revert i. induction k as [k IH] using lt_wf_ind. intros i H.
    destruct (nth_error g k) as [n|] eqn:E.
    + rewrite (reaches_unfold i k n E) in H. apply orb_true_iff in H. destruct H as [H|H].
      * apply Nat.eqb_eq in H. subst. apply path_refl. eapply wf_lt; eauto.
      * apply existsb_exists in H. destruct H as [j [Hj Hr]].
        apply (path_step i j k n); auto. apply IH; auto. exact (wf_in g k n j W E Hj).
    + rewrite reaches_none in H by exact E. discriminate.
  - intros P. induction P as [i Hi|i j k n P IH E Hj].
    + destruct (nth_error g i) as [n|] eqn:E.
      * rewrite (reaches_unfold i i n E). rewrite Nat.eqb_refl. reflexivity.
      * apply nth_error_None in E. lia.
    + rewrite (reaches_unfold i k n E). apply orb_true_iff. right.
      apply existsb_exists. exists j. auto.
Qed.

Lemma path_le i k : path i k -> i <= k.
Proof.
  intros P. induction P as [|i j k n P IH E Hj]; [lia|].
  pose proof (wf_in g k n j W E Hj). lia.
Qed.

(* i is an input of k and k reaches t: then i reaches t  (closure of ancestor sets under inputs) *)
Lemma path_back k t : path k t -> forall n i, nth_error g k = Some n -> In i (ins n) -> path i t.
Proof.
  intros P. induction P as [k Hk|k j t m P IH E Hj]; intros n i En Hi.
  - apply (path_step i i k n); auto. apply path_refl.
    pose proof (wf_in g k n i W En Hi). lia.
  - apply (path_step i j t m); auto. eapply IH; eauto.
Qed.

Lemma path_trans i j k : path i j -> path j k -> path i k.
Proof.
  intros P Q. induction Q as [|j m k n Q IH E Hm]; auto.
  apply (path_step i m k n); auto.
Qed.

(* the reported flag of a node depends on the stored flags of its ancestors only *)
Lemma outdated_agree_anc (s1 s2 : mstate) : forall k,
  (forall j, path j k -> getb (dirty s1) j = getb (dirty s2) j) -> outdated g s1 k = outdated g s2 k.
Proof.
  intros k. induction k as [k IH] using lt_wf_ind. intros H.
  destruct (nth_error g k) as [n|] eqn:E.
  - rewrite !(outdated_unfold _ k n E). destruct (kd n); try reflexivity.
    + apply H. apply path_refl. eapply wf_lt; eauto.
    + apply existsb_ext_in. intros i Hi. pose proof (wf_in g k n i W E Hi) as Hlt.
      apply IH; [lia|]. intros j Pj. apply H. apply (path_step j i k n); auto.
  - unfold outdated. cbn. rewrite E. reflexivity.
Qed.

(* a node that is not reached from i does not depend on the value of i *)
Lemma den_unreached e i v : forall k, reaches g i k = false ->
  denote g (upd e i v) k = denote g e k.
Proof.
  intros k. induction k as [k IH] using lt_wf_ind. intros H.
  destruct (nth_error g k) as [n|] eqn:E.
  - rewrite (reaches_unfold i k n E) in H. apply orb_false_iff in H. destruct H as [H1 H2].
    apply Nat.eqb_neq in H1.
    rewrite !(denote_unfold _ k n E).
    destruct (kd n); try (unfold Graph.getv; apply nth_upd_neq; exact H1);
      f_equal; apply map_ext_in; intros j Hj; apply IH;
      [exact (wf_in g k n j W E Hj)|exact (existsb_false _ _ H2 j Hj)|
       exact (wf_in g k n j W E Hj)|exact (existsb_false _ _ H2 j Hj)].
  - unfold Graph.denote. cbn. rewrite E. reflexivity.
Qed.

(* ---- the invariant -------------------------------------------------------------------------------------- *)
Definition cached k := exists n, nth_error g k = Some n /\ kd n = KCached.

Definition lens (s : mstate) : Prop :=
  length (vals s) = length g /\ length (dirty s) = length g /\ length (touched s) = length g.
(* a cached node whose flag is down holds the from-scratch value for the current input values *)
Definition inv (s : mstate) : Prop :=
  forall k, cached k -> getb (dirty s) k = false -> getv (vals s) k = denote g (vals s) k.
(* ghost: a dirty cached node had an ancestor assigned since it was last computed *)
Definition ghost (s : mstate) : Prop :=
  forall k, cached k -> getb (dirty s) k = true -> getb (touched s) k = true.
Definition Inv (s : mstate) : Prop := lens s /\ inv s /\ ghost s.

(* every node that reports itself up to date shows the from-scratch value *)
Definition coherent (s : mstate) : Prop :=
  forall k, k < length g -> outdated g s k = false -> value g s k = denote g (vals s) k.

Lemma inv_coherent s : inv s -> coherent s.
Proof.
  intros I k. induction k as [k IH] using lt_wf_ind. intros Hk Ho.
  destruct (nth_error g k) as [n|] eqn:E; [|apply nth_error_None in E; lia].
  rewrite (outdated_unfold s k n E) in Ho.
  rewrite (value_unfold s k n E).
  destruct (kd n) eqn:K.
  - rewrite (denote_unfold (vals s) k n E), K. reflexivity.
  - apply I; [exists n; auto|exact Ho].
  - rewrite (denote_unfold (vals s) k n E), K. f_equal. apply map_ext_in. intros i Hi. pose proof (wf_in g k n i W E Hi).
    apply IH; [lia|lia|]. exact (existsb_false _ _ Ho i Hi).
Qed.

(* ---- Model.update's sweep --------------------------------------------------------------------------------- *)
Definition tgt_closed (tgt : nat -> bool) : Prop :=
  forall k n i, nth_error g k = Some n -> tgt k = true -> In i (ins n) -> tgt i = true.

Definition same_at (s s0 : mstate) k : Prop :=
  getv (vals s) k = getv (vals s0) k /\ getb (dirty s) k = getb (dirty s0) k
  /\ getb (touched s) k = getb (touched s0) k.

Record SI (tgt : nat -> bool) (s0 : mstate) (j : nat) (st : mstate * list nat) : Prop := {
  si_lens : lens (fst st);
  si_inv : inv (fst st);
  si_clean : forall k, k < j -> tgt k = true -> outdated g (fst st) k = false;
  si_frame : forall k, ~ In k (snd st) -> same_at (fst st) s0 k;
  si_trace : forall k, In k (snd st) ->
      k < j /\ tgt k = true /\ cached k /\ getb (dirty s0) k = true
      /\ getb (dirty (fst st)) k = false /\ getb (touched (fst st)) k = false;
  si_nodup : NoDup (snd st);
  si_auto : auto (fst st) = auto s0 }.

Lemma SI_start tgt s0 : lens s0 -> inv s0 -> SI tgt s0 0 (s0, []).
Proof.
  intros L I. constructor; cbn [fst snd]; auto.
  - intros k Hk. lia.
  - intros k _. repeat split.
  - intros k [].
  - constructor.
Qed.

Lemma SI_step tgt s0 j st : tgt_closed tgt -> j < length g ->
  SI tgt s0 j st -> SI tgt s0 (S j) (sweep1 interp dflt g tgt st j).
Proof.
  intros C Hj S. destruct st as [s tr]. destruct S as [L I Cl Fr Tr Nd Au]. cbn [fst snd] in *.
  destruct (nth_error g j) as [n|] eqn:E; [|apply nth_error_None in E; lia].
  assert (Hnot : ~ In j tr). { intros H. destruct (Tr j H) as [H1 _]. lia. }
  (* a target that is not a dirty cached node is clean once its inputs are *)
  assert (Keep : (tgt j = true -> outdated g s j = false) -> SI tgt s0 (S j) (s, tr)).
  { intros Hc. constructor; cbn [fst snd]; auto.
    - intros k Hk Ht. destruct (Nat.eq_dec k j) as [->|Hne]; [auto|apply Cl; [lia|auto]].
    - intros k Hk. destruct (Tr k Hk) as [H1 H2]. split; [lia|exact H2]. }
  unfold sweep1. rewrite E. cbn [fst snd].
  destruct (tgt j) eqn:Tj; cbn [andb]; [|apply Keep; discriminate].
  destruct (outdated g s j) eqn:Oj; [|apply Keep; auto].
  destruct (kd n) eqn:K.
  - apply Keep. intros _. rewrite <- Oj. rewrite (outdated_unfold s j n E), K in *. discriminate.
  - (* cached and dirty: evaluated *)
    rewrite (outdated_unfold s j n E), K in Oj.
    destruct L as [L1 [L2 L3]].
    assert (Hin : forall i, In i (ins n) -> value g s i = denote g (vals s) i).
    { intros i Hi. pose proof (wf_in g j n i W E Hi).
      apply (inv_coherent s I); [lia|]. apply Cl; [lia|]. exact (C j n i E Tj Hi). }
    set (v := interp (fs n) (map (value g s) (ins n))).
    assert (Hden : forall k, denote g (upd (vals s) j v) k = denote g (vals s) k).
    { apply den_agree. intros i m Ei Ki. unfold Graph.getv. apply nth_upd_neq.
      intros ->. rewrite E in Ei. injection Ei as <-. congruence. }
    constructor; cbn [fst snd set_node vals dirty touched auto].
    + unfold lens; cbn. rewrite !upd_length. auto.
    + intros k Ck Dk. cbn [dirty vals set_node] in *. rewrite Hden.
      destruct (Nat.eq_dec k j) as [->|Hne].
      * unfold Graph.getv. rewrite nth_upd_eq by lia.
        rewrite (denote_unfold (vals s) j n E), K. unfold v. f_equal.
        apply map_ext_in. exact Hin.
      * unfold Graph.getv, getb in *. rewrite nth_upd_neq in Dk by exact Hne.
        rewrite nth_upd_neq by exact Hne. apply I; auto.
    + intros k Hk Tk. destruct (Nat.eq_dec k j) as [->|Hne].
      * rewrite (outdated_unfold _ j n E), K. cbn. unfold getb. apply nth_upd_eq. lia.
      * rewrite (outdated_agree _ s k); [apply Cl; [lia|auto]|].
        intros i Hi. cbn. unfold getb. apply nth_upd_neq. lia.
    + intros k Hk. assert (k <> j /\ ~ In k tr) as [Hne Hk'].
      { split; intros H; apply Hk; apply in_or_app; [right; left; auto|left; auto]. }
      destruct (Fr k Hk') as [F1 [F2 F3]]. unfold same_at, Graph.getv, getb in *. cbn.
      rewrite !nth_upd_neq by exact Hne. auto.
    + intros k Hk. apply in_app_or in Hk. destruct Hk as [Hk|[<-|[]]].
      * destruct (Tr k Hk) as [H1 [H2 [H3 [H4 [H5 H6]]]]].
        assert (k <> j) by lia. unfold getb in *. cbn. rewrite !nth_upd_neq by auto.
        repeat split; auto.
      * destruct (Fr j Hnot) as [F1 [F2 F3]]. unfold getb in *. cbn.
        rewrite !nth_upd_eq by lia. repeat split; auto; [exists n; auto|congruence].
    + apply NoDup_snoc; auto.
    + exact Au.
  - (* transient target: its inputs are targets, hence clean: it cannot be outdated *)
    exfalso. rewrite (outdated_unfold s j n E), K in Oj.
    apply existsb_exists in Oj. destruct Oj as [i [Hi Ho]].
    pose proof (wf_in g j n i W E Hi).
    rewrite Cl in Ho; [discriminate|lia|]. exact (C j n i E Tj Hi).
Qed.


Lemma SI_fold tgt s0 : tgt_closed tgt -> lens s0 -> inv s0 ->
  forall m, m <= length g ->
    SI tgt s0 m (fold_left (sweep1 interp dflt g tgt) (seq 0 m) (s0, [])).
Proof.
  intros C L I m. induction m as [|m IH]; intros Hm.
  - cbn. apply SI_start; auto.
  - rewrite seq_S, fold_left_app. cbn [fold_left plus]. apply SI_step; auto. apply IH. lia.
Qed.

Lemma full_closed : tgt_closed full.
Proof. intros k n i _ _ _. reflexivity. Qed.

(* The sweep of Model.update over an input-closed target set *)
Theorem sweep_spec tgt s : tgt_closed tgt -> Inv s ->
  let r := sweep_lit interp dflt g tgt s in
  Inv (fst r)
  /\ (forall k, k < length g -> tgt k = true -> outdated g (fst r) k = false)
  /\ NoDup (snd r)
  /\ (forall k, In k (snd r) ->
        tgt k = true /\ cached k /\ getb (dirty s) k = true /\ getb (touched s) k = true
        /\ getb (dirty (fst r)) k = false /\ getb (touched (fst r)) k = false)
  /\ (forall k, ~ In k (snd r) -> same_at (fst r) s k)
  /\ (forall k n, nth_error g k = Some n -> kd n <> KCached -> getv (vals (fst r)) k = getv (vals s) k)
  /\ auto (fst r) = auto s.
Proof.
  intros C [L [I G]] r.
  pose proof (SI_fold tgt s C L I (length g) (le_n _)) as S. fold (sweep_lit interp dflt g tgt s) in S.
  fold r in S. destruct S as [L' I' Cl Fr Tr Nd Au].
  assert (Tr' : forall k, In k (snd r) ->
        tgt k = true /\ cached k /\ getb (dirty s) k = true /\ getb (touched s) k = true
        /\ getb (dirty (fst r)) k = false /\ getb (touched (fst r)) k = false).
  { intros k Hk. destruct (Tr k Hk) as [H1 [H2 [H3 [H4 [H5 H6]]]]]. repeat split; auto. }
  split; [|split; [|split; [|split; [|split; [|split]]]]]; auto.
  - split; [exact L'|split; [exact I'|]].
    intros k Ck Dk. destruct (in_dec Nat.eq_dec k (snd r)) as [Hin|Hout].
    + destruct (Tr k Hin) as [_ [_ [_ [_ [H5 _]]]]]. congruence.
    + destruct (Fr k Hout) as [_ [F2 F3]]. rewrite F3. apply G; auto. congruence.
  - intros k n E K. apply Fr. intros Hin. destruct (Tr k Hin) as [_ [_ [[m [Em Km]] _]]].
    rewrite E in Em. injection Em as <-. contradiction.
Qed.

(* ---- Value.value setter (without the auto-update) ---------------------------------------------------------- *)
Lemma flag_desc_get i l k : k < length g ->
  getb (flag_desc LIT g i l) k = getb l k || (negb (k =? i) && reaches g i k).
Proof.
  intros Hk. unfold flag_desc, getb at 1. rewrite nth_map_seq by exact Hk.
  f_equal. f_equal. cbn. unfold reach_lit, getb. apply nth_map_seq. exact Hk.
Qed.

Lemma flag_desc_length i l : length (flag_desc LIT g i l) = length g.
Proof. unfold flag_desc. rewrite map_length, seq_length. reflexivity. Qed.

Lemma cached_lt k : cached k -> k < length g.
Proof. intros [n [E _]]. eapply wf_lt; eauto. Qed.

Lemma assign_flag_Inv s i v n : nth_error g i = Some n -> kd n = KValue ->
  Inv s -> Inv (assign_flag LIT g s i v).
Proof.
  intros E K [[L1 [L2 L3]] [I G]]. split; [|split].
  - unfold lens. cbn. rewrite upd_length, !flag_desc_length. auto.
  - intros k Ck Dk. pose proof (cached_lt k Ck) as Hk. unfold assign_flag in *; cbn [vals dirty touched] in *.
    rewrite flag_desc_get in Dk by exact Hk. apply orb_false_iff in Dk. destruct Dk as [D1 D2].
    assert (Hne : k <> i).
    { intros ->. destruct Ck as [m [Em Km]]. rewrite E in Em. injection Em as <-. congruence. }
    assert (Hr : reaches g i k = false).
    { apply andb_false_iff in D2. destruct D2 as [D2|D2]; [|exact D2].
      apply negb_false_iff, Nat.eqb_eq in D2. contradiction. }
    rewrite den_unreached by exact Hr. unfold Graph.getv. rewrite nth_upd_neq by exact Hne.
    apply I; auto.
  - intros k Ck Dk. pose proof (cached_lt k Ck) as Hk. unfold assign_flag in *; cbn [vals dirty touched] in *.
    rewrite flag_desc_get in * by exact Hk. apply orb_true_iff in Dk. apply orb_true_iff.
    destruct Dk as [Dk|Dk]; [left; apply G; auto|right; exact Dk].
Qed.

(* frame of an assignment: no other value changes; flags change exactly at the proper descendants *)
Lemma assign_flag_frame s i v : lens s ->
  let s' := assign_flag LIT g s i v in
  (forall k, k <> i -> getv (vals s') k = getv (vals s) k)
  /\ (i < length g -> getv (vals s') i = v)
  /\ (forall k, k < length g ->
        getb (dirty s') k = getb (dirty s) k || (negb (k =? i) && reaches g i k))
  /\ (forall k, k < length g ->
        getb (touched s') k = getb (touched s) k || (negb (k =? i) && reaches g i k))
  /\ auto s' = auto s.
Proof.
  intros [L1 _] s'. cbn. repeat split.
  - intros k Hk. unfold Graph.getv. apply nth_upd_neq. exact Hk.
  - intros Hi. unfold Graph.getv. apply nth_upd_eq. lia.
  - intros k Hk. apply flag_desc_get. exact Hk.
  - intros k Hk. apply flag_desc_get. exact Hk.
Qed.

(* ---- Model.state getter / setter ------------------------------------------------------------------------------- *)
Definition snap_ok (sn : snap V) : Prop :=
  Inv {| vals := sn_vals sn; dirty := sn_flags sn; touched := sn_touched sn; auto := true |}.

Lemma Inv_auto s b : Inv s -> Inv {| vals := vals s; dirty := dirty s; touched := touched s; auto := b |}.
Proof. intros H. exact H. Qed.

Lemma flags_lit_get (s : mstate) k : k < length g -> getb (flags_lit g s) k = outdated g s k.
Proof. intros Hk. unfold flags_lit, getb. apply nth_map_seq. exact Hk. Qed.

Lemma snapshot_ok s : Inv s -> snap_ok (snapshot LIT g s).
Proof.
  intros [[L1 [L2 L3]] [I G]]. split; [|split].
  - unfold lens. cbn. unfold flags_lit. rewrite map_length, seq_length. auto.
  - intros k Ck Dk. pose proof (cached_lt k Ck) as Hk. unfold snapshot in *; cbn [vals dirty touched sn_vals sn_flags sn_touched i_flags lit] in *.
    rewrite flags_lit_get in Dk by exact Hk. destruct Ck as [n [E K]].
    rewrite (outdated_unfold s k n E), K in Dk. apply I; [exists n; auto|exact Dk].
  - intros k Ck Dk. pose proof (cached_lt k Ck) as Hk. unfold snapshot in *; cbn [vals dirty touched sn_vals sn_flags sn_touched i_flags lit] in *.
    rewrite flags_lit_get in Dk by exact Hk. destruct Ck as [n [E K]].
    rewrite (outdated_unfold s k n E), K in Dk. apply G; [exists n; auto|exact Dk].
Qed.

Lemma restore_Inv s sn : snap_ok sn -> Inv (restore s sn).
Proof. intros H. exact H. Qed.

(* ---- targets of Model.update( *names ) ------------------------------------------------------------------------ *)
Lemma tgt_tab_get ts k : k < length g ->
  getb (tgt_tab LIT g ts) k = existsb (fun t => reaches g k t) ts.
Proof.
  intros Hk. unfold tgt_tab, getb at 1. rewrite nth_map_seq by exact Hk. cbn.
  destruct (forallb (fun t => t <? length g) ts) eqn:Hall.
  - apply existsb_ext_in. intros t Ht. rewrite forallb_forall in Hall.
    specialize (Hall t Ht). apply Nat.ltb_lt in Hall. unfold reach_lit, getb. apply nth_map_seq. exact Hall.
  - (* targets out of range are simply not reached *)
    apply existsb_ext_in. intros t Ht. unfold reach_lit, getb.
    destruct (Nat.lt_ge_cases t (length g)) as [Hlt|Hge].
    + apply nth_map_seq. exact Hlt.
    + rewrite nth_overflow by (rewrite map_length, seq_length; exact Hge).
      symmetry. apply reaches_none. apply nth_error_None. exact Hge.
Qed.

Lemma tgt_tab_closed ts : tgt_closed (getb (tgt_tab LIT g ts)).
Proof.
  intros k n i E Tk Hi. pose proof (wf_lt g k n E) as Hk. pose proof (wf_in g k n i W E Hi) as Hik.
  rewrite tgt_tab_get in * by lia.
  apply existsb_exists in Tk. destruct Tk as [t [Ht Hr]]. apply existsb_exists. exists t. split; auto.
  apply reaches_path. apply reaches_path in Hr. exact (path_back k t Hr n i E Hi).
Qed.

(* ---- the invariant along operation histories ------------------------------------------------------------------ *)
Definition RInv (rs : rstate V) : Prop := Inv (cur rs) /\ Forall snap_ok (snaps rs).

(* the state on which the sweep of an operation starts *)
Definition pre_sweep (rs : rstate V) (o : op V) : mstate :=
  match o with
  | Assign i v => assign_flag LIT g (cur rs) i v
  | _ => cur rs
  end.

Lemma step_RInv rs o : RInv rs -> RInv (st' (step interp dflt g rs o)).
Proof.
  intros [I S]. unfold step, step_with. destruct o as [i v|b|ts| |k].
  - destruct (nth_error g i) as [n|] eqn:E; [|split; auto].
    destruct (kd n) eqn:K; try (split; auto; fail).
    pose proof (assign_flag_Inv (cur rs) i v n E K I) as I1.
    destruct (auto (cur rs)); cbn; split; auto.
    exact (proj1 (sweep_spec _ _ full_closed I1)).
  - cbn. split; auto.
  - destruct ts as [|t ts].
    + cbn. split; auto. exact (proj1 (sweep_spec _ _ full_closed I)).
    + destruct (forallb _ (t :: ts)); cbn; split; auto.
      exact (proj1 (sweep_spec _ _ (tgt_tab_closed (t :: ts)) I)).
  - cbn. split; auto. apply Forall_app. split; auto. constructor; [|constructor].
    apply snapshot_ok. exact I.
  - destruct (nth_error (snaps rs) k) as [sn|] eqn:E; cbn; split; auto.
    apply restore_Inv. rewrite Forall_forall in S. apply S. eapply nth_error_In; eauto.
Qed.

Lemma run_RInv ops : forall rs, RInv rs -> RInv (run interp dflt g ops rs).
Proof.
  induction ops as [|o ops IH]; intros rs H; cbn; [exact H|].
  apply IH. apply step_RInv. exact H.
Qed.

Lemma init_state_Inv ext0 : Inv (init_state dflt g ext0).
Proof.
  split; [|split].
  - unfold lens. cbn. rewrite map_length, seq_length, !repeat_length. auto.
  - intros k Ck Dk. pose proof (cached_lt k Ck) as Hk. cbn in Dk. unfold getb in Dk.
    rewrite (nth_indep _ false true) in Dk by (rewrite repeat_length; exact Hk).
    rewrite nth_repeat in Dk. discriminate.
  - intros k Ck _. pose proof (cached_lt k Ck) as Hk. cbn. unfold getb.
    rewrite (nth_indep _ false true) by (rewrite repeat_length; exact Hk).
    apply nth_repeat.
Qed.

Lemma init_RInv ext0 : RInv (init interp dflt g ext0).
Proof.
  split; [|constructor]. cbn.
  exact (proj1 (sweep_spec _ _ full_closed (init_state_Inv ext0))).
Qed.

Lemma init_clean ext0 k : k < length g -> outdated g (cur (init interp dflt g ext0)) k = false.
Proof.
  intros Hk. cbn.
  destruct (sweep_spec _ _ full_closed (init_state_Inv ext0)) as [_ [H _]]. apply H; auto.
Qed.

(* ================================ the C01 theorems ================================================================ *)

(* every reachable state is coherent *)
Theorem coherent_reachable ext0 ops :
  coherent (cur (run interp dflt g ops (init interp dflt g ext0))).
Proof.
  apply inv_coherent. destruct (run_RInv ops _ (init_RInv ext0)) as [[_ [I _]] _]. exact I.
Qed.

(* a full update - and an assignment while auto-update is on - leaves no node outdated *)
Theorem full_update_clean rs o : RInv rs ->
  (o = Update [] \/ exists i v, o = Assign i v /\ auto (cur rs) = true) ->
  err (step interp dflt g rs o) = false ->
  forall k, k < length g -> outdated g (cur (st' (step interp dflt g rs o))) k = false.
Proof.
  intros [I S] Ho He k Hk. destruct Ho as [->|[i [v [-> Ha]]]].
  - cbn. destruct (sweep_spec _ _ full_closed I) as [_ [H _]]. apply H; auto.
  - unfold step, step_with in *. destruct (nth_error g i) as [n|] eqn:E; [|discriminate].
    destruct (kd n) eqn:K; try discriminate. rewrite Ha. cbn.
    destruct (sweep_spec _ _ full_closed (assign_flag_Inv (cur rs) i v n E K I)) as [_ [H _]].
    apply H; auto.
Qed.

(* a targeted update cleans the named nodes and all their ancestors (which then hold the from-scratch
   values), keeps every node outside this set and every Value node as it was *)
Theorem targeted_update rs ts : RInv rs -> ts <> [] ->
  forallb (fun t => t <? length g) ts = true ->
  let s := cur rs in
  let s' := cur (st' (step interp dflt g rs (Update ts))) in
  (forall t k, In t ts -> path k t ->
      outdated g s' k = false /\ value g s' k = denote g (vals s') k)
  /\ (forall k, (forall t, In t ts -> ~ path k t) -> same_at s' s k)
  /\ (forall k n, nth_error g k = Some n -> kd n = KValue -> getv (vals s') k = getv (vals s) k)
  /\ err (step interp dflt g rs (Update ts)) = false.
Proof.
  intros [I S] Hne Hall s s'. unfold s', step, step_with. destruct ts as [|t0 ts0]; [congruence|].
  rewrite Hall. cbn [ok_out st' cur with_cur err fst].
  destruct (sweep_spec _ _ (tgt_tab_closed (t0 :: ts0)) I) as [I' [Cl [_ [Tr [Fr [Vl _]]]]]].
  split; [|split; [|split]]; auto.
  - intros t k Ht P. pose proof (path_lt k t P) as Hkt. pose proof (path_le k t P) as Hle.
    assert (Hk : k < length g) by (rewrite forallb_forall in Hall; specialize (Hall t Ht);
                                    apply Nat.ltb_lt in Hall; lia).
    assert (Ho : outdated g (fst (sweep_lit interp dflt g (getb (tgt_tab LIT g (t0 :: ts0))) (cur rs))) k = false).
    { apply Cl; auto. rewrite tgt_tab_get by exact Hk. apply existsb_exists. exists t. split; auto.
      apply reaches_path. exact P. }
    split; [exact Ho|]. destruct I' as [_ [I' _]]. apply (inv_coherent _ I'); auto.
  - intros k Hk. apply Fr. intros Hin. destruct (Tr k Hin) as [Tk [Ck _]].
    pose proof (cached_lt k Ck) as Hlt. rewrite tgt_tab_get in Tk by exact Hlt.
    apply existsb_exists in Tk. destruct Tk as [t [Ht Hr]]. apply (Hk t Ht). apply reaches_path. exact Hr.
  - intros k n E K. apply (Vl k n E). congruence.
Qed.

(* an update evaluates a cached node at most once, only if it was outdated when the sweep started and
   only if one of its ancestors was assigned since it was last computed (ghost [touched]); the
   evaluated nodes are exactly those whose ghost mark is cleared *)
Theorem evaluate_once_if_needed rs o : RInv rs ->
  let out := step interp dflt g rs o in
  let s0 := pre_sweep rs o in
  NoDup (evald out)
  /\ (forall k, In k (evald out) ->
        cached k /\ outdated g s0 k = true /\ getb (touched s0) k = true
        /\ getb (touched (cur (st' out))) k = false /\ outdated g (cur (st' out)) k = false)
  /\ (err out = false -> forall k, k < length g -> ~ In k (evald out) ->
        match o with Restore _ => True | _ => getb (touched (cur (st' out))) k = getb (touched s0) k end).
Proof.
  intros [I S] out s0.
  assert (Sw : forall tgt s, tgt_closed tgt -> Inv s ->
     let r := sweep_lit interp dflt g tgt s in
     NoDup (snd r) /\
     (forall k, In k (snd r) -> cached k /\ outdated g s k = true /\ getb (touched s) k = true
        /\ getb (touched (fst r)) k = false /\ outdated g (fst r) k = false) /\
     (forall k, ~ In k (snd r) -> getb (touched (fst r)) k = getb (touched s) k)).
  { intros tgt s C Is r. destruct (sweep_spec tgt s C Is) as [_ [_ [Nd [Tr [Fr _]]]]]. fold r in Nd, Tr, Fr.
    split; [exact Nd|split].
    - intros k Hk. destruct (Tr k Hk) as [_ [Ck [D [T [D' T']]]]]. destruct Ck as [n [E K]].
      repeat split; auto; [exists n; auto| |]; rewrite (outdated_unfold _ k n E), K; auto.
    - intros k Hk. destruct (Fr k Hk) as [_ [_ F3]]. exact F3. }
  unfold out, s0, step, step_with, pre_sweep. destruct o as [i v|b|ts| |k].
  - destruct (nth_error g i) as [n|] eqn:E; [|cbn; split; [constructor|split; [intros k []|discriminate]]].
    destruct (kd n) eqn:K; try (cbn; split; [constructor|split; [intros k []|discriminate]]; fail).
    pose proof (assign_flag_Inv (cur rs) i v n E K I) as I1.
    destruct (auto (cur rs)); cbn [ok_out st' cur with_cur evald err fst snd].
    + destruct (Sw _ _ full_closed I1) as [A [B C]]. split; [exact A|split; [exact B|]].
      intros _ k _ Hk. apply C. exact Hk.
    + split; [constructor|split; [intros k []|]]. intros _ k _ _. reflexivity.
  - cbn. split; [constructor|split; [intros k []|]]. intros _ k _ _. reflexivity.
  - destruct ts as [|t ts].
    + cbn [ok_out st' cur with_cur evald err fst snd].
      destruct (Sw _ _ full_closed I) as [A [B C]]. split; [exact A|split; [exact B|]].
      intros _ k _ Hk. apply C. exact Hk.
    + destruct (forallb _ (t :: ts)); cbn [ok_out err_out st' cur with_cur evald err fst snd].
      * destruct (Sw _ _ (tgt_tab_closed (t :: ts)) I) as [A [B C]]. split; [exact A|split; [exact B|]].
        intros _ k _ Hk. apply C. exact Hk.
      * split; [constructor|split; [intros k []|discriminate]].
  - cbn. split; [constructor|split; [intros k []|]]. intros _ k _ _. reflexivity.
  - destruct (nth_error (snaps rs) k); cbn; (split; [constructor|split; [intros j []|auto]]).
Qed.

(* the ghost invariant: in every reachable state an outdated cached node is marked *)
Theorem outdated_touched ext0 ops k :
  let s := cur (run interp dflt g ops (init interp dflt g ext0)) in
  cached k -> outdated g s k = true -> getb (touched s) k = true.
Proof.
  intros s Ck Ho. destruct (run_RInv ops _ (init_RInv ext0)) as [[_ [_ G]] _]. fold s in G.
  apply G; auto. destruct Ck as [n [E K]]. rewrite (outdated_unfold s k n E), K in Ho. exact Ho.
Qed.

(* an assignment (auto-update off) changes no value but the assigned one and raises the flags exactly
   of the recursive outputs of the assigned node *)
Theorem assign_frame rs i v n : RInv rs -> nth_error g i = Some n -> kd n = KValue ->
  auto (cur rs) = false ->
  let out := step interp dflt g rs (Assign i v) in
  let s := cur rs in let s' := cur (st' out) in
  err out = false /\ evald out = []
  /\ getv (vals s') i = v
  /\ (forall k, k <> i -> getv (vals s') k = getv (vals s) k)
  /\ (forall k, k < length g -> getb (dirty s') k = getb (dirty s) k || (negb (k =? i) && reaches g i k))
  /\ (forall k, k < length g -> ~ path i k -> outdated g s' k = outdated g s k).
Proof.
  intros [[L [I G]] S] E K Ha out s s'. subst s' s out. unfold step, step_with. rewrite E, K, Ha.
  cbn [ok_out st' cur with_cur evald err fst snd].
  destruct (assign_flag_frame (cur rs) i v L) as [F1 [F2 [F3 [F4 F5]]]].
  pose proof (wf_lt g i n E) as Hi.
  split; [reflexivity|]. split; [reflexivity|]. split; [exact (F2 Hi)|]. split; [exact F1|].
  split; [exact F3|].
  intros k Hk Hp. apply outdated_agree_anc. intros j Pj. rewrite F3 by (pose proof (path_le j k Pj); lia).
  destruct (reaches g i j) eqn:R; [|rewrite andb_false_r, orb_false_r; reflexivity].
  exfalso. apply Hp. apply reaches_path in R. exact (path_trans i j k R Pj).
Qed.


(* ---- the same for the states reachable from a freshly built model ------------------------------------------ *)
Definition reach (ext0 : list V) (ops : list (op V)) : rstate V :=
  run interp dflt g ops (init interp dflt g ext0).

Lemma reach_RInv ext0 ops : RInv (reach ext0 ops).
Proof. apply run_RInv. apply init_RInv. Qed.

Theorem full_update_clean_reach ext0 ops o :
  let rs := reach ext0 ops in
  (o = Update [] \/ exists i v, o = Assign i v /\ auto (cur rs) = true) ->
  err (step interp dflt g rs o) = false ->
  forall k, k < length g -> outdated g (cur (st' (step interp dflt g rs o))) k = false.
Proof. intros rs. apply full_update_clean. apply reach_RInv. Qed.

Theorem targeted_update_reach ext0 ops ts :
  let rs := reach ext0 ops in
  ts <> [] -> forallb (fun t => t <? length g) ts = true ->
  let s := cur rs in
  let s' := cur (st' (step interp dflt g rs (Update ts))) in
  (forall t k, In t ts -> path k t ->
      outdated g s' k = false /\ value g s' k = denote g (vals s') k)
  /\ (forall k, (forall t, In t ts -> ~ path k t) -> same_at s' s k)
  /\ (forall k n, nth_error g k = Some n -> kd n = KValue -> getv (vals s') k = getv (vals s) k)
  /\ err (step interp dflt g rs (Update ts)) = false.
Proof. intros rs. apply targeted_update. apply reach_RInv. Qed.

Theorem evaluate_once_if_needed_reach ext0 ops o :
  let rs := reach ext0 ops in
  let out := step interp dflt g rs o in
  let s0 := pre_sweep rs o in
  NoDup (evald out)
  /\ (forall k, In k (evald out) ->
        cached k /\ outdated g s0 k = true /\ getb (touched s0) k = true
        /\ getb (touched (cur (st' out))) k = false /\ outdated g (cur (st' out)) k = false)
  /\ (err out = false -> forall k, k < length g -> ~ In k (evald out) ->
        match o with Restore _ => True | _ => getb (touched (cur (st' out))) k = getb (touched s0) k end).
Proof. intros rs. apply evaluate_once_if_needed. apply reach_RInv. Qed.

Theorem assign_frame_reach ext0 ops i v n :
  let rs := reach ext0 ops in
  nth_error g i = Some n -> kd n = KValue -> auto (cur rs) = false ->
  let out := step interp dflt g rs (Assign i v) in
  let s := cur rs in let s' := cur (st' out) in
  err out = false /\ evald out = []
  /\ getv (vals s') i = v
  /\ (forall k, k <> i -> getv (vals s') k = getv (vals s) k)
  /\ (forall k, k < length g -> getb (dirty s') k = getb (dirty s) k || (negb (k =? i) && reaches g i k))
  /\ (forall k, k < length g -> ~ path i k -> outdated g s' k = outdated g s k).
Proof. intros rs. apply assign_frame. apply reach_RInv. Qed.

(* restoring a saved state restores the ghost with it and keeps the invariant: the state after
   Restore k is exactly the k-th saved one (values, reported flags, ghost) *)
Theorem restore_spec ext0 ops k sn :
  let rs := reach ext0 ops in
  nth_error (snaps rs) k = Some sn ->
  let out := step interp dflt g rs (Restore k) in
  err out = false /\ evald out = []
  /\ vals (cur (st' out)) = sn_vals sn /\ dirty (cur (st' out)) = sn_flags sn
  /\ touched (cur (st' out)) = sn_touched sn /\ auto (cur (st' out)) = auto (cur rs)
  /\ RInv (st' out).
Proof.
  intros rs E out. pose proof (step_RInv rs (Restore k) (reach_RInv ext0 ops)) as R.
  subst out. unfold step, step_with in *. rewrite E in *. cbn in *. repeat split; auto; apply R.
Qed.

End WF.
End P.
