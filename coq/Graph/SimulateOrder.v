(* C17 - the boolean visiting-order checker of the correspondence run ([order_okb], CorrC17.v result code 9)
   is EXACT for well-formed graphs: it accepts an order if and only if the order meets the hypothesis
   [order_ok] of the simulate theorems.  Soundness was [order_okb_ok] (SimulateExamples.v); this file adds
   completeness, so an order rejected by the run is an order the theorems really do not cover, never an
   artefact of the table-based reachability pass. *)
From Coq Require Import List Bool Arith Lia.
Import ListNotations.
From LV Require Import Graph.Graph Graph.GraphProofs Graph.Simulate Graph.SimulateProofs Graph.SimulateExamples.

Lemma getb_reach_tab {F} (g : graph F) (W : wf g) i p : getb (reach_tab g i) p = reaches g i p.
Proof.
  rewrite (GraphMemo.reach_tab_lit F g W). unfold reach_lit, getb.
  destruct (Nat.lt_ge_cases p (length g)) as [Hlt|Hge].
  - now rewrite nth_map_seq.
  - rewrite nth_overflow by (rewrite map_length, seq_length; exact Hge).
    symmetry. apply reaches_none. now apply nth_error_None.
Qed.

Lemma order_ok_okb {F} (g : graph F) (W : wf g) act : order_ok g act -> order_okb g act = true.
Proof.
  induction act as [|d r IH]; intros H; [reflexivity|].
  cbn [order_ok] in H. destruct H as [H1 [H2 H3]]. cbn [order_okb].
  apply andb_true_iff; split; [apply andb_true_iff; split|].
  - apply forallb_forall. intros d' Hd'. cbv zeta. apply forallb_forall. intros p Hp.
    apply negb_true_iff. rewrite (getb_reach_tab g W). exact (H1 d' Hd' p Hp).
  - apply forallb_forall. intros d' Hd'. apply negb_true_iff, Nat.eqb_neq. exact (H2 d' Hd').
  - apply IH. exact H3.
Qed.

Theorem order_okb_iff {F} (g : graph F) (W : wf g) act : order_okb g act = true <-> order_ok g act.
Proof. split; [apply (order_okb_ok g W)|apply (order_ok_okb g W)]. Qed.


(* the same for the test that the assigned node is a Value node *)
Lemma tgt_value_valueb {F} (g : graph F) d : tgt_value F g d -> tgt_valueb g d = true.
Proof. intros [n [E K]]. unfold tgt_valueb. rewrite E, K. reflexivity. Qed.

Theorem tgt_valueb_iff {F} (g : graph F) d : tgt_valueb g d = true <-> tgt_value F g d.
Proof. split; [apply tgt_valueb_ok|apply tgt_value_valueb]. Qed.

Print Assumptions order_okb_iff.
Print Assumptions tgt_valueb_iff.
