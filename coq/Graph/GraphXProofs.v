(* GraphXProofs.v - the C01 theorems for histories that also contain XRestoreEdited (GraphX.v): the public
   state setter fed with a saved state of this model in which arbitrary nodes were additionally marked
   outdated.  Such a state still satisfies the invariant (a clean cached node holds its from-scratch
   value; values are untouched and flags only go up), so everything proved in GraphProofs.v about a single
   operation on an RInv state carries over; the dirty set is no longer closed under recursive outputs, which
   none of the proofs used.

     restore_edited_Inv, xstep_RInv, xrun_RInv, xreach_RInv      the invariant along extended histories
     *_x                                                          the C01 theorems for extended histories
     restore_edited_spec                                          what XRestoreEdited does
     xstep_memo_lit, memo_xreach                                  memo instance = literal instance         *)
From Coq Require Import List Bool Arith Lia.
Import ListNotations.
From LV Require Import Graph.Graph Graph.GraphProofs Graph.GraphMemo Graph.GraphX.

Section PX.
Variables (V F : Type) (interp : F -> list V -> V) (dflt : V).
Variable g : graph F.
Hypothesis W : wf g.

Notation Inv := (Inv V F interp dflt g).
Notation RInv := (RInv V F interp dflt g).
Notation snap_ok := (snap_ok V F interp dflt g).
Notation cached := (cached F g).
Notation value := (value interp dflt).
Notation denote := (denote interp dflt).
Notation getv := (getv dflt).
Notation step := (step interp dflt g).
Notation xstep := (xstep interp dflt g).
Notation path := (path F g).

Lemma edit_flags_get marks l k : k < length g ->
  getb (edit_flags g marks l) k = getb l k || memb k marks.
Proof.
  intros Hk. unfold edit_flags, getb at 1.
  exact (nth_map_seq (fun j => getb l j || memb j marks) (length g) k false Hk).
Qed.

Lemma edit_flags_length marks l : length (edit_flags g marks l) = length g.
Proof. unfold edit_flags. rewrite map_length, seq_length. reflexivity. Qed.

(* an edited snapshot is still a good state: values untouched, flags and ghost only raised *)
Lemma restore_edited_Inv s sn marks : snap_ok sn -> Inv (restore_edited g s sn marks).
Proof.
  intros [[L1 [L2 L3]] [I G]]. cbn [vals dirty touched] in *. split; [|split].
  - unfold lens. cbn [restore_edited vals dirty touched]. rewrite !edit_flags_length. auto.
  - intros k Ck Dk. pose proof (cached_lt F g k Ck) as Hk. cbn [restore_edited vals dirty touched] in *.
    rewrite edit_flags_get in Dk by exact Hk. apply orb_false_iff in Dk. destruct Dk as [Dk _].
    apply (I k Ck Dk).
  - intros k Ck Dk. pose proof (cached_lt F g k Ck) as Hk. cbn [restore_edited vals dirty touched] in *.
    rewrite edit_flags_get in * by exact Hk. apply orb_true_iff in Dk. apply orb_true_iff.
    destruct Dk as [Dk|Dk]; [left; exact (G k Ck Dk)|right; exact Dk].
Qed.

Lemma xstep_RInv rs x : RInv rs -> RInv (st' (xstep rs x)).
Proof.
  intros R. destruct x as [o|k marks].
  - exact (step_RInv V F interp dflt g W rs o R).
  - destruct R as [I S]. unfold GraphX.xstep, xstep_with.
    destruct (nth_error (snaps rs) k) as [sn|] eqn:E; [|split; auto].
    destruct (forallb _ marks); cbn; split; auto.
    apply restore_edited_Inv. rewrite Forall_forall in S. apply S. eapply nth_error_In; eauto.
Qed.

Lemma xrun_RInv xs : forall rs, RInv rs -> RInv (xrun interp dflt g xs rs).
Proof.
  induction xs as [|x xs IH]; intros rs H; cbn; [exact H|].
  apply IH. apply xstep_RInv. exact H.
Qed.

Definition xreach (ext0 : list V) (xs : list (xop V)) : rstate V :=
  xrun interp dflt g xs (init interp dflt g ext0).

Lemma xreach_RInv ext0 xs : RInv (xreach ext0 xs).
Proof. apply xrun_RInv. apply init_RInv. exact W. Qed.

(* an ordinary history is an extended history *)
Lemma xrun_base ops : forall rs, xrun interp dflt g (map XBase ops) rs = run interp dflt g ops rs.
Proof. induction ops as [|o ops IH]; intros rs; cbn; [reflexivity|]. apply IH. Qed.

(* ================================ the C01 theorems, extended histories ================================ *)
Theorem coherent_xreach ext0 xs : coherent V F interp dflt g (cur (xreach ext0 xs)).
Proof.
  apply inv_coherent; [exact W|]. destruct (xreach_RInv ext0 xs) as [[_ [I _]] _]. exact I.
Qed.

Theorem full_update_clean_x ext0 xs o :
  let rs := xreach ext0 xs in
  (o = Update [] \/ exists i v, o = Assign i v /\ auto (cur rs) = true) ->
  err (step rs o) = false ->
  forall k, k < length g -> outdated g (cur (st' (step rs o))) k = false.
Proof. intros rs. apply full_update_clean; [exact W|]. apply xreach_RInv. Qed.

Theorem targeted_update_x ext0 xs ts :
  let rs := xreach ext0 xs in
  ts <> [] -> forallb (fun t => t <? length g) ts = true ->
  let s := cur rs in
  let s' := cur (st' (step rs (Update ts))) in
  (forall t k, In t ts -> path k t ->
      outdated g s' k = false /\ value g s' k = denote g (vals s') k)
  /\ (forall k, (forall t, In t ts -> ~ path k t) -> same_at V dflt s' s k)
  /\ (forall k n, nth_error g k = Some n -> kd n = KValue -> getv (vals s') k = getv (vals s) k)
  /\ err (step rs (Update ts)) = false.
Proof. intros rs. apply targeted_update; [exact W|]. apply xreach_RInv. Qed.

Definition xpre_sweep (rs : rstate V) (x : xop V) : mstate V :=
  match x with
  | XBase o => pre_sweep V F interp dflt g rs o
  | XRestoreEdited _ _ => cur rs
  end.

Definition replaces_ghost (x : xop V) : bool :=
  match x with
  | XBase (Restore _) => true
  | XRestoreEdited _ _ => true
  | _ => false
  end.

Theorem evaluate_once_if_needed_x ext0 xs x :
  let rs := xreach ext0 xs in
  let out := xstep rs x in
  let s0 := xpre_sweep rs x in
  NoDup (evald out)
  /\ (forall k, In k (evald out) ->
        cached k /\ outdated g s0 k = true /\ getb (touched s0) k = true
        /\ getb (touched (cur (st' out))) k = false /\ outdated g (cur (st' out)) k = false)
  /\ (err out = false -> replaces_ghost x = false -> forall k, k < length g -> ~ In k (evald out) ->
        getb (touched (cur (st' out))) k = getb (touched s0) k).
Proof.
  intros rs out s0. subst out s0. destruct x as [o|k marks].
  - destruct (evaluate_once_if_needed V F interp dflt g W rs o (xreach_RInv ext0 xs)) as [A [B C]].
    split; [exact A|split; [exact B|]]. intros He Hr j Hj Hn. specialize (C He j Hj Hn).
    destruct o; try exact C. discriminate.
  - unfold GraphX.xstep, xstep_with. destruct (nth_error (snaps rs) k) as [sn|]; [|cbn].
    + destruct (forallb _ marks); cbn; (split; [constructor|split; [intros j []|discriminate]]).
    + split; [constructor|split; [intros j []|discriminate]].
Qed.

Theorem outdated_touched_x ext0 xs k :
  let s := cur (xreach ext0 xs) in
  cached k -> outdated g s k = true -> getb (touched s) k = true.
Proof.
  intros s Ck Ho. destruct (xreach_RInv ext0 xs) as [[_ [_ G]] _]. fold s in G.
  apply G; auto. destruct Ck as [n [E K]]. rewrite (outdated_unfold V F g W s k n E), K in Ho. exact Ho.
Qed.

Theorem assign_frame_x ext0 xs i v n :
  let rs := xreach ext0 xs in
  nth_error g i = Some n -> kd n = KValue -> auto (cur rs) = false ->
  let out := step rs (Assign i v) in
  let s := cur rs in let s' := cur (st' out) in
  err out = false /\ evald out = []
  /\ getv (vals s') i = v
  /\ (forall k, k <> i -> getv (vals s') k = getv (vals s) k)
  /\ (forall k, k < length g -> getb (dirty s') k = getb (dirty s) k || (negb (k =? i) && reaches g i k))
  /\ (forall k, k < length g -> ~ path i k -> outdated g s' k = outdated g s k).
Proof. intros rs. apply assign_frame; [exact W|]. apply xreach_RInv. Qed.

Theorem restore_x ext0 xs k sn :
  let rs := xreach ext0 xs in
  nth_error (snaps rs) k = Some sn ->
  let out := step rs (Restore k) in
  err out = false /\ evald out = []
  /\ vals (cur (st' out)) = sn_vals sn /\ dirty (cur (st' out)) = sn_flags sn
  /\ touched (cur (st' out)) = sn_touched sn /\ auto (cur (st' out)) = auto (cur rs)
  /\ RInv (st' out).
Proof.
  intros rs E out. pose proof (xstep_RInv rs (XBase (Restore k)) (xreach_RInv ext0 xs)) as R.
  subst out. unfold GraphX.xstep, xstep_with, Graph.step, step_with in *. rewrite E in *. cbn in *.
  repeat split; auto; apply R.
Qed.

(* the state setter on an edited snapshot: the saved values; a cached node is outdated iff it was in the
   snapshot or has been marked; the mark is a ghost mark as well; nothing is evaluated; invariant kept *)
Theorem restore_edited_spec ext0 xs k sn marks :
  let rs := xreach ext0 xs in
  nth_error (snaps rs) k = Some sn ->
  forallb (fun j => j <? length g) marks = true ->
  let out := xstep rs (XRestoreEdited k marks) in
  let s' := cur (st' out) in
  err out = false /\ evald out = []
  /\ vals s' = sn_vals sn
  /\ (forall j, cached j -> outdated g s' j = getb (sn_flags sn) j || memb j marks)
  /\ (forall j, j < length g -> getb (touched s') j = getb (sn_touched sn) j || memb j marks)
  /\ auto s' = auto (cur rs)
  /\ RInv (st' out).
Proof.
  intros rs E Hm out s'. pose proof (xstep_RInv rs (XRestoreEdited k marks) (xreach_RInv ext0 xs)) as R.
  subst s' out. unfold GraphX.xstep, xstep_with in *. rewrite E, Hm in *.
  cbn [ok_out st' cur with_cur err evald fst snd] in *.
  split; [reflexivity|]. split; [reflexivity|]. split; [reflexivity|].
  split; [|split; [|split; [reflexivity|exact R]]].
  - intros j Cj. pose proof (cached_lt F g j Cj) as Hj. destruct Cj as [n [En Kn]].
    rewrite (outdated_unfold V F g W _ j n En), Kn. cbn [restore_edited dirty].
    apply edit_flags_get. exact Hj.
  - intros j Hj. cbn [restore_edited touched]. apply edit_flags_get. exact Hj.
Qed.

(* ---- memo = lit ------------------------------------------------------------------------------------------- *)
Lemma xstep_memo_lit rs x : length (vals (cur rs)) = length g ->
  mxstep interp dflt g rs x = xstep rs x.
Proof.
  intros Hl. destruct x as [o|k marks]; [|reflexivity].
  exact (step_memo_lit V F interp dflt g W rs o Hl).
Qed.

Lemma xrun_memo_lit xs : forall rs, RInv rs ->
  mxrun interp dflt g xs rs = xrun interp dflt g xs rs.
Proof.
  induction xs as [|x xs IH]; intros rs R; [reflexivity|].
  unfold mxrun, GraphX.xrun, xrun_with in *. cbn [fold_left].
  fold (mxstep interp dflt g rs x). fold (xstep rs x).
  rewrite (xstep_memo_lit rs x (RInv_len V F interp dflt g rs R)). apply IH. apply xstep_RInv. exact R.
Qed.

Theorem memo_xreach ext0 xs :
  mxrun interp dflt g xs (minit interp dflt g ext0) = xreach ext0 xs
  /\ forall x, mxstep interp dflt g (xreach ext0 xs) x = xstep (xreach ext0 xs) x.
Proof.
  split.
  - rewrite (init_memo_lit V F interp dflt g W). apply xrun_memo_lit. apply init_RInv. exact W.
  - intros x. apply xstep_memo_lit. apply (RInv_len V F interp dflt g). apply xreach_RInv.
Qed.

End PX.
