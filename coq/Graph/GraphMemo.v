(* GraphMemo.v - the table-driven traversals of Graph.v (instance [memo], what vm_compute runs in the
   correspondence shards) compute exactly what the literal fuelled readers (instance [lit], what the
   theorems are stated about) compute, on every well-formed graph.

     reach_tab_lit, outd_tab_lit, effv_tab_lit, den_tab_lit     the four tables
     sweep_memo_lit        the sweep (needs length (vals s) = length g, true of every reachable state)
     step_memo_lit, run_memo_lit, memo_reach                    operations and histories            *)
From Coq Require Import List Bool Arith Lia.
Import ListNotations.
From LV Require Import Graph.Graph Graph.GraphProofs.

Section M.
Variables (V F : Type) (interp : F -> list V -> V) (dflt : V).
Variable g : graph F.
Hypothesis W : wf g.

Notation value := (value interp dflt).
Notation denote := (denote interp dflt).
Notation getv := (getv dflt).
Notation LIT := (lit interp dflt).
Notation MEMO := (memo interp dflt).

Lemma tab_spec_gen {A} (f : nat -> node F -> list A -> A) (R : nat -> A) :
  forall h2 h1 : graph F,
  (forall k n, nth_error (h1 ++ h2) k = Some n -> f k n (map R (seq 0 k)) = R k) ->
  fold_left (fun acc n => acc ++ [f (length acc) n acc]) h2 (map R (seq 0 (length h1)))
  = map R (seq 0 (length (h1 ++ h2))).
Proof.
  induction h2 as [|n h2 IH]; intros h1 H.
  - rewrite app_nil_r. reflexivity.
  - cbn [fold_left]. rewrite map_length, seq_length.
    rewrite (H (length h1) n) by (rewrite nth_error_app2, Nat.sub_diag by lia; reflexivity).
    replace (map R (seq 0 (length h1)) ++ [R (length h1)]) with (map R (seq 0 (length (h1 ++ [n])))).
    + replace (h1 ++ n :: h2) with ((h1 ++ [n]) ++ h2) by (rewrite <- app_assoc; reflexivity).
      apply IH. intros k m E. apply H. rewrite <- app_assoc in E. exact E.
    + rewrite app_length. cbn [length]. rewrite Nat.add_1_r, seq_S, map_app. reflexivity.
Qed.

Lemma tab_spec {A} (f : nat -> node F -> list A -> A) (R : nat -> A) (h : graph F) :
  (forall k n, nth_error h k = Some n -> f k n (map R (seq 0 k)) = R k) ->
  tab f h = map R (seq 0 (length h)).
Proof. intros H. exact (tab_spec_gen f R h [] H). Qed.

Lemma get_tab {A} (R : nat -> A) k i d : i < k -> nth i (map R (seq 0 k)) d = R i.
Proof. apply nth_map_seq. Qed.

Lemma reach_tab_lit i : reach_tab g i = reach_lit g i.
Proof.
  unfold reach_tab, reach_lit. apply tab_spec. intros k n E.
  rewrite (reaches_unfold F g W i k n E). f_equal. apply existsb_ext_in. intros j Hj.
  unfold getb. apply get_tab. exact (wf_in F g k n j W E Hj).
Qed.

Lemma outd_tab_lit (s : mstate V) : outd_tab g s = flags_lit g s.
Proof.
  unfold outd_tab, flags_lit. apply tab_spec. intros k n E.
  rewrite (outdated_unfold V F g W s k n E). destruct (kd n); try reflexivity.
  apply existsb_ext_in. intros j Hj. unfold getb. apply get_tab. exact (wf_in F g k n j W E Hj).
Qed.

Lemma effv_tab_lit (s : mstate V) : effv_tab interp dflt g s = values_all interp dflt g s.
Proof.
  unfold effv_tab, values_all. apply tab_spec. intros k n E.
  rewrite (value_unfold V F interp dflt g W s k n E). destruct (kd n); try reflexivity.
  f_equal. apply map_ext_in. intros j Hj. unfold Graph.getv. apply get_tab.
  exact (wf_in F g k n j W E Hj).
Qed.

Lemma den_tab_lit e : den_tab interp dflt g e = map (denote g e) (seq 0 (length g)).
Proof.
  unfold den_tab. apply tab_spec. intros k n E.
  rewrite (denote_unfold V F interp dflt g W e k n E).
  destruct (kd n); try reflexivity; f_equal; apply map_ext_in; intros j Hj; unfold Graph.getv;
    apply get_tab; exact (wf_in F g k n j W E Hj).
Qed.

(* ---- the sweep --------------------------------------------------------------------------------------- *)
Lemma ev_snoc (s s' : mstate V) j x :
  (forall k, k < j -> value g s' k = value g s k) -> value g s' j = x ->
  map (value g s) (seq 0 j) ++ [x] = map (value g s') (seq 0 (S j)).
Proof.
  intros H Hx. rewrite seq_S, map_app. cbn [map Nat.add]. rewrite Hx. f_equal.
  apply map_ext_in. intros k Hk. apply in_seq in Hk. symmetry. apply H. lia.
Qed.

Lemma msweep_fold tgt : forall (h2 h1 : graph F) (s : mstate V) tr,
  g = h1 ++ h2 -> length (vals s) = length g ->
  fst (fold_left (msweep1 interp dflt tgt) h2 (s, tr, map (value g s) (seq 0 (length h1))))
  = fold_left (sweep1 interp dflt g tgt) (seq (length h1) (length h2)) (s, tr).
Proof.
  induction h2 as [|n h2 IH]; intros h1 s tr Hg Hl; [reflexivity|].
  set (j := length h1).
  assert (E : nth_error g j = Some n).
  { rewrite Hg. unfold j. rewrite nth_error_app2, Nat.sub_diag by lia. reflexivity. }
  assert (Hj : j < length g) by (eapply wf_lt; eauto).
  assert (Hg' : g = (h1 ++ [n]) ++ h2) by (rewrite <- app_assoc; exact Hg).
  assert (Hlen : length (h1 ++ [n]) = S j) by (rewrite app_length; cbn; unfold j; lia).
  assert (Hev : forall i, In i (ins n) -> getv (map (value g s) (seq 0 j)) i = value g s i).
  { intros i Hi. unfold Graph.getv. apply get_tab. exact (wf_in F g j n i W E Hi). }
  cbn [fold_left length seq]. fold j.
  unfold msweep1 at 2. rewrite map_length, seq_length. fold j.
  unfold sweep1 at 2. rewrite E. cbn [fst snd].
  rewrite (outdated_unfold V F g W s j n E).
  destruct (kd n) eqn:K.
  - (* Value *)
    rewrite andb_false_r.
    rewrite (ev_snoc s s j (getv (vals s) j)); [|reflexivity|].
    + rewrite <- Hlen. apply IH; auto.
    + rewrite (value_unfold V F interp dflt g W s j n E), K. reflexivity.
  - (* cached *)
    destruct (tgt j && getb (dirty s) j) eqn:C.
    + assert (Hv : interp (fs n) (map (getv (map (value g s) (seq 0 j))) (ins n))
                   = interp (fs n) (map (value g s) (ins n))).
      { f_equal. apply map_ext_in. exact Hev. }
      rewrite Hv. set (v := interp (fs n) (map (value g s) (ins n))).
      rewrite (ev_snoc s (set_node s j v) j v).
      * rewrite <- Hlen. apply IH; auto. cbn. rewrite upd_length. exact Hl.
      * intros k Hk. apply (value_agree V F interp dflt g W). intros i Hi. cbn.
        unfold Graph.getv. apply nth_upd_neq. lia.
      * rewrite (value_unfold V F interp dflt g W _ j n E), K. cbn. unfold Graph.getv.
        apply nth_upd_eq. lia.
    + rewrite (ev_snoc s s j (getv (vals s) j)); [|reflexivity|].
      * rewrite <- Hlen. apply IH; auto.
      * rewrite (value_unfold V F interp dflt g W s j n E), K. reflexivity.
  - (* transient *)
    assert (Hst : (if tgt j && existsb (outdated g s) (ins n) then (s, tr) else (s, tr)) = (s, tr))
      by (destruct (tgt j && existsb (outdated g s) (ins n)); reflexivity).
    rewrite Hst.
    rewrite (ev_snoc s s j (interp (fs n) (map (getv (map (value g s) (seq 0 j))) (ins n)))); [|reflexivity|].
    + rewrite <- Hlen. apply IH; auto.
    + rewrite (value_unfold V F interp dflt g W s j n E), K. f_equal. apply map_ext_in.
      intros i Hi. symmetry. apply Hev. exact Hi.
Qed.

Lemma sweep_memo_lit tgt (s : mstate V) : length (vals s) = length g ->
  sweep_memo interp dflt g tgt s = sweep_lit interp dflt g tgt s.
Proof.
  intros Hl. unfold sweep_memo, sweep_lit. exact (msweep_fold tgt g [] s [] eq_refl Hl).
Qed.

(* ---- operations -------------------------------------------------------------------------------------------- *)
Lemma flag_desc_memo i l : flag_desc MEMO g i l = flag_desc LIT g i l.
Proof. unfold flag_desc. cbn [i_reach memo lit]. rewrite reach_tab_lit. reflexivity. Qed.

Lemma assign_flag_memo s i v : assign_flag MEMO g s i v = assign_flag LIT g s i v.
Proof. unfold assign_flag. rewrite !flag_desc_memo. reflexivity. Qed.

Lemma tgt_tab_memo ts : tgt_tab MEMO g ts = tgt_tab LIT g ts.
Proof.
  unfold tgt_tab. apply map_ext. intros k. cbn [i_reach memo lit]. rewrite reach_tab_lit. reflexivity.
Qed.

Lemma snapshot_memo s : snapshot MEMO g s = snapshot LIT g s.
Proof. unfold snapshot. cbn [i_flags memo lit]. rewrite outd_tab_lit. reflexivity. Qed.

Lemma step_memo_lit rs o : length (vals (cur rs)) = length g ->
  mstep interp dflt g rs o = step interp dflt g rs o.
Proof.
  intros Hl. unfold mstep, step, step_with. destruct o as [i v|b|ts| |k]; try reflexivity.
  - destruct (nth_error g i) as [n|]; [|reflexivity]. destruct (kd n); try reflexivity.
    rewrite assign_flag_memo. destruct (auto (cur rs)); [|reflexivity].
    cbn [i_sweep memo lit]. rewrite sweep_memo_lit; [reflexivity|].
    cbn. rewrite upd_length. exact Hl.
  - destruct ts as [|t ts].
    + cbn [i_sweep memo lit]. rewrite sweep_memo_lit by exact Hl. reflexivity.
    + destruct (forallb _ (t :: ts)); [|reflexivity]. rewrite tgt_tab_memo.
      cbn [i_sweep memo lit]. rewrite sweep_memo_lit by exact Hl. reflexivity.
  - rewrite snapshot_memo. reflexivity.
Qed.

Lemma RInv_len rs : RInv V F interp dflt g rs -> length (vals (cur rs)) = length g.
Proof. intros [[[L _] _] _]. exact L. Qed.

Lemma run_memo_lit ops : forall rs, RInv V F interp dflt g rs ->
  mrun interp dflt g ops rs = run interp dflt g ops rs.
Proof.
  induction ops as [|o ops IH]; intros rs R; [reflexivity|].
  unfold mrun, run, run_with in *. cbn [fold_left].
  fold (mstep interp dflt g rs o). fold (step interp dflt g rs o).
  rewrite (step_memo_lit rs o (RInv_len rs R)). apply IH. apply step_RInv; auto.
Qed.

Lemma init_memo_lit ext0 : minit interp dflt g ext0 = init interp dflt g ext0.
Proof.
  unfold minit, init, init_with. cbn [i_sweep memo lit]. rewrite sweep_memo_lit; [reflexivity|].
  cbn. rewrite map_length, seq_length. reflexivity.
Qed.

Theorem memo_reach ext0 ops :
  mrun interp dflt g ops (minit interp dflt g ext0) = reach V F interp dflt g ext0 ops
  /\ forall o, mstep interp dflt g (reach V F interp dflt g ext0 ops) o
               = step interp dflt g (reach V F interp dflt g ext0 ops) o.
Proof.
  split.
  - rewrite init_memo_lit. apply run_memo_lit. apply init_RInv. exact W.
  - intros o. apply step_memo_lit. apply RInv_len. apply reach_RInv. exact W.
Qed.

Theorem observe_memo_lit (s : mstate V) :
  mvalues_all interp dflt g s = values_all interp dflt g s /\ mflags_all g s = flags_all g s.
Proof. split; [apply effv_tab_lit|apply outd_tab_lit]. Qed.

End M.
