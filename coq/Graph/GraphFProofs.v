(* GraphFProofs.v - the C01 theorems for histories in which node functions may RAISE (GraphF.v): a sweep
   stops at the first raising node; the state the exception leaves behind still satisfies the invariant
   (the assigned value stays, every node evaluated before the failure is clean and holds the from-scratch
   value of the CURRENT inputs, the failing node and everything after it are as the sweep found them), so
   the history can go on.

     sweepF1_cases, SIF_fold, sweepF_spec          the stopping sweep
     fstep_RInv, frun_RInv, finit_spec             invariant along histories; the build is from scratch
     coherent_F, fstep_trace, assign_F, update_F   the C01 theorems
     sweepF_memo_lit, fstep_memo_lit, memo_F       memo instance = literal instance                       *)
From Coq Require Import List Bool Arith Lia.
Import ListNotations.
From LV Require Import Graph.Graph Graph.GraphProofs Graph.GraphMemo Graph.GraphX Graph.GraphXProofs Graph.GraphF.

Section PF.
Variables (V F : Type) (interp : F -> list V -> V) (dflt : V) (isErr : V -> bool).
Variable g : graph F.
Hypothesis W : wf g.

Notation Inv := (Inv V F interp dflt g).
Notation RInv := (RInv V F interp dflt g).
Notation SI := (SI V F interp dflt g).
Notation cached := (cached F g).
Notation value := (value interp dflt).
Notation denote := (denote interp dflt).
Notation getv := (getv dflt).
Notation LIT := (lit interp dflt).
Notation MEMO := (memo interp dflt).
Notation same_at := (same_at V dflt).
Notation path := (path F g).
Notation sweepF1 := (sweepF1 interp dflt isErr g).
Notation sweepF := (sweepF_lit interp dflt isErr g).
Notation fstep := (fstep interp dflt isErr g).
Notation frun := (frun interp dflt isErr g).
Notation finit := (finit interp dflt isErr g).

(* one step of the stopping sweep is a step of the plain sweep, or it stops at a dirty cached target *)
Lemma sweepF1_cases tgt s tr j :
  sweepF1 tgt (s, tr, false) j = (sweep1 interp dflt g tgt (s, tr) j, false)
  \/ sweepF1 tgt (s, tr, false) j = (s, tr, true).
Proof.
  unfold GraphF.sweepF1, sweep1. cbn [fst snd].
  destruct (nth_error g j) as [n|]; [|left; reflexivity].
  destruct (tgt j && outdated g s j); [|left; reflexivity].
  destruct (kd n); try (left; reflexivity).
  destruct (isErr _); [right|left]; reflexivity.
Qed.

Lemma sweepF1_failed tgt s tr j : sweepF1 tgt (s, tr, true) j = (s, tr, true).
Proof. reflexivity. Qed.

(* loop invariant: the plain sweep's invariant up to the position where the sweep stopped *)
Definition SIF (tgt : nat -> bool) (s0 : mstate V) (j : nat) (st : mstate V * list nat * bool) : Prop :=
  exists j', j' <= j /\ SI tgt s0 j' (fst st) /\ (snd st = false -> j' = j).

Lemma SIF_fold tgt s0 : tgt_closed F g tgt -> lens V F g s0 -> inv V F interp dflt g s0 ->
  forall m, m <= length g ->
    SIF tgt s0 m (fold_left (sweepF1 tgt) (seq 0 m) (s0, [], false)).
Proof.
  intros C L I m. induction m as [|m IH]; intros Hm.
  - cbn. exists 0. split; [lia|]. split; [apply SI_start; auto|reflexivity].
  - rewrite seq_S, fold_left_app. cbn [fold_left plus].
    destruct (IH ltac:(lia)) as [j' [Hj [HS Hf]]].
    destruct (fold_left (sweepF1 tgt) (seq 0 m) (s0, [], false)) as [[s tr] failed].
    cbn [fst snd] in *. destruct failed.
    + rewrite sweepF1_failed. exists j'. split; [lia|]. split; [exact HS|discriminate].
    + specialize (Hf eq_refl). subst j'.
      destruct (sweepF1_cases tgt s tr m) as [E|E]; rewrite E.
      * exists (S m). split; [lia|]. split; [|reflexivity]. cbn [fst].
        apply SI_step; auto.
      * exists m. split; [lia|]. split; [exact HS|discriminate].
Qed.

(* what an invariant state of the plain sweep gives, for a start state that satisfies Inv *)
Lemma SI_facts tgt s0 j s tr : Inv s0 -> SI tgt s0 j (s, tr) ->
  Inv s
  /\ NoDup tr
  /\ (forall k, In k tr ->
        tgt k = true /\ cached k /\ getb (dirty s0) k = true /\ getb (touched s0) k = true
        /\ getb (dirty s) k = false /\ getb (touched s) k = false)
  /\ (forall k, ~ In k tr -> same_at s s0 k)
  /\ (forall k n, nth_error g k = Some n -> kd n <> KCached -> getv (vals s) k = getv (vals s0) k)
  /\ auto s = auto s0
  /\ (forall k, k < j -> tgt k = true -> outdated g s k = false).
Proof.
  intros [L [I G]] [L' I' Cl Fr Tr Nd Au]. cbn [fst snd] in *.
  assert (Tr' : forall k, In k tr ->
        tgt k = true /\ cached k /\ getb (dirty s0) k = true /\ getb (touched s0) k = true
        /\ getb (dirty s) k = false /\ getb (touched s) k = false).
  { intros k Hk. destruct (Tr k Hk) as [H1 [H2 [H3 [H4 [H5 H6]]]]]. repeat split; auto. }
  split; [|split; [exact Nd|split; [exact Tr'|split; [exact Fr|split; [|split; [exact Au|exact Cl]]]]]].
  - split; [exact L'|split; [exact I'|]].
    intros k Ck Dk. destruct (in_dec Nat.eq_dec k tr) as [Hin|Hout].
    + destruct (Tr k Hin) as [_ [_ [_ [_ [H5 _]]]]]. congruence.
    + destruct (Fr k Hout) as [_ [F2 F3]]. rewrite F3. apply G; auto. congruence.
  - intros k n E K. apply Fr. intros Hin. destruct (Tr k Hin) as [_ [_ [[m [Em Km]] _]]].
    rewrite E in Em. injection Em as <-. contradiction.
Qed.

(* The stopping sweep over an input-closed target set *)
Theorem sweepF_spec tgt s0 : tgt_closed F g tgt -> Inv s0 ->
  forall s tr failed, sweepF tgt s0 = (s, tr, failed) ->
  Inv s
  /\ NoDup tr
  /\ (forall k, In k tr ->
        tgt k = true /\ cached k /\ getb (dirty s0) k = true /\ getb (touched s0) k = true
        /\ getb (dirty s) k = false /\ getb (touched s) k = false)
  /\ (forall k, ~ In k tr -> same_at s s0 k)
  /\ (forall k n, nth_error g k = Some n -> kd n <> KCached -> getv (vals s) k = getv (vals s0) k)
  /\ auto s = auto s0
  /\ (failed = false -> forall k, k < length g -> tgt k = true -> outdated g s k = false).
Proof.
  intros C I0 s tr failed E. destruct I0 as [L [I G]].
  destruct (SIF_fold tgt s0 C L I (length g) (le_n _)) as [j' [Hj [S Hf]]].
  fold (sweepF tgt s0) in S, Hf. rewrite E in S, Hf. cbn [fst snd] in *.
  destruct (SI_facts tgt s0 j' s tr (conj L (conj I G)) S) as [A [B [C1 [D [E1 [F1 G1]]]]]].
  repeat (split; [assumption|]).
  intros Hfalse k Hk Tk. apply G1; [|exact Tk]. rewrite (Hf Hfalse). exact Hk.
Qed.

(* ---- operations ---------------------------------------------------------------------------------------------- *)
Lemma sw_out_RInv rs tgt s0 : tgt_closed F g tgt -> Inv s0 -> Forall (snap_ok V F interp dflt g) (snaps rs) ->
  RInv (st' (sw_out rs (sweepF tgt s0))).
Proof.
  intros C I0 S. destruct (sweepF tgt s0) as [[s tr] failed] eqn:E. cbn.
  split; [|exact S]. exact (proj1 (sweepF_spec tgt s0 C I0 s tr failed E)).
Qed.

Lemma fstep_RInv rs x : RInv rs -> RInv (st' (fstep rs x)).
Proof.
  intros R. pose proof (xstep_RInv V F interp dflt g W rs x R) as RX.
  destruct R as [I S]. unfold GraphF.fstep, fstep_with.
  destruct x as [o|k marks]; [|exact RX]. destruct o as [i v|b|ts| |k]; try exact RX.
  - destruct (nth_error g i) as [n|] eqn:E; [|split; auto].
    destruct (kd n) eqn:K; try (split; auto; fail).
    pose proof (assign_flag_Inv V F interp dflt g W (cur rs) i v n E K I) as I1.
    destruct (auto (cur rs)); [|cbn; split; auto].
    apply sw_out_RInv; auto. apply full_closed.
  - destruct ts as [|t ts].
    + apply sw_out_RInv; auto. apply full_closed.
    + destruct (forallb _ (t :: ts)); [|split; auto].
      apply sw_out_RInv; auto. apply tgt_tab_closed. exact W.
Qed.

Lemma frun_RInv xs : forall rs, RInv rs -> RInv (frun xs rs).
Proof.
  induction xs as [|x xs IH]; intros rs H; cbn; [exact H|].
  apply IH. apply fstep_RInv. exact H.
Qed.

(* Model.__init__ is a from-scratch computation whatever values and flags the nodes carried before the
   build (ext0 lists them for ALL nodes; only the entries of Value nodes matter): a successful build
   leaves no node outdated and every node shows denote g ext0 *)
Theorem finit_spec ext0 rs0 : finit ext0 = Some rs0 ->
  RInv rs0
  /\ (forall k, k < length g -> outdated g (cur rs0) k = false)
  /\ (forall k, k < length g -> value g (cur rs0) k = denote g ext0 k)
  /\ (forall k n, nth_error g k = Some n -> kd n = KValue -> getv (vals (cur rs0)) k = getv ext0 k)
  /\ auto (cur rs0) = true /\ snaps rs0 = [].
Proof.
  unfold GraphF.finit, finit_with.
  destruct (sweepF full (init_state dflt g ext0)) as [[s tr] failed] eqn:E.
  destruct failed; [discriminate|]. intros H. injection H as <-. cbn [cur snaps].
  pose proof (init_state_Inv V F interp dflt g ext0) as I0.
  destruct (sweepF_spec full _ (full_closed F g) I0 s tr false E) as [I [_ [_ [_ [Vl [Au Cl]]]]]].
  assert (Hv : forall k n, nth_error g k = Some n -> kd n = KValue -> getv (vals s) k = getv ext0 k).
  { intros k n En Kn. rewrite (Vl k n En) by congruence. cbn. unfold Graph.getv at 1.
    apply nth_map_seq. eapply wf_lt; eauto. }
  split; [split; [exact I|constructor]|]. split; [intros k Hk; apply Cl; auto|].
  split; [|split; [exact Hv|split; [rewrite Au; reflexivity|reflexivity]]].
  intros k Hk. destruct I as [_ [Iv _]].
  rewrite (inv_coherent V F interp dflt g W s Iv k Hk (Cl eq_refl k Hk eq_refl)).
  apply (den_agree V F interp dflt g W). exact Hv.
Qed.

(* ================================ the C01 theorems with failing evaluations ================================== *)
Definition freach (rs0 : rstate V) (xs : list (xop V)) : rstate V := frun xs rs0.

Lemma freach_RInv ext0 rs0 xs : finit ext0 = Some rs0 -> RInv (freach rs0 xs).
Proof. intros H. apply frun_RInv. exact (proj1 (finit_spec ext0 rs0 H)). Qed.

(* every reachable state - also the one an exception leaves behind - is coherent *)
Theorem coherent_F ext0 rs0 xs : finit ext0 = Some rs0 ->
  coherent V F interp dflt g (cur (freach rs0 xs)).
Proof.
  intros H. apply inv_coherent; [exact W|]. destruct (freach_RInv ext0 rs0 xs H) as [[_ [I _]] _]. exact I.
Qed.

(* evaluation trace of any operation, raising or not *)
Theorem fstep_trace rs x : RInv rs ->
  let out := fstep rs x in
  let s0 := xpre_sweep V F interp dflt g rs x in
  NoDup (evald out)
  /\ (forall k, In k (evald out) ->
        cached k /\ outdated g s0 k = true /\ getb (touched s0) k = true
        /\ getb (touched (cur (st' out))) k = false /\ outdated g (cur (st' out)) k = false).
Proof.
  intros R out s0.
  assert (Sw : forall tgt s, tgt_closed F g tgt -> Inv s ->
     NoDup (evald (sw_out rs (sweepF tgt s))) /\
     (forall k, In k (evald (sw_out rs (sweepF tgt s))) ->
        cached k /\ outdated g s k = true /\ getb (touched s) k = true
        /\ getb (touched (cur (st' (sw_out rs (sweepF tgt s))))) k = false
        /\ outdated g (cur (st' (sw_out rs (sweepF tgt s)))) k = false)).
  { intros tgt s C Is. destruct (sweepF tgt s) as [[s1 tr] failed] eqn:E.
    cbn [sw_out st' cur with_cur evald err].
    destruct (sweepF_spec tgt s C Is s1 tr failed E) as [_ [Nd [Tr _]]].
    split; [exact Nd|]. intros k Hk. destruct (Tr k Hk) as [_ [Ck [D [T [D' T']]]]].
    destruct Ck as [n [En Kn]].
    split; [exists n; auto|]. split; [rewrite (outdated_unfold V F g W s k n En), Kn; exact D|].
    split; [exact T|]. split; [exact T'|]. rewrite (outdated_unfold V F g W s1 k n En), Kn. exact D'. }
  assert (Nil : forall s1 s2 : mstate V, NoDup (@nil nat) /\ (forall k, In k (@nil nat) ->
        cached k /\ outdated g s1 k = true /\ getb (touched s1) k = true
        /\ getb (touched s2) k = false /\ outdated g s2 k = false)).
  { intros s1 s2. split; [constructor|intros k []]. }
  destruct R as [I S]. subst out s0. unfold GraphF.fstep, fstep_with, xpre_sweep, pre_sweep.
  destruct x as [o|k marks].
  - destruct o as [i v|b|ts| |k].
    + destruct (nth_error g i) as [n|] eqn:E; [|apply Nil].
      destruct (kd n) eqn:K; try apply Nil.
      pose proof (assign_flag_Inv V F interp dflt g W (cur rs) i v n E K I) as I1.
      destruct (auto (cur rs)); [|apply Nil]. apply Sw; auto. apply full_closed.
    + apply Nil.
    + destruct ts as [|t ts]; [apply Sw; auto; apply full_closed|].
      destruct (forallb _ (t :: ts)); [|apply Nil]. apply Sw; auto. apply tgt_tab_closed. exact W.
    + apply Nil.
    + cbn. destruct (nth_error (snaps rs) k); apply Nil.
  - cbn. destruct (nth_error (snaps rs) k); [|apply Nil]. destruct (forallb _ marks); apply Nil.
Qed.

(* an assignment to a Value node, auto-update on or off, raising or not: THE ASSIGNED VALUE STAYS, no other
   input changes, every node that was not evaluated is exactly as the flagging left it (in particular the
   raising node and everything after it), and if nothing raised with auto-update on no node is outdated *)
Theorem assign_F rs i v n : RInv rs -> nth_error g i = Some n -> kd n = KValue ->
  let out := fstep rs (XBase (Assign i v)) in
  let s1 := assign_flag LIT g (cur rs) i v in
  let s' := cur (st' out) in
  getv (vals s') i = v
  /\ (forall k m, k <> i -> nth_error g k = Some m -> kd m = KValue -> getv (vals s') k = getv (vals (cur rs)) k)
  /\ (forall k, ~ In k (evald out) -> same_at s' s1 k)
  /\ (auto (cur rs) = false -> err out = false /\ evald out = [])
  /\ (auto (cur rs) = true -> err out = false -> forall k, k < length g -> outdated g s' k = false)
  /\ RInv (st' out).
Proof.
  intros R E K out s1 s'. pose proof (fstep_RInv rs (XBase (Assign i v)) R) as R'.
  destruct R as [I S]. pose proof (assign_flag_Inv V F interp dflt g W (cur rs) i v n E K I) as I1.
  destruct I as [L IG]. destruct (assign_flag_frame V F interp dflt g (cur rs) i v L) as [F1 [F2 _]].
  pose proof (wf_lt F g i n E) as Hi. fold s1 in F1, F2, I1.
  subst out s'. unfold GraphF.fstep, fstep_with in *. rewrite E, K in *. fold s1 in R' |- *.
  destruct (auto (cur rs)) eqn:Au.
  - destruct (sweepF full s1) as [[s2 tr] failed] eqn:Es. cbn [sw_out st' cur with_cur evald err] in *.
    destruct (sweepF_spec full s1 (full_closed F g) I1 s2 tr failed Es) as [_ [_ [_ [Fr [Vl [_ Cl]]]]]].
    split; [rewrite (Vl i n E) by congruence; exact (F2 Hi)|].
    split; [intros k m Hk Em Km; rewrite (Vl k m Em) by congruence; exact (F1 k Hk)|].
    split; [exact Fr|]. split; [discriminate|]. split; [|exact R'].
    intros _ Hf k Hk. apply Cl; auto.
  - cbn [ok_out st' cur with_cur evald err fst snd] in *.
    split; [exact (F2 Hi)|]. split; [intros k m Hk _ _; exact (F1 k Hk)|].
    split; [intros k _; repeat split|]. split; [auto|]. split; [discriminate|exact R'].
Qed.

(* an update (full: ts = []; targeted otherwise), raising or not: inputs and everything that was not evaluated
   stay as they were, what was evaluated lies in the ancestor closure of the targets; if nothing raised the
   targets and all their ancestors (full: all nodes) are up to date and hold the from-scratch values *)
Theorem update_F rs ts : RInv rs -> forallb (fun t => t <? length g) ts = true ->
  let out := fstep rs (XBase (Update ts)) in
  let s := cur rs in
  let s' := cur (st' out) in
  (forall k, ~ In k (evald out) -> same_at s' s k)
  /\ (forall k n, nth_error g k = Some n -> kd n = KValue -> getv (vals s') k = getv (vals s) k)
  /\ (ts <> [] -> forall k, In k (evald out) -> exists t, In t ts /\ path k t)
  /\ (err out = false -> forall k, k < length g -> (ts = [] \/ exists t, In t ts /\ path k t) ->
        outdated g s' k = false /\ value g s' k = denote g (vals s') k)
  /\ RInv (st' out).
Proof.
  intros R Hall out s s'. pose proof (fstep_RInv rs (XBase (Update ts)) R) as R'.
  destruct R as [I S]. subst out s s'. unfold GraphF.fstep, fstep_with in *.
  assert (Gen : forall tgt, tgt_closed F g tgt ->
     let o := sw_out rs (sweepF tgt (cur rs)) in
     RInv (st' o) ->
     (forall k, ~ In k (evald o) -> same_at (cur (st' o)) (cur rs) k)
     /\ (forall k n, nth_error g k = Some n -> kd n = KValue -> getv (vals (cur (st' o))) k = getv (vals (cur rs)) k)
     /\ (forall k, In k (evald o) -> tgt k = true)
     /\ (err o = false -> forall k, k < length g -> tgt k = true ->
          outdated g (cur (st' o)) k = false /\ value g (cur (st' o)) k = denote g (vals (cur (st' o))) k)).
  { intros tgt C o Ro. subst o. destruct (sweepF tgt (cur rs)) as [[s2 tr] failed] eqn:Es.
    cbn [sw_out st' cur with_cur evald err] in *.
    destruct (sweepF_spec tgt (cur rs) C I s2 tr failed Es) as [I2 [_ [Tr [Fr [Vl [_ Cl]]]]]].
    split; [exact Fr|]. split; [intros k n En Kn; apply (Vl k n En); congruence|].
    split; [intros k Hk; exact (proj1 (Tr k Hk))|].
    intros Hf k Hk Tk. pose proof (Cl Hf k Hk Tk) as Ho. split; [exact Ho|].
    destruct I2 as [_ [Iv _]]. apply (inv_coherent V F interp dflt g W s2 Iv k Hk Ho). }
  destruct ts as [|t0 ts0].
  - destruct (Gen full (full_closed F g) R') as [A [B [_ D]]].
    split; [exact A|]. split; [exact B|]. split; [congruence|]. split; [|exact R'].
    intros He k Hk _. apply D; auto.
  - rewrite Hall in *.
    destruct (Gen _ (tgt_tab_closed V F interp dflt g W (t0 :: ts0)) R') as [A [B [C D]]].
    split; [exact A|]. split; [exact B|]. split; [|split; [|exact R']].
    + intros _ k Hk. pose proof (C k Hk) as Tk.
      assert (Hlt : k < length g).
      { destruct (Nat.lt_ge_cases k (length g)) as [H|H]; [exact H|].
        unfold getb in Tk. rewrite nth_overflow in Tk; [discriminate|].
        unfold tgt_tab. rewrite map_length, seq_length. exact H. }
      rewrite (tgt_tab_get V F interp dflt g) in Tk by exact Hlt.
      apply existsb_exists in Tk. destruct Tk as [t [Ht Hr]]. exists t. split; [exact Ht|].
      apply (reaches_path F g W). exact Hr.
    + intros He k Hk [Hnil|[t [Ht P]]]; [discriminate|]. apply D; auto.
      rewrite (tgt_tab_get V F interp dflt g) by exact Hk. apply existsb_exists. exists t. split; [exact Ht|].
      apply (reaches_path F g W). exact P.
Qed.

(* the same for the states reachable from a successful build *)
Theorem fstep_trace_reach ext0 rs0 xs x : finit ext0 = Some rs0 ->
  let rs := freach rs0 xs in
  let out := fstep rs x in
  let s0 := xpre_sweep V F interp dflt g rs x in
  NoDup (evald out)
  /\ (forall k, In k (evald out) ->
        cached k /\ outdated g s0 k = true /\ getb (touched s0) k = true
        /\ getb (touched (cur (st' out))) k = false /\ outdated g (cur (st' out)) k = false).
Proof. intros H rs. apply fstep_trace. exact (freach_RInv ext0 rs0 xs H). Qed.

Theorem assign_F_reach ext0 rs0 xs i v n : finit ext0 = Some rs0 ->
  let rs := freach rs0 xs in
  nth_error g i = Some n -> kd n = KValue ->
  let out := fstep rs (XBase (Assign i v)) in
  let s1 := assign_flag LIT g (cur rs) i v in
  let s' := cur (st' out) in
  getv (vals s') i = v
  /\ (forall k m, k <> i -> nth_error g k = Some m -> kd m = KValue -> getv (vals s') k = getv (vals (cur rs)) k)
  /\ (forall k, ~ In k (evald out) -> same_at s' s1 k)
  /\ (auto (cur rs) = false -> err out = false /\ evald out = [])
  /\ (auto (cur rs) = true -> err out = false -> forall k, k < length g -> outdated g s' k = false)
  /\ RInv (st' out).
Proof. intros H rs. apply assign_F. exact (freach_RInv ext0 rs0 xs H). Qed.

Theorem update_F_reach ext0 rs0 xs ts : finit ext0 = Some rs0 ->
  let rs := freach rs0 xs in
  forallb (fun t => t <? length g) ts = true ->
  let out := fstep rs (XBase (Update ts)) in
  let s := cur rs in
  let s' := cur (st' out) in
  (forall k, ~ In k (evald out) -> same_at s' s k)
  /\ (forall k n, nth_error g k = Some n -> kd n = KValue -> getv (vals s') k = getv (vals s) k)
  /\ (ts <> [] -> forall k, In k (evald out) -> exists t, In t ts /\ path k t)
  /\ (err out = false -> forall k, k < length g -> (ts = [] \/ exists t, In t ts /\ path k t) ->
        outdated g s' k = false /\ value g s' k = denote g (vals s') k)
  /\ RInv (st' out).
Proof. intros H rs. apply update_F. exact (freach_RInv ext0 rs0 xs H). Qed.

Theorem outdated_touched_F ext0 rs0 xs k : finit ext0 = Some rs0 ->
  let s := cur (freach rs0 xs) in
  cached k -> outdated g s k = true -> getb (touched s) k = true.
Proof.
  intros H s Ck Ho. destruct (freach_RInv ext0 rs0 xs H) as [[_ [_ G]] _]. fold s in G.
  apply G; auto. destruct Ck as [n [E K]]. rewrite (outdated_unfold V F g W s k n E), K in Ho. exact Ho.
Qed.

(* operations that evaluate nothing behave as in GraphX *)
Lemma fstep_other rs x :
  match x with XBase (Assign _ _) | XBase (Update _) => False | _ => True end ->
  fstep rs x = xstep interp dflt g rs x.
Proof. destruct x as [[i v|b|ts| |k]|k marks]; intros H; try contradiction; reflexivity. Qed.

(* when no evaluation gives an error value the stopping sweep is the plain sweep *)
Lemma sweepF_no_error tgt s :
  (forall f args, isErr (interp f args) = false) ->
  sweepF tgt s = (sweep_lit interp dflt g tgt s, false).
Proof.
  intros H. unfold GraphF.sweepF_lit, sweep_lit.
  generalize (seq 0 (length g)). generalize (s, @nil nat). intros st l. revert st.
  induction l as [|j l IH]; intros [s1 tr]; [reflexivity|]. cbn [fold_left].
  replace (sweepF1 tgt (s1, tr, false) j) with (sweep1 interp dflt g tgt (s1, tr) j, false).
  - destruct (sweep1 interp dflt g tgt (s1, tr) j) as [s2 tr2]. apply IH.
  - unfold GraphF.sweepF1, sweep1. cbn [fst snd].
    destruct (nth_error g j) as [n|]; [|reflexivity].
    destruct (tgt j && outdated g s1 j); [|reflexivity].
    destruct (kd n); try reflexivity. rewrite H. reflexivity.
Qed.

(* ---- memo = lit ---------------------------------------------------------------------------------------------- *)
Lemma msweepF_fold tgt : forall (h2 h1 : graph F) (s : mstate V) tr failed,
  g = h1 ++ h2 -> length (vals s) = length g ->
  fst (fold_left (msweepF1 interp dflt isErr tgt) h2 (s, tr, failed, map (value g s) (seq 0 (length h1))))
  = fold_left (sweepF1 tgt) (seq (length h1) (length h2)) (s, tr, failed).
Proof.
  induction h2 as [|n h2 IH]; intros h1 s tr failed Hg Hl; [reflexivity|].
  set (j := length h1).
  assert (E : nth_error g j = Some n).
  { rewrite Hg. unfold j. rewrite nth_error_app2, Nat.sub_diag by lia. reflexivity. }
  assert (Hj : j < length g) by (eapply wf_lt; eauto).
  assert (Hg' : g = (h1 ++ [n]) ++ h2) by (rewrite <- app_assoc; exact Hg).
  assert (Hlen : length (h1 ++ [n]) = S j) by (rewrite app_length; cbn; unfold j; lia).
  assert (Hev : forall i, In i (ins n) -> getv (map (value g s) (seq 0 j)) i = value g s i).
  { intros i Hi. unfold Graph.getv. apply nth_map_seq. exact (wf_in F g j n i W E Hi). }
  assert (Same : forall fl x, value g s j = x ->
     fst (fold_left (msweepF1 interp dflt isErr tgt) h2 (s, tr, fl, map (value g s) (seq 0 j) ++ [x]))
     = fold_left (sweepF1 tgt) (seq (S j) (length h2)) (s, tr, fl)).
  { intros fl x Hx. rewrite (ev_snoc V F interp dflt g s s j x); [|reflexivity|exact Hx].
    rewrite <- Hlen. apply IH; auto. }
  cbn [fold_left length seq]. fold j.
  unfold msweepF1 at 2. rewrite map_length, seq_length. fold j.
  assert (LitSkip : failed = true -> sweepF1 tgt (s, tr, failed) j = (s, tr, failed)).
  { intros ->. reflexivity. }
  destruct (kd n) eqn:K.
  - (* Value *)
    replace (sweepF1 tgt (s, tr, failed) j) with (s, tr, failed).
    + apply Same. rewrite (value_unfold V F interp dflt g W s j n E), K. reflexivity.
    + destruct failed; [reflexivity|]. unfold GraphF.sweepF1. rewrite E.
      rewrite (outdated_unfold V F g W s j n E), K, andb_false_r. reflexivity.
  - (* cached *)
    destruct failed.
    + cbn [negb andb]. rewrite (LitSkip eq_refl).
      apply Same. rewrite (value_unfold V F interp dflt g W s j n E), K. reflexivity.
    + cbn [negb andb]. unfold GraphF.sweepF1 at 2. rewrite E.
      rewrite (outdated_unfold V F g W s j n E), K.
      destruct (tgt j && getb (dirty s) j) eqn:C.
      * assert (Hv : interp (fs n) (map (getv (map (value g s) (seq 0 j))) (ins n))
                     = interp (fs n) (map (value g s) (ins n))).
        { f_equal. apply map_ext_in. exact Hev. }
        rewrite Hv. set (v := interp (fs n) (map (value g s) (ins n))).
        destruct (isErr v).
        -- apply Same. rewrite (value_unfold V F interp dflt g W s j n E), K. reflexivity.
        -- rewrite (ev_snoc V F interp dflt g s (set_node s j v) j v).
           ++ rewrite <- Hlen. apply IH; auto. cbn. rewrite upd_length. exact Hl.
           ++ intros k Hk. apply (value_agree V F interp dflt g W). intros i Hi. cbn.
              unfold Graph.getv. apply nth_upd_neq. lia.
           ++ rewrite (value_unfold V F interp dflt g W _ j n E), K. cbn. unfold Graph.getv.
              apply nth_upd_eq. lia.
      * apply Same. rewrite (value_unfold V F interp dflt g W s j n E), K. reflexivity.
  - (* transient *)
    replace (sweepF1 tgt (s, tr, failed) j) with (s, tr, failed).
    + apply Same. rewrite (value_unfold V F interp dflt g W s j n E), K. f_equal. apply map_ext_in.
      intros i Hi. symmetry. apply Hev. exact Hi.
    + destruct failed; [reflexivity|]. unfold GraphF.sweepF1. rewrite E, K.
      destruct (tgt j && outdated g s j); reflexivity.
Qed.

Lemma sweepF_memo_lit tgt (s : mstate V) : length (vals s) = length g ->
  sweepF_memo interp dflt isErr g tgt s = sweepF tgt s.
Proof.
  intros Hl. unfold sweepF_memo, GraphF.sweepF_lit. exact (msweepF_fold tgt g [] s [] false eq_refl Hl).
Qed.

Lemma fstep_memo_lit rs x : length (vals (cur rs)) = length g ->
  mfstep interp dflt isErr g rs x = fstep rs x.
Proof.
  intros Hl. unfold mfstep, GraphF.fstep, fstep_with.
  destruct x as [o|k marks]; [|reflexivity]. destruct o as [i v|b|ts| |k]; try reflexivity.
  - destruct (nth_error g i) as [n|]; [|reflexivity]. destruct (kd n); try reflexivity.
    rewrite (assign_flag_memo V F interp dflt g W). destruct (auto (cur rs)); [|reflexivity].
    rewrite sweepF_memo_lit; [reflexivity|]. cbn. rewrite upd_length. exact Hl.
  - destruct ts as [|t ts].
    + rewrite sweepF_memo_lit by exact Hl. reflexivity.
    + destruct (forallb _ (t :: ts)); [|reflexivity]. rewrite (tgt_tab_memo V F interp dflt g W).
      rewrite sweepF_memo_lit by exact Hl. reflexivity.
  - cbn. rewrite (snapshot_memo V F interp dflt g W). reflexivity.
Qed.

Lemma frun_memo_lit xs : forall rs, RInv rs -> mfrun interp dflt isErr g xs rs = frun xs rs.
Proof.
  induction xs as [|x xs IH]; intros rs R; [reflexivity|].
  unfold mfrun, GraphF.frun, frun_with in *. cbn [fold_left].
  fold (mfstep interp dflt isErr g rs x). fold (fstep rs x).
  rewrite (fstep_memo_lit rs x (RInv_len V F interp dflt g rs R)). apply IH. apply fstep_RInv. exact R.
Qed.

Lemma finit_memo_lit ext0 : mfinit interp dflt isErr g ext0 = finit ext0.
Proof.
  unfold mfinit, GraphF.finit, finit_with. rewrite sweepF_memo_lit; [reflexivity|].
  cbn. rewrite map_length, seq_length. reflexivity.
Qed.

Theorem memo_F ext0 rs0 xs : finit ext0 = Some rs0 ->
  mfinit interp dflt isErr g ext0 = Some rs0
  /\ mfrun interp dflt isErr g xs rs0 = freach rs0 xs
  /\ forall x, mfstep interp dflt isErr g (freach rs0 xs) x = fstep (freach rs0 xs) x.
Proof.
  intros H. split; [rewrite finit_memo_lit; exact H|]. split.
  - apply frun_memo_lit. exact (proj1 (finit_spec ext0 rs0 H)).
  - intros x. apply fstep_memo_lit. apply (RInv_len V F interp dflt g). exact (freach_RInv ext0 rs0 xs H).
Qed.

End PF.
