(* C15 - names through the whole build, and the pop / rebuild round trip (proofs) *)
From Coq Require Import List Arith Bool String Ascii Lia.
Import ListNotations.
From LV Require Import Graph.Build Graph.BuildProofs.
Open Scope list_scope.

(* ------------------------------------------------------------------------------------------ *)
(* reachability helpers                                                                       *)
Lemma reach_closed_ind : forall w roots (P : nid -> Prop),
  (forall r, In r roots -> P r) ->
  (forall n m, P n -> In m (succs w n) -> P m) ->
  forall n, reach w roots n -> P n.
Proof. intros w roots P Hr Hs n R. induction R; eauto. Qed.

Definition same_edges (w w' : world) : Prop :=
  (forall i, ins_of w' i = ins_of w i) /\ (forall i, var_of w' i = var_of w i) /\
  (forall v, vnodes_of w' v = vnodes_of w v) /\
  List.length (w_nodes w') = List.length (w_nodes w) /\ List.length (w_vars w') = List.length (w_vars w).

Lemma same_edges_refl : forall w, same_edges w w.
Proof. intros w. repeat split. Qed.

Lemma same_edges_trans : forall a b c, same_edges a b -> same_edges b c -> same_edges a c.
Proof.
  intros a b c [A1 [A2 [A3 [A4 A5]]]] [B1 [B2 [B3 [B4 B5]]]]. repeat split; intros; congruence.
Qed.

Lemma same_edges_setn_name : forall w j s, same_edges w (setn w j (set_name s)).
Proof.
  intros w j s. repeat split.
  - intros i. unfold ins_of. rewrite getn_setn. destruct (Nat.eqb j i); [|reflexivity].
    destruct (getn w i); reflexivity.
  - intros i. unfold var_of. rewrite getn_setn. destruct (Nat.eqb j i); [|reflexivity].
    destruct (getn w i); reflexivity.
  - cbn. apply update_length.
Qed.

Lemma same_edges_setv_name : forall w v s, same_edges w (setv w v (set_vname s)).
Proof.
  intros w v s. repeat split.
  - intros u. unfold vnodes_of. rewrite getv_setv. destruct (Nat.eqb v u); [|reflexivity].
    destruct (getv w u); reflexivity.
  - cbn. apply update_length.
Qed.

Lemma same_edges_set_var_name : forall pf w v nm, same_edges w (set_var_name pf w v nm).
Proof.
  intros pf w v nm. unfold set_var_name. destruct (getv w v) as [pv|]; [|apply same_edges_refl].
  eapply same_edges_trans; [|apply same_edges_setv_name].
  destruct (v_dist pv);
    repeat match goal with
           | |- same_edges _ (if ?c then _ else _) => destruct c
           | |- same_edges _ (setn _ _ (set_name _)) => eapply same_edges_trans; [|apply same_edges_setn_name]
           end; try apply same_edges_refl.
Qed.

Lemma same_edges_name_vars : forall pf vs w c other w',
  name_vars pf w vs c other = Some w' -> same_edges w w'.
Proof.
  intros pf; induction vs as [|v r IH]; intros w c other w' H; cbn [name_vars] in H.
  - inversion H. apply same_edges_refl.
  - destruct (nonempty (vname_of w v)); [now apply (IH _ _ _ _ H)|].
    destruct (fresh "v" c other) as [[c' nm]|]; [|discriminate].
    eapply same_edges_trans; [apply same_edges_set_var_name|]. exact (IH _ _ _ _ H).
Qed.

Lemma same_edges_name_nodes : forall ns w c other w',
  name_nodes w ns c other = Some w' -> same_edges w w'.
Proof.
  induction ns as [|n r IH]; intros w c other w' H; cbn [name_nodes] in H.
  - inversion H. apply same_edges_refl.
  - destruct (nonempty (name_of w n)); [now apply (IH _ _ _ _ H)|].
    destruct (fresh "n" c other) as [[c' nm]|]; [|discriminate].
    eapply same_edges_trans; [apply same_edges_setn_name|]. exact (IH _ _ _ _ H).
Qed.

Lemma same_edges_set_missing_names : forall pf w ns vs w',
  set_missing_names pf w ns vs = Some w' -> same_edges w w'.
Proof.
  intros pf w ns vs w' H. unfold set_missing_names in H.
  destruct (name_vars pf w vs 0 _) as [w1|] eqn:E; [|discriminate].
  eapply same_edges_trans; [exact (same_edges_name_vars _ _ _ _ _ _ E)|exact (same_edges_name_nodes _ _ _ _ _ H)].
Qed.

Lemma same_edges_succs : forall w w', same_edges w w' -> forall n, succs w' n = succs w n.
Proof.
  intros w w' [A1 [A2 [A3 _]]] n. unfold succs. rewrite A1, A2. destruct (var_of w n); [now rewrite A3|reflexivity].
Qed.

Lemma same_edges_init : forall w w', same_edges w w' -> forall rn rv, init_list w' rn rv = init_list w rn rv.
Proof.
  intros w w' [_ [_ [A3 _]]] rn rv. unfold init_list. f_equal. f_equal.
  induction rv as [|v r IH]; [reflexivity|]. cbn. now rewrite A3, IH.
Qed.

Lemma same_edges_reach : forall w w', same_edges w w' -> forall rn rv n,
  reach w' (init_list w' rn rv) n <-> reach w (init_list w rn rv) n.
Proof.
  intros w w' E rn rv n. rewrite (same_edges_init _ _ E). split; intro R.
  - apply (reach_closed_ind w' (init_list w rn rv) (reach w (init_list w rn rv))); [apply reach_root| |exact R].
    intros a b Ha Hb. rewrite (same_edges_succs _ _ E) in Hb. eapply reach_succ; eassumption.
  - apply (reach_closed_ind w (init_list w rn rv) (reach w' (init_list w rn rv))); [apply reach_root| |exact R].
    intros a b Ha Hb. rewrite <- (same_edges_succs _ _ E) in Hb. eapply reach_succ; eassumption.
Qed.

(* ------------------------------------------------------------------------------------------ *)
(* adding nodes                                                                               *)
Lemma getn_addn_old : forall w n i, i < List.length (w_nodes w) -> getn (addn w n) i = getn w i.
Proof. intros. unfold getn, addn. cbn. now apply nth_error_app1. Qed.
Lemma getn_addn_new : forall w n, getn (addn w n) (List.length (w_nodes w)) = Some n.
Proof. intros. unfold getn, addn. cbn. rewrite nth_error_app2 by lia. now rewrite Nat.sub_diag. Qed.
Lemma addn_length : forall w n, List.length (w_nodes (addn w n)) = S (List.length (w_nodes w)).
Proof. intros. unfold addn. cbn. rewrite app_length. cbn. lia. Qed.
Lemma getn_out : forall w i, List.length (w_nodes w) <= i -> getn w i = None.
Proof. intros. unfold getn. now apply nth_error_None. Qed.

(* [k] extends the base world [b] (names fixed): old nodes keep name and variable and gain at most inputs
   that are new nodes; new nodes are named and their successors satisfy [P] *)
Record ext (P : nid -> Prop) (b k : world) : Prop := mkExt {
  e_len : List.length (w_nodes b) <= List.length (w_nodes k);
  e_vars : w_vars k = w_vars b;
  e_name : forall i, i < List.length (w_nodes b) -> name_of k i = name_of b i;
  e_var : forall i, i < List.length (w_nodes b) -> var_of k i = var_of b i;
  e_ins : forall i a, i < List.length (w_nodes b) -> In a (ins_of k i) ->
                      In a (ins_of b i) \/ List.length (w_nodes b) <= a;
  e_new_name : forall i, List.length (w_nodes b) <= i -> i < List.length (w_nodes k) -> name_of k i <> ""%string;
  e_new_succ : forall i a, List.length (w_nodes b) <= i -> In a (succs k i) -> P a;
  e_new_unseeded : forall i n, List.length (w_nodes b) <= i -> getn k i = Some n -> n_seed n = false /\ n_var n = None
}.

Lemma ext_refl : forall P b, ext P b b.
Proof.
  intros P b. constructor; auto; try lia.
  - intros i a Hi Ha. rewrite succs_out_of_range in Ha by exact Hi. destruct Ha.
  - intros i n Hi G. rewrite getn_out in G by exact Hi. discriminate.
Qed.

Lemma vnodes_of_vars : forall w w', w_vars w' = w_vars w -> forall v, vnodes_of w' v = vnodes_of w v.
Proof. intros w w' E v. unfold vnodes_of, getv. now rewrite E. Qed.

Lemma ext_addn : forall P b k nm pos,
  ext P b k -> nm <> ""%string -> (forall a, In a pos -> P a) ->
  ext P b (addn k (calc_node nm pos)).
Proof.
  intros P b k nm pos E Hnm Hpos. destruct E.
  assert (L := addn_length k (calc_node nm pos)).
  constructor.
  - lia.
  - exact e_vars0.
  - intros i Hi. unfold name_of. rewrite getn_addn_old by lia. now apply e_name0.
  - intros i Hi. unfold var_of. rewrite getn_addn_old by lia. now apply e_var0.
  - intros i a Hi Ha. unfold ins_of in Ha. rewrite getn_addn_old in Ha by lia. now apply e_ins0.
  - intros i Hi Hlt. destruct (Nat.eq_dec i (List.length (w_nodes k))) as [->|Hne].
    + unfold name_of. rewrite getn_addn_new. exact Hnm.
    + unfold name_of. rewrite getn_addn_old by lia. apply e_new_name0; lia.
  - intros i a Hi Ha. destruct (Nat.lt_ge_cases i (List.length (w_nodes k))) as [Hlt|Hge].
    + apply (e_new_succ0 i a Hi). unfold succs, ins_of, var_of in *. rewrite getn_addn_old in Ha by exact Hlt.
      destruct (getn k i) as [n|]; [|exact Ha].
      destruct (n_var n); [|exact Ha]. now rewrite (vnodes_of_vars k (addn k (calc_node nm pos)) eq_refl) in Ha.
    + destruct (Nat.eq_dec i (List.length (w_nodes k))) as [->|Hne].
      * unfold succs, ins_of, var_of in Ha. rewrite getn_addn_new in Ha.
        cbn [calc_node n_var all_ins n_pos n_kw n_at map olist] in Ha.
        rewrite ?app_nil_r in Ha. apply Hpos. unfold all_ins, calc_node in Ha. cbn [n_pos n_kw n_at map olist] in Ha.
        apply (proj1 (uniq_In _ _)) in Ha. apply in_app_or in Ha as [Ha|Ha]; [exact Ha|]. cbn in Ha. destruct Ha.
      * rewrite succs_out_of_range in Ha by (rewrite L; lia). destruct Ha.
  - intros i n Hi G. destruct (Nat.lt_ge_cases i (List.length (w_nodes k))) as [Hlt|Hge].
    + rewrite getn_addn_old in G by exact Hlt. now apply (e_new_unseeded0 i n Hi).
    + destruct (Nat.eq_dec i (List.length (w_nodes k))) as [->|Hne].
      * rewrite getn_addn_new in G. inversion G. split; reflexivity.
      * rewrite getn_out in G by (rewrite L; lia). discriminate.
Qed.

(* ------------------------------------------------------------------------------------------ *)
(* _add_model_seed_nodes                                                                      *)
Lemma kw_find_In : forall k kw s, kw_find k kw = Some s -> In s (map snd kw).
Proof.
  induction kw as [|[k' i] r IH]; intros s H; [discriminate|]. cbn in H.
  destruct (String.eqb k k'); [inversion H; now left|right; now apply IH].
Qed.

Lemma kw_remove_incl : forall k kw a, In a (map snd (kw_remove k kw)) -> In a (map snd kw).
Proof.
  intros k kw a H. unfold kw_remove in H. apply in_map_iff in H as [p [E Hp]]. apply filter_In in Hp as [Hp _].
  apply in_map_iff. eauto.
Qed.

Definition seed_kw (n : pnode) (sid : nid) : list (string * nid) :=
  match kw_find "seed" (n_kw n) with
  | Some s => ("seed"%string, s) :: kw_remove "seed" (n_kw n)
  | None => ("seed"%string, sid) :: n_kw n
  end.

Lemma seed_kw_ins : forall n sid a,
  In a (all_ins (set_kw (seed_kw n sid) n)) -> In a (all_ins n) \/ a = sid.
Proof.
  intros n sid a H. unfold all_ins in *. apply (proj1 (uniq_In _ _)) in H.
  cbn [set_kw n_pos n_kw n_at] in H.
  apply in_app_or in H as [H|H]; [left; apply uniq_In; apply in_or_app; now left|].
  apply in_app_or in H as [H|H]; [|left; apply uniq_In; apply in_or_app; right; apply in_or_app; now right].
  unfold seed_kw in H. destruct (kw_find "seed" (n_kw n)) as [s|] eqn:K; cbn [map snd] in H.
  - destruct H as [H|H].
    + subst a. left. apply uniq_In. apply in_or_app. right. apply in_or_app. left. now apply (kw_find_In _ _ _ K).
    + left. apply uniq_In. apply in_or_app. right. apply in_or_app. left. now apply (kw_remove_incl _ _ _ H).
  - destruct H as [H|H]; [right; now subst|].
    left. apply uniq_In. apply in_or_app. right. apply in_or_app. now left.
Qed.

Lemma seed_name_nonempty : forall nm, seed_name_for nm <> ""%string.
Proof. intros nm. unfold seed_name_for. cbn. discriminate. Qed.

Lemma ext_seed_one : forall P b k i,
  ext P b k -> ext P b (fst (add_seed_one (k, Ok tt) i)).
Proof.
  intros P b k i E. cbn [add_seed_one].
  destruct (getn k i) as [n|] eqn:G; [|exact E].
  destruct (n_seed n) eqn:Hseed; [|exact E].
  destruct (n_inmodel n); [exact E|]. cbn [fst].
  fold (seed_kw n (List.length (w_nodes k))).
  set (sid := List.length (w_nodes k)). set (k1 := addn k (value_node (seed_name_for (n_name n)))).
  assert (Hi : i < List.length (w_nodes k)).
  { destruct (Nat.lt_ge_cases i (List.length (w_nodes k))) as [H|H]; [exact H|]. rewrite getn_out in G by exact H. discriminate. }
  assert (Hib : i < List.length (w_nodes b)).
  { destruct (Nat.lt_ge_cases i (List.length (w_nodes b))) as [H|H]; [exact H|].
    destruct (e_new_unseeded _ _ _ E i n H G). congruence. }
  assert (L1 : List.length (w_nodes k1) = S sid) by apply addn_length.
  assert (G1 : getn k1 i = Some n) by (unfold k1; rewrite getn_addn_old by exact Hi; exact G).
  destruct E. constructor.
  - cbn [setn w_nodes]. rewrite update_length, L1. unfold sid. lia.
  - exact e_vars0.
  - intros j Hj. unfold name_of. rewrite getn_setn. unfold k1.
    destruct (Nat.eqb i j) eqn:Eij.
    + apply Nat.eqb_eq in Eij. subst j. rewrite getn_addn_old by exact Hi. rewrite G. cbn.
      specialize (e_name0 i Hj). unfold name_of in e_name0. now rewrite G in e_name0.
    + rewrite getn_addn_old by lia. now apply e_name0.
  - intros j Hj. unfold var_of. rewrite getn_setn. unfold k1.
    destruct (Nat.eqb i j) eqn:Eij.
    + apply Nat.eqb_eq in Eij. subst j. rewrite getn_addn_old by exact Hi. rewrite G. cbn.
      specialize (e_var0 i Hj). unfold var_of in e_var0. now rewrite G in e_var0.
    + rewrite getn_addn_old by lia. now apply e_var0.
  - intros j a Hj Ha. unfold ins_of in Ha. rewrite getn_setn in Ha.
    destruct (Nat.eqb i j) eqn:Eij.
    + apply Nat.eqb_eq in Eij. subst j. rewrite G1 in Ha. cbn [option_map] in Ha.
      apply seed_kw_ins in Ha as [Ha|Ha].
      * apply (e_ins0 i a Hj). unfold ins_of. now rewrite G.
      * right. subst a. unfold sid. lia.
    + unfold k1 in Ha. rewrite getn_addn_old in Ha by lia. now apply e_ins0.
  - intros j Hj Hlt. cbn [setn w_nodes] in Hlt. rewrite update_length, L1 in Hlt.
    assert (Nij : Nat.eqb i j = false) by (apply Nat.eqb_neq; lia).
    unfold name_of. rewrite getn_setn, Nij. unfold k1.
    destruct (Nat.eq_dec j sid) as [->|Hne].
    + unfold sid. rewrite getn_addn_new. apply seed_name_nonempty.
    + rewrite getn_addn_old by (unfold sid in *; lia). apply e_new_name0; unfold sid in *; lia.
  - intros j a Hj Ha.
    assert (Nij : Nat.eqb i j = false) by (apply Nat.eqb_neq; lia).
    match type of Ha with
    | In _ (succs (setn ?X i ?f) j) =>
      assert (Sj : succs (setn X i f) j = succs X j)
        by (unfold succs, ins_of, var_of; rewrite getn_setn, Nij; reflexivity);
      rewrite Sj in Ha; clear Sj
    end.
    destruct (Nat.lt_ge_cases j sid) as [Hlt|Hge].
    + apply (e_new_succ0 j a Hj). unfold succs, ins_of, var_of in *. unfold k1 in Ha.
      rewrite getn_addn_old in Ha by exact Hlt. exact Ha.
    + destruct (Nat.eq_dec j sid) as [->|Hne].
      * unfold succs, ins_of, var_of, k1, sid in Ha. rewrite getn_addn_new in Ha. cbn in Ha. destruct Ha.
      * rewrite succs_out_of_range in Ha by (rewrite L1; lia). destruct Ha.
  - intros j m Hj Gm.
    assert (Nij : Nat.eqb i j = false) by (apply Nat.eqb_neq; lia).
    rewrite getn_setn, Nij in Gm. unfold k1 in Gm.
    destruct (Nat.lt_ge_cases j sid) as [Hlt|Hge].
    + rewrite getn_addn_old in Gm by exact Hlt. now apply (e_new_unseeded0 j m Hj).
    + destruct (Nat.eq_dec j sid) as [->|Hne].
      * unfold sid in Gm. rewrite getn_addn_new in Gm. inversion Gm. split; reflexivity.
      * rewrite getn_out in Gm by (rewrite addn_length; unfold sid in *; lia). discriminate.
Qed.

Lemma ext_seed_fold : forall P b l k r,
  ext P b k -> ext P b (fst (fold_left add_seed_one l (k, r))).
Proof.
  intros P b; induction l as [|i l IH]; intros k r E; [exact E|].
  cbn [fold_left]. destruct r as [[]|e].
  - pose proof (ext_seed_one P b k i E) as E1.
    destruct (add_seed_one (k, Ok tt) i) as [k1 r1]. now apply IH.
  - cbn [add_seed_one]. now apply IH.
Qed.

(* ------------------------------------------------------------------------------------------ *)
(* the stages of an accepted build_model                                                      *)
Definition lik_node (w2 : world) (vs2 : list vid) : pnode := calc_node "_model_log_lik" (dists_where w2 vs2 v_obs).
Definition pri_node (w3 : world) (vs3 : list vid) : pnode := calc_node "_model_log_prior" (dists_where w3 vs3 v_par).
Definition prob_node (w4 : world) (ns4 : list nid) : pnode :=
  calc_node "_model_log_prob" (filter (fun i => match getn w4 i with Some n => n_isdist n | None => false end) ns4).

Set Warnings "-cannot-define-projection".
Record stages (s pf : bool) (w : world) (rn : list nid) (rv : list vid) (w6 : world) (rn5 : list nid) : Prop := mkStages {
  st_w1 : world; st_ns1 : list nid; st_vs1 : list vid; st_wt : world; st_nst : list nid; st_vst : list vid;
  st_w2 : world; st_ns2 : list nid; st_vs2 : list vid; st_ns3 : list nid; st_vs3 : list vid;
  st_ns4 : list nid; st_vs4 : list vid; st_ns5 : list nid; st_vs5 : list vid;
  st_c1 : closure st_w1 rn rv = Some (st_ns1, st_vs1);
  st_res : forall i, In i st_ns1 -> reserved_name (name_of st_w1 i) = false;
  st_tr : auto_transform_all st_w1 st_vs1 = (st_wt, Ok tt);
  st_ct : closure st_wt rn rv = Some (st_nst, st_vst);
  st_nm : set_missing_names pf st_wt st_nst st_vst = Some st_w2;
  st_c2 : closure st_w2 rn rv = Some (st_ns2, st_vs2);
  st_c3 : closure (addn st_w2 (lik_node st_w2 st_vs2)) (rn ++ [List.length (w_nodes st_w2)]) rv = Some (st_ns3, st_vs3);
  st_c4 : closure (addn (addn st_w2 (lik_node st_w2 st_vs2)) (pri_node (addn st_w2 (lik_node st_w2 st_vs2)) st_vs3))
                  ((rn ++ [List.length (w_nodes st_w2)]) ++ [S (List.length (w_nodes st_w2))]) rv = Some (st_ns4, st_vs4);
  st_w5 := addn (addn (addn st_w2 (lik_node st_w2 st_vs2)) (pri_node (addn st_w2 (lik_node st_w2 st_vs2)) st_vs3))
                (prob_node (addn (addn st_w2 (lik_node st_w2 st_vs2)) (pri_node (addn st_w2 (lik_node st_w2 st_vs2)) st_vs3)) st_ns4);
  st_rn5 : rn5 = ((rn ++ [List.length (w_nodes st_w2)]) ++ [S (List.length (w_nodes st_w2))]) ++ [S (S (List.length (w_nodes st_w2)))];
  st_c5 : closure st_w5 rn5 rv = Some (st_ns5, st_vs5);
  st_seeds : fold_left add_seed_one st_ns5 (st_w5, Ok tt) = (w6, Ok tt)
}.

Lemma build_ok_stages : forall s cf pf topo copy w rn rv w' m,
  build s cf pf topo copy w rn rv = (w', Ok m) ->
  exists w6 rn5, stages s pf w rn rv w6 rn5 /\
    closure w6 rn5 rv = Some (m_nodes m, m_vars m) /\
    model_init cf topo copy w6 (m_nodes m) (m_vars m) = (w', Ok m).
Proof.
  intros s cf pf topo copy w rn rv w' m H. unfold build, bind_closure in H.
  destruct (closure w rn rv) as [[ns0 vs0]|] eqn:C0; [|discriminate].
  set (w1 := if s then strip_seeds w ns0 else w) in *.
  destruct (closure w1 rn rv) as [[ns1 vs1]|] eqn:C1; [|discriminate].
  destruct (existsb (fun i => reserved_name (name_of w1 i)) ns1) eqn:R; [discriminate|].
  destruct (auto_transform_all w1 vs1) as [wt [[]|e]] eqn:T; [|discriminate].
  destruct (closure wt rn rv) as [[nst vst]|] eqn:Ct; [|discriminate].
  destruct (set_missing_names pf wt nst vst) as [w2|] eqn:N; [|discriminate].
  destruct (closure w2 rn rv) as [[ns2 vs2]|] eqn:C2; [|discriminate].
  fold (lik_node w2 vs2) in H.
  set (w3 := addn w2 (lik_node w2 vs2)) in *.
  destruct (closure w3 (rn ++ [List.length (w_nodes w2)]) rv) as [[ns3 vs3]|] eqn:C3; [|discriminate].
  fold (pri_node w3 vs3) in H.
  set (w4 := addn w3 (pri_node w3 vs3)) in *.
  assert (L3 : List.length (w_nodes w3) = S (List.length (w_nodes w2))) by apply addn_length.
  assert (L4 : List.length (w_nodes w4) = S (S (List.length (w_nodes w2)))) by (unfold w4; rewrite addn_length; lia).
  rewrite L3 in H.
  destruct (closure w4 ((rn ++ [List.length (w_nodes w2)]) ++ [S (List.length (w_nodes w2))]) rv) as [[ns4 vs4]|] eqn:C4; [|discriminate].
  fold (prob_node w4 ns4) in H. rewrite L4 in H.
  set (w5 := addn w4 (prob_node w4 ns4)) in *.
  set (rn5 := ((rn ++ [List.length (w_nodes w2)]) ++ [S (List.length (w_nodes w2))]) ++ [S (S (List.length (w_nodes w2)))]) in *.
  destruct (closure w5 rn5 rv) as [[ns5 vs5]|] eqn:C5; [|discriminate].
  destruct (fold_left add_seed_one ns5 (w5, Ok tt)) as [w6 [[]|e]] eqn:F; [|discriminate].
  destruct (closure w6 rn5 rv) as [[ns6 vs6]|] eqn:C6; [|discriminate].
  pose proof (model_init_ok _ _ _ _ _ _ _ _ H) as [Em _]. subst m. cbn [m_nodes m_vars].
  exists w6, rn5. split; [|split; [exact C6|exact H]].
  refine (mkStages s pf w rn rv w6 rn5 w1 ns1 vs1 wt nst vst w2 ns2 vs2 ns3 vs3 ns4 vs4 ns5 vs5 C1 _ T Ct N C2 C3 _ eq_refl C5 F).
  - intros i Hi. destruct (reserved_name (name_of w1 i)) eqn:E; [|reflexivity].
    assert (existsb (fun i => reserved_name (name_of w1 i)) ns1 = true) by (apply existsb_exists; eauto). congruence.
  - exact C4.
Qed.

(* ------------------------------------------------------------------------------------------ *)
(* every node and variable of an accepted build is named                                      *)
Lemma closure_closed : forall w rn rv ns vs,
  closure w rn rv = Some (ns, vs) ->
  (forall r, In r (init_list w rn rv) -> In r ns) /\
  (forall n m, In n ns -> In m (succs w n) -> In m ns).
Proof.
  intros w rn rv ns vs C. destruct (closure_complete _ _ _ _ _ C) as [_ [_ [R _]]]. split.
  - intros r Hr. apply R. now apply reach_root.
  - intros n m Hn Hm. apply R. apply R in Hn. eapply reach_succ; eassumption.
Qed.

Lemma dists_where_in_closure : forall w rn rv ns vs p d,
  closure w rn rv = Some (ns, vs) -> In d (dists_where w vs p) -> In d ns.
Proof.
  intros w rn rv ns vs p d C H. destruct (closure_complete _ _ _ _ _ C) as [_ [_ [R RV]]].
  unfold dists_where in H. apply in_flat_map in H as [v [Hv Hd]].
  destruct (getv w v) as [pv|] eqn:G; [|destruct Hd].
  destruct (p pv); [|destruct Hd]. destruct (v_dist pv) as [d'|] eqn:D; [|destruct Hd].
  destruct Hd as [<-|[]]. apply RV in Hv as [n [Rn Vn]]. apply R.
  eapply reach_succ; [exact Rn|]. eapply in_succs_var; [exact Vn|].
  unfold vnodes_of. rewrite G. unfold var_nodes. rewrite D. cbn. auto.
Qed.

Lemma init_list_spec : forall w rn rv x,
  In x (init_list w rn rv) <-> In x rn \/ exists v, In v rv /\ In x (vnodes_of w v).
Proof.
  intros. unfold init_list. rewrite uniq_In, in_app_iff, in_flat_map. reflexivity.
Qed.

Section Ext.
  Variables (b : world) (rn : list nid) (rv : list vid) (nsb : list nid) (vsb : list vid).
  Hypothesis Cb : closure b rn rv = Some (nsb, vsb).
  Let N := List.length (w_nodes b).
  Let P (a : nid) : Prop := In a nsb \/ N <= a.

  Lemma ext_reach : forall k rnk, ext P b k ->
    (forall r, In r rnk -> In r rn \/ N <= r) ->
    forall n, reach k (init_list k rnk rv) n -> P n.
  Proof.
    intros k rnk E Hroots. destruct (closure_closed _ _ _ _ _ Cb) as [Rb Sb].
    apply reach_closed_ind.
    - intros r Hr. apply init_list_spec in Hr as [Hr|[v [Hv Hx]]].
      + destruct (Hroots r Hr) as [H|H]; [left|now right]. apply Rb. apply init_list_spec. now left.
      + left. apply Rb. apply init_list_spec. right. exists v. split; [assumption|].
        now rewrite <- (vnodes_of_vars b k (e_vars _ _ _ E)).
    - intros n m [Hn|Hn] Hm.
      + destruct (Nat.lt_ge_cases n N) as [Hlt|Hge]; [|exact (e_new_succ _ _ _ E n m Hge Hm)].
        unfold succs in Hm. apply in_app_or in Hm as [Hm|Hm].
        * destruct (e_ins _ _ _ E n m Hlt Hm) as [H|H]; [left|now right].
          apply (Sb n m Hn). now apply in_succs_ins.
        * rewrite (e_var _ _ _ E n Hlt) in Hm. destruct (var_of b n) as [v|] eqn:V; [|destruct Hm].
          rewrite (vnodes_of_vars b k (e_vars _ _ _ E)) in Hm. left. apply (Sb n m Hn).
          eapply in_succs_var; eassumption.
      + exact (e_new_succ _ _ _ E n m Hn Hm).
  Qed.

  Lemma ext_closure_P : forall k rnk nsk vsk, ext P b k ->
    (forall r, In r rnk -> In r rn \/ N <= r) ->
    closure k rnk rv = Some (nsk, vsk) -> forall n, In n nsk -> P n.
  Proof.
    intros k rnk nsk vsk E Hr C n Hn. destruct (closure_complete _ _ _ _ _ C) as [_ [_ [R _]]].
    apply (ext_reach k rnk E Hr). now apply R.
  Qed.
End Ext.

Theorem build_names_nonempty : forall s cf pf topo copy w rn rv w' m,
  build s cf pf topo copy w rn rv = (w', Ok m) ->
  let wv := copied_world copy w' m in
  (forall i, In i (m_nodes m) -> i < List.length (w_nodes wv) -> name_of wv i <> ""%string) /\
  (forall v, In v (m_vars m) -> v < List.length (w_vars wv) -> vname_of wv v <> ""%string).
Proof.
  intros s cf pf topo copy w rn rv w' m H wv.
  destruct (build_ok_stages _ _ _ _ _ _ _ _ _ _ H) as [w6 [rn5 [St [C6 Hm]]]].
  destruct St as [w1 ns1 vs1 wt nst vst w2 ns2 vs2 ns3 vs3 ns4 vs4 ns5 vs5 C1 Res T Ct Nm C2 C3 C4 w5 Ern5 C5 F].
  set (N := List.length (w_nodes w2)) in *.
  set (P := fun a : nid => In a ns2 \/ N <= a).
  pose proof (same_edges_set_missing_names _ _ _ _ _ Nm) as SE.
  set (w3 := addn w2 (lik_node w2 vs2)) in *.
  set (w4 := addn w3 (pri_node w3 vs3)) in *.
  (* the chain of extensions *)
  assert (E3 : ext P w2 w3).
  { apply ext_addn; [apply ext_refl|discriminate|]. intros a Ha. left. exact (dists_where_in_closure _ _ _ _ _ _ _ C2 Ha). }
  assert (R3 : forall r, In r (rn ++ [N]) -> In r rn \/ N <= r).
  { intros r Hr. apply in_app_or in Hr as [Hr|[<-|[]]]; [now left|right; lia]. }
  assert (E4 : ext P w2 w4).
  { apply ext_addn; [exact E3|discriminate|]. intros a Ha.
    apply (ext_closure_P w2 rn rv ns2 vs2 C2 w3 _ _ _ E3 R3 C3). exact (dists_where_in_closure _ _ _ _ _ _ _ C3 Ha). }
  assert (R4 : forall r, In r ((rn ++ [N]) ++ [S N]) -> In r rn \/ N <= r).
  { intros r Hr. apply in_app_or in Hr as [Hr|[<-|[]]]; [now apply R3|right; lia]. }
  assert (E5 : ext P w2 w5).
  { unfold w5. apply ext_addn; [exact E4|discriminate|]. intros a Ha. unfold prob_node in Ha.
    apply filter_In in Ha as [Ha _]. exact (ext_closure_P w2 rn rv ns2 vs2 C2 w4 _ _ _ E4 R4 C4 a Ha). }
  assert (E6 : ext P w2 w6).
  { pose proof (ext_seed_fold P w2 ns5 w5 (Ok tt) E5) as E. now rewrite F in E. }
  assert (R5 : forall r, In r rn5 -> In r rn \/ N <= r).
  { intros r Hr. rewrite Ern5 in Hr. apply in_app_or in Hr as [Hr|[<-|[]]]; [now apply R4|right; lia]. }
  pose proof (ext_closure_P w2 rn rv ns2 vs2 C2 w6 rn5 _ _ E6 R5 C6) as P6.
  (* the closure at naming time and after naming are the same sets *)
  destruct (closure_complete _ _ _ _ _ Ct) as [_ [_ [Rt RVt]]].
  destruct (closure_complete _ _ _ _ _ C2) as [_ [_ [R2 RV2]]].
  destruct (closure_complete _ _ _ _ _ C6) as [_ [_ [R6 RV6]]].
  destruct SE as [SEi [SEv [SEn [SEl SElv]]]].
  assert (SE' : same_edges wt w2) by (repeat split; assumption).
  assert (In2t : forall n, In n ns2 -> In n nst).
  { intros n Hn. apply Rt. apply (same_edges_reach _ _ SE'). now apply R2. }
  destruct (set_missing_names_nonempty _ _ _ _ _ Nm) as [NN NV].
  (* names in the world where the model is wired *)
  assert (Wn : forall i, name_of wv i = name_of w6 i).
  { intros i. unfold wv, copied_world. destruct (model_init_ok _ _ _ _ _ _ _ _ Hm) as [_ [Ew _]].
    destruct copy; subst w'; [apply name_of_wire|apply name_of_wire]. }
  assert (Wl : List.length (w_nodes wv) = List.length (w_nodes w6)).
  { unfold wv, copied_world. destruct (model_init_ok _ _ _ _ _ _ _ _ Hm) as [_ [Ew _]].
    destruct copy; subst w'; unfold wire;
      apply (fold_setn_length (fun i n => set_inmodel true (set_outs (outs_in _ (m_nodes m) i) n))). }
  assert (Wv : w_vars wv = w_vars w6).
  { unfold wv, copied_world. destruct (model_init_ok _ _ _ _ _ _ _ _ Hm) as [_ [Ew _]].
    destruct copy; subst w'; unfold wire;
      apply (fold_setn_vars (fun i n => set_inmodel true (set_outs (outs_in _ (m_nodes m) i) n))). }
  split.
  - intros i Hi Hlt. rewrite Wn. rewrite Wl in Hlt.
    destruct (Nat.lt_ge_cases i N) as [Hlo|Hhi].
    + rewrite (e_name _ _ _ E6 i Hlo). destruct (P6 i Hi) as [Hin|Hge]; [|lia].
      apply NN; [now apply In2t|]. unfold N in Hlo. now rewrite SEl in Hlo.
    + exact (e_new_name _ _ _ E6 i Hhi Hlt).
  - intros v Hv Hlt. unfold vname_of, getv. rewrite Wv, (e_vars _ _ _ E6).
    rewrite Wv, (e_vars _ _ _ E6) in Hlt.
    apply RV6 in Hv as [n [Rn Vn]].
    assert (Pn : P n) by (apply P6; now apply R6).
    destruct (Nat.lt_ge_cases n N) as [Hlo|Hhi].
    + destruct Pn as [Hin|Hge]; [|lia]. rewrite (e_var _ _ _ E6 n Hlo) in Vn.
      assert (Vt : In v vst).
      { apply RVt. exists n. split; [apply Rt; now apply In2t|]. now rewrite <- SEv. }
      apply (NV v Vt). now rewrite <- SElv.
    + exfalso. unfold var_of in Vn. destruct (getn w6 n) as [pn|] eqn:G; [|discriminate].
      destruct (e_new_unseeded _ _ _ E6 n pn Hhi G) as [_ Hnv]. congruence.
Qed.

(* ------------------------------------------------------------------------------------------ *)
(* pop + rebuild: the first phases of the second build change nothing                          *)
Lemma name_vars_fix : forall pf vs w c other,
  (forall v, In v vs -> vname_of w v <> ""%string) -> name_vars pf w vs c other = Some w.
Proof.
  intros pf; induction vs as [|v r IH]; intros w c other H; [reflexivity|].
  cbn [name_vars]. assert (E : nonempty (vname_of w v) = true) by (apply nonempty_true; apply H; now left).
  rewrite E. apply IH. intros u Hu. apply H. now right.
Qed.

Lemma name_nodes_fix : forall ns w c other,
  (forall n, In n ns -> name_of w n <> ""%string) -> name_nodes w ns c other = Some w.
Proof.
  induction ns as [|n r IH]; intros w c other H; [reflexivity|].
  cbn [name_nodes]. assert (E : nonempty (name_of w n) = true) by (apply nonempty_true; apply H; now left).
  rewrite E. apply IH. intros u Hu. apply H. now right.
Qed.

(* _set_missing_names is the identity on a closure whose nodes and variables are all named *)
Theorem set_missing_names_fix : forall pf w ns vs,
  (forall n, In n ns -> name_of w n <> ""%string) -> (forall v, In v vs -> vname_of w v <> ""%string) ->
  set_missing_names pf w ns vs = Some w.
Proof.
  intros pf w ns vs Hn Hv. unfold set_missing_names. rewrite (name_vars_fix pf vs w _ _ Hv).
  now apply name_nodes_fix.
Qed.

(* [w'] has the names, variables and flags of [w] and at most its input edges *)
Record sub_edges (w w' : world) : Prop := mkSub {
  se_vars : w_vars w' = w_vars w;
  se_name : forall i, name_of w' i = name_of w i;
  se_var : forall i, var_of w' i = var_of w i;
  se_ins : forall i a, In a (ins_of w' i) -> In a (ins_of w i)
}.

Lemma sub_edges_refl : forall w, sub_edges w w.
Proof. intros w. constructor; auto. Qed.
Lemma sub_edges_trans : forall a b c, sub_edges a b -> sub_edges b c -> sub_edges a c.
Proof.
  intros a b c [A1 A2 A3 A4] [B1 B2 B3 B4]. constructor.
  - congruence.
  - intros i. now rewrite B2.
  - intros i. now rewrite B3.
  - intros i x Hx. apply A4. now apply B4.
Qed.

Lemma sub_edges_strip_one : forall w i, sub_edges w (strip_one w i).
Proof.
  intros w i. unfold strip_one. destruct (getn w i) as [n|] eqn:G; [|apply sub_edges_refl].
  destruct (kw_find "seed" (n_kw n)); [|apply sub_edges_refl].
  destruct (n_inmodel n); [apply sub_edges_refl|].
  destruct (is_model_seed_name _); [|apply sub_edges_refl].
  constructor.
  - reflexivity.
  - intros j. unfold name_of. rewrite getn_setn. destruct (Nat.eqb i j) eqn:E; [|reflexivity].
    apply Nat.eqb_eq in E. subst j. now rewrite G.
  - intros j. unfold var_of. rewrite getn_setn. destruct (Nat.eqb i j) eqn:E; [|reflexivity].
    apply Nat.eqb_eq in E. subst j. now rewrite G.
  - intros j a Ha. unfold ins_of in *. rewrite getn_setn in Ha. destruct (Nat.eqb i j) eqn:E; [|exact Ha].
    apply Nat.eqb_eq in E. subst j. rewrite G in *. cbn [option_map] in Ha.
    unfold all_ins in *. apply (proj1 (uniq_In _ _)) in Ha. apply uniq_In. cbn [set_kw n_pos n_kw n_at] in Ha.
    apply in_app_or in Ha as [Ha|Ha]; [apply in_or_app; now left|].
    apply in_app_or in Ha as [Ha|Ha]; [|apply in_or_app; right; apply in_or_app; now right].
    apply in_or_app. right. apply in_or_app. left. now apply (kw_remove_incl _ _ _ Ha).
Qed.

Lemma sub_edges_strip_seeds : forall ns w, sub_edges w (strip_seeds w ns).
Proof.
  unfold strip_seeds. induction ns as [|i r IH]; intros w; [apply sub_edges_refl|].
  cbn [fold_left]. eapply sub_edges_trans; [apply sub_edges_strip_one|apply IH].
Qed.

Lemma init_list_vars : forall w w', w_vars w' = w_vars w -> forall rn rv, init_list w' rn rv = init_list w rn rv.
Proof.
  intros w w' E rn rv. unfold init_list. f_equal. f_equal.
  induction rv as [|v r IH]; [reflexivity|]. cbn. now rewrite (vnodes_of_vars w w' E), IH.
Qed.

Lemma sub_edges_reach : forall w w', sub_edges w w' -> forall rn rv n,
  reach w' (init_list w' rn rv) n -> reach w (init_list w rn rv) n.
Proof.
  intros w w' E rn rv n R.
  rewrite (init_list_vars w w' (se_vars _ _ E)) in R.
  apply (reach_closed_ind w' (init_list w rn rv) (reach w (init_list w rn rv))); [apply reach_root| |exact R].
  intros a b Ha Hb. eapply reach_succ; [exact Ha|]. unfold succs in *. apply in_app_or in Hb as [Hb|Hb].
  - apply in_or_app. left. now apply (se_ins _ _ E).
  - apply in_or_app. right. rewrite (se_var _ _ E) in Hb. destruct (var_of w a); [|exact Hb].
    now rewrite (vnodes_of_vars w w' (se_vars _ _ E)) in Hb.
Qed.

Lemma pop_vars : forall w m, w_vars (pop w m) = w_vars w.
Proof. intros. unfold pop. apply (fold_setn_vars (fun _ => set_inmodel false)). Qed.

Lemma wire_vars : forall w ns, w_vars (wire w ns) = w_vars w.
Proof. intros. unfold wire. apply (fold_setn_vars (fun i n => set_inmodel true (set_outs (outs_in w ns i) n))). Qed.

Lemma var_of_wire : forall w ns i, var_of (wire w ns) i = var_of w i.
Proof.
  intros. unfold var_of. rewrite getn_wire. destruct (memn i ns); [|reflexivity]. destruct (getn w i); reflexivity.
Qed.

Lemma is_auto_vars : forall w w', w_vars w' = w_vars w -> forall v, is_auto w' v = is_auto w v.
Proof. intros w w' E v. unfold is_auto, getv. now rewrite E. Qed.

(* for every accepted build (copy = False) whose model nodes and variables exist and whose variables carry no
   pending auto_transform flag: pop the model and build again from the popped nodes and variables.  The closure
   of the second build (before and after removing the stale seed inputs) stays inside the first model, no name
   is reserved ... the auto-transform step and _set_missing_names change nothing: every node and variable
   keeps exactly the name the first build gave it *)
Theorem pop_rebuild_names_stable : forall s cf pf topo w rn rv w' m,
  build s cf pf topo false w rn rv = (w', Ok m) ->
  (forall i, In i (m_nodes m) -> i < List.length (w_nodes w')) ->
  (forall v, In v (m_vars m) -> v < List.length (w_vars w')) ->
  (forall v, In v (m_vars m) -> is_auto w' v = false) ->
  let w2 := pop w' m in
  let rn2 := popped_nodes w' m in
  exists ns0 vs0 ns1 vs1,
    closure w2 rn2 (m_vars m) = Some (ns0, vs0) /\
    let w3 := strip_seeds w2 ns0 in
    closure w3 rn2 (m_vars m) = Some (ns1, vs1) /\
    incl ns1 (m_nodes m) /\ incl vs1 (m_vars m) /\
    (forall i, name_of w3 i = name_of w' i) /\ (forall v, vname_of w3 v = vname_of w' v) /\
    auto_transform_all w3 vs1 = (w3, Ok tt) /\
    set_missing_names pf w3 ns1 vs1 = Some w3.
Proof.
  intros s cf pf topo w rn rv w' m H Hrn Hrv Hfl w2 rn2.
  destruct (build_names_nonempty _ _ _ _ _ _ _ _ _ _ H) as [NN NV]. cbn [copied_world] in NN, NV.
  destruct (build_ok_stages _ _ _ _ _ _ _ _ _ _ H) as [w6 [rn5 [_ [C6 Hm]]]].
  destruct (model_init_ok _ _ _ _ _ _ _ _ Hm) as [_ [Ew _]]. cbn in Ew.
  destruct (closure_complete _ _ _ _ _ C6) as [_ [_ [R6 RV6]]].
  destruct (closure_closed _ _ _ _ _ C6) as [_ S6].
  (* edges of the popped world = edges of w6 *)
  assert (Ei : forall i, ins_of w2 i = ins_of w6 i).
  { intros i. unfold w2. destruct (pop_keeps_structure w' m i) as [A _]. rewrite A, Ew. apply ins_of_wire. }
  assert (Ev : forall i, var_of w2 i = var_of w6 i).
  { intros i. unfold w2. destruct (pop_keeps_structure w' m i) as [_ [_ A]]. rewrite A, Ew. apply var_of_wire. }
  assert (Evars : w_vars w2 = w_vars w6) by (unfold w2; rewrite pop_vars, Ew; apply wire_vars).
  assert (Es : forall n, succs w2 n = succs w6 n).
  { intros n. unfold succs. rewrite Ei, Ev. destruct (var_of w6 n); [|reflexivity].
    now rewrite (vnodes_of_vars w6 w2 Evars). }
  (* the model is closed under successors and contains the roots of the rebuild *)
  assert (Roots : forall r, In r (init_list w2 rn2 (m_vars m)) -> In r (m_nodes m)).
  { intros r Hr. apply init_list_spec in Hr as [Hr|[v [Hv Hx]]].
    - unfold rn2, popped_nodes in Hr. now apply filter_In in Hr.
    - rewrite (vnodes_of_vars w6 w2 Evars) in Hx. apply RV6 in Hv as [n [Rn Vn]]. apply R6.
      eapply reach_succ; [exact Rn|]. eapply in_succs_var; eassumption. }
  assert (Sub2 : forall n, reach w2 (init_list w2 rn2 (m_vars m)) n -> In n (m_nodes m)).
  { apply reach_closed_ind; [exact Roots|]. intros a b Ha Hb. rewrite Es in Hb. exact (S6 a b Ha Hb). }
  destruct (closure w2 rn2 (m_vars m)) as [[ns0 vs0]|] eqn:C0; [|now apply closure_terminates in C0].
  set (w3 := strip_seeds w2 ns0).
  pose proof (sub_edges_strip_seeds ns0 w2) as SE. fold w3 in SE.
  destruct (closure w3 rn2 (m_vars m)) as [[ns1 vs1]|] eqn:C1; [|now apply closure_terminates in C1].
  destruct (closure_complete _ _ _ _ _ C1) as [_ [_ [R1 RV1]]].
  assert (I1 : incl ns1 (m_nodes m)).
  { intros n Hn. apply Sub2. apply (sub_edges_reach _ _ SE). now apply R1. }
  assert (IV1 : incl vs1 (m_vars m)).
  { intros v Hv. apply RV1 in Hv as [n [Rn Vn]]. apply RV6. exists n. split.
    - apply R6. apply Sub2. now apply (sub_edges_reach _ _ SE).
    - now rewrite (se_var _ _ SE), Ev in Vn. }
  assert (Nm : forall i, name_of w3 i = name_of w' i).
  { intros i. rewrite (se_name _ _ SE). unfold w2. now destruct (pop_keeps_structure w' m i) as [_ [A _]]. }
  assert (Vm : forall v, vname_of w3 v = vname_of w' v).
  { intros v. unfold vname_of, getv. rewrite (se_vars _ _ SE). unfold w2. now rewrite pop_vars. }
  exists ns0, vs0, ns1, vs1. split; [reflexivity|]. cbn zeta. fold w3.
  split; [exact C1|]. split; [exact I1|]. split; [exact IV1|]. split; [exact Nm|]. split; [exact Vm|]. split.
  - apply auto_transform_noop. intros v Hv.
    rewrite (is_auto_vars w2 w3 (se_vars _ _ SE)). unfold w2. rewrite (is_auto_vars w' (pop w' m) (pop_vars w' m)).
    apply Hfl. now apply IV1.
  - apply set_missing_names_fix.
    + intros n Hn. rewrite Nm. apply NN; [now apply I1|]. apply Hrn. now apply I1.
    + intros v Hv. rewrite Vm. apply NV; [now apply IV1|]. apply Hrv. now apply IV1.
Qed.

(* full strength: names of an accepted build are pairwise distinct and non-empty *)
Theorem build_names_unique_nonempty : forall s cf pf topo copy w rn rv w' m,
  build s cf pf topo copy w rn rv = (w', Ok m) ->
  let wv := copied_world copy w' m in
  NoDup (map (name_of wv) (m_nodes m)) /\ NoDup (map (vname_of wv) (m_vars m)) /\
  (forall i, In i (m_nodes m) -> i < List.length (w_nodes wv) -> name_of wv i <> ""%string) /\
  (forall v, In v (m_vars m) -> v < List.length (w_vars wv) -> vname_of wv v <> ""%string).
Proof.
  intros s cf pf topo copy w rn rv w' m H wv.
  destruct (build_ok_spec _ _ _ _ _ _ _ _ _ _ H) as [_ [_ [D1 [D2 _]]]].
  destruct (build_names_nonempty _ _ _ _ _ _ _ _ _ _ H) as [N1 N2].
  repeat split; assumption.
Qed.

Definition rebuild_hyps (w' : world) (m : model) : bool :=
  forallb (fun i => Nat.ltb i (List.length (w_nodes w'))) (m_nodes m)
  && forallb (fun v => Nat.ltb v (List.length (w_vars w'))) (m_vars m)
  && forallb (fun v => negb (is_auto w' v)) (m_vars m).

Lemma rebuild_hyps_spec : forall w' m, rebuild_hyps w' m = true ->
  (forall i, In i (m_nodes m) -> i < List.length (w_nodes w')) /\
  (forall v, In v (m_vars m) -> v < List.length (w_vars w')) /\
  (forall v, In v (m_vars m) -> is_auto w' v = false).
Proof.
  intros w' m H. unfold rebuild_hyps in H. apply andb_true_iff in H as [H H3]. apply andb_true_iff in H as [H1 H2].
  rewrite forallb_forall in H1, H2, H3. repeat split; intros x Hx.
  - now apply Nat.ltb_lt, H1.
  - now apply Nat.ltb_lt, H2.
  - now apply negb_true_iff, H3.
Qed.

(* the hypotheses of pop_rebuild_names_stable hold for the seeded example and for the auto-transformed one *)
Example rebuild_hyps_example :
  (match build true true true naive_topo false ex_seeded [] [0] with (w', Ok m) => rebuild_hyps w' m | _ => false end) = true /\
  (match build true true true naive_topo false ex_auto [] [0] with (w', Ok m) => rebuild_hyps w' m | _ => false end) = true.
Proof. vm_compute. split; reflexivity. Qed.
