(* SimulateProofs.v - proofs about the model of Model.simulate (Simulate.v) on the cached-graph machine.

     refresh_spec        update( *inputs of the Dist ) makes parameters and at show their from-scratch values
     assign_spec         the value setter: no error on a Value node, invariant kept, only that value changes
     sim_ancestral       RefreshInputs, any auto setting, any reachable start state: simulate computes the
                         ancestral recursion over from-scratch values; no error; invariant kept
     joint_ancestral     with a valid visiting order the ancestral recursion is a joint ancestral sample
     sim_after_update    after a following update() the model is coherent with the drawn values
     sim_untouched       Value nodes that no visited distribution assigns keep their values
     sim_memo_lit        what the shards run (memo) is the literal model
     sim_auto_on         auto-update on and nothing outdated: NoRefresh = RefreshInputs
     sim_error           a visited variable without a value setter: exception, later ones not drawn
     shape arithmetic    sample_shape ++ batch ++ event = current shape
     sim_topo_order_ok   a visiting order induced by the code's simulation graph (with the 94cdd67 edges)
                         is valid when no parameter depends on a Dist node
   Witnesses (vm_compute on concrete graphs): stale_witness (NoRefresh, auto off, intermediate cached
   node: defect F6), order_witness (simulation graph without the 94cdd67 edges), logprob_witness
   (a parameter computed from the log-probability node of another variable). *)
From Coq Require Import List Bool Arith Lia.
Import ListNotations.
From LV Require Import Graph.Graph Graph.GraphProofs Graph.GraphMemo Graph.Simulate.

Section SP.
Variables (V F S : Type) (interp : F -> list V -> V) (dflt : V).
Variable sample : F -> S -> list V -> V -> V.
Variable g : graph F.
Hypothesis W : wf g.

Notation value := (value interp dflt).
Notation denote := (denote interp dflt).
Notation getv := (getv dflt).
Notation LIT := (lit interp dflt).
Notation step := (step interp dflt).
Notation RInv := (RInv V F interp dflt g).
Notation Inv := (Inv V F interp dflt g).
Notation ancestral := (ancestral interp dflt sample g).
Notation anc1 := (anc1 interp dflt sample g).
Notation anc_draw := (anc_draw interp dflt sample g).
Notation joint := (joint interp dflt sample g).
Notation sim_lit := (sim_loop_lit interp dflt sample).
Notation sim_memo := (sim_loop_memo interp dflt sample).

(* the description of a distribution points into the graph *)
Definition dinfo_ok (d : dinfo F) : Prop :=
  Forall (fun p => p < length g) (d_params d) /\ d_at d < length g.
(* the node that simulate assigns is a Value node *)
Definition tgt_value (d : dinfo F) : Prop :=
  exists n, nth_error g (d_tgt d) = Some n /\ kd n = KValue.
(* two value lists agree on the Value nodes *)
Definition agreeV (a b : list V) : Prop :=
  forall k n, nth_error g k = Some n -> kd n = KValue -> getv a k = getv b k.
Definition clean (s : mstate V) : Prop := forall k, k < length g -> outdated g s k = false.

Lemma dinfo_okb_ok d : dinfo_okb g d = true -> dinfo_ok d.
Proof.
  unfold dinfo_okb, dinfo_ok. intros H. apply andb_true_iff in H. destruct H as [H1 H2].
  destruct (nth_error g (d_node d)) as [n|] eqn:E; [|discriminate].
  apply andb_true_iff in H1. destruct H1 as [H1 _].
  assert (Hi : ins n = d_params d ++ [d_at d]).
  { revert H1. generalize (d_params d ++ [d_at d]). generalize (ins n).
    induction l as [|x l IH]; intros [|y l2] H; cbn in H; try discriminate; auto.
    apply andb_true_iff in H. destruct H as [Hx Hl]. apply Nat.eqb_eq in Hx. subst. f_equal. auto. }
  pose proof (wf_lt F g _ _ E) as Hn.
  assert (Hall : forall i, In i (d_params d ++ [d_at d]) -> i < length g).
  { intros i Hin. rewrite <- Hi in Hin. pose proof (wf_in F g _ _ i W E Hin). lia. }
  split.
  - apply Forall_forall. intros p Hp. apply Hall. apply in_or_app. left. exact Hp.
  - apply Hall. apply in_or_app. right. left. reflexivity.
Qed.

Lemma tgt_valueb_ok d : tgt_valueb g d = true -> tgt_value d.
Proof.
  unfold tgt_valueb, tgt_value. destruct (nth_error g (d_tgt d)) as [n|]; [|discriminate].
  destruct (kd n) eqn:K; try discriminate. intros _. exists n. auto.
Qed.

Lemma values_all_get (s : mstate V) k : k < length g -> getv (values_all interp dflt g s) k = value g s k.
Proof. intros Hk. unfold values_all, Graph.getv. apply nth_map_seq. exact Hk. Qed.

Lemma agreeV_refl a : agreeV a a.
Proof. intros k n _ _. reflexivity. Qed.
Lemma agreeV_trans a b c : agreeV a b -> agreeV b c -> agreeV a c.
Proof. intros H1 H2 k n E K. rewrite (H1 k n E K). apply (H2 k n E K). Qed.
Lemma agreeV_den a b : agreeV a b -> forall k, denote g a k = denote g b k.
Proof. intros H. apply (den_agree V F interp dflt g W). exact H. Qed.
Lemma agreeV_upd a b i v : agreeV a b -> i < length a -> i < length b -> agreeV (upd a i v) (upd b i v).
Proof.
  intros H La Lb k n E K. unfold Graph.getv. destruct (Nat.eq_dec k i) as [->|Hne].
  - rewrite !nth_upd_eq by assumption. reflexivity.
  - rewrite !nth_upd_neq by assumption. apply (H k n E K).
Qed.

(* ---- update( *names of the inputs of the Dist ) ------------------------------------------------- *)
Lemma refresh_spec rs d : RInv rs -> dinfo_ok d ->
  let rs1 := refreshed LIT RefreshInputs g rs d in
  RInv rs1 /\ auto (cur rs1) = auto (cur rs) /\ agreeV (vals (cur rs1)) (vals (cur rs))
  /\ snaps rs1 = snaps rs
  /\ (forall p, In p (d_params d ++ [d_at d]) -> value g (cur rs1) p = denote g (vals (cur rs)) p).
Proof.
  intros R [Hp Ha] rs1.
  assert (R1 : RInv rs1) by exact (step_RInv V F interp dflt g W rs (Update (d_params d ++ [d_at d])) R).
  set (ts := d_params d ++ [d_at d]) in *.
  assert (Hall : forallb (fun t => t <? length g) ts = true).
  { apply forallb_forall. intros t Ht. apply Nat.ltb_lt. apply in_app_or in Ht.
    destruct Ht as [Ht|[<-|[]]]; [|exact Ha]. rewrite Forall_forall in Hp. apply Hp. exact Ht. }
  assert (Hne : ts <> []) by (unfold ts; intros H; apply app_eq_nil in H; destruct H; discriminate).
  destruct R as [I Sn].
  destruct (sweep_spec V F interp dflt g W _ _ (tgt_tab_closed V F interp dflt g W ts) I)
    as [I' [Cl [_ [_ [_ [Vl Au]]]]]].
  assert (E1 : rs1 = with_cur rs (fst (sweep_lit interp dflt g (getb (tgt_tab LIT g ts)) (cur rs)))).
  { unfold rs1, refreshed. fold ts. unfold step_with. destruct ts as [|t0 ts0] eqn:Ets; [congruence|].
    rewrite Hall. reflexivity. }
  rewrite E1 in *. cbn [cur with_cur snaps].
  assert (AV : agreeV (vals (fst (sweep_lit interp dflt g (getb (tgt_tab LIT g ts)) (cur rs)))) (vals (cur rs))).
  { intros k n E K. apply (Vl k n E). congruence. }
  split; [exact R1|]. split; [exact Au|]. split; [exact AV|]. split; [reflexivity|].
  intros p Hin. assert (Hlt : p < length g).
  { rewrite forallb_forall in Hall. apply Nat.ltb_lt. apply Hall. exact Hin. }
  rewrite <- (agreeV_den _ _ AV p).
  destruct I' as [_ [I' _]]. apply (inv_coherent V F interp dflt g W _ I'); [exact Hlt|].
  apply Cl; [exact Hlt|]. rewrite (tgt_tab_get V F interp dflt g ts p Hlt).
  apply existsb_exists. exists p. split; [exact Hin|].
  apply (reaches_path F g W). apply path_refl. exact Hlt.
Qed.

(* ---- the value setter ------------------------------------------------------------------------------ *)
Lemma assign_spec rs i v : RInv rs -> (exists n, nth_error g i = Some n /\ kd n = KValue) ->
  let out := step g rs (Assign i v) in
  err out = false /\ RInv (st' out) /\ auto (cur (st' out)) = auto (cur rs)
  /\ agreeV (vals (cur (st' out))) (upd (vals (cur rs)) i v)
  /\ snaps (st' out) = snaps rs.
Proof.
  intros R [n [E K]] out.
  assert (R1 : RInv (st' out)) by (apply (step_RInv V F interp dflt g W); exact R).
  destruct R as [I Sn]. unfold out, Graph.step, step_with in *. rewrite E, K in *.
  pose proof (assign_flag_Inv V F interp dflt g W (cur rs) i v n E K I) as I1.
  destruct (auto (cur rs)) eqn:Au; cbn [ok_out st' cur with_cur err fst snaps].
  - destruct (sweep_spec V F interp dflt g W _ _ (full_closed F g) I1) as [_ [_ [_ [_ [_ [Vl Au']]]]]].
    cbn [i_sweep lit] in *.
    split; [reflexivity|]. split; [exact R1|]. split; [rewrite Au'; cbn [assign_flag auto]; exact Au|].
    split; [|reflexivity]. intros k m Ek Kk. apply (Vl k m Ek). congruence.
  - split; [reflexivity|]. split; [exact R1|]. split; [cbn [assign_flag auto]; exact Au|]. split; [|reflexivity].
    apply agreeV_refl.
Qed.

(* ---- simulate = the ancestral recursion (RefreshInputs) -------------------------------------------- *)
Lemma draw_spec rs d sd ext : RInv rs -> dinfo_ok d -> tgt_value d ->
  length ext = length g -> agreeV (vals (cur rs)) ext ->
  let out := draw1 dflt sample LIT (values_all interp dflt) RefreshInputs g rs d sd in
  err out = false /\ RInv (st' out) /\ auto (cur (st' out)) = auto (cur rs)
  /\ agreeV (vals (cur (st' out))) (anc1 ext (d, sd)) /\ snaps (st' out) = snaps rs.
Proof.
  intros R Dk Tv Le Ag out.
  destruct (refresh_spec rs d R Dk) as [R1 [Au1 [Av1 [Sn1 Vp]]]].
  set (rs1 := refreshed LIT RefreshInputs g rs d) in *.
  set (v := drawn dflt sample (values_all interp dflt) g (cur rs1) d sd).
  destruct (assign_spec rs1 (d_tgt d) v R1 Tv) as [E2 [R2 [Au2 [Av2 Sn2]]]].
  fold (draw1 dflt sample LIT (values_all interp dflt) RefreshInputs g rs d sd) in *.
  change (step g rs1 (Assign (d_tgt d) v)) with out in *.
  split; [exact E2|]. split; [exact R2|]. split; [congruence|]. split; [|congruence].
  assert (Hv : v = anc_draw ext d sd).
  { unfold v, drawn, Simulate.anc_draw. destruct Dk as [Hp Ha]. f_equal.
    - apply map_ext_in. intros p Hin. rewrite Forall_forall in Hp.
      rewrite values_all_get by (apply Hp; exact Hin).
      rewrite Vp by (apply in_or_app; left; exact Hin). apply agreeV_den. exact Ag.
    - rewrite values_all_get by exact Ha.
      rewrite Vp by (apply in_or_app; right; left; reflexivity). apply agreeV_den. exact Ag. }
  unfold Simulate.anc1. cbn [fst snd]. rewrite <- Hv.
  eapply agreeV_trans; [exact Av2|].
  destruct Tv as [n [En _]]. pose proof (wf_lt F g _ _ En) as Ht.
  apply agreeV_upd; [eapply agreeV_trans; eauto| |lia].
  rewrite (RInv_len V F interp dflt g rs1 R1). exact Ht.
Qed.

Lemma ancestral_length ds : forall ext, length (ancestral ext ds) = length ext.
Proof.
  unfold Simulate.ancestral. induction ds as [|p r IH]; intros ext; cbn [fold_left]; [reflexivity|].
  rewrite IH. unfold Simulate.anc1. apply upd_length.
Qed.

Theorem sim_ancestral ds : forall rs ext, RInv rs ->
  Forall dinfo_ok (map fst ds) -> Forall tgt_value (map fst ds) ->
  length ext = length g -> agreeV (vals (cur rs)) ext ->
  let r := sim_lit RefreshInputs g rs ds in
  snd r = false /\ RInv (fst r) /\ auto (cur (fst r)) = auto (cur rs)
  /\ agreeV (vals (cur (fst r))) (ancestral ext ds) /\ snaps (fst r) = snaps rs.
Proof.
  induction ds as [|[d sd] ds IH]; intros rs ext R Hd Ht Le Ag.
  - unfold Simulate.sim_loop_lit. cbn [sim_loop fst snd Simulate.ancestral fold_left].
    split; [reflexivity|]. split; [exact R|]. split; [reflexivity|]. split; [exact Ag|reflexivity].
  - cbn [map fst] in Hd, Ht. inversion Hd as [|? ? Hd1 Hd2]. inversion Ht as [|? ? Ht1 Ht2]. subst.
    destruct (draw_spec rs d sd ext R Hd1 Ht1 Le Ag) as [E1 [R1 [Au1 [Av1 Sn1]]]].
    unfold Simulate.sim_loop_lit in *. cbn [sim_loop]. rewrite E1.
    assert (Le1 : length (anc1 ext (d, sd)) = length g)
      by (unfold Simulate.anc1; rewrite upd_length; exact Le).
    destruct (IH _ (anc1 ext (d, sd)) R1 Hd2 Ht2 Le1 Av1) as [A [B [C [D E]]]].
    split; [exact A|]. split; [exact B|]. split; [congruence|]. split; [exact D|congruence].
Qed.

(* ---- the ancestral recursion is a joint ancestral sample when the order is valid -------------------- *)
Lemma ancestral_cons e p r : ancestral e (p :: r) = ancestral (anc1 e p) r.
Proof. reflexivity. Qed.

Lemma anc_tgt_keep ds i : forall e, (forall p, In p ds -> d_tgt (fst p) <> i) ->
  getv (ancestral e ds) i = getv e i.
Proof.
  induction ds as [|p r IH]; intros e H; [reflexivity|]. rewrite ancestral_cons.
  rewrite IH by (intros q Hq; apply H; right; exact Hq).
  unfold Simulate.anc1, Graph.getv. apply nth_upd_neq. intros Heq. apply (H p); [left; reflexivity|auto].
Qed.

Lemma anc_den_keep ds k : forall e, (forall p, In p ds -> reaches g (d_tgt (fst p)) k = false) ->
  denote g (ancestral e ds) k = denote g e k.
Proof.
  induction ds as [|p r IH]; intros e H; [reflexivity|]. rewrite ancestral_cons.
  rewrite IH by (intros q Hq; apply H; right; exact Hq).
  unfold Simulate.anc1. apply (den_unreached V F interp dflt g W). apply H. left. reflexivity.
Qed.

Theorem joint_ancestral ds : forall now, order_ok g (map fst ds) ->
  Forall (fun p => d_tgt (fst p) < length now) ds ->
  joint ds now (ancestral now ds).
Proof.
  induction ds as [|[d sd] r IH]; intros now Ho Hl; [exact Logic.I|].
  cbn [map fst] in Ho. destruct Ho as [Hr [Hdist Ho]]. inversion Hl as [|? ? Hl1 Hl2]. subst.
  cbn [Simulate.joint fst snd]. split.
  - rewrite ancestral_cons. rewrite anc_tgt_keep.
    + unfold Simulate.anc1 at 1. cbn [fst snd]. unfold Graph.getv. rewrite nth_upd_eq by exact Hl1.
      unfold Simulate.anc_draw. f_equal. apply map_ext_in. intros p Hp. symmetry.
      rewrite anc_den_keep.
      * unfold Simulate.anc1. cbn [fst snd]. apply (den_unreached V F interp dflt g W).
        apply (Hr d); [left; reflexivity|exact Hp].
      * intros q Hq. apply (Hr (fst q)); [right; apply in_map; exact Hq|exact Hp].
    + intros q Hq. apply Hdist. apply in_map. exact Hq.
  - rewrite ancestral_cons. apply IH; [exact Ho|]. unfold Simulate.anc1. rewrite upd_length. exact Hl2.
Qed.

(* ---- a following update() -------------------------------------------------------------------------- *)
Theorem update_all_spec rs : RInv rs ->
  let rs2 := st' (step g rs (Update [])) in
  RInv rs2 /\ agreeV (vals (cur rs2)) (vals (cur rs))
  /\ forall k, k < length g ->
       outdated g (cur rs2) k = false /\ value g (cur rs2) k = denote g (vals (cur rs)) k.
Proof.
  intros R rs2.
  assert (R2 : RInv rs2) by (apply (step_RInv V F interp dflt g W); exact R).
  assert (AV : agreeV (vals (cur rs2)) (vals (cur rs))).
  { destruct R as [I _]. unfold rs2, Graph.step, step_with. cbn [ok_out st' cur with_cur fst i_sweep lit].
    destruct (sweep_spec V F interp dflt g W _ _ (full_closed F g) I) as [_ [_ [_ [_ [_ [Vl _]]]]]].
    intros k n E K. apply (Vl k n E). congruence. }
  split; [exact R2|]. split; [exact AV|]. intros k Hk.
  assert (Ho : outdated g (cur rs2) k = false).
  { apply (full_update_clean V F interp dflt g W rs (Update []) R); auto. }
  split; [exact Ho|]. rewrite <- (agreeV_den _ _ AV k).
  destruct R2 as [[_ [I2 _]] _]. apply (inv_coherent V F interp dflt g W _ I2); auto.
Qed.

(* ---- what the shards run ------------------------------------------------------------------------------ *)
Theorem sim_memo_lit R ds : forall rs, RInv rs -> sim_memo R g rs ds = sim_lit R g rs ds.
Proof.
  induction ds as [|[d sd] ds IH]; intros rs Ri; [reflexivity|].
  unfold Simulate.sim_loop_memo, Simulate.sim_loop_lit in *. cbn [sim_loop].
  assert (E1 : refreshed (memo interp dflt) R g rs d = refreshed LIT R g rs d).
  { destruct R; [reflexivity|]. unfold refreshed. f_equal.
    exact (step_memo_lit V F interp dflt g W rs _ (RInv_len V F interp dflt g rs Ri)). }
  assert (R1 : RInv (refreshed LIT R g rs d)).
  { destruct R; [exact Ri|]. exact (step_RInv V F interp dflt g W rs _ Ri). }
  assert (E2 : draw1 dflt sample (memo interp dflt) (mvalues_all interp dflt) R g rs d sd
               = draw1 dflt sample LIT (values_all interp dflt) R g rs d sd).
  { unfold draw1. rewrite E1. unfold drawn, mvalues_all. rewrite (effv_tab_lit V F interp dflt g W).
    exact (step_memo_lit V F interp dflt g W _ _ (RInv_len V F interp dflt g _ R1)). }
  rewrite E2. destruct (err _); [reflexivity|]. apply IH.
  unfold draw1. exact (step_RInv V F interp dflt g W _ _ R1).
Qed.

(* ---- auto-update on, nothing outdated: refreshing changes nothing ------------------------------------ *)
Lemma sweep_clean_id tgt s : clean s -> sweep_lit interp dflt g tgt s = (s, []).
Proof.
  intros C. unfold sweep_lit.
  assert (H : forall l, Forall (fun k => k < length g) l ->
                        fold_left (sweep1 interp dflt g tgt) l (s, []) = (s, [])).
  { induction l as [|k l IH]; intros Hl; [reflexivity|]. inversion Hl; subst. cbn [fold_left].
    assert (E : sweep1 interp dflt g tgt (s, []) k = (s, [])).
    { unfold sweep1. destruct (nth_error g k); [|reflexivity]. cbn [fst]. rewrite C by assumption.
      rewrite andb_false_r. reflexivity. }
    rewrite E. apply IH. assumption. }
  apply H. apply Forall_forall. intros k Hk. apply in_seq in Hk. lia.
Qed.

Lemma refreshed_clean_id rs d : clean (cur rs) -> refreshed LIT RefreshInputs g rs d = rs.
Proof.
  intros C. unfold refreshed, step_with.
  destruct (d_params d ++ [d_at d]) as [|t ts] eqn:E; [apply app_eq_nil in E; destruct E; discriminate|].
  destruct (forallb _ (t :: ts)); [|reflexivity].
  cbn [i_sweep lit]. rewrite sweep_clean_id by exact C. destruct rs. reflexivity.
Qed.

Theorem sim_auto_on ds : forall rs, RInv rs -> auto (cur rs) = true -> clean (cur rs) ->
  sim_lit NoRefresh g rs ds = sim_lit RefreshInputs g rs ds.
Proof.
  induction ds as [|[d sd] ds IH]; intros rs R Au C; [reflexivity|].
  unfold Simulate.sim_loop_lit in *. cbn [sim_loop]. unfold draw1.
  rewrite refreshed_clean_id by exact C. cbn [refreshed].
  set (v := drawn dflt sample (values_all interp dflt) g (cur rs) d sd).
  destruct (err (step_with LIT g rs (Assign (d_tgt d) v))) eqn:E; [reflexivity|].
  assert (R1 : RInv (st' (step g rs (Assign (d_tgt d) v)))) by (apply (step_RInv V F interp dflt g W); exact R).
  apply IH; [exact R1| |].
  - unfold Graph.step, step_with in *. destruct (nth_error g (d_tgt d)) as [n|] eqn:En; [|discriminate].
    destruct (kd n) eqn:K; try discriminate. rewrite Au. cbn [ok_out st' cur with_cur fst].
    destruct R as [I _].
    destruct (sweep_spec V F interp dflt g W _ _ (full_closed F g)
                (assign_flag_Inv V F interp dflt g W (cur rs) (d_tgt d) v n En K I)) as [_ [_ [_ [_ [_ [_ Au']]]]]].
    cbn [i_sweep lit]. rewrite Au'. exact Au.
  - intros k Hk. apply (full_update_clean V F interp dflt g W rs (Assign (d_tgt d) v) R); auto.
    right. exists (d_tgt d), v. auto.
Qed.

(* ---- a visited variable without a value setter ---------------------------------------------------------- *)
Theorem sim_error R rs d sd ds : ~ tgt_value d ->
  let r := sim_lit R g rs ((d, sd) :: ds) in
  snd r = true /\ fst r = refreshed LIT R g rs d.
Proof.
  intros H. unfold Simulate.sim_loop_lit. cbn [sim_loop]. unfold draw1, step_with.
  destruct (nth_error g (d_tgt d)) as [n|] eqn:E; [|split; reflexivity].
  destruct (kd n) eqn:K; try (split; reflexivity). exfalso. apply H. exists n. auto.
Qed.

(* ---- the packaged statements ----------------------------------------------------------------------------- *)
Lemma agreeV_sym a b : agreeV a b -> agreeV b a.
Proof. intros H k n E K. symmetry. apply (H k n E K). Qed.

Lemma joint_agree ds : forall now fin anc, agreeV fin anc -> Forall tgt_value (map fst ds) ->
  joint ds now anc -> joint ds now fin.
Proof.
  induction ds as [|[d sd] r IH]; intros now fin anc Ag Ht J; [exact Logic.I|].
  cbn [map fst] in Ht. inversion Ht as [|? ? Ht1 Ht2]. subst.
  cbn [Simulate.joint fst snd] in *. destruct J as [J1 J2]. split.
  - destruct Ht1 as [n [E K]]. rewrite (Ag _ n E K). rewrite J1. f_equal.
    apply map_ext. intros p. symmetry. apply agreeV_den. exact Ag.
  - apply (IH _ fin anc Ag Ht2 J2).
Qed.

(* simulate on any reachable state, variant RefreshInputs, any auto setting *)
Theorem simulate_spec rs order skip seeds : RInv rs ->
  let ds := combine (filter (selected skip) order) seeds in
  Forall dinfo_ok (map fst ds) -> Forall tgt_value (map fst ds) -> order_ok g (map fst ds) ->
  let r := simulate_lit interp dflt sample RefreshInputs g rs order skip seeds in
  let fin := vals (cur (fst r)) in
  snd r = false
  /\ RInv (fst r)
  /\ auto (cur (fst r)) = auto (cur rs)
  /\ joint ds (vals (cur rs)) fin
  /\ agreeV fin (ancestral (vals (cur rs)) ds)
  /\ (forall k n, nth_error g k = Some n -> kd n = KValue ->
        (forall p, In p ds -> d_tgt (fst p) <> k) -> getv fin k = getv (vals (cur rs)) k)
  /\ (let rs2 := st' (step g (fst r) (Update [])) in
      agreeV (vals (cur rs2)) fin
      /\ forall k, k < length g ->
           outdated g (cur rs2) k = false /\ value g (cur rs2) k = denote g fin k).
Proof.
  intros R ds Hd Ht Ho r fin.
  pose proof (RInv_len V F interp dflt g rs R) as Le.
  destruct (sim_ancestral ds rs (vals (cur rs)) R Hd Ht Le (agreeV_refl _)) as [A [B [C [D _]]]].
  change (sim_lit RefreshInputs g rs ds) with r in A, B, C, D. fold fin in D.
  split; [exact A|]. split; [exact B|]. split; [exact C|]. split; [|split; [exact D|split]].
  - apply (joint_agree ds _ fin (ancestral (vals (cur rs)) ds) D Ht).
    apply joint_ancestral; [exact Ho|].
    apply Forall_forall. intros p Hp. rewrite Forall_forall in Ht.
    destruct (Ht (fst p) (in_map fst _ _ Hp)) as [n [E _]]. rewrite Le. exact (wf_lt F g _ _ E).
  - intros k n E K Hk. rewrite (D k n E K). apply anc_tgt_keep. exact Hk.
  - destruct (update_all_spec (fst r) B) as [_ [U1 U2]]. split; [exact U1|exact U2].
Qed.

(* the drawn values depend on the start state only through the values of the Value nodes: not on the
   auto-update setting, not on which cached values are stale *)
Theorem simulate_determined rs1 rs2 order skip seeds : RInv rs1 -> RInv rs2 ->
  agreeV (vals (cur rs1)) (vals (cur rs2)) ->
  let ds := combine (filter (selected skip) order) seeds in
  Forall dinfo_ok (map fst ds) -> Forall tgt_value (map fst ds) ->
  agreeV (vals (cur (fst (simulate_lit interp dflt sample RefreshInputs g rs1 order skip seeds))))
         (vals (cur (fst (simulate_lit interp dflt sample RefreshInputs g rs2 order skip seeds)))).
Proof.
  intros R1 R2 Ag ds Hd Ht.
  pose proof (RInv_len V F interp dflt g rs1 R1) as Le.
  destruct (sim_ancestral ds rs1 (vals (cur rs1)) R1 Hd Ht Le (agreeV_refl _)) as [_ [_ [_ [D1 _]]]].
  destruct (sim_ancestral ds rs2 (vals (cur rs1)) R2 Hd Ht Le (agreeV_sym _ _ Ag)) as [_ [_ [_ [D2 _]]]].
  eapply agreeV_trans; [exact D1|]. apply agreeV_sym. exact D2.
Qed.

Theorem simulate_memo_lit R rs order skip seeds : RInv rs ->
  simulate_memo interp dflt sample R g rs order skip seeds
  = simulate_lit interp dflt sample R g rs order skip seeds.
Proof. intros Ri. apply sim_memo_lit. exact Ri. Qed.

Theorem simulate_auto_on rs order skip seeds : RInv rs -> auto (cur rs) = true -> clean (cur rs) ->
  simulate_lit interp dflt sample NoRefresh g rs order skip seeds
  = simulate_lit interp dflt sample RefreshInputs g rs order skip seeds.
Proof. intros R Au C. apply sim_auto_on; assumption. Qed.

End SP.

(* ---- shapes: sample_shape = value_shape[: len(value_shape) - len(batch_shape) - len(event_shape)] ---- *)

(* the drawn array has shape sample_shape ++ batch_shape ++ event_shape; it is the shape of the current
   value exactly when the current value ends in batch_shape ++ event_shape *)
Theorem shape_preserved vs b e :
  sample_shape vs b e ++ b ++ e = vs <-> exists pre, vs = pre ++ b ++ e.
Proof.
  unfold sample_shape. split.
  - intros H. exists (firstn (length vs - length b - length e) vs). symmetry. exact H.
  - intros [pre ->]. rewrite !app_length.
    replace (length pre + (length b + length e) - length b - length e) with (length pre + 0) by lia.
    rewrite firstn_app_2. cbn. rewrite app_nil_r. reflexivity.
Qed.

Lemma shape_example :
  sample_shape [7; 3; 2] [3] [2] = [7] /\ sample_shape [3; 2] [3] [2] = [] /\ sample_shape [5] [] [] = [5].
Proof. repeat split. Qed.

(* ---- the simulation graph of the code induces a valid visiting order ----------------------------------
   es = Model._build_simulation_graph with the edges Dist -> value node of fix 94cdd67.  If the visited
   distributions come in an order that a topological order of es induces ([sim_topo]), then the order is
   valid ([order_ok]) - provided the model is hierarchical (no variable is an ancestor of a parameter of
   its own distribution), no parameter is the evaluation point, no variable is drawn twice, and NO
   PARAMETER DEPENDS ON A Dist NODE (C17_logprob_param_refuted shows that this cannot be dropped). *)
Section SG.
Variables (F : Type) (g : graph F).
Hypothesis W : wf g.
Variable dists : list (dinfo F).
Hypothesis Hdk : forallb (dinfo_okb g) dists = true.

Let es := sim_edges true g dists.
Definition isdist (q : nat) : Prop := exists d, In d dists /\ d_node d = q.

Lemma nlist_eqb_eq l1 : forall l2, nlist_eqb l1 l2 = true -> l1 = l2.
Proof.
  induction l1 as [|x l IH]; intros [|y l2] H; cbn in H; try discriminate; auto.
  apply andb_true_iff in H. destruct H as [Hx Hl]. apply Nat.eqb_eq in Hx. subst. f_equal. auto.
Qed.

Lemma dist_ins d : In d dists -> exists n, nth_error g (d_node d) = Some n /\ ins n = d_params d ++ [d_at d].
Proof.
  intros Hd. rewrite forallb_forall in Hdk. specialize (Hdk d Hd). unfold dinfo_okb in Hdk.
  apply andb_true_iff in Hdk. destruct Hdk as [H1 _].
  destruct (nth_error g (d_node d)) as [n|]; [|discriminate]. exists n. split; [reflexivity|].
  apply andb_true_iff in H1. destruct H1 as [H1 _]. apply nlist_eqb_eq. exact H1.
Qed.

Lemma combine_seq_in (h : graph F) : forall s k n, nth_error h k = Some n ->
  In (s + k, n) (combine (seq s (length h)) h).
Proof.
  induction h as [|m h IH]; intros s [|k] n E; cbn in *; try discriminate.
  - injection E as <-. left. f_equal. lia.
  - right. replace (s + S k) with (S s + k) by lia. apply IH. exact E.
Qed.

Lemma is_at_false k i : ~ isdist k -> is_at dists k i = false.
Proof.
  intros H. unfold is_at. destruct (existsb _ dists) eqn:E; [|reflexivity]. exfalso.
  apply existsb_exists in E. destruct E as [d [Hd Hb]]. apply andb_true_iff in Hb. destruct Hb as [Hb _].
  apply Nat.eqb_eq in Hb. apply H. exists d. auto.
Qed.

Lemma edge_in k n i : nth_error g k = Some n -> In i (ins n) ->
  In (if is_at dists k i then (k, i) else (i, k)) es.
Proof.
  intros E Hi. unfold es, sim_edges. apply in_or_app. left. apply in_flat_map.
  exists (k, n). split; [exact (combine_seq_in g 0 k n E)|]. cbn [fst snd].
  apply in_map_iff. exists i. auto.
Qed.

Lemma edge_plain k n i : nth_error g k = Some n -> In i (ins n) -> is_at dists k i = false -> In (i, k) es.
Proof. intros E Hi Hf. pose proof (edge_in k n i E Hi) as H. rewrite Hf in H. exact H. Qed.

Lemma edge_tgt d : In d dists -> In (d_node d, d_tgt d) es.
Proof.
  intros Hd. destruct (Nat.eq_dec (d_tgt d) (d_at d)) as [Heq|Hne].
  - rewrite Heq. destruct (dist_ins d Hd) as [n [E Hi]].
    assert (Hin : In (d_at d) (ins n)) by (rewrite Hi; apply in_or_app; right; left; reflexivity).
    pose proof (edge_in _ n _ E Hin) as H.
    assert (Ht : is_at dists (d_node d) (d_at d) = true).
    { unfold is_at. apply existsb_exists. exists d. split; [exact Hd|]. rewrite !Nat.eqb_refl. reflexivity. }
    rewrite Ht in H. exact H.
  - unfold es, sim_edges. apply in_or_app. right. apply in_flat_map. exists d. split; [exact Hd|].
    apply Nat.eqb_neq in Hne. rewrite Hne. left. reflexivity.
Qed.

Lemma ereach_refl f a : ereach es f a a = true.
Proof. destruct f; cbn; rewrite Nat.eqb_refl; reflexivity. Qed.

Lemma ereach_snoc c b : In (b, c) es -> forall f a, ereach es f a b = true -> ereach es (S f) a c = true.
Proof.
  intros Hin.
  assert (Base : forall f, ereach es (S f) b c = true).
  { intros f. cbn [ereach]. apply orb_true_iff. right. apply existsb_exists. exists (b, c). split; [exact Hin|].
    cbn [fst snd]. rewrite Nat.eqb_refl. apply ereach_refl. }
  induction f as [|f IH]; intros a H.
  - cbn in H. rewrite orb_false_r in H. apply Nat.eqb_eq in H. subst. apply Base.
  - cbn [ereach] in H. apply orb_true_iff in H. destruct H as [H|H].
    + apply Nat.eqb_eq in H. subst. apply Base.
    + apply existsb_exists in H. destruct H as [e [He Hb]]. apply andb_true_iff in Hb. destruct Hb as [Hb1 Hb2].
      change (ereach es (S (S f)) a c) with ((a =? c) || existsb (fun e => (fst e =? a) && ereach es (S f) (snd e) c) es).
      apply orb_true_iff. right. apply existsb_exists. exists e. split; [exact He|].
      rewrite Hb1. cbn [andb]. apply IH; assumption.
Qed.

Lemma ereach_cons a b c f : In (a, b) es -> ereach es f b c = true -> ereach es (S f) a c = true.
Proof.
  intros Hin H. change (ereach es (S f) a c) with ((a =? c) || existsb (fun e => (fst e =? a) && ereach es f (snd e) c) es).
  apply orb_true_iff. right. apply existsb_exists. exists (a, b). split; [exact Hin|].
  cbn [fst snd]. rewrite Nat.eqb_refl. exact H.
Qed.

Lemma ereach_S f : forall a b, ereach es f a b = true -> ereach es (S f) a b = true.
Proof.
  induction f as [|f IH]; intros a b H.
  - cbn in H. rewrite orb_false_r in H. apply Nat.eqb_eq in H. subst. apply ereach_refl.
  - cbn [ereach] in H. apply orb_true_iff in H. destruct H as [H|H].
    + apply Nat.eqb_eq in H. subst. apply ereach_refl.
    + apply existsb_exists in H. destruct H as [e [He Hb]]. apply andb_true_iff in Hb. destruct Hb as [Hb1 Hb2].
      change (ereach es (S (S f)) a b) with ((a =? b) || existsb (fun e => (fst e =? a) && ereach es (S f) (snd e) b) es).
      apply orb_true_iff. right. apply existsb_exists. exists e. split; [exact He|].
      rewrite Hb1. cbn [andb]. apply IH. exact Hb2.
Qed.

Lemma ereach_le f f' a b : f <= f' -> ereach es f a b = true -> ereach es f' a b = true.
Proof. induction 1 as [|m Hm IH]; intros H; [exact H|]. apply ereach_S. apply IH. exact H. Qed.

(* a path of the node graph that ends above a parameter p below which there is no Dist node is a path
   of the simulation graph *)
Lemma path_ereach p : (forall q, isdist q -> ~ path F g q p) ->
  forall i k, path F g i k -> path F g k p -> ereach es (k - i) i k = true.
Proof.
  intros Hp i k P. induction P as [i Hi|i j k n P IH E Hj]; intros Pk.
  - apply ereach_refl.
  - pose proof (wf_in F g k n j W E Hj) as Hjk. pose proof (path_le F g W i j P) as Hij.
    assert (Pj : path F g j p).
    { apply (path_trans F g j k p); [|exact Pk].
      apply (path_step F g j j k n); [apply path_refl; pose proof (wf_lt F g k n E); lia|exact E|exact Hj]. }
    assert (Hnd : ~ isdist k) by (intros Hd; exact (Hp k Hd Pk)).
    apply (ereach_le (S (j - i))); [lia|].
    apply (ereach_snoc k j); [|exact (IH Pj)].
    apply (edge_plain k n j E Hj). apply is_at_false. exact Hnd.
Qed.

Theorem sim_topo_order_ok : forall act,
  (forall d, In d act -> In d dists) ->
  (forall d p, In d act -> In p (d_params d) -> p <> d_at d) ->
  (forall d p q, In d act -> In p (d_params d) -> isdist q -> reaches g q p = false) ->
  (forall d p, In d act -> In p (d_params d) -> reaches g (d_tgt d) p = false) ->
  NoDup (map d_tgt act) ->
  sim_topo es (length g + 2) (map d_node act) -> order_ok g act.
Proof.
  induction act as [|d r IH]; intros Hin Hpa Hlp Hh Nd St; [exact I|].
  cbn [map sim_topo] in St. destruct St as [St1 St2]. inversion Nd as [|? ? Nd1 Nd2]. subst.
  cbn [order_ok]. split; [|split].
  - intros d' [<-|Hd'] p Hp; [apply Hh; [left; reflexivity|exact Hp]|].
    destruct (reaches g (d_tgt d') p) eqn:R; [exfalso|reflexivity].
    apply (reaches_path F g W) in R.
    assert (Hq : forall q, isdist q -> ~ path F g q p).
    { intros q Hq Pq. apply (reaches_path F g W) in Pq. rewrite (Hlp d p q) in Pq; [discriminate|left; reflexivity|exact Hp|exact Hq]. }
    pose proof (path_lt F g _ _ R) as Hpl.
    pose proof (path_ereach p Hq _ _ R (path_refl F g p Hpl)) as E1.
    destruct (dist_ins d (Hin d (or_introl eq_refl))) as [n [En Hi]].
    assert (Hpi : In p (ins n)) by (rewrite Hi; apply in_or_app; left; exact Hp).
    assert (Hf : is_at dists (d_node d) p = false).
    { unfold is_at. destruct (existsb _ dists) eqn:Ex; [|reflexivity]. exfalso.
      apply existsb_exists in Ex. destruct Ex as [d0 [Hd0 Hb]]. apply andb_true_iff in Hb. destruct Hb as [Hb1 Hb2].
      apply Nat.eqb_eq in Hb1, Hb2. destruct (dist_ins d0 Hd0) as [n0 [En0 Hi0]]. rewrite Hb1, En in En0.
      injection En0 as <-. rewrite Hi in Hi0. apply app_inj_tail in Hi0. destruct Hi0 as [_ Hat].
      apply (Hpa d p (or_introl eq_refl) Hp). congruence. }
    pose proof (edge_plain _ n p En Hpi Hf) as Ed.
    pose proof (edge_tgt d' (Hin d' (or_intror Hd'))) as Et.
    pose proof (ereach_snoc (d_node d) p Ed _ _ E1) as E2.
    pose proof (ereach_cons _ _ _ _ Et E2) as E3.
    assert (E4 : ereach es (length g + 2) (d_node d') (d_node d) = true).
    { apply (ereach_le (S (S (p - d_tgt d')))); [lia|exact E3]. }
    rewrite (St1 (d_node d')) in E4; [discriminate|]. apply in_map. exact Hd'.
  - intros d' Hd' Heq. apply Nd1. rewrite <- Heq. apply in_map. exact Hd'.
  - apply IH; auto.
    + intros d0 H0. apply Hin. right. exact H0.
    + intros d0 p H0. apply Hpa. right. exact H0.
    + intros d0 p q H0. apply Hlp. right. exact H0.
    + intros d0 p H0. apply Hh. right. exact H0.
Qed.

End SG.

(* ---- shapes of the drawn values, for ANY reachable entry state ------------------------------------------
   With tfp's sampler decomposed as in Simulate.v ([tfp_sample]) and tfp's law
   shape (sample(sh, seed)) = sh ++ batch_shape ++ event_shape, every visited variable keeps the shape of
   the value it shows when it is drawn (= at the call, nothing being drawn twice), provided that this
   value ends in batch_shape ++ event_shape of its distribution AT THE NEWLY DRAWN VALUES of its ancestors.
   No hypothesis on the entry state beyond RInv: cached parameters may be outdated and hold values of
   other shapes. *)
Section ShapeKept.
Variables (V F S : Type) (interp : F -> list V -> V) (dflt : V) (g : graph F).
Variable shape_of : V -> list nat.
Variable bshape : F -> list V -> list nat.
Variable eshape : F -> list nat.
Variable draw : F -> S -> list V -> list nat -> V.
Hypothesis draw_shape : forall f sd ps sh, shape_of (draw f sd ps sh) = sh ++ bshape f ps ++ eshape f.

Notation smp := (tfp_sample shape_of bshape eshape draw).

Fixpoint shapes_kept (ds : list (dinfo F * S)) (now fin : list V) : Prop :=
  match ds with
  | [] => True
  | p :: r =>
      let cur := denote interp dflt g now (d_at (fst p)) in
      ((exists pre, shape_of cur
                    = pre ++ bshape (d_samp (fst p)) (map (denote interp dflt g fin) (d_params (fst p)))
                          ++ eshape (d_samp (fst p)))
       -> shape_of (getv dflt fin (d_tgt (fst p))) = shape_of cur)
      /\ shapes_kept r (anc1 interp dflt smp g now p) fin
  end.

Lemma joint_shapes_kept ds : forall now fin,
  joint interp dflt smp g ds now fin -> shapes_kept ds now fin.
Proof.
  induction ds as [|p r IH]; intros now fin J; [exact I|].
  cbn [Simulate.joint] in J. destruct J as [J1 J2]. cbn [shapes_kept]. split; [|apply IH; exact J2].
  intros Hex. rewrite J1. unfold tfp_sample. rewrite draw_shape. apply shape_preserved. exact Hex.
Qed.

Theorem simulate_shapes (W : wf g) rs order skip seeds : RInv V F interp dflt g rs ->
  let ds := combine (filter (selected skip) order) seeds in
  Forall (dinfo_ok F g) (map fst ds) -> Forall (tgt_value F g) (map fst ds) -> order_ok g (map fst ds) ->
  let r := simulate_lit interp dflt smp RefreshInputs g rs order skip seeds in
  snd r = false /\ shapes_kept ds (vals (cur rs)) (vals (cur (fst r))).
Proof.
  intros R ds Hd Ht Ho r.
  destruct (simulate_spec V F S interp dflt smp g W rs order skip seeds R Hd Ht Ho) as [A [_ [_ [J _]]]].
  split; [exact A|]. apply joint_shapes_kept. exact J.
Qed.

End ShapeKept.
