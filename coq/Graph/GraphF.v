(* GraphF.v - additive extension of Graph.v / GraphX.v (nothing there is changed): node functions that
   RAISE for particular argument values, and histories that continue after the exception.

   Code (liesel/model/nodes.py, model.py):
     Calc.update:   args read; try: self._value = self.function(...) except: raise RuntimeError; self._outdated = False
     Dist.update:   log_prob = self.init_dist().log_prob(at.value)  (raises); self._value = ...; self._outdated = False
     Model.update:  for node in self._sorted_nodes: if [node in inputs and] node.outdated: node.update()
     Value.value =: self._value = value; flag recursive outputs; if auto_update: self.model.update()
     Model.__init__: ... for node in self._sorted_nodes: node.update()
   So when the function of a node raises in mid-sweep, that node keeps value and flag, the nodes before it in
   the order have been evaluated and are clean, the nodes after it are as they were, the exception leaves
   Model.update and (for an assignment) the setter: THE ASSIGNED VALUE STAYS and the recursive outputs stay
   flagged.  A raising build gives no model.

   Model: interp returns an error value (isErr v = true) for the raising arguments; the sweep stops at the
   first cached node whose evaluation gives an error value.  NO PROOFS HERE (GraphFProofs.v).

     sweepF_lit / sweepF_memo     : ... -> mstate * list nat * bool      (state, evaluated nodes, raised?)
     fstep_with I sw g rs x : outcome    x : xop (GraphX);  err = the operation raised; for a raising sweep the
                                         state HAS changed (st' is the state the exception leaves behind)
     finit_with sw g ext0 : option rstate     None = the build raises
     fstep / frun / finit (lit),  mfstep / mfrun / mfinit (memo)                                          *)
From Coq Require Import List Bool Arith.
Import ListNotations.
From LV Require Import Graph.Graph Graph.GraphX.

Section GF.
Variables (V F : Type) (interp : F -> list V -> V) (dflt : V) (isErr : V -> bool).

Definition sweepF1 (g : graph F) (tgt : nat -> bool) (st : mstate V * list nat * bool) (k : nat)
  : mstate V * list nat * bool :=
  let '(s, tr, failed) := st in
  if failed then st else
  match nth_error g k with
  | Some n =>
      if tgt k && outdated g s k then
        match kd n with
        | KCached =>
            let v := interp (fs n) (map (value interp dflt g s) (ins n)) in
            if isErr v then (s, tr, true) else (set_node s k v, tr ++ [k], false)
        | _ => st
        end
      else st
  | None => st
  end.

Definition sweepF_lit (g : graph F) (tgt : nat -> bool) (s : mstate V) : mstate V * list nat * bool :=
  fold_left (sweepF1 g tgt) (seq 0 (length g)) (s, [], false).

(* the same as one pass with the table ev of the effective values of the nodes already passed *)
Definition msweepF1 (tgt : nat -> bool) (st : mstate V * list nat * bool * list V) (n : node F)
  : mstate V * list nat * bool * list V :=
  let '(s, tr, failed, ev) := st in
  let k := length ev in
  match kd n with
  | KValue => (s, tr, failed, ev ++ [getv dflt (vals s) k])
  | KTrans => (s, tr, failed, ev ++ [interp (fs n) (map (getv dflt ev) (ins n))])
  | KCached =>
      if negb failed && (tgt k && getb (dirty s) k) then
        let v := interp (fs n) (map (getv dflt ev) (ins n)) in
        if isErr v then (s, tr, true, ev ++ [getv dflt (vals s) k])
        else (set_node s k v, tr ++ [k], false, ev ++ [v])
      else (s, tr, failed, ev ++ [getv dflt (vals s) k])
  end.
Definition sweepF_memo (g : graph F) (tgt : nat -> bool) (s : mstate V) : mstate V * list nat * bool :=
  fst (fold_left (msweepF1 tgt) g (s, [], false, [])).

Section FOps.
Variable I : impl V F.
Variable sw : graph F -> (nat -> bool) -> mstate V -> mstate V * list nat * bool.

Definition sw_out (rs : rstate V) (r : mstate V * list nat * bool) : outcome V :=
  let '(s, tr, failed) := r in {| st' := with_cur rs s; evald := tr; err := failed |}.

Definition fstep_with (g : graph F) (rs : rstate V) (x : xop V) : outcome V :=
  let s := cur rs in
  match x with
  | XBase (Assign i v) =>
      match nth_error g i with
      | Some n =>
          match kd n with
          | KValue =>
              let s1 := assign_flag I g s i v in
              if auto s then sw_out rs (sw g full s1) else ok_out rs (s1, [])
          | _ => err_out rs
          end
      | None => err_out rs
      end
  | XBase (Update []) => sw_out rs (sw g full s)
  | XBase (Update ts) =>
      if forallb (fun t => t <? length g) ts
      then sw_out rs (sw g (getb (tgt_tab I g ts)) s)
      else err_out rs
  | _ => xstep_with I g rs x          (* SetAuto, Save, Restore, XRestoreEdited: no node is evaluated *)
  end.

Definition frun_with (g : graph F) (xs : list (xop V)) (rs : rstate V) : rstate V :=
  fold_left (fun rs x => st' (fstep_with g rs x)) xs rs.

(* Model.__init__: every node is updated once in topological order; a raising node aborts the build *)
Definition finit_with (g : graph F) (ext0 : list V) : option (rstate V) :=
  let '(s, _, failed) := sw g full (init_state dflt g ext0) in
  if failed then None else Some {| cur := s; snaps := [] |}.
End FOps.

Definition fstep := fstep_with (lit interp dflt) sweepF_lit.
Definition frun := frun_with (lit interp dflt) sweepF_lit.
Definition finit := finit_with sweepF_lit.
Definition mfstep := fstep_with (memo interp dflt) sweepF_memo.
Definition mfrun := frun_with (memo interp dflt) sweepF_memo.
Definition mfinit := finit_with sweepF_memo.

End GF.

Arguments sweepF1 {V F}.
Arguments sweepF_lit {V F}.
Arguments msweepF1 {V F}.
Arguments sweepF_memo {V F}.
Arguments sw_out {V}.
Arguments fstep_with {V F}.
Arguments frun_with {V F}.
Arguments finit_with {V F}.
Arguments fstep {V F}.
Arguments frun {V F}.
Arguments finit {V F}.
Arguments mfstep {V F}.
Arguments mfrun {V F}.
Arguments mfinit {V F}.
