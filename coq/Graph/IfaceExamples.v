(* Non-vacuity examples and documented limits for the C03 theorems, on the 7-node diamond of
   GraphExamples.v (x, y inputs; A = f(x) cached; T = f(A, y) transient; B = f(T); C = f(y); D = f(B, C)).
   Keys 0..6 are the node names; key 10 is a variable name whose value node is x. *)
From Coq Require Import List Bool Arith Lia.
Import ListNotations.
From LV Require Import Graph.Graph Graph.GraphProofs Graph.GraphExamples Graph.Iface Graph.IfaceProofs.

Definition ex_nm : names :=
  mkNames [(0, 0); (1, 1); (2, 2); (3, 3); (4, 4); (5, 5); (6, 6)] [(10, 0)].
Definition ex_lit := lit exi 0.
Definition ex_rs0 := init exi 0 exg ex_ext0.
Definition ex_st0 : snap nat := snapshot ex_lit exg (cur ex_rs0).
Definition ex_pos : list (nat * nat) := [(10, 5); (1, 7)].

(* the hypotheses of C03_update_state_spec & co. hold of this object *)
Lemma ex_good : good_state nat nat exi 0 exg ex_st0 /\ pos_ok exg ex_nm (map fst ex_pos) = true
  /\ NoDup (map (fun kv : nat * nat => resolve ex_nm (fst kv)) ex_pos).
Proof.
  split; [|split].
  - apply (snapshot_good nat nat exi 0 exg exg_wf).
    + exact (proj1 (init_RInv nat nat exi 0 exg exg_wf ex_ext0)).
    + intros k Hk. apply (init_clean nat nat exi 0 exg exg_wf ex_ext0 k Hk).
  - reflexivity.
  - cbn. repeat constructor; cbn; intuition discriminate.
Qed.

(* the call, with auto_update on and off in the private copy, on a hollow copy and after another call *)
Lemma ex_call :
  let r1 := snd (update_state ex_lit exg ex_nm (hollow 0 exg true) ex_pos ex_st0) in
  let r2 := snd (update_state ex_lit exg ex_nm (hollow 0 exg false) ex_pos ex_st0) in
  let i3 := run_calls ex_lit exg ex_nm (hollow 0 exg true) [([(0, 9)], ex_st0); ([(33, 1)], ex_st0)] in
  let r3 := snd (update_state ex_lit exg ex_nm i3 ex_pos ex_st0) in
  option_map (view 0 exg) r1 = option_map (view 0 exg) r2 /\ r1 = r3 /\ r1 <> None
  /\ option_map (view 0 exg) r1 <> Some (view 0 exg ex_st0)
  /\ option_map (extract_position 0 exg ex_nm [10; 1; 6; 3]) r1
     = Some (Some [Some 5; Some 7; Some (denote exi 0 exg [5; 7] 6); None])
  /\ option_map (log_prob 0 exg 6) r1 = Some (Some (Some (denote exi 0 exg [5; 7] 6))).
Proof. vm_compute. repeat split; try reflexivity; discriminate. Qed.

(* documented limit (not a finding): a state that still carries outdated flags.  auto_update off,
   x assigned, the model's state handed to update_state with a new y: the flags are cleared, A keeps its
   stale value and D is computed from it - direct assignment + update() recomputes A *)
Definition ex_rs_dirty := run exi 0 exg [SetAuto false; Assign 0 5] ex_rs0.
Definition ex_st_dirty : snap nat := snapshot ex_lit exg (cur ex_rs_dirty).

Lemma ex_outdated_input :
  (exists k, k < length exg /\ getb (sn_flags ex_st_dirty) k = true)
  /\ RInv nat nat exi 0 exg ex_rs_dirty
  /\ exists r, snd (update_state ex_lit exg ex_nm (hollow 0 exg true) [(1, 7)] ex_st_dirty) = Some r
     /\ view 0 exg r
        <> view 0 exg (snapshot ex_lit exg (cur (run exi 0 exg (direct_ops ex_nm [(1, 7)]) ex_rs_dirty))).
Proof.
  split; [exists 2; split; [cbn; lia|reflexivity]|]. split.
  - apply run_RInv; [exact exg_wf|]. apply init_RInv. exact exg_wf.
  - eexists. split; [vm_compute; reflexivity|]. vm_compute. discriminate.
Qed.

(* documented limit: a position that names the same value node twice (by node name and by variable
   name) with different values is contradictory; the later key wins, extraction returns it for both *)
Lemma ex_aliased_keys :
  option_map (extract_position 0 exg ex_nm [10; 0])
             (snd (update_state ex_lit exg ex_nm (hollow 0 exg true) [(10, 5); (0, 6)] ex_st0))
  = Some (Some [Some 6; Some 6])
  /\ ~ NoDup (map (fun kv : nat * nat => resolve ex_nm (fst kv)) [(10, 5); (0, 6)]).
Proof.
  split; [vm_compute; reflexivity|]. cbn. intros N. inversion N as [|x l Hn _]. apply Hn. left. reflexivity.
Qed.

(* a call that raises: unknown key (33), a cached node (2) *)
Lemma ex_raises :
  snd (update_state ex_lit exg ex_nm (hollow 0 exg true) [(1, 7); (33, 1)] ex_st0) = None
  /\ snd (update_state ex_lit exg ex_nm (hollow 0 exg true) [(2, 1)] ex_st0) = None
  /\ extract_position 0 exg ex_nm [33] ex_st0 = None.
Proof. vm_compute. repeat split; reflexivity. Qed.

(* flat interfaces *)
Lemma ex_flat :
  fupdate true [(2, 9)] [(1, 5); (2, 6); (3, 7)] = Some [(1, 5); (2, 9); (3, 7)]
  /\ fupdate true [(4, 9)] [(1, 5); (2, 6)] = None
  /\ fupdate false [(4, 9); (1, 0)] [(1, 5); (2, 6)] = Some [(1, 0); (2, 6); (4, 9)]
  /\ fextract [3; 1] [(1, 5); (2, 6); (3, 7)] = Some [7; 5].
Proof. vm_compute. repeat split; reflexivity. Qed.
