(* C18 - model of liesel/distributions/mvn_degen.py (MultivariateNormalDegenerate) over R,
   written in EIGEN-COORDINATES of the precision matrix.

   The code works with a symmetric precision matrix  prec = Q diag(lam) Q^T  (jnp.linalg.eigh /
   eigvalsh, eigenvalues in ASCENDING order) and only ever uses
        (x - loc) prec (x - loc)^T  =  sum_i lam_i c_i^2       with  c = Q^T (x - loc),
        functions of the eigenvalues (rank, log-pseudo-determinant),
        sample - loc = Q diag(s) z                              (so  Q^T (sample - loc) = (s_i z_i)_i).
   The model therefore takes the dimension n, the ascending eigenvalue sequence lam : nat -> R
   (indices < n matter) and the coordinates c : nat -> R.  That the eigen-coordinate form is the
   general case (spectral theorem, orthogonal invariance, eigh itself) is trusted, not proved.

     def _rank(eigenvalues, tol=1e-6):       mask = eigenvalues > tol;  return sum(mask)
     def _log_pdet(eigenvalues, rank=None, tol=1e-6):
         if rank is None:  mask = eigenvalues > tol
         else:             max_index = n - rank;  mask[i] = (i >= max_index)      # the LAST `rank` ones
         return sum(log(where(mask, eigenvalues, 1.0)))
     rank      (property) = self._rank      if given else _rank(evals, tol)
     log_pdet  (property) = self._log_pdet  if given else _log_pdet(evals, self.rank, tol)   # rank-mask branch
     _log_prob(x)  = 0.5 * ( -(x-loc) prec (x-loc)^T - (rank * log(2 pi) - log_pdet) )
     from_penalty(loc, var, pen, rank, log_pdet):
         prec = pen / var;   rank, log_pdet of PEN computed (tol 1e-6) unless given
         cls(loc, prec, rank, log_pdet - rank * log(var))
     from_penalty_smooth(loc, smooth, pen, rank, log_pdet):
         prec = pen * smooth;  cls(loc, prec, rank, log_pdet + rank * log(smooth))
     _sqrt_pcov = Q diag(where(evals < tol, 0, sqrt(1 / evals)))
     _sample_n  = _sqrt_pcov z + loc

   Coq's [ln], [sqrt], [/] are total; every theorem states the sign conditions it needs. *)
From Coq Require Import Reals Arith.
Open Scope R_scope.

(* ---------------------------------------------------------------- finite sums, counting *)
Fixpoint rsum (n : nat) (f : nat -> R) : R :=
  match n with O => 0 | S k => rsum k f + f k end.

Fixpoint ncount (n : nat) (p : nat -> bool) : nat :=
  match n with O => O | S k => (ncount k p + (if p k then 1 else 0))%nat end.

Definition gtb (tol l : R) : bool := if Rlt_dec tol l then true else false.   (* l > tol *)
Definition ltb (l tol : R) : bool := if Rlt_dec l tol then true else false.   (* l < tol *)

Definition tol_default : R := 1 / 1000000.

(* ---------------------------------------------------------------- _rank / _log_pdet *)
Definition rank_of (tol : R) (n : nat) (lam : nat -> R) : nat :=
  ncount n (fun i => gtb tol (lam i)).

(* _log_pdet(evals, rank=None, tol) *)
Definition log_pdet_tol (tol : R) (n : nat) (lam : nat -> R) : R :=
  rsum n (fun i => ln (if gtb tol (lam i) then lam i else 1)).

(* _log_pdet(evals, rank=r): the last r entries of the ascending eigenvalue vector *)
Definition log_pdet_rank (r : nat) (n : nat) (lam : nat -> R) : R :=
  rsum n (fun i => ln (if (n - r <=? i)%nat then lam i else 1)).

(* ---------------------------------------------------------------- the distribution object *)
Record mvnd := mkMvnd {
  dim : nat;
  evals : nat -> R;            (* eigenvalues of self._prec, ascending *)
  rank_arg : option nat;       (* self._rank *)
  lpd_arg : option R;          (* self._log_pdet *)
  tolv : R                     (* self._tol *)
}.

Definition d_rank (d : mvnd) : nat :=
  match rank_arg d with Some r => r | None => rank_of (tolv d) (dim d) (evals d) end.

Definition d_log_pdet (d : mvnd) : R :=
  match lpd_arg d with Some v => v | None => log_pdet_rank (d_rank d) (dim d) (evals d) end.

Definition quad (n : nat) (lam c : nat -> R) : R := rsum n (fun i => lam i * (c i) ^ 2).

(* _log_prob at the point whose centred eigen-coordinates are c *)
Definition logpdf (d : mvnd) (c : nat -> R) : R :=
  1 / 2 * (- quad (dim d) (evals d) c - (INR (d_rank d) * ln (2 * PI) - d_log_pdet d)).

(* ---------------------------------------------------------------- constructors *)
Definition ctor_prec (n : nat) (lam : nat -> R) (rk : option nat) (lp : option R) (tol : R) : mvnd :=
  mkMvnd n lam rk lp tol.

Definition pen_rank (n : nat) (pen : nat -> R) (rk : option nat) : nat :=
  match rk with Some r => r | None => rank_of tol_default n pen end.

Definition pen_log_pdet (n : nat) (pen : nat -> R) (rk : option nat) (lp : option R) : R :=
  match lp with Some v => v | None => log_pdet_rank (pen_rank n pen rk) n pen end.

Definition from_penalty (n : nat) (pen : nat -> R) (var : R) (rk : option nat) (lp : option R) : mvnd :=
  let r := pen_rank n pen rk in
  mkMvnd n (fun i => pen i / var) (Some r) (Some (pen_log_pdet n pen rk lp - INR r * ln var)) tol_default.

Definition from_penalty_smooth (n : nat) (pen : nat -> R) (smooth : R) (rk : option nat) (lp : option R) : mvnd :=
  let r := pen_rank n pen rk in
  mkMvnd n (fun i => pen i * smooth) (Some r) (Some (pen_log_pdet n pen rk lp + INR r * ln smooth)) tol_default.

(* ---------------------------------------------------------------- sampling *)
(* diagonal of  Q^T _sqrt_pcov *)
Definition sqrt_pcov_diag (d : mvnd) (i : nat) : R :=
  if ltb (evals d i) (tolv d) then 0 else sqrt (1 / evals d i).

(* eigen-coordinate i of  sample - loc  for the standard normal draw z (in eigen-coordinates) *)
Definition sample_coord (d : mvnd) (z : nat -> R) (i : nat) : R := sqrt_pcov_diag d i * z i.

(* ---------------------------------------------------------------- specification side *)
(* log-density of N(0, 1/l) at c  (precision l > 0) *)
Definition normal_logpdf_prec (l c : R) : R := - (l * c ^ 2) / 2 - ln (2 * PI / l) / 2.

(* Gaussian log-density on the range space: the coordinates with l_i > 0, independent N(0, 1/l_i) *)
Definition range_gaussian_logpdf (n : nat) (lam c : nat -> R) : R :=
  rsum n (fun i => if gtb 0 (lam i) then normal_logpdf_prec (lam i) (c i) else 0).

(* diagonal of the pseudo-inverse of diag(lam) *)
Definition pinv_diag (lam : nat -> R) (i : nat) : R :=
  if gtb 0 (lam i) then 1 / lam i else 0.

(* hypotheses used by the theorems *)
Definition ascending (n : nat) (lam : nat -> R) : Prop :=
  forall i j, (i <= j)%nat -> (j < n)%nat -> lam i <= lam j.

(* spectral gap: every eigenvalue is exactly zero or safely above the tolerance *)
Definition gap (tol : R) (n : nat) (lam : nat -> R) : Prop :=
  forall i, (i < n)%nat -> lam i = 0 \/ tol < lam i.

(* the optional rank / log-pseudo-determinant arguments, when supplied, are the true ones *)
Definition rank_consistent (tol : R) (n : nat) (lam : nat -> R) (rk : option nat) : Prop :=
  rk = None \/ rk = Some (rank_of tol n lam).

Definition lpd_consistent (tol : R) (n : nat) (lam : nat -> R) (lp : option R) : Prop :=
  lp = None \/ lp = Some (log_pdet_tol tol n lam).

(* spectral gap for a penalty matrix and a variance: neither pen nor pen/var has an eigenvalue
   in (0, tol] *)
Definition pen_gap (n : nat) (pen : nat -> R) (var : R) : Prop :=
  forall i, (i < n)%nat -> pen i = 0 \/ (tol_default < pen i /\ tol_default < pen i / var).

(* a vector of the null space of diag(lam) *)
Definition null_vector (n : nat) (lam v : nat -> R) : Prop :=
  forall i, (i < n)%nat -> lam i <> 0 -> v i = 0.
