(* C18 - proofs about the algebraic sigmoid model (Sigmoid.v). *)
From Coq Require Import Reals Lra Lia.
From Coquelicot Require Import Coquelicot.
From LV Require Import Analytic.Sigmoid.
Open Scope R_scope.

Lemma one_plus_sq_pos : forall x, 0 < 1 + x ^ 2.
Proof. intros x. nra. Qed.

Lemma one_minus_sq_pos : forall y, -1 < y < 1 -> 0 < 1 - y ^ 2.
Proof. intros y Hy. nra. Qed.

Lemma sqrt_sq_eq : forall a, 0 <= a -> sqrt a * sqrt a = a.
Proof. intros a Ha. apply sqrt_sqrt; exact Ha. Qed.

(* ---------------------------------------------------------------- range *)
Lemma asig_range : forall x, -1 < asig x < 1.
Proof.
  intros x. unfold asig.
  pose proof (one_plus_sq_pos x) as Hp.
  assert (Hs : 0 < sqrt (1 + x ^ 2)) by (apply sqrt_lt_R0; exact Hp).
  assert (Hss : sqrt (1 + x ^ 2) * sqrt (1 + x ^ 2) = 1 + x ^ 2) by (apply sqrt_sq_eq; lra).
  assert (Hgt : Rabs x < sqrt (1 + x ^ 2)).
  { apply Rsqr_incrst_0; [ | apply Rabs_pos | lra ].
    unfold Rsqr. rewrite Hss. rewrite <- (Rsqr_abs x) || idtac.
    assert (Rabs x * Rabs x = x * x) as ->.
    { unfold Rabs. destruct (Rcase_abs x); ring. }
    nra. }
  assert (Hx : - sqrt (1 + x ^ 2) < x < sqrt (1 + x ^ 2)).
  { apply Rabs_def2 in Hgt. lra. }
  split.
  - apply (Rmult_lt_reg_r (sqrt (1 + x ^ 2))); [ exact Hs | ].
    unfold Rdiv. rewrite Rmult_assoc, Rinv_l by lra. lra.
  - apply (Rmult_lt_reg_r (sqrt (1 + x ^ 2))); [ exact Hs | ].
    unfold Rdiv. rewrite Rmult_assoc, Rinv_l by lra. lra.
Qed.

(* 1 - asig(x)^2 = 1/(1+x^2)  and  1 + asig_inv(y)^2 = 1/(1-y^2) *)
Lemma one_minus_asig_sq : forall x, 1 - (asig x) ^ 2 = / (1 + x ^ 2).
Proof.
  intros x. unfold asig.
  pose proof (one_plus_sq_pos x) as Hp.
  assert (Hs : 0 < sqrt (1 + x ^ 2)) by (apply sqrt_lt_R0; exact Hp).
  assert (Hss : sqrt (1 + x ^ 2) * sqrt (1 + x ^ 2) = 1 + x ^ 2) by (apply sqrt_sq_eq; lra).
  replace ((x / sqrt (1 + x ^ 2)) ^ 2) with (x ^ 2 / (sqrt (1 + x ^ 2) * sqrt (1 + x ^ 2)))
    by (field; lra).
  rewrite Hss. field. lra.
Qed.

Lemma one_plus_asig_inv_sq : forall y, -1 < y < 1 -> 1 + (asig_inv y) ^ 2 = / (1 - y ^ 2).
Proof.
  intros y Hy. unfold asig_inv.
  pose proof (one_minus_sq_pos y Hy) as Hp.
  assert (Hs : 0 < sqrt (1 - y ^ 2)) by (apply sqrt_lt_R0; exact Hp).
  assert (Hss : sqrt (1 - y ^ 2) * sqrt (1 - y ^ 2) = 1 - y ^ 2) by (apply sqrt_sq_eq; lra).
  replace ((y / sqrt (1 - y ^ 2)) ^ 2) with (y ^ 2 / (sqrt (1 - y ^ 2) * sqrt (1 - y ^ 2)))
    by (field; lra).
  rewrite Hss. field. lra.
Qed.

(* ---------------------------------------------------------------- inverse *)
Lemma asig_inv_asig : forall x, asig_inv (asig x) = x.
Proof.
  intros x. unfold asig_inv. rewrite one_minus_asig_sq.
  pose proof (one_plus_sq_pos x) as Hp.
  assert (Hs : 0 < sqrt (1 + x ^ 2)) by (apply sqrt_lt_R0; exact Hp).
  rewrite sqrt_inv. unfold asig. field. lra.
Qed.

Lemma asig_asig_inv : forall y, -1 < y < 1 -> asig (asig_inv y) = y.
Proof.
  intros y Hy. unfold asig. rewrite (one_plus_asig_inv_sq y Hy).
  pose proof (one_minus_sq_pos y Hy) as Hp.
  assert (Hs : 0 < sqrt (1 - y ^ 2)) by (apply sqrt_lt_R0; exact Hp).
  rewrite sqrt_inv. unfold asig_inv. field. lra.
Qed.

Theorem asig_inverse :
  (forall x, asig_inv (asig x) = x) /\ (forall y, -1 < y < 1 -> asig (asig_inv y) = y).
Proof. split; [ exact asig_inv_asig | exact asig_asig_inv ]. Qed.

(* every point of (-1,1) is attained: with asig_range, asig is a bijection R -> (-1,1) *)
Lemma asig_onto : forall y, -1 < y < 1 -> exists x, asig x = y.
Proof. intros y Hy. exists (asig_inv y). apply asig_asig_inv; exact Hy. Qed.

Lemma asig_injective : forall a b, asig a = asig b -> a = b.
Proof. intros a b H. rewrite <- (asig_inv_asig a), <- (asig_inv_asig b), H. reflexivity. Qed.

(* ---------------------------------------------------------------- log-det-Jacobians *)
Lemma asig_deriv_pos : forall x, 0 < asig_deriv x.
Proof.
  intros x. unfold asig_deriv.
  pose proof (one_plus_sq_pos x) as Hp.
  assert (Hs : 0 < sqrt (1 + x ^ 2)) by (apply sqrt_lt_R0; exact Hp).
  apply Rdiv_lt_0_compat; [ lra | apply Rmult_lt_0_compat; assumption ].
Qed.

Lemma asig_is_derive : forall x, is_derive asig x (asig_deriv x).
Proof.
  intros x. unfold asig, asig_deriv.
  pose proof (one_plus_sq_pos x) as Hp.
  assert (Hs : 0 < sqrt (1 + x ^ 2)) by (apply sqrt_lt_R0; exact Hp).
  assert (Hss : sqrt (1 + x ^ 2) * sqrt (1 + x ^ 2) = 1 + x ^ 2) by (apply sqrt_sq_eq; lra).
  auto_derive.
  - split; [ lra | split; [ | exact I ] ].
    replace (1 + x * (x * 1)) with (1 + x ^ 2) by ring. lra.
  - replace (1 + x * (x * 1)) with (1 + x ^ 2) by ring.
    set (s := sqrt (1 + x ^ 2)) in *.
    replace (1 + x ^ 2) with (s * s) by exact Hss.
    field_simplify; [ | lra | lra ].
    replace (s ^ 2 - x ^ 2) with 1 by nra. reflexivity.
Qed.

Lemma ln_sqrt_half : forall a, 0 < a -> ln (sqrt a) = ln a / 2.
Proof.
  intros a Ha.
  assert (Hs : 0 < sqrt a) by (apply sqrt_lt_R0; exact Ha).
  assert (H : ln a = ln (sqrt a) + ln (sqrt a)).
  { rewrite <- ln_mult by assumption. rewrite sqrt_sqrt by lra. reflexivity. }
  lra.
Qed.

Lemma ln_deriv_form : forall a, 0 < a -> ln (1 / (sqrt a * a)) = - (3 / 2) * ln a.
Proof.
  intros a Ha.
  assert (Hs : 0 < sqrt a) by (apply sqrt_lt_R0; exact Ha).
  unfold Rdiv. rewrite Rmult_1_l, ln_Rinv by (apply Rmult_lt_0_compat; assumption).
  rewrite ln_mult by assumption.
  rewrite ln_sqrt_half by exact Ha. lra.
Qed.

Theorem asig_fldj_log_deriv : forall x,
  is_derive asig x (asig_deriv x) /\ 0 < asig_deriv x /\ asig_fldj x = ln (asig_deriv x).
Proof.
  intros x. split; [ apply asig_is_derive | split; [ apply asig_deriv_pos | ] ].
  unfold asig_fldj, asig_deriv. rewrite ln_deriv_form by apply one_plus_sq_pos. reflexivity.
Qed.

Lemma asig_inv_deriv_pos : forall y, -1 < y < 1 -> 0 < asig_inv_deriv y.
Proof.
  intros y Hy. unfold asig_inv_deriv.
  pose proof (one_minus_sq_pos y Hy) as Hp.
  assert (Hs : 0 < sqrt (1 - y ^ 2)) by (apply sqrt_lt_R0; exact Hp).
  apply Rdiv_lt_0_compat; [ lra | apply Rmult_lt_0_compat; assumption ].
Qed.

Lemma asig_inv_is_derive : forall y, -1 < y < 1 -> is_derive asig_inv y (asig_inv_deriv y).
Proof.
  intros y Hy. unfold asig_inv, asig_inv_deriv.
  pose proof (one_minus_sq_pos y Hy) as Hp.
  assert (Hs : 0 < sqrt (1 - y ^ 2)) by (apply sqrt_lt_R0; exact Hp).
  assert (Hss : sqrt (1 - y ^ 2) * sqrt (1 - y ^ 2) = 1 - y ^ 2) by (apply sqrt_sq_eq; lra).
  auto_derive.
  - split; [ | split; [ | exact I ] ];
    replace (1 + - (y * (y * 1))) with (1 - y ^ 2) by ring; lra.
  - replace (1 + - (y * (y * 1))) with (1 - y ^ 2) by ring.
    set (s := sqrt (1 - y ^ 2)) in *.
    replace (1 - y ^ 2) with (s * s) by exact Hss.
    field_simplify; [ | lra | lra ].
    replace (2 * s ^ 2 + 2 * y ^ 2) with 2 by nra. field. lra.
Qed.

Theorem asig_ildj_log_deriv : forall y, -1 < y < 1 ->
  is_derive asig_inv y (asig_inv_deriv y) /\ 0 < asig_inv_deriv y
  /\ asig_ildj y = ln (asig_inv_deriv y).
Proof.
  intros y Hy. split; [ apply asig_inv_is_derive; exact Hy
                      | split; [ apply asig_inv_deriv_pos; exact Hy | ] ].
  unfold asig_ildj, asig_inv_deriv.
  rewrite ln_deriv_form by (apply one_minus_sq_pos; exact Hy). reflexivity.
Qed.

(* the bijector contract  ildj(y) = - fldj(inverse(y)) *)
Theorem asig_ildj_is_neg_fldj : forall y, -1 < y < 1 ->
  asig_ildj y = - asig_fldj (asig_inv y).
Proof.
  intros y Hy. unfold asig_ildj, asig_fldj.
  rewrite (one_plus_asig_inv_sq y Hy).
  rewrite ln_Rinv by (apply one_minus_sq_pos; exact Hy). lra.
Qed.

(* non-vacuity: a concrete point of each statement *)
Example asig_example : asig (3 / 4) = 3 / 5 /\ asig_inv (3 / 5) = 3 / 4.
Proof.
  assert (H : asig (3 / 4) = 3 / 5).
  { unfold asig. replace (1 + (3 / 4) ^ 2) with ((5 / 4) * (5 / 4)) by field.
    rewrite sqrt_square by lra. field. }
  split; [ exact H | rewrite <- H; apply asig_inv_asig ].
Qed.
