(* Glue for the generated C18 correspondence shards (R-lemmas discharged by interval).
   The definitions and tactics below use the MODEL files only (not the proof files); the one
   dependency on the proof files is the source-tie library GenC18Tie required further down. *)
From Coq Require Import Reals List Bool Arith Lra.
From Interval Require Import Tactic.
From LV Require Import Analytic.Sigmoid Analytic.Copula Analytic.MvnDegen Analytic.MvnMatrix.
(* the support library of the source tie (tools/py2gallina_c18.py, harness/lv/c18_tie.py) is required, not imported, so that
   the targeted build compiles it; nothing in this file uses it *)
From LV Require Analytic.GenC18Tie.
Import ListNotations.
Open Scope R_scope.

Definition close (x v tol : R) : Prop := Rabs (x - v) <= tol.

(* a vector given as a list; the default is never read: the model only reads indices < length *)
Definition vec (l : list R) : nat -> R := fun i => nth i l 0.

(* a matrix given as the list of its rows *)
Definition matl (rows : list (list R)) : mat := fun a b => nth b (nth a rows []) 0.

(* the three constructors on eigenvalue lists (ascending, as eigh / eigvalsh return them) *)
Definition mvn_plain (lam : list R) (rk : option nat) (lp : option R) (tol : R) : mvnd :=
  ctor_prec (length lam) (vec lam) rk lp tol.
Definition mvn_pen (pen : list R) (var : R) (rk : option nat) (lp : option R) : mvnd :=
  from_penalty (length pen) (vec pen) var rk lp.
Definition mvn_smooth (pen : list R) (s : R) (rk : option nat) (lp : option R) : mvnd :=
  from_penalty_smooth (length pen) (vec pen) s rk lp.

(* which constructor-guard variant the tree under test implements (repaired: -1 <= rho <= 1) *)
Definition ctor_model := copula_ctor_batch (-1) 1.

Lemma gtb_t : forall t l, t < l -> gtb t l = true.
Proof. intros t l H. unfold gtb. destruct (Rlt_dec t l) as [H1|H1]; [ reflexivity | exfalso; lra ]. Qed.
Lemma gtb_f : forall t l, l <= t -> gtb t l = false.
Proof. intros t l H. unfold gtb. destruct (Rlt_dec t l) as [H1|H1]; [ exfalso; lra | reflexivity ]. Qed.
Lemma ltb_t : forall l t, l < t -> ltb l t = true.
Proof. intros l t H. unfold ltb. destruct (Rlt_dec l t) as [H1|H1]; [ reflexivity | exfalso; lra ]. Qed.
Lemma ltb_f : forall l t, t <= l -> ltb l t = false.
Proof. intros l t H. unfold ltb. destruct (Rlt_dec l t) as [H1|H1]; [ exfalso; lra | reflexivity ]. Qed.

Ltac c18_unfold :=
  cbv beta iota zeta delta
    [close vec mvn_plain mvn_pen mvn_smooth
     logpdf ctor_prec from_penalty from_penalty_smooth pen_rank pen_log_pdet d_rank d_log_pdet
     quad rsum ncount rank_of log_pdet_rank log_pdet_tol dim evals rank_arg lpd_arg tolv tol_default
     sqrt_pcov_diag sample_coord range_gaussian_logpdf normal_logpdf_prec pinv_diag
     length nth Nat.sub Nat.leb Nat.add INR
     matl logpdf_matrix quadform prec_of coords from_coords mat_vec
     asig asig_inv asig_fldj asig_ildj asig_deriv asig_inv_deriv
     copula_logpdf copula_logpdf_uv mvn_tril2_logpdf tril22 phi_log copula_closed_form].

(* decide the tolerance comparisons on the concrete eigenvalues *)
Ltac c18_dec :=
  repeat match goal with
  | |- context [gtb ?a ?b] => first [ rewrite (gtb_t a b) by lra | rewrite (gtb_f a b) by lra ]
  | |- context [ltb ?a ?b] => first [ rewrite (ltb_t a b) by lra | rewrite (ltb_f a b) by lra ]
  end.

Ltac c18_close := c18_unfold; c18_dec; c18_unfold; interval with (i_prec 64).
(* dependence within 2^-24 of +-1: 1 - rho^2 needs more than 64 bits to be evaluated without cancellation *)
Ltac c18_close_hp := c18_unfold; c18_dec; c18_unfold; interval with (i_prec 192).

(* constructor guard on concrete dependence values *)
Ltac c18_ctor :=
  cbv beta iota zeta delta [ctor_model copula_ctor_batch forallb in_bounds andb];
  repeat match goal with
  | |- context [Rle_dec ?a ?b] => destruct (Rle_dec a b); try (exfalso; lra)
  end;
  reflexivity.
