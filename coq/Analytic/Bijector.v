(* C14 - model of Var.transform / GraphBuilder.transform / auto_transform.

   Written from liesel/model/nodes.py (Var.transform, _transform_var_with_bijector_instance,
   _transform_var_with_bijector_class) and liesel/model/model.py (_transform_back,
   GraphBuilder.transform, build_model).  Definitions only; the proofs are in BijectorProofs.v.

   Trusted oracles (tfp): a bijector object is the record of its four methods;
   Invert swaps them; TransformedDistribution(dist, bij).log_prob(y) =
   dist.log_prob(bij.inverse(y)) + bij.inverse_log_det_jacobian(y), and its attribute
   .bijector is bij. *)
From Coq Require Import Reals List Bool String.
Import ListNotations.
Open Scope R_scope.

(* ------------------------------------------------------------------------------------------ *)
(* 1. bijectors and transformed distributions (the tfp layer)                                   *)
(* ------------------------------------------------------------------------------------------ *)
Record bijector := mkBij {
  fwd : R -> R;     (* forward *)
  inv : R -> R;     (* inverse *)
  fldj : R -> R;    (* forward_log_det_jacobian *)
  ildj : R -> R     (* inverse_log_det_jacobian *)
}.

Definition Invert (b : bijector) : bijector := mkBij (inv b) (fwd b) (ildj b) (fldj b).

(* tfb.Chain([b1, b2]): forward = b1.forward o b2.forward *)
Definition Chain (b1 b2 : bijector) : bijector :=
  mkBij (fun t => fwd b1 (fwd b2 t))
        (fun x => inv b2 (inv b1 x))
        (fun t => fldj b2 t + fldj b1 (fwd b2 t))
        (fun x => ildj b1 x + ildj b2 (inv b1 x)).

Definition transformed_logpdf (base : R -> R) (bij : bijector) (y : R) : R :=
  base (inv bij y) + ildj bij y.

(* a distribution instance: its log_prob and experimental_default_event_space_bijector() *)
Record dist_inst := mkDist {
  d_logpdf : R -> R;
  d_default : option bijector
}.

(* tfd.TransformedDistribution(base, bij) *)
Record tdist := mkTD { td_base : dist_inst; td_bij : bijector }.

Definition td_log_prob (td : tdist) (y : R) : R :=
  transformed_logpdf (d_logpdf (td_base td)) (td_bij td) y.

(* ------------------------------------------------------------------------------------------ *)
(* 2. the concrete bijectors (formulas as tfp implements them)                                  *)
(* ------------------------------------------------------------------------------------------ *)
Definition softplus (t : R) : R := ln (1 + exp t).
Definition sigmoid (t : R) : R := / (1 + exp (- t)).

Definition bIdentity : bijector := mkBij (fun t => t) (fun x => x) (fun _ => 0) (fun _ => 0).

Definition bExp : bijector := mkBij exp ln (fun t => t) (fun x => - ln x).

Definition bSoftplus : bijector :=
  mkBij softplus
        (fun x => ln (exp x - 1))
        (fun t => - softplus (- t))
        (fun x => - ln (1 - exp (- x))).

Definition bSigmoid : bijector :=
  mkBij sigmoid
        (fun x => ln x - ln (1 - x))
        (fun t => - softplus (- t) - softplus t)
        (fun x => - ln x - ln (1 - x)).

Definition bScale (c : R) : bijector :=
  mkBij (fun t => c * t) (fun x => x / c) (fun _ => ln (Rabs c)) (fun _ => - ln (Rabs c)).

Definition bShift (s : R) : bijector :=
  mkBij (fun t => t + s) (fun x => x - s) (fun _ => 0) (fun _ => 0).

Definition bReciprocal : bijector :=
  mkBij (fun t => / t) (fun x => / x) (fun t => - 2 * ln (Rabs t)) (fun x => - 2 * ln (Rabs x)).

(* InverseGamma's default event-space bijector in tfp 0.25: Chain([Reciprocal, Softplus]) *)
Definition bRecipSoftplus : bijector := Chain bReciprocal bSoftplus.

(* tfb.Softplus(hinge_softness=h) *)
Definition bSoftplusH (h : R) : bijector :=
  mkBij (fun t => h * softplus (t / h))
        (fun x => h * ln (exp (x / h) - 1))
        (fun t => - softplus (- (t / h)))
        (fun x => - ln (1 - exp (- (x / h)))).

(* tfb.Sigmoid(low=lo, high=hi) *)
Definition bSigmoidLH (lo hi : R) : bijector :=
  mkBij (fun t => lo + (hi - lo) * sigmoid t)
        (fun x => ln ((x - lo) / (hi - lo)) - ln (1 - (x - lo) / (hi - lo)))
        (fun t => - softplus (- t) - softplus t + ln (hi - lo))
        (fun x => - ln ((x - lo) / (hi - lo)) - ln (1 - (x - lo) / (hi - lo)) - ln (hi - lo)).

(* ------------------------------------------------------------------------------------------ *)
(* 3. the three code paths                                                                      *)
(* ------------------------------------------------------------------------------------------ *)
(* what the caller passed as `bijector` (with the bijector args collected in a value of type A) *)
Inductive bij_spec (A : Type) :=
| BInst (b : bijector)            (* a bijector instance *)
| BCls (B : A -> bijector)        (* a bijector class, instantiated with the bijector inputs *)
| BDefault.                       (* None: the distribution's default event-space bijector *)
Arguments BInst {A} b.
Arguments BCls {A} B.
Arguments BDefault {A}.

(* what a transformation leaves behind, as functions of the *current* values of the
   distribution inputs p, the bijector inputs a and the new variable's value t.
   None = the real code raises. *)
Record tresult (P A : Type) := mkTR {
  r_init : option R;                        (* initial value of the new variable *)
  r_logpdf : P -> A -> R -> option R;       (* Dist node of the new variable *)
  r_value : P -> A -> R -> option R         (* Calc that now is the original's value node *)
}.
Arguments mkTR {P A}.
Arguments r_init {P A}.
Arguments r_logpdf {P A}.
Arguments r_value {P A}.

Section Paths.
  Context {P A : Type}.
  Variable D : P -> dist_inst.     (* var.dist_node.distribution applied to the current inputs *)

  (* --- nodes.py:1577 _transform_var_with_bijector_instance ------------------------------- *)
  (* bijector_inv = Invert(bijector_inst);
     transform_dist(args) = TransformedDistribution(InputDist(args), bijector_inv) *)
  Definition inst_tdist (b : bijector) (p : P) : tdist := mkTD (D p) (Invert b).

  Definition transform_inst (b : bijector) (v0 : R) : tresult P A :=
    mkTR (Some (fwd (Invert b) v0))                               (* bijector_inv.forward(var.value) *)
         (fun p _ t => Some (td_log_prob (inst_tdist b p) t))
         (fun _ _ t => Some (fwd b t)).                            (* Calc(bijector_inst.forward, tvar) *)

  (* --- nodes.py:1609 _transform_var_with_bijector_class (bijector_cls may be None) --------- *)
  Definition cls_tdist (B : option (A -> bijector)) (p : P) (a : A) : option tdist :=
    let d := D p in
    match B with
    | None => match d_default d with
              | Some b => Some (mkTD d (Invert b))
              | None => None            (* Invert(None) raises *)
              end
    | Some Bc => Some (mkTD d (Invert (Bc a)))
    end.

  Definition transform_cls (B : option (A -> bijector)) (p0 : P) (a0 : A) (v0 : R) : tresult P A :=
    mkTR (* bijector_inv = dist_node_transformed.init_dist().bijector; bijector_inv.forward(var.value) *)
         (option_map (fun td => fwd (td_bij td) v0) (cls_tdist B p0 a0))
         (fun p a t => option_map (fun td => td_log_prob td t) (cls_tdist B p a))
         (* bijector_fn: transform_dist(dist_inputs, bijector_inputs).bijector.inverse(value) *)
         (fun p a t => option_map (fun td => inv (td_bij td) t) (cls_tdist B p a)).

  (* --- nodes.py:1127 Var.transform: dispatch ------------------------------------------------ *)
  Definition var_transform (bs : bij_spec A) (p0 : P) (a0 : A) (v0 : R) : tresult P A :=
    match bs with
    | BInst b => transform_inst b v0
    | BCls Bc => transform_cls (Some Bc) p0 a0 v0
    | BDefault => transform_cls None p0 a0 v0
    end.

  (* --- model.py:726 GraphBuilder.transform (deprecated) + model.py:73 _transform_back ------- *)
  Definition dep_tdist (bs : bij_spec A) (p : P) (a : A) : option tdist :=
    let d := D p in
    match bs with
    | BDefault => match d_default d with
                  | Some b => Some (mkTD d (Invert b))
                  | None => None
                  end
    | BInst b => Some (mkTD d (Invert b))
    | BCls Bc => Some (mkTD d (Invert (Bc a)))
    end.

  Definition transform_dep (bs : bij_spec A) (p0 : P) (a0 : A) (v0 : R) : tresult P A :=
    mkTR (* bijector_obj = dist_node_transformed.init_dist().bijector; bijector_obj.forward(var.value) *)
         (option_map (fun td => fwd (td_bij td) v0) (dep_tdist bs p0 a0))
         (fun p a t => option_map (fun td => td_log_prob td t) (dep_tdist bs p a))
         (* _transform_back: transformed_distribution(args).bijector.inverse(at) *)
         (fun p a t => option_map (fun td => inv (td_bij td) t) (dep_tdist bs p a)).

  (* the bijector that maps the new variable to the original one, at the current inputs *)
  Definition resolve (bs : bij_spec A) (p : P) (a : A) : option bijector :=
    match bs with
    | BInst b => Some b
    | BCls Bc => Some (Bc a)
    | BDefault => d_default (D p)
    end.
End Paths.

(* the three entry points *)
Inductive path := PVar | PDeprecated.

Definition transform_by {P A} (pa : path) (D : P -> dist_inst) (bs : bij_spec A) (p0 : P) (a0 : A) (v0 : R)
  : tresult P A :=
  match pa with
  | PVar => var_transform D bs p0 a0 v0
  | PDeprecated => transform_dep D bs p0 a0 v0
  end.

(* Model.log_prob as a function of the original variable's value x: the variable's own
   log-density plus everything else (`others x`: the summands of the other variables, which
   may read x, e.g. a child's distribution) *)
Definition model_lp_before (others : R -> R) (d : dist_inst) (x : R) : R :=
  others x + d_logpdf d x.

(* Model.log_prob after the transformation, as a function of the new variable's value t: the
   original variable has no distribution any more, its value is recomputed by its Calc *)
Definition model_lp_after {P A} (others : R -> R) (r : tresult P A) (p : P) (a : A) (t : R) : option R :=
  match r_value r p a t, r_logpdf r p a t with
  | Some x, Some l => Some (others x + l)
  | _, _ => None
  end.

(* ------------------------------------------------------------------------------------------ *)
(* 4. distribution families used by the correspondence (closed forms of tfp's log_prob)         *)
(* ------------------------------------------------------------------------------------------ *)
Definition normal_logpdf (loc scale x : R) : R :=
  - (((x - loc) / scale) * ((x - loc) / scale)) / 2 - ln scale - ln (2 * PI) / 2.

(* lgam = ln Gamma(conc), supplied as a number *)
Definition gamma_logpdf (conc rate lgam x : R) : R :=
  conc * ln rate - lgam + (conc - 1) * ln x - rate * x.

Definition invgamma_logpdf (conc scale lgam x : R) : R :=
  conc * ln scale - lgam - (conc + 1) * ln x - scale / x.

Definition exponential_logpdf (rate x : R) : R := ln rate - rate * x.

(* tfd.HalfNormal(scale) *)
Definition halfnormal_logpdf (scale x : R) : R :=
  ln 2 / 2 - ln PI / 2 - ln scale - (x / scale) * (x / scale) / 2.

(* tfd.HalfCauchy(loc, scale) *)
Definition halfcauchy_logpdf (loc scale x : R) : R :=
  ln 2 - ln PI - ln scale - ln (1 + ((x - loc) / scale) * ((x - loc) / scale)).

(* tfd.Beta(concentration1 = a, concentration0 = b); lbeta = ln B(a, b), supplied as a number *)
Definition beta_logpdf (a b lbeta x : R) : R :=
  (a - 1) * ln x + (b - 1) * ln (1 - x) - lbeta.

(* tfd.LogNormal(loc, scale) *)
Definition lognormal_logpdf (loc scale x : R) : R :=
  normal_logpdf loc scale (ln x) - ln x.

(* HalfCauchy's default event-space bijector in tfp 0.25: Chain([Shift(loc), Exp]) *)
Definition bShiftExp (loc : R) : bijector := Chain (bShift loc) bExp.

Definition dNormal (p : R * R) : dist_inst :=
  mkDist (normal_logpdf (fst p) (snd p)) (Some bIdentity).
Definition dHalfNormal (p : R) : dist_inst :=
  mkDist (halfnormal_logpdf p) (Some bSoftplus).
Definition dHalfCauchy (p : R * R) : dist_inst :=
  mkDist (halfcauchy_logpdf (fst p) (snd p)) (Some (bShiftExp (fst p))).
Definition dGamma (p : R * R * R) : dist_inst :=
  mkDist (gamma_logpdf (fst (fst p)) (snd (fst p)) (snd p)) (Some bSoftplus).
Definition dInvGamma (p : R * R * R) : dist_inst :=
  mkDist (invgamma_logpdf (fst (fst p)) (snd (fst p)) (snd p)) (Some bRecipSoftplus).
Definition dBeta (p : R * R * R) : dist_inst :=
  mkDist (beta_logpdf (fst (fst p)) (snd (fst p)) (snd p)) (Some bSigmoid).
Definition dExponential (p : R) : dist_inst :=
  mkDist (exponential_logpdf p) (Some bSoftplus).
Definition dLogNormal (p : R * R) : dist_inst :=
  mkDist (lognormal_logpdf (fst p) (snd p)) (Some bExp).
(* a distribution without a default event-space bijector (the method returns None) *)
Definition dNoDefault (p : R * R) : dist_inst :=
  mkDist (normal_logpdf (fst p) (snd p)) None.
(* a family whose log_prob at the evaluation point is supplied by the real code (oracle value) *)
Definition dOracle (db : option bijector) (l : R) : dist_inst := mkDist (fun _ => l) db.

(* ------------------------------------------------------------------------------------------ *)
(* 5. structural side: flags of the variables                                                   *)
(* ------------------------------------------------------------------------------------------ *)
Record var := mkVar {
  v_name : string;
  v_parameter : bool;
  v_observed : bool;
  v_has_dist : bool;
  v_weak : bool;
  v_auto : bool;          (* auto_transform *)
  v_default : bool        (* the distribution offers a default event-space bijector *)
}.

(* shape of the `bijector` argument and whether bijector args/kwargs were given *)
Inductive bkind := KInst (args : bool) | KCls (args : bool) | KDefault | KOther.

Inductive terr :=
| EWeak | ENoDist | EClsNoArgs | EInstArgs | ENoDefault | EBadType | EDupName.

Definition tname (n : string) : string := (n ++ "_transformed")%string.

Definition orig_after (v : var) : var :=
  mkVar (v_name v) false (v_observed v) false true false false.

Definition new_var (v : var) : var :=
  mkVar (tname (v_name v)) (v_parameter v) false true false false true.

(* nodes.py:1238-1289 *)
Definition var_transform_s (k : bkind) (v : var) : terr + (var * var) :=
  if v_weak v then inl EWeak
  else if negb (v_has_dist v) then inl ENoDist
  else match k with
       | KCls false => inl EClsNoArgs
       | KDefault => if v_default v then inr (orig_after v, new_var v) else inl ENoDefault
       | KCls true => inr (orig_after v, new_var v)
       | KInst true => inl EInstArgs
       | KInst false => inr (orig_after v, new_var v)
       | KOther => inl EBadType
       end.

(* model.py:806-942; a class without arguments only warns there *)
Definition gb_transform_s (k : bkind) (v : var) : terr + (var * var) :=
  if v_weak v then inl EWeak
  else if negb (v_has_dist v) then inl ENoDist
  else match k with
       | KInst true => inl EInstArgs
       | KOther => inl EBadType
       | KDefault => if v_default v then inr (orig_after v, new_var v) else inl ENoDefault
       | _ => inr (orig_after v, new_var v)
       end.

(* model.py:476-484: for var in _vars: if var.auto_transform: var.transform(bijector=None) *)
Fixpoint auto_loop (vs : list var) : terr + list var :=
  match vs with
  | [] => inr []
  | v :: rest =>
      if v_auto v then
        match var_transform_s KDefault v with
        | inl e => inl e
        | inr (v', tv) =>
            match auto_loop rest with
            | inl e => inl e
            | inr out => inr (v' :: tv :: out)
            end
        end
      else
        match auto_loop rest with
        | inl e => inl e
        | inr out => inr (v :: out)
        end
  end.

Fixpoint nodupb (l : list string) : bool :=
  match l with
  | [] => true
  | x :: r => negb (existsb (String.eqb x) r) && nodupb r
  end.

(* build_model: auto-transform loop, then Model() rejects duplicate names *)
Definition build_model_s (vs : list var) : terr + list var :=
  match auto_loop vs with
  | inl e => inl e
  | inr out => if nodupb (map v_name out) then inr out else inl EDupName
  end.
