(* C14 - model of Var.transform / GraphBuilder.transform / auto_transform.

   Written from liesel/model/nodes.py (Var.transform, _transform_var_with_bijector_instance,
   _transform_var_with_bijector_class) and liesel/model/model.py (_transform_back,
   GraphBuilder.transform, build_model).  Definitions only; the proofs are in BijectorProofs.v.

   Trusted oracles (tfp): a bijector object is the record of its four methods;
   Invert swaps them; TransformedDistribution(dist, bij).log_prob(y) =
   dist.log_prob(bij.inverse(y)) + bij.inverse_log_det_jacobian(y), and its attribute
   .bijector is bij. *)
From Coq Require Import Reals List Bool String.
Import ListNotations.
Open Scope R_scope.

(* ------------------------------------------------------------------------------------------ *)
(* 1. bijectors and transformed distributions (the tfp layer)                                   *)
(* ------------------------------------------------------------------------------------------ *)
Record bijector := mkBij {
  fwd : R -> R;     (* forward *)
  inv : R -> R;     (* inverse *)
  fldj : R -> R;    (* forward_log_det_jacobian *)
  ildj : R -> R     (* inverse_log_det_jacobian *)
}.

Definition Invert (b : bijector) : bijector := mkBij (inv b) (fwd b) (ildj b) (fldj b).

(* tfb.Chain([b1, b2]): forward = b1.forward o b2.forward *)
Definition Chain (b1 b2 : bijector) : bijector :=
  mkBij (fun t => fwd b1 (fwd b2 t))
        (fun x => inv b2 (inv b1 x))
        (fun t => fldj b2 t + fldj b1 (fwd b2 t))
        (fun x => ildj b1 x + ildj b2 (inv b1 x)).

Definition transformed_logpdf (base : R -> R) (bij : bijector) (y : R) : R :=
  base (inv bij y) + ildj bij y.

(* a distribution instance: its log_prob and experimental_default_event_space_bijector() *)
Record dist_inst := mkDist {
  d_logpdf : R -> R;
  d_default : option bijector
}.

(* tfd.TransformedDistribution(base, bij) *)
Record tdist := mkTD { td_base : dist_inst; td_bij : bijector }.

Definition td_log_prob (td : tdist) (y : R) : R :=
  transformed_logpdf (d_logpdf (td_base td)) (td_bij td) y.

(* ------------------------------------------------------------------------------------------ *)
(* 2. the concrete bijectors (formulas as tfp implements them)                                  *)
(* ------------------------------------------------------------------------------------------ *)
Definition softplus (t : R) : R := ln (1 + exp t).
Definition sigmoid (t : R) : R := / (1 + exp (- t)).

Definition bIdentity : bijector := mkBij (fun t => t) (fun x => x) (fun _ => 0) (fun _ => 0).

Definition bExp : bijector := mkBij exp ln (fun t => t) (fun x => - ln x).

Definition bSoftplus : bijector :=
  mkBij softplus
        (fun x => ln (exp x - 1))
        (fun t => - softplus (- t))
        (fun x => - ln (1 - exp (- x))).

Definition bSigmoid : bijector :=
  mkBij sigmoid
        (fun x => ln x - ln (1 - x))
        (fun t => - softplus (- t) - softplus t)
        (fun x => - ln x - ln (1 - x)).

Definition bScale (c : R) : bijector :=
  mkBij (fun t => c * t) (fun x => x / c) (fun _ => ln (Rabs c)) (fun _ => - ln (Rabs c)).

Definition bShift (s : R) : bijector :=
  mkBij (fun t => t + s) (fun x => x - s) (fun _ => 0) (fun _ => 0).

Definition bReciprocal : bijector :=
  mkBij (fun t => / t) (fun x => / x) (fun t => - 2 * ln (Rabs t)) (fun x => - 2 * ln (Rabs x)).

(* InverseGamma's default event-space bijector in tfp 0.25: Chain([Reciprocal, Softplus]) *)
Definition bRecipSoftplus : bijector := Chain bReciprocal bSoftplus.

(* tfb.Softplus(hinge_softness=h) *)
Definition bSoftplusH (h : R) : bijector :=
  mkBij (fun t => h * softplus (t / h))
        (fun x => h * ln (exp (x / h) - 1))
        (fun t => - softplus (- (t / h)))
        (fun x => - ln (1 - exp (- (x / h)))).

(* tfb.Sigmoid(low=lo, high=hi) *)
Definition bSigmoidLH (lo hi : R) : bijector :=
  mkBij (fun t => lo + (hi - lo) * sigmoid t)
        (fun x => ln ((x - lo) / (hi - lo)) - ln (1 - (x - lo) / (hi - lo)))
        (fun t => - softplus (- t) - softplus t + ln (hi - lo))
        (fun x => - ln ((x - lo) / (hi - lo)) - ln (1 - (x - lo) / (hi - lo)) - ln (hi - lo)).

(* ------------------------------------------------------------------------------------------ *)
(* 3. the three code paths                                                                      *)
(* ------------------------------------------------------------------------------------------ *)
(* what the caller passed as `bijector` (with the bijector args collected in a value of type A) *)
Inductive bij_spec (A : Type) :=
| BInst (b : bijector)            (* a bijector instance *)
| BCls (B : A -> bijector)        (* a bijector class, instantiated with the bijector inputs *)
| BDefault.                       (* None: the distribution's default event-space bijector *)
Arguments BInst {A} b.
Arguments BCls {A} B.
Arguments BDefault {A}.

(* what a transformation leaves behind, as functions of the *current* values of the
   distribution inputs p, the bijector inputs a and the new variable's value t.
   None = the real code raises. *)
Record tresult (P A : Type) := mkTR {
  r_init : option R;                        (* initial value of the new variable *)
  r_logpdf : P -> A -> R -> option R;       (* Dist node of the new variable *)
  r_value : P -> A -> R -> option R         (* Calc that now is the original's value node *)
}.
Arguments mkTR {P A}.
Arguments r_init {P A}.
Arguments r_logpdf {P A}.
Arguments r_value {P A}.

Section Paths.
  Context {P A : Type}.
  Variable D : P -> dist_inst.     (* var.dist_node.distribution applied to the current inputs *)

  (* --- nodes.py:1577 _transform_var_with_bijector_instance ------------------------------- *)
  (* bijector_inv = Invert(bijector_inst);
     transform_dist(args) = TransformedDistribution(InputDist(args), bijector_inv) *)
  Definition inst_tdist (b : bijector) (p : P) : tdist := mkTD (D p) (Invert b).

  Definition transform_inst (b : bijector) (v0 : R) : tresult P A :=
    mkTR (Some (fwd (Invert b) v0))                               (* bijector_inv.forward(var.value) *)
         (fun p _ t => Some (td_log_prob (inst_tdist b p) t))
         (fun _ _ t => Some (fwd b t)).                            (* Calc(bijector_inst.forward, tvar) *)

  (* --- nodes.py:1609 _transform_var_with_bijector_class (bijector_cls may be None) --------- *)
  Definition cls_tdist (B : option (A -> bijector)) (p : P) (a : A) : option tdist :=
    let d := D p in
    match B with
    | None => match d_default d with
              | Some b => Some (mkTD d (Invert b))
              | None => None            (* Invert(None) raises *)
              end
    | Some Bc => Some (mkTD d (Invert (Bc a)))
    end.

  Definition transform_cls (B : option (A -> bijector)) (p0 : P) (a0 : A) (v0 : R) : tresult P A :=
    mkTR (* bijector_inv = dist_node_transformed.init_dist().bijector; bijector_inv.forward(var.value) *)
         (option_map (fun td => fwd (td_bij td) v0) (cls_tdist B p0 a0))
         (fun p a t => option_map (fun td => td_log_prob td t) (cls_tdist B p a))
         (* bijector_fn: transform_dist(dist_inputs, bijector_inputs).bijector.inverse(value) *)
         (fun p a t => option_map (fun td => inv (td_bij td) t) (cls_tdist B p a)).

  (* --- nodes.py:1127 Var.transform: dispatch ------------------------------------------------ *)
  Definition var_transform (bs : bij_spec A) (p0 : P) (a0 : A) (v0 : R) : tresult P A :=
    match bs with
    | BInst b => transform_inst b v0
    | BCls Bc => transform_cls (Some Bc) p0 a0 v0
    | BDefault => transform_cls None p0 a0 v0
    end.

  (* --- model.py:726 GraphBuilder.transform (deprecated) + model.py:73 _transform_back ------- *)
  Definition dep_tdist (bs : bij_spec A) (p : P) (a : A) : option tdist :=
    let d := D p in
    match bs with
    | BDefault => match d_default d with
                  | Some b => Some (mkTD d (Invert b))
                  | None => None
                  end
    | BInst b => Some (mkTD d (Invert b))
    | BCls Bc => Some (mkTD d (Invert (Bc a)))
    end.

  Definition transform_dep (bs : bij_spec A) (p0 : P) (a0 : A) (v0 : R) : tresult P A :=
    mkTR (* bijector_obj = dist_node_transformed.init_dist().bijector; bijector_obj.forward(var.value) *)
         (option_map (fun td => fwd (td_bij td) v0) (dep_tdist bs p0 a0))
         (fun p a t => option_map (fun td => td_log_prob td t) (dep_tdist bs p a))
         (* _transform_back: transformed_distribution(args).bijector.inverse(at) *)
         (fun p a t => option_map (fun td => inv (td_bij td) t) (dep_tdist bs p a)).

  (* the bijector that maps the new variable to the original one, at the current inputs *)
  Definition resolve (bs : bij_spec A) (p : P) (a : A) : option bijector :=
    match bs with
    | BInst b => Some b
    | BCls Bc => Some (Bc a)
    | BDefault => d_default (D p)
    end.
End Paths.

(* the three entry points *)
Inductive path := PVar | PDeprecated.

Definition transform_by {P A} (pa : path) (D : P -> dist_inst) (bs : bij_spec A) (p0 : P) (a0 : A) (v0 : R)
  : tresult P A :=
  match pa with
  | PVar => var_transform D bs p0 a0 v0
  | PDeprecated => transform_dep D bs p0 a0 v0
  end.

(* Model.log_prob as a function of the original variable's value x: the variable's own
   log-density plus everything else (`others x`: the summands of the other variables, which
   may read x, e.g. a child's distribution) *)
Definition model_lp_before (others : R -> R) (d : dist_inst) (x : R) : R :=
  others x + d_logpdf d x.

(* Model.log_prob after the transformation, as a function of the new variable's value t: the
   original variable has no distribution any more, its value is recomputed by its Calc *)
Definition model_lp_after {P A} (others : R -> R) (r : tresult P A) (p : P) (a : A) (t : R) : option R :=
  match r_value r p a t, r_logpdf r p a t with
  | Some x, Some l => Some (others x + l)
  | _, _ => None
  end.

(* ------------------------------------------------------------------------------------------ *)
(* 3b. chained transformations: the new variable is transformed again                           *)
(* ------------------------------------------------------------------------------------------ *)
(* The new variable of a transformation carries Dist(transform_dist, ...), i.e. a
   TransformedDistribution; transforming it again runs the same code with that distribution as
   `var.dist_node.distribution`.  tfp: TransformedDistribution(d, bij)'s default event-space
   bijector is bij(d's default) = Chain([bij, default of d]) (None if d has none). *)
Definition td_default (td : tdist) : option bijector :=
  option_map (fun db => Chain (td_bij td) db) (d_default (td_base td)).

Definition dist_of_td (td : tdist) : dist_inst := mkDist (td_log_prob td) (td_default td).

Section Chained.
  Context {P A : Type}.
  Variable D : P -> dist_inst.

  (* one link of the chain: the entry point used and the bijector argument *)
  Record link := mkLink { l_path : path; l_spec : bij_spec A }.

  (* the distribution object the Dist node of the new variable builds, given the distribution d
     of the variable being transformed (already instantiated at the current inputs) and the
     current bijector inputs a; None: the code raises *)
  Definition link_tdist (l : link) (d : dist_inst) (a : A) : option tdist :=
    match l_path l with
    | PVar => match l_spec l with
              | BInst b => Some (inst_tdist (fun _ : unit => d) b tt)
              | BCls Bc => cls_tdist (fun _ : unit => d) (Some Bc) tt a
              | BDefault => cls_tdist (fun _ : unit => d) None tt a
              end
    | PDeprecated => dep_tdist (fun _ : unit => d) (l_spec l) tt a
    end.

  (* links and their bijector inputs, NEWEST first; the distribution of the newest variable *)
  Fixpoint chain_dist (ls : list link) (p : P) (args : list A) : option dist_inst :=
    match ls, args with
    | [], [] => Some (D p)
    | l :: older, a :: args' =>
        match chain_dist older p args' with
        | Some d => option_map dist_of_td (link_tdist l d a)
        | None => None
        end
    | _, _ => None
    end.

  Definition chain_logpdf (ls : list link) (p : P) (args : list A) (t : R) : option R :=
    option_map (fun d => d_logpdf d t) (chain_dist ls p args).

  (* values of all older variables (nearest first, the original variable last) when the newest
     variable has the value t: every variable's value node is the Calc of its own transformation *)
  Fixpoint chain_up (ls : list link) (p : P) (args : list A) (t : R) : option (list R) :=
    match ls, args with
    | [], [] => Some []
    | l :: older, a :: args' =>
        match chain_dist older p args' with
        | Some d =>
            match r_value (transform_by (l_path l) (fun _ : unit => d) (l_spec l) tt a 0) tt a t with
            | Some v => option_map (cons v) (chain_up older p args' v)
            | None => None
            end
        | None => None
        end
    | _, _ => None
    end.

  (* initial value of the newest variable: the transformations are applied oldest first, each to
     the current value of the variable it transforms *)
  Fixpoint chain_init (ls : list link) (p : P) (args : list A) (v0 : R) : option R :=
    match ls, args with
    | [], [] => Some v0
    | l :: older, a :: args' =>
        match chain_init older p args' v0, chain_dist older p args' with
        | Some v, Some d => r_init (transform_by (l_path l) (fun _ : unit => d) (l_spec l) tt a v)
        | _, _ => None
        end
    | _, _ => None
    end.

  (* the bijectors the links resolve to at the current inputs (newest first) *)
  Fixpoint chain_resolve (ls : list link) (p : P) (args : list A) : option (list bijector) :=
    match ls, args with
    | [], [] => Some []
    | l :: older, a :: args' =>
        match chain_dist older p args', chain_resolve older p args' with
        | Some d, Some bs => option_map (fun b => b :: bs) (resolve (fun _ : unit => d) (l_spec l) tt a)
        | _, _ => None
        end
    | _, _ => None
    end.
  (* --- code variant of model.py:_transform_back -------------------------------------------- *)
  (* Proxy   (repaired, commit b548a17): Calc(fn, var_transformed, ...) - the original variable reads
             the new VARIABLE (its VarValue proxy), which follows a later replacement of the value node;
     RawNode (as found): Calc(fn, var_transformed.value_node, ...) - it reads the Value node the new
             variable had at that moment.  When the new variable is transformed again its value node
             is replaced by a Calc; the old Value node is orphaned and keeps the value the variable had
             then (its initial value, computed from the inputs p0 / args0 / v0 at transform time). *)
  Inductive binding := Proxy | RawNode.

  (* chain_up with the variant: `newest` says whether the head link's new variable is the one being
     assigned (its value node was never replaced) *)
  Fixpoint chain_up_v (bd : binding) (newest : bool) (ls : list link) (p0 : P) (args0 : list A) (v0 : R)
      (p : P) (args : list A) (t : R) : option (list R) :=
    match ls, args, args0 with
    | [], [], [] => Some []
    | l :: older, a :: args', a0 :: args0' =>
        let tin :=
          if newest then Some t
          else match bd, l_path l with
               | RawNode, PDeprecated => chain_init (l :: older) p0 (a0 :: args0') v0   (* frozen *)
               | _, _ => Some t
               end in
        match tin, chain_dist older p args' with
        | Some ti, Some d =>
            match r_value (transform_by (l_path l) (fun _ : unit => d) (l_spec l) tt a 0) tt a ti with
            | Some v => option_map (cons v) (chain_up_v bd false older p0 args0' v0 p args' v)
            | None => None
            end
        | _, _ => None
        end
    | _, _, _ => None
    end.
End Chained.
Arguments mkLink {A}.
Arguments l_path {A}.
Arguments l_spec {A}.

(* composition of the resolved bijectors (newest first): newest variable -> original variable *)
Fixpoint compose (bs : list bijector) : bijector :=
  match bs with
  | [] => bIdentity
  | b :: older => Chain (compose older) b
  end.

(* images of t under the successive forwards: values of the older variables, nearest first *)
Fixpoint images (bs : list bijector) (t : R) : list R :=
  match bs with
  | [] => []
  | b :: older => fwd b t :: images older (fwd b t)
  end.

(* ------------------------------------------------------------------------------------------ *)
(* 4. distribution families used by the correspondence (closed forms of tfp's log_prob)         *)
(* ------------------------------------------------------------------------------------------ *)
Definition normal_logpdf (loc scale x : R) : R :=
  - (((x - loc) / scale) * ((x - loc) / scale)) / 2 - ln scale - ln (2 * PI) / 2.

(* lgam = ln Gamma(conc), supplied as a number *)
Definition gamma_logpdf (conc rate lgam x : R) : R :=
  conc * ln rate - lgam + (conc - 1) * ln x - rate * x.

Definition invgamma_logpdf (conc scale lgam x : R) : R :=
  conc * ln scale - lgam - (conc + 1) * ln x - scale / x.

Definition exponential_logpdf (rate x : R) : R := ln rate - rate * x.

(* tfd.HalfNormal(scale) *)
Definition halfnormal_logpdf (scale x : R) : R :=
  ln 2 / 2 - ln PI / 2 - ln scale - (x / scale) * (x / scale) / 2.

(* tfd.HalfCauchy(loc, scale) *)
Definition halfcauchy_logpdf (loc scale x : R) : R :=
  ln 2 - ln PI - ln scale - ln (1 + ((x - loc) / scale) * ((x - loc) / scale)).

(* tfd.Beta(concentration1 = a, concentration0 = b); lbeta = ln B(a, b), supplied as a number *)
Definition beta_logpdf (a b lbeta x : R) : R :=
  (a - 1) * ln x + (b - 1) * ln (1 - x) - lbeta.

(* tfd.LogNormal(loc, scale) *)
Definition lognormal_logpdf (loc scale x : R) : R :=
  normal_logpdf loc scale (ln x) - ln x.

(* HalfCauchy's default event-space bijector in tfp 0.25: Chain([Shift(loc), Exp]) *)
Definition bShiftExp (loc : R) : bijector := Chain (bShift loc) bExp.

Definition dNormal (p : R * R) : dist_inst :=
  mkDist (normal_logpdf (fst p) (snd p)) (Some bIdentity).
Definition dHalfNormal (p : R) : dist_inst :=
  mkDist (halfnormal_logpdf p) (Some bSoftplus).
Definition dHalfCauchy (p : R * R) : dist_inst :=
  mkDist (halfcauchy_logpdf (fst p) (snd p)) (Some (bShiftExp (fst p))).
Definition dGamma (p : R * R * R) : dist_inst :=
  mkDist (gamma_logpdf (fst (fst p)) (snd (fst p)) (snd p)) (Some bSoftplus).
Definition dInvGamma (p : R * R * R) : dist_inst :=
  mkDist (invgamma_logpdf (fst (fst p)) (snd (fst p)) (snd p)) (Some bRecipSoftplus).
Definition dBeta (p : R * R * R) : dist_inst :=
  mkDist (beta_logpdf (fst (fst p)) (snd (fst p)) (snd p)) (Some bSigmoid).
Definition dExponential (p : R) : dist_inst :=
  mkDist (exponential_logpdf p) (Some bSoftplus).
Definition dLogNormal (p : R * R) : dist_inst :=
  mkDist (lognormal_logpdf (fst p) (snd p)) (Some bExp).
(* a distribution without a default event-space bijector (the method returns None) *)
Definition dNoDefault (p : R * R) : dist_inst :=
  mkDist (normal_logpdf (fst p) (snd p)) None.
(* a family whose log_prob at the evaluation point is supplied by the real code (oracle value) *)
Definition dOracle (db : option bijector) (l : R) : dist_inst := mkDist (fun _ => l) db.

(* ------------------------------------------------------------------------------------------ *)
(* 5. structural side: flags of the variables                                                   *)
(* ------------------------------------------------------------------------------------------ *)
Record var := mkVar {
  v_name : string;
  v_parameter : bool;
  v_observed : bool;
  v_has_dist : bool;
  v_weak : bool;
  v_auto : bool;          (* auto_transform *)
  v_default : bool        (* the distribution offers a default event-space bijector *)
}.

(* shape of the `bijector` argument and whether bijector args/kwargs were given *)
(* KClsBad: a bijector class with arguments its constructor rejects (e.g. a misspelt keyword) *)
Inductive bkind := KInst (args : bool) | KCls (args : bool) | KDefault | KOther | KClsBad.

Inductive terr :=
| EWeak | ENoDist | EClsNoArgs | EInstArgs | ENoDefault | EBadType | EDupName | EBadArgs.

Definition tname (n : string) : string := (n ++ "_transformed")%string.

Definition orig_after (v : var) : var :=
  mkVar (v_name v) false (v_observed v) false true false false.

(* the TransformedDistribution offers a default event-space bijector iff the base distribution does *)
Definition new_var (v : var) : var :=
  mkVar (tname (v_name v)) (v_parameter v) false true false false (v_default v).

(* nodes.py:1238-1289 *)
Definition var_transform_s (k : bkind) (v : var) : terr + (var * var) :=
  if v_weak v then inl EWeak
  else if negb (v_has_dist v) then inl ENoDist
  else match k with
       | KCls false => inl EClsNoArgs
       | KDefault => if v_default v then inr (orig_after v, new_var v) else inl ENoDefault
       | KCls true => inr (orig_after v, new_var v)
       | KInst true => inl EInstArgs
       | KInst false => inr (orig_after v, new_var v)
       | KOther => inl EBadType
       | KClsBad => inl EBadArgs       (* dist_node_transformed.init_dist() raises *)
       end.

(* model.py:806-942; a class without arguments only warns there *)
Definition gb_transform_s (k : bkind) (v : var) : terr + (var * var) :=
  if v_weak v then inl EWeak
  else if negb (v_has_dist v) then inl ENoDist
  else match k with
       | KInst true => inl EInstArgs
       | KOther => inl EBadType
       | KClsBad => inl EBadArgs
       | KDefault => if v_default v then inr (orig_after v, new_var v) else inl ENoDefault
       | _ => inr (orig_after v, new_var v)
       end.

(* model.py:476-484: for var in _vars: if var.auto_transform: var.transform(bijector=None) *)
Fixpoint auto_loop (vs : list var) : terr + list var :=
  match vs with
  | [] => inr []
  | v :: rest =>
      if v_auto v then
        match var_transform_s KDefault v with
        | inl e => inl e
        | inr (v', tv) =>
            match auto_loop rest with
            | inl e => inl e
            | inr out => inr (v' :: tv :: out)
            end
        end
      else
        match auto_loop rest with
        | inl e => inl e
        | inr out => inr (v :: out)
        end
  end.

Fixpoint nodupb (l : list string) : bool :=
  match l with
  | [] => true
  | x :: r => negb (existsb (String.eqb x) r) && nodupb r
  end.

(* build_model: auto-transform loop, then Model() rejects duplicate names *)
Definition build_model_s (vs : list var) : terr + list var :=
  match auto_loop vs with
  | inl e => inl e
  | inr out => if nodupb (map v_name out) then inr out else inl EDupName
  end.

(* chained transformations, structural side: entry points (true: Var.transform) and argument
   shapes OLDEST first; result: the original, the intermediate variables, the newest variable *)
Fixpoint chain_s (ks : list (bool * bkind)) (v : var) : terr + list var :=
  match ks with
  | [] => inr [v]
  | (vp, k) :: rest =>
      match (if vp then var_transform_s k v else gb_transform_s k v) with
      | inl e => inl e
      | inr (v', tv) =>
          match chain_s rest tv with
          | inl e => inl e
          | inr l => inr (v' :: l)
          end
      end
  end.

(* ---- refused transformations and continued use ----------------------------------------------- *)
(* What a refused call leaves behind.  Both entry points set `auto_transform = False` ("avoid infinite
   recursion") before the later checks; nothing else is touched before an exception:
   Var.transform:          weak / no distribution / class without arguments are checked before that line;
   GraphBuilder.transform: weak / no distribution / instance with arguments are checked before it. *)
Definition clear_auto (v : var) : var :=
  mkVar (v_name v) (v_parameter v) (v_observed v) (v_has_dist v) (v_weak v) false (v_default v).

Definition refusal_state (var_path : bool) (e : terr) (v : var) : var :=
  if var_path then
    match e with EWeak | ENoDist | EClsNoArgs => v | _ => clear_auto v end
  else
    match e with EWeak | ENoDist | EInstArgs => v | _ => clear_auto v end.

Definition transform_s (var_path : bool) (k : bkind) (v : var) : terr + (var * var) :=
  if var_path then var_transform_s k v else gb_transform_s k v.

(* one call: the variable afterwards and the new variable if the call succeeded *)
Definition attempt_s (var_path : bool) (k : bkind) (v : var) : var * option var :=
  match transform_s var_path k v with
  | inl e => (refusal_state var_path e v, None)
  | inr (v', tv) => (v', Some tv)
  end.

(* a history of calls on the same variable, up to and including the first successful one *)
Fixpoint history_s (ks : list (bool * bkind)) (v : var) : var * option var :=
  match ks with
  | [] => (v, None)
  | (vp, k) :: rest =>
      match attempt_s vp k v with
      | (v1, None) => history_s rest v1
      | r => r
      end
  end.
