(* C13 - model of the two Gibbs kernels (liesel/model/distreg.py: tau2_gibbs_kernel,
   liesel/model/goose.py: finite_discrete_gibbs_kernel) and of the densities they refer to.
   Real-valued (Coq Reals).  No proofs in this file. *)
From Coq Require Import Reals List.
Import ListNotations.
Open Scope R_scope.

(* ------------------------------------------------------------------------------------------
   Densities.  ln Gamma is an opaque function lgam : R -> R (a Section variable, never an
   assumption of the global context): it only ever contributes a constant that depends on neither
   the variance t nor the gamma variate g.
   ------------------------------------------------------------------------------------------ *)
Section LogGamma.
  Variable lgam : R -> R.

  (* tfd.InverseGamma(concentration=a, scale=b).log_prob(t) *)
  Definition ig_logpdf (a b t : R) : R := a * ln b - lgam a - (a + 1) * ln t - b / t.

  (* log-density of Gamma(shape a, rate) at g;  jax.random.gamma(key, a) has rate 1 *)
  Definition gamma_logpdf (a rate g : R) : R := a * ln rate - lgam a + (a - 1) * ln g - rate * g.
End LogGamma.

(* MultivariateNormalDegenerate.from_penalty(loc=0, var=t, pen=K, rank=r).log_prob(beta) as a
   function of the variance t.  Code:  prec = K / t;  log_pdet_prec = lpd - r * log t;
     prob1 = - beta' prec beta = - q / t;   prob2 = r * log(2 pi) - log_pdet_prec;
     0.5 * (prob1 - prob2)
   with q = beta' K beta, r = rank (value of the rank node), lpd = log pdet K. *)
Definition mvn_pen_logpdf (q r lpd t : R) : R :=
  / 2 * ((- q / t) - (r * ln (2 * PI) - (lpd - r * ln t))).

(* quadratic form  beta @ K @ beta  on lists (K as list of rows) *)
Definition dot (u v : list R) : R :=
  fold_right Rplus 0 (map (fun p => fst p * snd p) (combine u v)).
Definition quad_form (beta : list R) (K : list (list R)) : R :=
  dot beta (map (fun row => dot row beta) K).

(* ------------------------------------------------------------------------------------------
   tau2_gibbs_kernel.transition:
     a_gibbs = a_prior + 0.5 * rank
     b_gibbs = b_prior + 0.5 * (beta @ K @ beta)
     draw    = b_gibbs / jax.random.gamma(prng_key, a_gibbs)
   ------------------------------------------------------------------------------------------ *)
Definition a_gibbs (a r : R) : R := a + / 2 * r.
Definition b_gibbs (b q : R) : R := b + / 2 * q.
Definition tau2_draw (bg g : R) : R := bg / g.

Record tau2_step := { ts_concentration : R;   (* what the gamma sampler is asked for *)
                      ts_draw : R }.          (* new value of tau2, g = the gamma variate *)
Definition tau2_transition (a b r : R) (beta : list R) (K : list (list R)) (g : R) : tau2_step :=
  {| ts_concentration := a_gibbs a r;
     ts_draw := tau2_draw (b_gibbs b (quad_form beta K)) g |}.

(* the model's joint log-density as a function of t = tau2: IG prior of tau2, the degenerate
   normal prior of beta given tau2, and everything else (`rest`: likelihood, other priors), which
   does not involve t *)
Definition joint_tau2 (lgam : R -> R) (a b q r lpd rest t : R) : R :=
  ig_logpdf lgam a b t + mvn_pen_logpdf q r lpd t + rest.

(* joint_tau2 t1 - joint_tau2 t0 in closed form (no ln Gamma, no lpd, no rest): what the
   correspondence compares with differences of the real model's log_prob along tau2
   (GibbsProofs.cond_diff_spec proves it is that difference) *)
Definition cond_diff (a b q r t0 t1 : R) : R :=
  - (a + 1) * (ln t1 - ln t0) - b * (/ t1 - / t0)
  + / 2 * (- q * (/ t1 - / t0) - r * (ln t1 - ln t0)).

(* the same difference for an inverse-gamma log-density with parameters (a', b') *)
Definition ig_diff (a' b' t0 t1 : R) : R := - (a' + 1) * (ln t1 - ln t0) - b' * (/ t1 - / t0).

(* ------------------------------------------------------------------------------------------
   finite_discrete_gibbs_kernel.transition_fn, over an abstract model state S, value type V,
   assignment `set_var s o` (model.vars[name].value = o; model.update("_model_log_prob")) and
   log-probability function `log_prob` (model.log_prob):
     conditional_log_probs = vmap(fun o => log_prob (set_var s o)) outcomes
     draw_index = categorical(key, logits = conditional_log_probs)
     draw = outcomes[draw_index]
   ------------------------------------------------------------------------------------------ *)
Definition sum_exp (ls : list R) : R := fold_right Rplus 0 (map exp ls).
Definition cat_weight (ls : list R) (l : R) : R := exp l / sum_exp ls.
(* probabilities with which jax.random.categorical(logits = ls) returns index 0, 1, ... *)
Definition cat_weights (ls : list R) : list R := map (cat_weight ls) ls.

Section Discrete.
  Variables S V : Type.
  Variable set_var : S -> V -> S.
  Variable log_prob : S -> R.

  Definition logits (s : S) (outcomes : list V) : list R :=
    map (fun o => log_prob (set_var s o)) outcomes.

  (* the kernel: the distribution over indices it samples from, and the value it returns *)
  Definition disc_weights (s : S) (outcomes : list V) : list R := cat_weights (logits s outcomes).
  Definition disc_draw (outcomes : list V) (idx : nat) : option V := nth_error outcomes idx.

  (* specification: joint density as a function of the variable, and its normalisation *)
  Definition joint (s : S) (o : V) : R := exp (log_prob (set_var s o)).
  Definition full_conditional (s : S) (outcomes : list V) : list R :=
    map (fun o => joint s o / fold_right Rplus 0 (map (joint s) outcomes)) outcomes.
End Discrete.

(* closed forms used by the correspondence of the discrete kernel: log-densities of the
   downstream likelihoods of the generated models *)
Definition normal_logpdf (m s y : R) : R := - ln s - / 2 * ln (2 * PI) - (y - m) * (y - m) / (2 * (s * s)).
(* Poisson log-pmf up to the term - ln n!, which does not depend on the rate *)
Definition poisson_logker (lam n : R) : R := n * ln lam - lam.
Definition sumR (l : list R) : R := fold_right Rplus 0 l.
Definition disc_logit (p m s : R) (ys : list R) (lam : R) (ns : list R) : R :=
  ln p + sumR (map (normal_logpdf m s) ys) + sumR (map (poisson_logker lam) ns).
