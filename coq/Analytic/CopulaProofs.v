(* C18 - proofs about the Gaussian copula model (Copula.v). *)
From Coq Require Import Reals Lra List Bool.
Import ListNotations.
From LV Require Import Analytic.Sigmoid Analytic.SigmoidProofs Analytic.Copula.
Open Scope R_scope.

Lemma one_minus_rho_sq_pos : forall rho, -1 < rho < 1 -> 0 < 1 - rho ^ 2.
Proof. intros rho H. nra. Qed.

Lemma tril22_pos : forall rho, -1 < rho < 1 -> 0 < tril22 rho.
Proof. intros rho H. unfold tril22. apply sqrt_lt_R0. apply one_minus_rho_sq_pos; exact H. Qed.

(* the scale_tril built by the constructor is a Cholesky factor of the correlation matrix *)
Lemma tril_is_cholesky : forall rho, -1 < rho < 1 ->
  let s := tril22 rho in
  1 * 1 = 1 /\ 1 * rho = rho /\ rho * rho + s * s = 1.
Proof.
  intros rho H s. subst s. unfold tril22.
  rewrite sqrt_sqrt by (pose proof (one_minus_rho_sq_pos rho H); lra). repeat split; ring.
Qed.

Theorem copula_closed_form_ok : forall rho x y, -1 < rho < 1 ->
  copula_logpdf rho x y = copula_closed_form rho x y.
Proof.
  intros rho x y H.
  pose proof (one_minus_rho_sq_pos rho H) as Hp.
  pose proof (tril22_pos rho H) as Hs.
  assert (Hss : tril22 rho * tril22 rho = 1 - rho ^ 2).
  { unfold tril22. apply sqrt_sqrt. lra. }
  assert (Hln : ln (tril22 rho) = ln (1 - rho ^ 2) / 2).
  { unfold tril22. apply ln_sqrt_half. exact Hp. }
  unfold copula_logpdf, copula_closed_form, mvn_tril2_logpdf, phi_log.
  rewrite Rabs_R1, ln_1, (Rabs_pos_eq (tril22 rho)) by lra.
  rewrite Hln.
  set (s := tril22 rho) in *.
  replace (((y - rho * (x / 1)) / s) ^ 2) with ((y - rho * x) ^ 2 / (s * s)) by (field; lra).
  rewrite Hss. field. lra.
Qed.

Corollary copula_closed_form_uv : forall (qnorm : R -> R) rho u v, -1 < rho < 1 ->
  copula_logpdf_uv qnorm rho u v = copula_closed_form rho (qnorm u) (qnorm v).
Proof. intros q rho u v H. unfold copula_logpdf_uv. apply copula_closed_form_ok; exact H. Qed.

(* independence copula: density 1 *)
Example copula_rho0 : forall x y, copula_logpdf 0 x y = 0.
Proof.
  intros x y. rewrite copula_closed_form_ok by lra. unfold copula_closed_form.
  replace (1 - 0 ^ 2) with 1 by ring. rewrite ln_1. field.
Qed.

(* symmetry of the density in its two arguments, and under the joint sign flip of rho and one score *)
Lemma copula_symmetric : forall rho x y, -1 < rho < 1 -> copula_logpdf rho x y = copula_logpdf rho y x.
Proof.
  intros rho x y H. rewrite !copula_closed_form_ok by exact H. unfold copula_closed_form. field. nra.
Qed.

Lemma copula_neg_rho : forall rho x y, -1 < rho < 1 -> copula_logpdf (- rho) x y = copula_logpdf rho (- x) y.
Proof.
  intros rho x y H. rewrite !copula_closed_form_ok by lra. unfold copula_closed_form.
  replace ((- rho) ^ 2) with (rho ^ 2) by ring. field. nra.
Qed.

(* ---------------------------------------------------------------- constructor guard *)
Lemma in_bounds_spec : forall lo hi rho, in_bounds lo hi rho = true <-> lo <= rho <= hi.
Proof.
  intros lo hi rho. unfold in_bounds.
  destruct (Rle_dec lo rho) as [H1|H1]; destruct (Rle_dec rho hi) as [H2|H2]; split; intros H;
    try reflexivity; try discriminate; lra.
Qed.

Lemma copula_ctor_spec : forall lo hi rho,
  copula_ctor lo hi true rho = CtorOk <-> lo <= rho <= hi.
Proof.
  intros lo hi rho. unfold copula_ctor, copula_ctor_batch. cbn [forallb]. rewrite andb_true_r.
  rewrite <- in_bounds_spec. destruct (in_bounds lo hi rho); split; intros H; try reflexivity; try discriminate.
Qed.

Lemma copula_ctor_batch_spec : forall lo hi rhos,
  copula_ctor_batch lo hi true rhos = CtorOk <-> Forall (fun r => lo <= r <= hi) rhos.
Proof.
  intros lo hi rhos. unfold copula_ctor_batch.
  destruct (forallb (in_bounds lo hi) rhos) eqn:E.
  - split; [ intros _ | reflexivity ]. rewrite forallb_forall in E. apply Forall_forall.
    intros r Hr. apply in_bounds_spec. apply E; exact Hr.
  - split; [ discriminate | ]. intros HF. exfalso. rewrite Forall_forall in HF.
    assert (forallb (in_bounds lo hi) rhos = true) as E2.
    { apply forallb_forall. intros r Hr. apply in_bounds_spec. apply HF; exact Hr. }
    congruence.
Qed.

Lemma copula_ctor_novalidate : forall lo hi rhos, copula_ctor_batch lo hi false rhos = CtorOk.
Proof. reflexivity. Qed.

(* repaired guard: every dependence in (-1,1) is accepted with and without validation,
   and the scale matrix it builds is non-singular *)
Theorem copula_ctor_total : forall (validate : bool) rho, -1 < rho < 1 ->
  copula_ctor_repaired validate rho = CtorOk /\ 0 < tril22 rho.
Proof.
  intros v rho H. split; [ | apply tril22_pos; exact H ].
  destruct v; [ | reflexivity ]. apply copula_ctor_spec. lra.
Qed.

Theorem copula_ctor_batch_total : forall (validate : bool) rhos, Forall (fun r => -1 < r < 1) rhos ->
  copula_ctor_batch (-1) 1 validate rhos = CtorOk.
Proof.
  intros v rhos H. destruct v; [ | reflexivity ]. apply copula_ctor_batch_spec.
  eapply Forall_impl; [ | exact H ]. cbv beta. intros r Hr. lra.
Qed.

(* guard as found (0 <= dependence <= 1): rejects the admissible dependence -1/2  (defect F5) *)
Theorem copula_ctor_asfound_refuted :
  exists rho, -1 < rho < 1 /\ copula_ctor_asfound true rho = CtorAssertionError
              /\ copula_ctor_asfound false rho = CtorOk.
Proof.
  exists (-1 / 2). split; [ lra | split; [ | reflexivity ] ].
  destruct (copula_ctor_asfound true (-1 / 2)) eqn:E; [ | reflexivity ].
  apply copula_ctor_spec in E. lra.
Qed.

(* it rejects exactly the negative ones *)
Lemma copula_ctor_asfound_rejects_negative : forall rho, -1 < rho < 0 ->
  copula_ctor_asfound true rho = CtorAssertionError.
Proof.
  intros rho H. destruct (copula_ctor_asfound true rho) eqn:E; [ | reflexivity ].
  apply copula_ctor_spec in E. lra.
Qed.

Example copula_ctor_total_example :
  copula_ctor_repaired true (-1 / 2) = CtorOk /\ copula_ctor_repaired false (-1 / 2) = CtorOk.
Proof. split; apply copula_ctor_total; lra. Qed.

Example copula_closed_form_example :
  copula_logpdf (1 / 2) 1 1 = - (1 / 2) * ln (3 / 4) - (1 / 4 * 2 - 1) / (3 / 2).
Proof.
  rewrite copula_closed_form_ok by lra. unfold copula_closed_form.
  replace (1 - (1 / 2) ^ 2) with (3 / 4) by field. f_equal. field.
Qed.
