(* C06 - glue for the generated correspondence shards (R-lemmas checked with `interval`):
     - closeness predicates and the lemmas that reduce a statement about clip(exp(l), max=1)
       to inequalities `interval` can decide (it does not know Rmin);
     - the log-target families the harness builds as DictInterface / liesel models, with their
       analytic score and information (negative Hessian).  For the scalar families the
       derivative relations are proved here, so the kernels' autodiff is compared with
       functions that ARE the gradient / negative Hessian of the modelled log-density. *)
From Coq Require Import Reals Lra List.
From Coquelicot Require Import Coquelicot.
From LV Require Import Analytic.Gauss Analytic.GaussProofs Analytic.IWLS Analytic.IWLSProofs.
Import ListNotations.
Open Scope R_scope.

(* ------------------------------------------------------------------------------------------ *)
(* closeness                                                                                    *)
(* ------------------------------------------------------------------------------------------ *)
Definition close (tol a b : R) : Prop := Rabs (a - b) <= tol.

Fixpoint vclose (tol : R) (a b : vec) : Prop :=
  match a, b with
  | [], [] => True
  | x :: a', y :: b' => Rabs (x - y) <= tol /\ vclose tol a' b'
  | _, _ => False
  end.

(* reported acceptance probability p vs the model's clip(exp(l), max=1) *)
Definition alpha_agrees (tol l p : R) : Prop := Rabs (accept_prob l - p) <= tol.

Lemma alpha_agrees_below : forall tol l p, p <= 1 -> Rabs (exp l - p) <= tol -> alpha_agrees tol l p.
Proof.
  intros tol l p Hp H. unfold alpha_agrees, accept_prob.
  destruct (Rle_dec (exp l) 1) as [Hle | Hgt].
  - rewrite Rmin_right by exact Hle. exact H.
  - assert (H1 : 1 < exp l) by lra.
    rewrite Rmin_left by lra.
    unfold Rabs in H. destruct (Rcase_abs (exp l - p)) as [Hn | Hn]; apply Rabs_le; lra.
Qed.

Lemma alpha_agrees_one : forall tol l, 0 <= tol -> - tol <= l -> alpha_agrees tol l 1.
Proof.
  intros tol l Ht H. unfold alpha_agrees, accept_prob.
  pose proof (exp_ineq1_le l) as He.
  apply Rabs_le. split.
  - apply Rmin_case; lra.
  - pose proof (Rmin_l 1 (exp l)). lra.
Qed.

(* ------------------------------------------------------------------------------------------ *)
(* scalar families: log-target, score, information                                              *)
(* ------------------------------------------------------------------------------------------ *)
(* Gaussian with mean m and precision p *)
Definition gs_lp (m p x : R) : R := - p * ((x - m) * (x - m)) / 2.
Definition gs_score (m p x : R) : R := - p * (x - m).
Definition gs_info (m p x : R) : R := p.

(* quartic: -x^4/4 - x^2/2 *)
Definition qt_lp (x : R) : R := - (x ^ 4) / 4 - (x ^ 2) / 2.
Definition qt_score (x : R) : R := - (x ^ 3) - x.
Definition qt_info (x : R) : R := 3 * x ^ 2 + 1.

(* log of a Gamma(a, rate b) variate: a*x - b*exp(x) *)
Definition lg_lp (a b x : R) : R := a * x - b * exp x.
Definition lg_score (a b x : R) : R := a - b * exp x.
Definition lg_info (a b x : R) : R := b * exp x.

(* Poisson regression through the origin, y_i ~ Poisson(exp(t_i * b)), b ~ N(0, 1/pr);
   data d = [(t_i, y_i)] *)
Fixpoint pois_lik (d : list (R * R)) (b : R) : R :=
  match d with
  | (t, y) :: d' => y * (t * b) - exp (t * b) + pois_lik d' b
  | [] => 0
  end.
Fixpoint pois_lik_score (d : list (R * R)) (b : R) : R :=
  match d with
  | (t, y) :: d' => t * (y - exp (t * b)) + pois_lik_score d' b
  | [] => 0
  end.
Fixpoint pois_lik_info (d : list (R * R)) (b : R) : R :=
  match d with
  | (t, y) :: d' => t * t * exp (t * b) + pois_lik_info d' b
  | [] => 0
  end.
Definition pois_lp (d : list (R * R)) (pr b : R) : R := pois_lik d b - pr * (b * b) / 2.
Definition pois_score (d : list (R * R)) (pr b : R) : R := pois_lik_score d b - pr * b.
Definition pois_info (d : list (R * R)) (pr b : R) : R := pois_lik_info d b + pr.

(* normal observations y_i ~ N(x, sig^2), prior x ~ N(0, tau^2) *)
Fixpoint nn_sq (ys : list R) (x : R) : R :=
  match ys with y :: ys' => (y - x) * (y - x) + nn_sq ys' x | [] => 0 end.
Fixpoint nn_res (ys : list R) (x : R) : R :=
  match ys with y :: ys' => (y - x) + nn_res ys' x | [] => 0 end.
Fixpoint rlen (l : list R) : R := match l with _ :: t => 1 + rlen t | [] => 0 end.
Definition nn_lp (ys : list R) (sig tau x : R) : R :=
  - nn_sq ys x / (2 * (sig * sig)) - x * x / (2 * (tau * tau)).
Definition nn_score (ys : list R) (sig tau x : R) : R :=
  nn_res ys x / (sig * sig) - x / (tau * tau).
Definition nn_info (ys : list R) (sig tau x : R) : R :=
  rlen ys / (sig * sig) + 1 / (tau * tau).

(* a user-supplied chol_info_fn that is not the Hessian: sqrt(c0 + c2 x^2) *)
Definition user_chol (c0 c2 x : R) : R := sqrt (c0 + c2 * (x * x)).

(* autoregressive MH proposal  x' = rho * x + s * z  and the correction its author declares *)
Definition ar_q (rho s a b : R) : R := gauss_pdf b (rho * a) (s * s).
Definition ar_corr (rho s x x' : R) : R :=
  ((x' - rho * x) * (x' - rho * x) - (x - rho * x') * (x - rho * x')) / (2 * (s * s)).

(* ---------------------------------------------------------------- derivative relations *)
Lemma gs_score_is_derive : forall m p x, is_derive (gs_lp m p) x (gs_score m p x).
Proof. intros m p x. unfold gs_lp, gs_score. auto_derive; [ exact I | field ]. Qed.
Lemma gs_info_is_derive : forall m p x, is_derive (gs_score m p) x (- gs_info m p x).
Proof. intros m p x. unfold gs_score, gs_info. auto_derive; [ exact I | ring ]. Qed.

Lemma qt_score_is_derive : forall x, is_derive qt_lp x (qt_score x).
Proof. intros x. unfold qt_lp, qt_score. auto_derive; [ exact I | simpl; field ]. Qed.
Lemma qt_info_is_derive : forall x, is_derive qt_score x (- qt_info x).
Proof. intros x. unfold qt_score, qt_info. auto_derive; [ exact I | simpl; ring ]. Qed.
Lemma qt_info_pos : forall x, 0 < qt_info x.
Proof. intros x. unfold qt_info. nra. Qed.

Lemma lg_score_is_derive : forall a b x, is_derive (lg_lp a b) x (lg_score a b x).
Proof. intros a b x. unfold lg_lp, lg_score. auto_derive; [ exact I | ring ]. Qed.
Lemma lg_info_is_derive : forall a b x, is_derive (lg_score a b) x (- lg_info a b x).
Proof. intros a b x. unfold lg_score, lg_info. auto_derive; [ exact I | ring ]. Qed.
Lemma lg_info_pos : forall a b x, 0 < b -> 0 < lg_info a b x.
Proof. intros a b x Hb. unfold lg_info. apply Rmult_lt_0_compat; [ exact Hb | apply exp_pos ]. Qed.

Lemma pois_lik_is_derive : forall d b, is_derive (pois_lik d) b (pois_lik_score d b).
Proof.
  induction d as [ | [t y] d IH ]; intros b.
  - cbn. apply (is_derive_const (V := R_NormedModule)).
  - cbn [pois_lik pois_lik_score].
    apply (is_derive_plus (V := R_NormedModule)
             (fun b => y * (t * b) - exp (t * b)) (pois_lik d) b (t * (y - exp (t * b))) (pois_lik_score d b)).
    + auto_derive; [ exact I | ring ].
    + apply IH.
Qed.
Lemma pois_lik_score_is_derive : forall d b, is_derive (pois_lik_score d) b (- pois_lik_info d b).
Proof.
  induction d as [ | [t y] d IH ]; intros b.
  - cbn. replace (- 0) with 0 by ring. apply (is_derive_const (V := R_NormedModule)).
  - cbn [pois_lik_score pois_lik_info].
    replace (- (t * t * exp (t * b) + pois_lik_info d b))
      with (plus (- (t * t * exp (t * b))) (- pois_lik_info d b)) by (unfold plus; simpl; ring).
    apply (is_derive_plus (V := R_NormedModule)
             (fun b => t * (y - exp (t * b))) (pois_lik_score d) b).
    + auto_derive; [ exact I | ring ].
    + apply IH.
Qed.
Lemma pois_score_is_derive : forall d pr b, is_derive (pois_lp d pr) b (pois_score d pr b).
Proof.
  intros d pr b. unfold pois_lp, pois_score.
  apply (is_derive_minus (V := R_NormedModule) (pois_lik d) (fun b => pr * (b * b) / 2) b).
  - apply pois_lik_is_derive.
  - auto_derive; [ exact I | field ].
Qed.
Lemma pois_info_is_derive : forall d pr b, is_derive (pois_score d pr) b (- pois_info d pr b).
Proof.
  intros d pr b. unfold pois_score, pois_info.
  replace (- (pois_lik_info d b + pr)) with (minus (- pois_lik_info d b) pr)
    by (unfold minus, plus, opp; simpl; ring).
  apply (is_derive_minus (V := R_NormedModule) (pois_lik_score d) (fun b => pr * b) b).
  - apply pois_lik_score_is_derive.
  - auto_derive; [ exact I | ring ].
Qed.
Lemma pois_lik_info_nonneg : forall d b, 0 <= pois_lik_info d b.
Proof.
  induction d as [ | [t y] d IH ]; intros b; cbn [pois_lik_info]; [ lra | ].
  pose proof (exp_pos (t * b)) as He. pose proof (IH b) as Hd.
  assert (0 <= t * t) by nra. assert (0 <= t * t * exp (t * b)) by (apply Rmult_le_pos; lra). lra.
Qed.
Lemma pois_info_pos : forall d pr b, 0 < pr -> 0 < pois_info d pr b.
Proof. intros d pr b Hpr. unfold pois_info. pose proof (pois_lik_info_nonneg d b). lra. Qed.

(* the declared AR correction is log [ q(x | x') / q(x' | x) ] *)
Lemma ar_q_pos : forall rho s a b, 0 < s -> 0 < ar_q rho s a b.
Proof. intros rho s a b Hs. unfold ar_q. apply gauss_pdf_pos, Rmult_lt_0_compat; exact Hs. Qed.

Lemma ar_corr_declared : forall rho s x x', 0 < s ->
  ar_corr rho s x x' = ln (ar_q rho s x' x / ar_q rho s x x').
Proof.
  intros rho s x x' Hs. unfold ar_q, gauss_pdf, ar_corr.
  assert (Hss : 0 < s * s) by (apply Rmult_lt_0_compat; exact Hs).
  assert (Hq : 0 < sqrt (2 * PI * (s * s))).
  { apply sqrt_lt_R0. pose proof two_pi_pos. apply Rmult_lt_0_compat; assumption. }
  set (c := / sqrt (2 * PI * (s * s))).
  assert (Hc : 0 < c) by (apply Rinv_0_lt_compat; exact Hq).
  set (e1 := - ((x - rho * x') * (x - rho * x')) / (2 * (s * s))).
  set (e2 := - ((x' - rho * x) * (x' - rho * x)) / (2 * (s * s))).
  replace (c * exp e1 / (c * exp e2)) with (exp (e1 - e2)).
  - rewrite ln_exp. unfold e1, e2. field. lra.
  - unfold Rminus. rewrite exp_plus, exp_Ropp. field. split; [ apply Rgt_not_eq, exp_pos | lra ].
Qed.

(* ------------------------------------------------------------------------------------------ *)
(* vector families (stated formulas; tied to the code's autodiff by the R-lemmas only)           *)
(* symmetric matrices are given by the trimmed columns of their lower triangle                   *)
(* ------------------------------------------------------------------------------------------ *)
Fixpoint vmul (a b : vec) : vec :=
  match a, b with
  | x :: a', y :: b' => (x * y) :: vmul a' b'
  | _, _ => []
  end.

(* A v for symmetric A = L + L^T - diag *)
Definition symmul (A : tri) (v : vec) : vec :=
  vsub (vadd (lmul A v) (ltmul A v)) (vmul (diag A) v).

Fixpoint add_diag (A : tri) (v : vec) : tri :=
  match A, v with
  | (d :: r) :: A', a :: v' => ((d + a) :: r) :: add_diag A' v'
  | _, _ => []
  end.

(* Gaussian with mean m and precision matrix P *)
Definition vg_lp (m : vec) (P : tri) (x : vec) : R := - dot (vsub x m) (symmul P (vsub x m)) / 2.
Definition vg_score (m : vec) (P : tri) (x : vec) : vec := vscale (-1) (symmul P (vsub x m)).
Definition vg_info (m : vec) (P : tri) (x : vec) : tri := P.

(* polynomial: - sum x_i^4 / 4 - x^T A x / 2 *)
Definition vp_lp (A : tri) (x : vec) : R :=
  - rsum (map (fun a => a ^ 4) x) / 4 - dot x (symmul A x) / 2.
Definition vp_score (A : tri) (x : vec) : vec := vsub (map (fun a => - (a ^ 3)) x) (symmul A x).
Definition vp_info (A : tri) (x : vec) : tri := add_diag A (map (fun a => 3 * (a * a)) x).

(* Poisson regression with intercept and slope, eta_i = b0 + b1 t_i, prior precision pr *)
Fixpoint p2_sum (f : R -> R -> R -> R) (d : list (R * R)) (b0 b1 : R) : R :=
  match d with
  | (t, y) :: d' => f t y (b0 + b1 * t) + p2_sum f d' b0 b1
  | [] => 0
  end.
Definition p2_lp (d : list (R * R)) (pr : R) (x : vec) : R :=
  match x with
  | [b0; b1] => p2_sum (fun t y eta => y * eta - exp eta) d b0 b1 - pr * (b0 * b0 + b1 * b1) / 2
  | _ => 0
  end.
Definition p2_score (d : list (R * R)) (pr : R) (x : vec) : vec :=
  match x with
  | [b0; b1] => [ p2_sum (fun t y eta => y - exp eta) d b0 b1 - pr * b0;
                  p2_sum (fun t y eta => t * (y - exp eta)) d b0 b1 - pr * b1 ]
  | _ => []
  end.
Definition p2_info (d : list (R * R)) (pr : R) (x : vec) : tri :=
  match x with
  | [b0; b1] => [ [ p2_sum (fun t y eta => exp eta) d b0 b1 + pr;
                    p2_sum (fun t y eta => t * exp eta) d b0 b1 ];
                  [ p2_sum (fun t y eta => t * t * exp eta) d b0 b1 + pr ] ]
  | _ => []
  end.

(* constant user-supplied Cholesky factor *)
Definition const_chol (L : tri) (x : vec) : tri := L.

(* ------------------------------------------------------------------------------------------ *)
(* staged evaluation of the vector IWLS model                                                   *)
(* The flat closed expression of iwls_log_acc_n repeats the Cholesky factor and the proposal     *)
(* mean many times; the shards therefore certify it in stages: boxes for the Cholesky factors,   *)
(* then (for ANY factor in the box) boxes for the means, then (for any factor and mean in their  *)
(* boxes) bounds for the two Gaussian log-densities, then the acceptance probability.  The       *)
(* lemmas below compose the stages into a statement about the model term itself.                 *)
(* ------------------------------------------------------------------------------------------ *)
Fixpoint vbox (lo hi v : vec) : Prop :=
  match lo, hi, v with
  | [], [], [] => True
  | a :: lo', b :: hi', x :: v' => a <= x <= b /\ vbox lo' hi' v'
  | _, _, _ => False
  end.

Fixpoint tbox (lo hi L : tri) : Prop :=
  match lo, hi, L with
  | [], [], [] => True
  | a :: lo', b :: hi', c :: L' => vbox a b c /\ tbox lo' hi' L'
  | _, _, _ => False
  end.

Definition rbox (lo hi v : R) : Prop := lo <= v <= hi.

Definition mu_of (x sc : vec) (L : tri) (s : R) : vec := vadd x (vscale (s * s / 2) (solve L sc)).
Definition logq_of (y m : vec) (L : tri) (s : R) : R := mvn_log_prob y m (tri_div L s).

Lemma staged_alpha : forall (lp : vec -> R) (score : vec -> vec) (ch : vec -> tri) s x x' tol p
    (PL PL' : tri -> Prop) (Pm Pm' : vec -> Prop) (Pb Pf : R -> Prop),
  PL (ch x) -> PL' (ch x') ->
  (forall L, PL L -> Pm (mu_of x (score x) L s)) ->
  (forall L, PL' L -> Pm' (mu_of x' (score x') L s)) ->
  (forall L m, PL' L -> Pm' m -> Pb (logq_of x m L s)) ->
  (forall L m, PL L -> Pm m -> Pf (logq_of x' m L s)) ->
  (forall b f, Pb b -> Pf f -> alpha_agrees tol (mh_log_acc (lp x) (lp x') (b - f)) p) ->
  alpha_agrees tol (iwls_log_acc_n lp score ch s x x') p.
Proof.
  intros lp score ch s x x' tol p PL PL' Pm Pm' Pb Pf H1 H2 H3 H4 H5 H6 H7.
  unfold iwls_log_acc_n, iwls_corr_n, iwls_bwd_n, iwls_fwd_n, iwls_mu_n, iwls_prec_n.
  apply H7.
  - apply (H5 (ch x') _ H2). apply (H4 _ H2).
  - apply (H6 (ch x) _ H1). apply (H3 _ H1).
Qed.

Lemma staged_proposal : forall (score : vec -> vec) (ch : vec -> tri) s z x (PL : tri -> Prop) (Q : vec -> Prop),
  PL (ch x) ->
  (forall L, PL L -> Q (mvn_sample z (mu_of x (score x) L s) (tri_div L s))) ->
  Q (iwls_propose_n score ch s z x).
Proof.
  intros score ch s z x PL Q H1 H2.
  unfold iwls_propose_n, iwls_mu_n, iwls_prec_n. apply (H2 _ H1).
Qed.

(* opening a box hypothesis about an abstract vector / triangular factor: the box fixes its shape *)
Ltac open_box H :=
  cbn [tbox vbox] in H;
  repeat match type of H with
         | context [match ?l with [] => _ | _ :: _ => _ end] =>
             is_var l; destruct l; cbn [tbox vbox] in H; try (exfalso; tauto)
         end.

(* split a box / closeness goal into its atomic goals `lo <= e <= hi` / `Rabs (e - v) <= tol`
   (kept as ONE goal each, so that `interval` evaluates e once) *)
Ltac box_goals tac :=
  lazymatch goal with
  | |- True => exact I
  | |- (?a <= ?x /\ ?x <= ?b) => tac
  | |- Rabs _ <= _ => tac
  | |- _ /\ _ => split; box_goals tac
  end.

(* the extended-real layer (zero-density current points / proposals, on C05's special-value model of mh_step)
   is required here only so that the targeted build of the check compiles it; nothing above uses it *)
From LV Require Analytic.IWLSExt.
(* source tie (tools/py2gallina_c06.py): required, not imported, so that the targeted build compiles it *)
From LV Require Analytic.GenC06Tie.
