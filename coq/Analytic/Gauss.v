(* C06 - model of liesel/goose/iwls_utils.py over R.

   The three utilities are parameterised, like the code, by the lower-triangular Cholesky
   factor L of the INVERSE covariance (precision  P = L L^T):

     solve(L, r)          = triangular_solve(L, triangular_solve(L, r, left_side=True, lower=True), lower=True)
                          = L^-T (L^-1 r) = (L L^T)^-1 r
     mvn_log_prob(x,m,L)  = sum(norm.logpdf((x - m) @ L)) + sum(log(diag L))
     mvn_sample(key,m,L)  = triangular_solve(L, z, lower=True) + m = L^-T z + m,   z ~ N(0, I)

   Scalar versions first (blocks of size one), then n-dimensional versions on `list R`.
   Model only: every proof is in GaussProofs.v. *)
From Coq Require Import Reals List.
Import ListNotations.
Open Scope R_scope.

(* jax.scipy.stats.norm.logpdf at loc 0, scale 1 *)
Definition std_normal_logpdf (z : R) : R := - ln (2 * PI) / 2 - z * z / 2.

(* ------------------------------------------------------------------------------------------ *)
(* scalar block: L = [[l]]                                                                     *)
(* ------------------------------------------------------------------------------------------ *)
Definition gauss_logpdf_prec (x m l : R) : R := std_normal_logpdf ((x - m) * l) + ln l.
Definition gauss_sample (z m l : R) : R := z / l + m.
Definition solve1 (l r : R) : R := r / l / l.

(* the textbook Gaussian density with given mean and variance (specification side) *)
Definition gauss_pdf (y mean var : R) : R :=
  / sqrt (2 * PI * var) * exp (- ((y - mean) * (y - mean)) / (2 * var)).

(* ------------------------------------------------------------------------------------------ *)
(* n-dimensional block                                                                         *)
(* A lower-triangular matrix is stored as the list of its columns, each trimmed to start at    *)
(* the diagonal:   L = [[l00; l10; l20]; [l11; l21]; [l22]].                                    *)
(* The same data read as rows is the upper-triangular L^T trimmed to start at the diagonal.    *)
(* Mismatched lengths truncate (zip semantics); the theorems carry a well-formedness           *)
(* hypothesis `tri_wf`, and the harness only emits well-formed data.                           *)
(* ------------------------------------------------------------------------------------------ *)
Definition vec := list R.
Definition tri := list (list R).

Fixpoint dot (a b : vec) : R :=
  match a, b with
  | x :: a', y :: b' => x * y + dot a' b'
  | _, _ => 0
  end.

Fixpoint vadd (a b : vec) : vec :=
  match a, b with
  | x :: a', y :: b' => (x + y) :: vadd a' b'
  | _, _ => []
  end.

Fixpoint vsub (a b : vec) : vec :=
  match a, b with
  | x :: a', y :: b' => (x - y) :: vsub a' b'
  | _, _ => []
  end.

Definition vscale (c : R) (a : vec) : vec := map (fun v => c * v) a.

Definition rsum (l : vec) : R := fold_right Rplus 0 l.

(* v @ L = L^T v :   (L^T v)_j = sum_{i >= j} L_ij v_i *)
Fixpoint ltmul (L : tri) (v : vec) : vec :=
  match L, v with
  | c :: L', _ :: v' => dot c v :: ltmul L' v'
  | _, _ => []
  end.

(* L v :  sum_j v_j * column_j *)
Fixpoint lmul (L : tri) (v : vec) : vec :=
  match L, v with
  | c :: L', vj :: v' =>
      match vscale vj c with
      | h :: t => h :: vadd t (lmul L' v')
      | [] => []
      end
  | _, _ => []
  end.

(* back substitution: solves L^T x = b *)
Fixpoint back_subst (L : tri) (b : vec) : vec :=
  match L, b with
  | (d :: r) :: L', bi :: b' => let xs := back_subst L' b' in ((bi - dot r xs) / d) :: xs
  | _, _ => []
  end.

(* forward substitution: solves L y = b *)
Fixpoint fwd_subst (L : tri) (b : vec) : vec :=
  match L, b with
  | (d :: r) :: L', bi :: b' => let y := bi / d in y :: fwd_subst L' (vsub b' (vscale y r))
  | _, _ => []
  end.

Definition diag (L : tri) : vec :=
  flat_map (fun c => match c with d :: _ => [d] | [] => [] end) L.

(* chol_info / step_size *)
Definition tri_div (L : tri) (s : R) : tri := map (map (fun v => v / s)) L.

Definition solve (L : tri) (r : vec) : vec := back_subst L (fwd_subst L r).

Definition mvn_log_prob (x m : vec) (L : tri) : R :=
  rsum (map std_normal_logpdf (ltmul L (vsub x m))) + rsum (map ln (diag L)).

Definition mvn_sample (z m : vec) (L : tri) : vec := vadd (back_subst L z) m.

(* well-formed n x n lower-triangular factor with non-zero diagonal *)
Fixpoint tri_wf (n : nat) (L : tri) : Prop :=
  match n, L with
  | O, [] => True
  | S n', (d :: r) :: L' => d <> 0 /\ length r = n' /\ tri_wf n' L'
  | _, _ => False
  end.

(* jnp.linalg.cholesky of a symmetric positive definite matrix given by the trimmed columns of
   its lower triangle (outer-product form; n = fuel = dimension). *)
Fixpoint schur (A : tri) (l : vec) : tri :=
  match A, l with
  | c :: A', lj :: l' => vsub c (vscale lj l) :: schur A' l'
  | _, _ => []
  end.

Fixpoint chol (n : nat) (A : tri) : tri :=
  match n, A with
  | S n', (a :: r) :: A' =>
      let d := sqrt a in
      let l := map (fun v => v / d) r in
      (d :: l) :: chol n' (schur A' l)
  | _, _ => []
  end.
