(* C06 - proofs about the scalar Gaussian utilities of Gauss.v (model of iwls_utils.py):
   mvn_log_prob is the log-density of what mvn_sample draws, and that density is the textbook
   Gaussian with variance 1/l^2 (l = Cholesky factor of the inverse covariance). *)
From Coq Require Import Reals Lra List.
From Coquelicot Require Import Coquelicot.
From LV Require Import Analytic.Gauss.
Import ListNotations.
Open Scope R_scope.

(* ---------------------------------------------------------------- helpers *)
Lemma two_pi_pos : 0 < 2 * PI.
Proof. pose proof PI_RGT_0 as Hpi. lra. Qed.

Lemma exp_neg_half_ln : forall a, 0 < a -> exp (- ln a / 2) = / sqrt a.
Proof.
  intros a Ha.
  replace (- ln a / 2) with (- (/ 2 * ln a)) by field.
  rewrite exp_Ropp. f_equal.
  rewrite <- (Rpower_sqrt a Ha). reflexivity.
Qed.

(* the standard normal density *)
Definition std_normal_pdf (z : R) : R := / sqrt (2 * PI) * exp (- (z * z) / 2).

Lemma exp_std_normal_logpdf : forall z, exp (std_normal_logpdf z) = std_normal_pdf z.
Proof.
  intros z. unfold std_normal_logpdf, std_normal_pdf.
  replace (- ln (2 * PI) / 2 - z * z / 2) with (- ln (2 * PI) / 2 + - (z * z) / 2) by field.
  rewrite exp_plus, (exp_neg_half_ln _ two_pi_pos). reflexivity.
Qed.

Lemma gauss_pdf_std : forall z, gauss_pdf z 0 1 = std_normal_pdf z.
Proof.
  intros z. unfold gauss_pdf, std_normal_pdf.
  replace (2 * PI * 1) with (2 * PI) by ring.
  replace (- ((z - 0) * (z - 0)) / (2 * 1)) with (- (z * z) / 2) by field.
  reflexivity.
Qed.

Lemma gauss_pdf_pos : forall y m v, 0 < v -> 0 < gauss_pdf y m v.
Proof.
  intros y m v Hv. unfold gauss_pdf.
  apply Rmult_lt_0_compat; [ | apply exp_pos ].
  apply Rinv_0_lt_compat, sqrt_lt_R0.
  pose proof two_pi_pos as H2. apply Rmult_lt_0_compat; assumption.
Qed.

Lemma gauss_pdf_sym : forall a b v, gauss_pdf a b v = gauss_pdf b a v.
Proof.
  intros a b v. unfold gauss_pdf.
  replace ((a - b) * (a - b)) with ((b - a) * (b - a)) by ring. reflexivity.
Qed.

(* ---------------------------------------------------------------- change of variables *)
(* mvn_log_prob evaluated at a draw of mvn_sample: standard-normal log-density of the underlying
   z plus the log-Jacobian ln l of z = (x - m) * l *)
Lemma gauss_logpdf_of_sample : forall z m l, l <> 0 ->
  gauss_logpdf_prec (gauss_sample z m l) m l = std_normal_logpdf z + ln l.
Proof.
  intros z m l Hl. unfold gauss_logpdf_prec, gauss_sample.
  replace ((z / l + m - m) * l) with z by (field; exact Hl). reflexivity.
Qed.

Lemma gauss_sample_derive : forall z m l, l <> 0 ->
  is_derive (fun t => gauss_sample t m l) z (/ l).
Proof.
  intros z m l Hl. unfold gauss_sample.
  auto_derive; [ exact I | field; exact Hl ].
Qed.

Lemma gauss_sample_increasing : forall z1 z2 m l, 0 < l -> z1 < z2 ->
  gauss_sample z1 m l < gauss_sample z2 m l.
Proof.
  intros z1 z2 m l Hl Hz. unfold gauss_sample, Rdiv.
  pose proof (Rinv_0_lt_compat l Hl) as Hi.
  apply Rplus_lt_compat_r, Rmult_lt_compat_r; assumption.
Qed.

(* inverse map: the z that produced a given draw *)
Lemma gauss_sample_inv : forall x m l, l <> 0 -> gauss_sample ((x - m) * l) m l = x.
Proof. intros x m l Hl. unfold gauss_sample. field. exact Hl. Qed.

(* ---------------------------------------------------------------- the density is Gaussian *)
Lemma gauss_logpdf_prec_is_pdf : forall y m l, 0 < l ->
  exp (gauss_logpdf_prec y m l) = gauss_pdf y m (/ (l * l)).
Proof.
  intros y m l Hl. unfold gauss_logpdf_prec, gauss_pdf, std_normal_logpdf.
  pose proof two_pi_pos as H2.
  assert (Hll : 0 < l * l) by (apply Rmult_lt_0_compat; assumption).
  replace (- ln (2 * PI) / 2 - (y - m) * l * ((y - m) * l) / 2 + ln l)
    with (- ln (2 * PI) / 2 + (ln l + - ((y - m) * (y - m)) / (2 * / (l * l))))
    by (field; lra).
  rewrite exp_plus, exp_plus, (exp_neg_half_ln _ H2), (exp_ln l Hl).
  rewrite <- Rmult_assoc. f_equal.
  (* / sqrt (2 PI) * l = / sqrt (2 PI / (l l)) *)
  replace (2 * PI * / (l * l)) with ((2 * PI) / (l * l)) by reflexivity.
  rewrite sqrt_div_alt by exact Hll.
  rewrite (sqrt_square l) by lra.
  assert (Hs : 0 < sqrt (2 * PI)) by (apply sqrt_lt_R0; exact H2).
  field. split; lra.
Qed.

Lemma gauss_logpdf_prec_is_pdf_sd : forall y m sd, 0 < sd ->
  exp (gauss_logpdf_prec y m (/ sd)) = gauss_pdf y m (sd * sd).
Proof.
  intros y m sd Hsd.
  rewrite gauss_logpdf_prec_is_pdf by (apply Rinv_0_lt_compat; exact Hsd).
  f_equal. field. lra.
Qed.

(* density of the draw expressed through the density of z and the Jacobian d(sample)/dz = 1/l *)
Lemma gauss_density_of_draw : forall z m l, 0 < l ->
  gauss_pdf (gauss_sample z m l) m (/ (l * l)) = std_normal_pdf z / (/ l).
Proof.
  intros z m l Hl.
  rewrite <- gauss_logpdf_prec_is_pdf by exact Hl.
  rewrite gauss_logpdf_of_sample by lra.
  rewrite exp_plus, exp_std_normal_logpdf, (exp_ln l Hl).
  field. lra.
Qed.

(* ---------------------------------------------------------------- integral form *)
(* P(z in [a,b]) = P(sample in [sample a, sample b]):  integrating the density given by
   mvn_log_prob over the image of [a,b] under mvn_sample gives the standard normal mass of [a,b] *)
Lemma gauss_logpdf_continuous : forall m l y,
  continuous (fun t => exp (gauss_logpdf_prec t m l)) y.
Proof.
  intros m l y. unfold gauss_logpdf_prec, std_normal_logpdf.
  apply (ex_derive_continuous (fun t => exp (- ln (2 * PI) / 2 - (t - m) * l * ((t - m) * l) / 2 + ln l))).
  auto_derive. exact I.
Qed.

Lemma gauss_sample_mass : forall a b m l, 0 < l ->
  RInt (fun y => exp (gauss_logpdf_prec y m l)) (gauss_sample a m l) (gauss_sample b m l)
  = RInt (fun z => exp (std_normal_logpdf z)) a b.
Proof.
  intros a b m l Hl.
  assert (Hl0 : l <> 0) by lra.
  assert (Ha : gauss_sample a m l = / l * a + m) by (unfold gauss_sample; field; exact Hl0).
  assert (Hb : gauss_sample b m l = / l * b + m) by (unfold gauss_sample; field; exact Hl0).
  rewrite Ha, Hb.
  rewrite <- (RInt_comp_lin (fun y => exp (gauss_logpdf_prec y m l)) (/ l) m a b).
  - apply RInt_ext. intros z _.
    replace (/ l * z + m) with (gauss_sample z m l) by (unfold gauss_sample; field; exact Hl0).
    rewrite gauss_logpdf_of_sample by exact Hl0.
    rewrite exp_plus, (exp_ln l Hl).
    unfold scal; simpl; unfold mult; simpl. field. exact Hl0.
  - apply (ex_RInt_continuous (fun y => exp (gauss_logpdf_prec y m l))).
    intros y _. apply gauss_logpdf_continuous.
Qed.

(* ---------------------------------------------------------------- n-d model, dimension 1 *)
(* the n-dimensional definitions specialise to the scalar ones on 1x1 blocks *)
Lemma mvn_log_prob_dim1 : forall x m l,
  mvn_log_prob [x] [m] [[l]] = gauss_logpdf_prec x m l.
Proof.
  intros x m l. unfold mvn_log_prob, gauss_logpdf_prec. cbn.
  replace (l * (x - m) + 0) with ((x - m) * l) by ring. ring.
Qed.

Lemma mvn_sample_dim1 : forall z m l, mvn_sample [z] [m] [[l]] = [gauss_sample z m l].
Proof.
  intros z m l. unfold mvn_sample, gauss_sample. cbn.
  replace (z - 0) with z by ring. reflexivity.
Qed.

Lemma solve_dim1 : forall l r, solve [[l]] [r] = [solve1 l r].
Proof.
  intros l r. unfold solve, solve1. cbn.
  replace (r / l - 0) with (r / l) by ring. reflexivity.
Qed.
