(* Support library for the C18 source tie (tools/py2gallina_c18.py).

   On every run of the check the translator turns the Python source of
     liesel/bijectors/algebraic_sigmoid.py  (_forward, _inverse, both log-det-Jacobians),
     liesel/distributions/copulas.py        (GaussianCopula.__init__: guard, scale_tril, composition),
     liesel/distributions/mvn_degen.py      (_rank, _log_pdet, the rank / log_pdet properties, _log_prob,
                                             from_penalty, from_penalty_smooth; eigen-coordinates, eigh an oracle)
   into Gallina definitions (gen_...).  The generated file (work directory of the run, never this
   directory) proves them extensionally equal to the hand-written models Sigmoid.v / Copula.v /
   MvnDegen.v and re-states the main C18 theorems for them.  This file holds exactly what that
   generated file needs: the targets of the translator's library-call table that the model files do
   not have under a name of their own, the transfer theorems (the C18 theorems for ANY functions
   pointwise equal to the model), and the tactics of the generated equality proofs. *)
From Coq Require Import Reals List Bool Arith Lra Lia.
From Coquelicot Require Import Coquelicot.
From LV Require Import Analytic.Sigmoid Analytic.SigmoidProofs Analytic.Copula Analytic.CopulaProofs
  Analytic.MvnDegen Analytic.MvnDegenProofs.
Import ListNotations.
Open Scope R_scope.

(* ------------------------------------------------------------------ targets of the library table *)
(* comparisons of real numbers (jnp / Python comparisons of float scalars or, elementwise, of an array
   with a scalar).  The strict ones are the model's own [gtb] / [ltb]. *)
Definition g_gt (x y : R) : bool := gtb y x.                                   (* x > y *)
Definition g_lt (x y : R) : bool := ltb x y.                                   (* x < y *)
Definition g_le (x y : R) : bool := if Rle_dec x y then true else false.       (* x <= y *)
Definition g_ge (x y : R) : bool := g_le y x.                                  (* x >= y *)

(* np.all over a batch of dependence values *)
Definition g_all (p : R -> bool) (batch : list R) : bool := forallb p batch.

(* `assert c` followed by the rest of the constructor *)
Definition g_assert (c : bool) (k : ctor_result) : ctor_result := if c then k else CtorAssertionError.

(* one batch member of np.stack([a, b], axis=-1) is the row (a, b); of np.stack([r1, r2], axis=-2) the
   matrix with rows r1, r2 *)
Definition g_row := (R * R)%type.
Definition g_mat2 := (g_row * g_row)%type.

(* tfd.MultivariateNormalTriL(loc, scale_tril).log_prob at (x, y): only the lower triangle of scale_tril is read *)
Definition g_mvn_tril (loc : g_row) (L : g_mat2) (x y : R) : R :=
  mvn_tril2_logpdf (fst (fst L)) (fst (snd L)) (snd (snd L)) (x - fst loc) (y - snd loc).

(* tfd.TransformedDistribution(base, tfb.NormalCDF()).log_prob at (u, v): base.log_prob at the normal scores plus
   the inverse log-det-Jacobian of NormalCDF, - log phi(score), per coordinate; the quantile function is an oracle *)
Definition g_transformed_normal_cdf (qnorm : R -> R) (base : R -> R -> R) (u v : R) : R :=
  base (qnorm u) (qnorm v) - phi_log (qnorm u) - phi_log (qnorm v).

(* ------------------------------------------------------------------ tactics of the generated proofs *)
(* both sides are built from + - * / ^ ln sqrt over the same atoms *)
Ltac tie18_norm := unfold Rdiv, Rminus.

Ltac tie18_arith :=
  first
    [ reflexivity
    | ring
    | match goal with
      | |- ln _ = ln _ => apply f_equal; tie18_arith
      | |- sqrt _ = sqrt _ => apply f_equal; tie18_arith
      | |- / _ = / _ => apply f_equal; tie18_arith
      | |- - _ = - _ => apply f_equal; tie18_arith
      | |- INR _ = INR _ => apply f_equal; tie18_arith
      | |- _ + _ = _ + _ => apply f_equal2; tie18_arith
      | |- _ * _ = _ * _ => apply f_equal2; tie18_arith
      | |- (_, _) = (_, _) => apply f_equal2; tie18_arith
      | |- Some _ = Some _ => apply f_equal; tie18_arith
      end ].

(* two occurrences [f a], [f b] whose arguments are provably equal are made syntactically equal, so that
   [ring] sees one atom (rewritten code: `x**2 + 1.0` for `1.0 + x**2`, ...) *)
Ltac tie18_unify f :=
  repeat match goal with
  | |- context [f ?a] =>
      match goal with
      | |- context [f ?b] =>
          tryif constr_eq a b then fail else
          (let H := fresh "Hu" in assert (H : b = a) by tie18_arith; rewrite H; clear H)
      end
  end.

Ltac tie18_atoms := tie18_unify ln; tie18_unify sqrt; tie18_unify Rinv.

Ltac tie18_real := cbv beta zeta; tie18_norm; first [ tie18_arith | tie18_atoms; tie18_atoms; tie18_arith ].

(* comparisons written the other way round / as the complement are the same boolean *)
Lemma g_le_not_gt : forall x y, g_le x y = negb (g_gt x y).
Proof.
  intros x y. unfold g_le, g_gt, gtb.
  destruct (Rle_dec x y), (Rlt_dec y x); try reflexivity; exfalso; lra.
Qed.

(* equality of eigenvalue sums / counts whose summands agree below the dimension *)
Ltac tie18_sum :=
  first
    [ reflexivity
    | apply rsum_ext; intros ? _; cbv beta; tie18_real
    | apply ncount_ext; intros ? _; cbv beta; reflexivity ].

(* the constructor guard: a sequence of `assert np.all(..)` under `if validate_args:` against the model's
   single forallb over in_bounds *)
Ltac tie18_guard :=
  let rs := fresh "rs" in let r := fresh "r" in let IH := fresh "IH" in
  intros [|] rs; [ | reflexivity ];
  cbv beta iota zeta delta [copula_ctor_batch g_assert g_all g_ge g_le g_gt g_lt gtb ltb in_bounds];
  induction rs as [|r rs IH]; [ reflexivity | ];
  cbn [forallb];
  repeat match goal with
  | |- context [Rle_dec ?a ?b] => destruct (Rle_dec a b)
  | |- context [Rlt_dec ?a ?b] => destruct (Rlt_dec a b)
  end;
  cbn [andb negb]; try (exfalso; lra); try exact IH;
  repeat match goal with
  | |- context [forallb ?p ?l] => destruct (forallb p l)
  end; reflexivity.

(* ------------------------------------------------------------------ transfer theorems: sigmoid *)
Section SigmoidTie.
  Variables gf gi gfl gil : R -> R.
  Hypothesis Hf : forall x, gf x = asig x.
  Hypothesis Hi : forall y, gi y = asig_inv y.
  Hypothesis Hfl : forall x, gfl x = asig_fldj x.
  Hypothesis Hil : forall y, gil y = asig_ildj y.

  Theorem tie_asig_inverse : (forall x, gi (gf x) = x) /\ (forall y, -1 < y < 1 -> gf (gi y) = y).
  Proof.
    split; [ intros x | intros y Hy ]; rewrite ?Hf, ?Hi, ?Hf.
    - apply asig_inverse.
    - apply asig_inverse; exact Hy.
  Qed.

  Theorem tie_asig_range : forall x, -1 < gf x < 1.
  Proof. intros x. rewrite Hf. apply asig_range. Qed.

  Theorem tie_asig_onto : forall y, -1 < y < 1 -> exists x, gf x = y.
  Proof. intros y Hy. destruct (asig_onto y Hy) as [x Hx]. exists x. rewrite Hf. exact Hx. Qed.

  Theorem tie_asig_fldj : forall x,
    is_derive gf x (asig_deriv x) /\ 0 < asig_deriv x /\ gfl x = ln (asig_deriv x).
  Proof.
    intros x. destruct (asig_fldj_log_deriv x) as [H1 [H2 H3]].
    split; [ | split; [ exact H2 | rewrite Hfl; exact H3 ] ].
    apply (is_derive_ext asig gf x); [ intros t; symmetry; apply Hf | exact H1 ].
  Qed.

  Theorem tie_asig_ildj : forall y, -1 < y < 1 ->
    is_derive gi y (asig_inv_deriv y) /\ 0 < asig_inv_deriv y /\ gil y = ln (asig_inv_deriv y).
  Proof.
    intros y Hy. destruct (asig_ildj_log_deriv y Hy) as [H1 [H2 H3]].
    split; [ | split; [ exact H2 | rewrite Hil; exact H3 ] ].
    apply (is_derive_ext asig_inv gi y); [ intros t; symmetry; apply Hi | exact H1 ].
  Qed.

  Theorem tie_asig_ildj_is_neg_fldj : forall y, -1 < y < 1 -> gil y = - gfl (gi y).
  Proof. intros y Hy. rewrite Hil, Hfl, Hi. apply asig_ildj_is_neg_fldj; exact Hy. Qed.
End SigmoidTie.

(* ------------------------------------------------------------------ transfer theorems: copula *)
Section CopulaTie.
  Variable gctor : bool -> list R -> ctor_result.
  Variable gtril : R -> g_mat2.
  Variable glp : (R -> R) -> R -> R -> R -> R.
  Hypothesis Hc : forall v rhos, gctor v rhos = copula_ctor_batch (-1) 1 v rhos.
  Hypothesis Ht : forall rho, gtril rho = ((1, 0), (rho, tril22 rho)).
  Hypothesis Hl : forall q rho u v, glp q rho u v = copula_logpdf_uv q rho u v.

  Theorem tie_copula_ctor_batch_total : forall (validate : bool) rhos,
    List.Forall (fun r => -1 < r < 1) rhos -> gctor validate rhos = CtorOk.
  Proof. intros v rhos H. rewrite Hc. apply copula_ctor_batch_total; exact H. Qed.

  Theorem tie_copula_ctor_total : forall (validate : bool) rho, -1 < rho < 1 ->
    gctor validate [rho] = CtorOk /\ 0 < snd (snd (gtril rho)).
  Proof.
    intros v rho H. rewrite Hc, Ht. cbn [snd].
    pose proof (copula_ctor_total v rho H) as HH. exact HH.
  Qed.

  Theorem tie_copula_closed_form_uv : forall (qnorm : R -> R) rho u v, -1 < rho < 1 ->
    glp qnorm rho u v = copula_closed_form rho (qnorm u) (qnorm v).
  Proof. intros q rho u v H. rewrite Hl. apply copula_closed_form_uv; exact H. Qed.
End CopulaTie.

(* the composition with the translated scale factor is the model's copula density *)
Lemma tie_copula_compose : forall (L : g_mat2) q rho u v,
  L = ((1, 0), (rho, tril22 rho)) ->
  g_transformed_normal_cdf q (g_mvn_tril (0, 0) L) u v = copula_logpdf_uv q rho u v.
Proof.
  intros L q rho u v ->. unfold g_transformed_normal_cdf, g_mvn_tril, copula_logpdf_uv, copula_logpdf.
  cbn [fst snd]. rewrite !Rminus_0_r. reflexivity.
Qed.

(* ------------------------------------------------------------------ transfer theorems: degenerate MVN *)
Lemma quad_ext : forall n lam c c', (forall i, (i < n)%nat -> c i = c' i) -> quad n lam c = quad n lam c'.
Proof. intros n lam c c' H. unfold quad. apply rsum_ext. intros i Hi. rewrite (H i Hi). reflexivity. Qed.

Lemma logpdf_ext : forall d c c', (forall i, (i < dim d)%nat -> c i = c' i) -> logpdf d c = logpdf d c'.
Proof. intros d c c' H. unfold logpdf. rewrite (quad_ext _ _ c c' H). reflexivity. Qed.

Section MvnTie.
  (* log_prob of an object at the point with eigen-coordinates xq, location with eigen-coordinates lq *)
  Variable glp : mvnd -> (nat -> R) -> (nat -> R) -> R.
  Variable gfp gfs : nat -> (nat -> R) -> R -> option nat -> option R -> mvnd.
  Hypothesis Hl : forall d xq lq, glp d xq lq = logpdf d (fun i => xq i - lq i).
  Hypothesis Hp : forall n pen var rk lp, gfp n pen var rk lp = from_penalty n pen var rk lp.
  Hypothesis Hs : forall n pen s rk lp, gfs n pen s rk lp = from_penalty_smooth n pen s rk lp.

  Theorem tie_mvn_range_gaussian : forall n lam rk lp tol xq lq,
    0 <= tol -> ascending n lam -> gap tol n lam ->
    rank_consistent tol n lam rk -> lpd_consistent tol n lam lp ->
    glp (ctor_prec n lam rk lp tol) xq lq = range_gaussian_logpdf n lam (fun i => xq i - lq i).
  Proof. intros. rewrite Hl. apply mvn_range_gaussian; assumption. Qed.

  Theorem tie_mvn_nullspace_invariant : forall d xq lq v, null_vector (dim d) (evals d) v ->
    glp d (fun i => xq i + v i) lq = glp d xq lq.
  Proof.
    intros d xq lq v Hv. rewrite !Hl.
    rewrite <- (mvn_nullspace_invariant d (fun i => xq i - lq i) v Hv).
    apply logpdf_ext. intros i _. ring.
  Qed.

  Theorem tie_mvn_from_penalty_family_agree : forall n pen var rk lp rk' lp' xq lq, 0 < var -> ascending n pen ->
    rank_consistent tol_default n pen rk -> lpd_consistent tol_default n pen lp ->
    rank_consistent tol_default n pen rk' -> lpd_consistent tol_default n pen lp' ->
    glp (gfp n pen var rk lp) xq lq = glp (gfp n pen var None None) xq lq
    /\ glp (gfs n pen (/ var) rk' lp') xq lq = glp (gfp n pen var None None) xq lq.
  Proof. intros. rewrite !Hl, !Hp, !Hs. apply mvn_from_penalty_family_agree; assumption. Qed.

  Theorem tie_mvn_from_penalty_range_gaussian : forall n pen var rk lp xq lq,
    0 < var -> ascending n pen -> gap tol_default n pen ->
    rank_consistent tol_default n pen rk -> lpd_consistent tol_default n pen lp ->
    glp (gfp n pen var rk lp) xq lq = range_gaussian_logpdf n (fun i => pen i / var) (fun i => xq i - lq i).
  Proof. intros. rewrite Hl, Hp. apply mvn_from_penalty_range_gaussian; assumption. Qed.

  Theorem tie_mvn_smooth_is_inverse_variance : forall n pen s rk lp xq lq, 0 < s ->
    glp (gfs n pen s rk lp) xq lq = glp (gfp n pen (/ s) rk lp) xq lq.
  Proof. intros. rewrite !Hl, Hp, Hs. apply mvn_from_penalty_smooth_agrees; assumption. Qed.

  Theorem tie_mvn_constructors_agree : forall n pen var rk lp rk' lp' xq lq,
    0 < var -> ascending n pen -> pen_gap n pen var ->
    rank_consistent tol_default n pen rk -> lpd_consistent tol_default n pen lp ->
    rank_consistent tol_default n (fun i => pen i / var) rk' ->
    lpd_consistent tol_default n (fun i => pen i / var) lp' ->
    let plain := glp (ctor_prec n (fun i => pen i / var) None None tol_default) xq lq in
    glp (gfp n pen var rk lp) xq lq = plain
    /\ glp (gfs n pen (/ var) rk lp) xq lq = plain
    /\ glp (ctor_prec n (fun i => pen i / var) rk' lp' tol_default) xq lq = plain.
  Proof. intros. subst plain. rewrite !Hl, Hp, Hs. apply mvn_constructors_agree; assumption. Qed.
End MvnTie.
