(* C06 - numeric side facts about the quartic instance, checked with `interval` (not imported by
   Properties/C06.v; kept as an independent cross-check of the model against closed-form values
   computed with scipy). *)
From Coq Require Import Reals Lra List.
From Coquelicot Require Import Coquelicot.
From Interval Require Import Tactic.
From LV Require Import Analytic.Gauss Analytic.GaussProofs Analytic.IWLS Analytic.IWLSProofs
  Analytic.CorrC06 Analytic.IWLSWitness.
Import ListNotations.
Open Scope R_scope.

(* the instance is not the trivial one: at x = 0, x' = 1, s = 1 the correction is not zero and
   the acceptance probability is strictly between 0 and 1 *)
Lemma quartic_corr_value :
  Rabs (iwls_corr qt_score (chol_of_info qt_info) 1 0 1 - 0.0681471805599454) <= 1 / 1000000000.
Proof.
  unfold iwls_corr, iwls_bwd, iwls_fwd, iwls_mu, iwls_prec, gauss_logpdf_prec, std_normal_logpdf,
    solve1, chol_of_info, qt_score, qt_info.
  interval with (i_prec 64).
Qed.

Lemma quartic_log_acc_value :
  Rabs (iwls_log_acc qt_lp qt_score (chol_of_info qt_info) 1 0 1 - (-0.6818528194400546)) <= 1 / 1000000000.
Proof.
  unfold iwls_log_acc, mh_log_acc, iwls_corr, iwls_bwd, iwls_fwd, iwls_mu, iwls_prec,
    gauss_logpdf_prec, std_normal_logpdf, solve1, chol_of_info, qt_lp, qt_score, qt_info.
  interval with (i_prec 64).
Qed.

Lemma quartic_alpha_value :
  1 / 2 < iwls_alpha qt_lp qt_score (chol_of_info qt_info) 1 0 1 < 51 / 100.
Proof.
  pose proof quartic_log_acc_value as H. apply Rabs_le_between in H.
  unfold iwls_alpha.
  set (l := iwls_log_acc qt_lp qt_score (chol_of_info qt_info) 1 0 1) in *.
  rewrite accept_prob_neg by lra.
  split.
  - apply Rlt_le_trans with (exp (-0.6818528204400546)); [ interval | ].
    destruct (Req_dec (-0.6818528204400546) l) as [-> | Hne]; [ lra | left; apply exp_increasing; lra ].
  - apply Rle_lt_trans with (exp (-0.6818528184400546)); [ | interval ].
    destruct (Req_dec l (-0.6818528184400546)) as [-> | Hne]; [ lra | left; apply exp_increasing; lra ].
Qed.

(* ---------------------------------------------------------------- refutation: swapped correction *)
(* a kernel computing fwd - bwd instead of bwd - fwd does NOT report the MH probability *)
Lemma swapped_correction_refuted_quartic :
  exists x x' s, 0 < s /\
    accept_prob (iwls_log_acc_swapped qt_lp qt_score (chol_of_info qt_info) s x x')
    <> mh_alpha (target qt_lp) (iwls_q qt_score qt_info s) x x'.
Proof.
  exists 0, 1, 1. split; [ lra | ].
  rewrite <- (iwls_default_acceptance_is_mh qt_lp qt_score qt_info 1 Rlt_0_1 qt_info_pos).
  pose proof quartic_alpha_value as [Hlo _].
  assert (Hsw : accept_prob (iwls_log_acc_swapped qt_lp qt_score (chol_of_info qt_info) 1 0 1) < 1 / 2).
  { pose proof quartic_corr_value as Hc. apply Rabs_le_between in Hc.
    unfold iwls_log_acc_swapped, mh_log_acc.
    set (c := iwls_corr qt_score (chol_of_info qt_info) 1 0 1) in *.
    assert (Hl : qt_lp 1 - qt_lp 0 + - c <= -0.81) by (unfold qt_lp; lra).
    rewrite accept_prob_neg by lra.
    apply Rle_lt_trans with (exp (-0.81)); [ | interval ].
    destruct Hl as [Hl | ->]; [ left; apply exp_increasing; exact Hl | lra ]. }
  lra.
Qed.

