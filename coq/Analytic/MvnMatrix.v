(* C18 - the degenerate multivariate normal at MATRIX level: the link between the precision matrix the
   code multiplies with and the eigen-coordinate model of MvnDegen.v.

   A square matrix is a function nat -> nat -> R read on indices < n.  For a matrix H (the eigenvectors,
   as columns) and eigenvalues lam,
        prec_of n H lam     = H diag(lam) H^T                        (what eigh decomposes)
        coords n H x        = H^T x                                  (eigen-coordinates)
        quadform n K x      = x K x^T                                (what _log_prob computes)
        mat_vec n K v       = K v,   from_coords n H c = H c.
   Orthogonality of H (H^T H = I) is a hypothesis of the statements that need it. *)
From Coq Require Import Reals.
From LV Require Import Analytic.MvnDegen.
Open Scope R_scope.

Definition mat := nat -> nat -> R.

Definition prec_of (n : nat) (H : mat) (lam : nat -> R) : mat :=
  fun a b => rsum n (fun i => H a i * lam i * H b i).

Definition coords (n : nat) (H : mat) (x : nat -> R) : nat -> R :=
  fun i => rsum n (fun a => H a i * x a).

Definition from_coords (n : nat) (H : mat) (c : nat -> R) : nat -> R :=
  fun a => rsum n (fun i => H a i * c i).

Definition quadform (n : nat) (K : mat) (x : nat -> R) : R :=
  rsum n (fun a => rsum n (fun b => x a * K a b * x b)).

Definition mat_vec (n : nat) (K : mat) (v : nat -> R) : nat -> R :=
  fun a => rsum n (fun b => K a b * v b).

(* H^T H = I on indices < n *)
Definition orthonormal_cols (n : nat) (H : mat) : Prop :=
  forall i j, (i < n)%nat -> (j < n)%nat ->
    rsum n (fun a => H a i * H a j) = if Nat.eqb i j then 1 else 0.

(* _log_prob as the code computes it, on the matrix and the point *)
Definition logpdf_matrix (d : mvnd) (H : mat) (xc : nat -> R) : R :=
  1 / 2 * (- quadform (dim d) (prec_of (dim d) H (evals d)) xc
           - (INR (d_rank d) * ln (2 * PI) - d_log_pdet d)).
