(* C06 - non-vacuity instances and refutation witnesses for the theorems of IWLSProofs.v. *)
From Coq Require Import Reals Lra List.
From Coquelicot Require Import Coquelicot.
From LV Require Import Analytic.Gauss Analytic.GaussProofs Analytic.IWLS Analytic.IWLSProofs
  Analytic.CorrC06.
Import ListNotations.
Open Scope R_scope.

Lemma accept_prob_neg : forall l, l <= 0 -> accept_prob l = exp l.
Proof.
  intros l Hl. unfold accept_prob. apply Rmin_right.
  rewrite <- exp_0. destruct Hl as [Hl | Hl]; [ left; apply exp_increasing; exact Hl | subst; lra ].
Qed.

(* ---------------------------------------------------------------- non-vacuity: quartic target *)
(* lp x = -x^4/4 - x^2/2 with its true score and information satisfies every hypothesis of the
   IWLS theorems (for every step size > 0) *)
Lemma quartic_detailed_balance : forall s x x', 0 < s ->
  target qt_lp x * iwls_q qt_score qt_info s x x' * iwls_alpha qt_lp qt_score (chol_of_info qt_info) s x x'
  = target qt_lp x' * iwls_q qt_score qt_info s x' x * iwls_alpha qt_lp qt_score (chol_of_info qt_info) s x' x.
Proof.
  intros s x x' Hs. apply iwls_default_detailed_balance; [ exact Hs | apply qt_info_pos ].
Qed.

Lemma quartic_hypotheses :
  (forall x, is_derive qt_lp x (qt_score x)) /\ (forall x, is_derive qt_score x (- qt_info x))
  /\ (forall x, 0 < qt_info x).
Proof. split; [ apply qt_score_is_derive | split; [ apply qt_info_is_derive | apply qt_info_pos ] ]. Qed.

(* the instance is not the trivial one: at x = 0, x' = 1, s = 1 the log acceptance ratio is
   ln 2 - 11/8, so the correction is not zero and the acceptance probability is below 1 *)
Lemma quartic_log_acc_value :
  iwls_log_acc qt_lp qt_score (chol_of_info qt_info) 1 0 1 = ln 2 - 11 / 8.
Proof.
  unfold iwls_log_acc, mh_log_acc, iwls_corr, iwls_bwd, iwls_fwd, iwls_mu, iwls_prec,
    gauss_logpdf_prec, std_normal_logpdf, solve1, chol_of_info, qt_lp, qt_score, qt_info.
  replace (3 * 0 ^ 2 + 1) with 1 by (simpl; ring).
  replace (3 * 1 ^ 2 + 1) with (2 * 2) by (simpl; ring).
  rewrite sqrt_1, sqrt_square by lra.
  replace (1 / 1) with 1 by field. replace (2 / 1) with 2 by field.
  rewrite ln_1. simpl. field.
Qed.

Lemma ln2_lt_1 : ln 2 < 1.
Proof.
  pose proof (exp_ineq1 1) as H.
  assert (H1 : ln 2 < ln (exp 1)) by (apply ln_increasing; lra).
  rewrite ln_exp in H1. exact H1.
Qed.

Lemma quartic_alpha_nontrivial :
  0 < iwls_alpha qt_lp qt_score (chol_of_info qt_info) 1 0 1 < 1.
Proof.
  pose proof quartic_log_acc_value as Hv. pose proof ln2_lt_1 as H2.
  unfold iwls_alpha. rewrite Hv. rewrite accept_prob_neg by lra.
  split; [ apply exp_pos | ]. rewrite <- exp_0. apply exp_increasing. lra.
Qed.

(* ---------------------------------------------------------------- refutation: swapped correction *)
(* a kernel computing fwd - bwd instead of bwd - fwd does NOT report the MH probability
   (standard normal target, s = 1, move 0 -> 1: correct log ratio -1/8, swapped -7/8) *)
Lemma gs_corr_value : iwls_corr (gs_score 0 1) (chol_of_info (gs_info 0 1)) 1 0 1 = 3 / 8.
Proof.
  unfold iwls_corr, iwls_bwd, iwls_fwd, iwls_mu, iwls_prec, gauss_logpdf_prec, std_normal_logpdf,
    solve1, chol_of_info, gs_score, gs_info.
  rewrite sqrt_1. field.
Qed.

Lemma swapped_correction_refuted :
  exists x x' s, 0 < s /\
    accept_prob (iwls_log_acc_swapped (gs_lp 0 1) (gs_score 0 1) (chol_of_info (gs_info 0 1)) s x x')
    <> mh_alpha (target (gs_lp 0 1)) (iwls_q (gs_score 0 1) (gs_info 0 1) s) x x'.
Proof.
  exists 0, 1, 1. split; [ lra | ].
  rewrite <- (iwls_default_acceptance_is_mh (gs_lp 0 1) (gs_score 0 1) (gs_info 0 1) 1 Rlt_0_1
                (fun _ => Rlt_0_1)).
  unfold iwls_alpha, iwls_log_acc, iwls_log_acc_swapped, mh_log_acc. rewrite gs_corr_value.
  assert (E1 : gs_lp 0 1 1 - gs_lp 0 1 0 + - (3 / 8) = - (7 / 8)) by (unfold gs_lp; field).
  assert (E2 : gs_lp 0 1 1 - gs_lp 0 1 0 + 3 / 8 = - (1 / 8)) by (unfold gs_lp; field).
  rewrite E1, E2. rewrite !accept_prob_neg by lra.
  intros Heq.
  assert (H : exp (- (7 / 8)) < exp (- (1 / 8))) by (apply exp_increasing; lra).
  lra.
Qed.

(* ---------------------------------------------------------------- MHKernel instances *)
(* non-vacuity: the autoregressive proposal with its declared correction on a Gaussian target *)
Lemma ar_detailed_balance : forall rho s x x', 0 < s ->
  target (gs_lp 0 1) x * ar_q rho s x x' * mhk_alpha (gs_lp 0 1) (ar_corr rho s) x x'
  = target (gs_lp 0 1) x' * ar_q rho s x' x * mhk_alpha (gs_lp 0 1) (ar_corr rho s) x' x.
Proof.
  intros rho s x x' Hs.
  apply (mhk_detailed_balance (gs_lp 0 1) (ar_q rho s) (ar_corr rho s)).
  - intros a b. apply ar_q_pos. exact Hs.
  - intros a b. apply ar_corr_declared. exact Hs.
Qed.

(* refutation: the sign convention in MHProposal's docstring (log q(x'|x)/q(x|x')) is the
   negative of the one mh_step uses; a proposal function written to the docstring does not give
   the MH probability (rho = 1/2, s = 1, standard normal target, move 0 -> 1) *)
Lemma docstring_corr_is_negated : forall rho s x x', 0 < s ->
  docstring_corr (ar_q rho s) x x' = - ar_corr rho s x x'.
Proof.
  intros rho s x x' Hs. unfold docstring_corr. rewrite (ar_corr_declared rho s x x' Hs).
  pose proof (ar_q_pos rho s x x' Hs) as H1. pose proof (ar_q_pos rho s x' x Hs) as H2.
  rewrite <- ln_Rinv by (apply Rdiv_lt_0_compat; assumption).
  f_equal. field. split; lra.
Qed.

Lemma mhproposal_docstring_sign_refuted :
  exists rho s x x', 0 < s /\
    mhk_alpha (gs_lp 0 1) (docstring_corr (ar_q rho s)) x x'
    <> mh_alpha (target (gs_lp 0 1)) (ar_q rho s) x x'.
Proof.
  exists (1 / 2), 1, 0, 1. split; [ lra | ].
  rewrite <- (mhk_acceptance_is_mh (gs_lp 0 1) (ar_q (1 / 2) 1) (ar_corr (1 / 2) 1)
                (fun a b => ar_q_pos (1 / 2) 1 a b Rlt_0_1)
                (fun a b => ar_corr_declared (1 / 2) 1 a b Rlt_0_1)).
  unfold mhk_alpha, mhk_log_acc, mh_log_acc.
  rewrite (docstring_corr_is_negated (1 / 2) 1 0 1 Rlt_0_1).
  assert (E1 : gs_lp 0 1 1 - gs_lp 0 1 0 + - ar_corr (1 / 2) 1 0 1 = - (7 / 8))
    by (unfold gs_lp, ar_corr; field).
  assert (E2 : gs_lp 0 1 1 - gs_lp 0 1 0 + ar_corr (1 / 2) 1 0 1 = - (1 / 8))
    by (unfold gs_lp, ar_corr; field).
  rewrite E1, E2.
  rewrite !accept_prob_neg by lra.
  intros Heq.
  assert (H : exp (- (7 / 8)) < exp (- (1 / 8))) by (apply exp_increasing; lra).
  lra.
Qed.
