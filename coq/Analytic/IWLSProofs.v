(* C06 - proofs over the model IWLS.v: the corrections that IWLSKernel, RWKernel and MHKernel
   hand to mh_step make the reported acceptance probability the Metropolis-Hastings probability
   min(1, pi(x') q(x|x') / (pi(x) q(x'|x))) for the kernel's actual proposal density q, hence
   detailed balance.  Scalar blocks; all statements for ALL current points, proposals, step
   sizes and all log-targets / scores / Cholesky-information functions. *)
From Coq Require Import Reals Lra List.
From Coquelicot Require Import Coquelicot.
From LV Require Import Analytic.Gauss Analytic.GaussProofs Analytic.IWLS.
Import ListNotations.
Open Scope R_scope.

(* ------------------------------------------------------------------------------------------ *)
(* specification side: densities, the Metropolis-Hastings ratio and acceptance probability      *)
(* q a b = density of proposing b when the chain is at a                                        *)
(* ------------------------------------------------------------------------------------------ *)
Definition target (lp : R -> R) (x : R) : R := exp (lp x).
Definition mh_ratio (pi : R -> R) (q : R -> R -> R) (x x' : R) : R :=
  (pi x' * q x' x) / (pi x * q x x').
Definition mh_alpha (pi : R -> R) (q : R -> R -> R) (x x' : R) : R := Rmin 1 (mh_ratio pi q x x').

(* IWLS proposal: Gaussian, mean x + s^2/2 * F(x)^-1 * score(x), variance s^2 * F(x)^-1 *)
Definition iwls_mean (score F : R -> R) (s x : R) : R := x + s * s / 2 * (/ F x) * score x.
Definition iwls_var (F : R -> R) (s x : R) : R := s * s * / F x.
Definition iwls_q (score F : R -> R) (s : R) (x y : R) : R :=
  gauss_pdf y (iwls_mean score F s x) (iwls_var F s x).
(* the information implied by a Cholesky factor *)
Definition info_of_chol (ch : R -> R) (x : R) : R := ch x * ch x.
(* random walk proposal: Gaussian centred at the current point, variance s^2 *)
Definition rw_q (s : R) (x y : R) : R := gauss_pdf y x (s * s).

(* ------------------------------------------------------------------------------------------ *)
(* the Metropolis-Hastings core                                                                 *)
(* ------------------------------------------------------------------------------------------ *)
Lemma mh_balance_core : forall a b, 0 < a -> 0 < b -> a * Rmin 1 (b / a) = b * Rmin 1 (a / b).
Proof.
  intros a b Ha Hb.
  destruct (Rle_dec a b) as [Hab | Hab].
  - rewrite (Rmin_left 1 (b / a)).
    + rewrite (Rmin_right 1 (a / b)).
      * field. lra.
      * apply (Rmult_le_reg_r b); [ exact Hb | ].
        unfold Rdiv. rewrite Rmult_assoc, Rinv_l by lra. lra.
    + apply (Rmult_le_reg_r a); [ exact Ha | ].
      unfold Rdiv. rewrite Rmult_assoc, Rinv_l by lra. lra.
  - assert (Hba : b <= a) by lra.
    rewrite (Rmin_right 1 (b / a)).
    + rewrite (Rmin_left 1 (a / b)).
      * field. lra.
      * apply (Rmult_le_reg_r b); [ exact Hb | ].
        unfold Rdiv. rewrite Rmult_assoc, Rinv_l by lra. lra.
    + apply (Rmult_le_reg_r a); [ exact Ha | ].
      unfold Rdiv. rewrite Rmult_assoc, Rinv_l by lra. lra.
Qed.

(* any kernel that accepts with mh_alpha is in detailed balance w.r.t. pi *)
Lemma mh_alpha_detailed_balance : forall (pi : R -> R) (q : R -> R -> R) x x',
  0 < pi x -> 0 < pi x' -> 0 < q x x' -> 0 < q x' x ->
  pi x * q x x' * mh_alpha pi q x x' = pi x' * q x' x * mh_alpha pi q x' x.
Proof.
  intros pi q x x' Hx Hx' Hq Hq'. unfold mh_alpha, mh_ratio.
  apply mh_balance_core; apply Rmult_lt_0_compat; assumption.
Qed.

Lemma accept_prob_range : forall l, 0 < accept_prob l <= 1.
Proof.
  intros l. unfold accept_prob. split.
  - apply Rmin_glb_lt; [ lra | apply exp_pos ].
  - apply Rmin_l.
Qed.

(* what mh_step computes from log-densities and a log-correction ln (qb / qf) *)
Lemma mh_step_is_ratio : forall lpx lpx' qf qb, 0 < qf -> 0 < qb ->
  exp (mh_log_acc lpx lpx' (ln qb - ln qf)) = (exp lpx' * qb) / (exp lpx * qf).
Proof.
  intros lpx lpx' qf qb Hf Hb. unfold mh_log_acc.
  replace (lpx' - lpx + (ln qb - ln qf)) with (lpx' + ln qb + - (lpx + ln qf)) by ring.
  rewrite exp_plus, exp_Ropp, !exp_plus, !exp_ln by assumption.
  reflexivity.
Qed.

(* ------------------------------------------------------------------------------------------ *)
(* IWLS                                                                                         *)
(* ------------------------------------------------------------------------------------------ *)
Section IWLS.
  Variables (lp score ch : R -> R) (s : R).
  Hypothesis s_pos : 0 < s.
  Hypothesis ch_pos : forall x, 0 < ch x.

  Let F := info_of_chol ch.

  Lemma F_pos : forall x, 0 < F x.
  Proof. intros x. unfold F, info_of_chol. apply Rmult_lt_0_compat; apply ch_pos. Qed.

  Lemma iwls_prec_pos : forall x, 0 < iwls_prec ch s x.
  Proof. intros x. unfold iwls_prec. apply Rdiv_lt_0_compat; [ apply ch_pos | exact s_pos ]. Qed.

  Lemma iwls_var_pos : forall x, 0 < iwls_var F s x.
  Proof.
    intros x. unfold iwls_var.
    apply Rmult_lt_0_compat; [ apply Rmult_lt_0_compat; exact s_pos | ].
    apply Rinv_0_lt_compat, F_pos.
  Qed.

  Lemma iwls_mu_is_mean : forall x, iwls_mu score ch s x = iwls_mean score F s x.
  Proof.
    intros x. unfold iwls_mu, iwls_mean, solve1, F, info_of_chol.
    pose proof (ch_pos x) as Hc. field. lra.
  Qed.

  Lemma iwls_prec_is_var : forall x, / (iwls_prec ch s x * iwls_prec ch s x) = iwls_var F s x.
  Proof.
    intros x. unfold iwls_prec, iwls_var, F, info_of_chol.
    pose proof (ch_pos x) as Hc. field. split; lra.
  Qed.

  (* the log-density the kernel evaluates for a move a -> b is the log of the Gaussian density
     with the documented mean and covariance *)
  Lemma iwls_logq_is_q : forall a b,
    exp (gauss_logpdf_prec b (iwls_mu score ch s a) (iwls_prec ch s a)) = iwls_q score F s a b.
  Proof.
    intros a b. unfold iwls_q.
    rewrite gauss_logpdf_prec_is_pdf by apply iwls_prec_pos.
    rewrite iwls_mu_is_mean, iwls_prec_is_var. reflexivity.
  Qed.

  Lemma iwls_fwd_is_q : forall x x', exp (iwls_fwd score ch s x x') = iwls_q score F s x x'.
  Proof. intros x x'. unfold iwls_fwd. apply iwls_logq_is_q. Qed.

  Lemma iwls_bwd_is_q : forall x x', exp (iwls_bwd score ch s x x') = iwls_q score F s x' x.
  Proof. intros x x'. unfold iwls_bwd. apply iwls_logq_is_q. Qed.

  Lemma iwls_q_pos : forall a b, 0 < iwls_q score F s a b.
  Proof. intros a b. unfold iwls_q. apply gauss_pdf_pos, iwls_var_pos. Qed.

  (* the realised proposal is a draw from that density: the kernel's sample is
     mean + sd * z, and the density of the draw is phi(z) / |d proposal / d z| *)
  Lemma iwls_propose_is_draw : forall z x,
    iwls_propose score ch s z x = iwls_mean score F s x + sqrt (iwls_var F s x) * z.
  Proof.
    intros z x. unfold iwls_propose, gauss_sample.
    rewrite iwls_mu_is_mean.
    rewrite <- iwls_prec_is_var.
    pose proof (iwls_prec_pos x) as Hp.
    rewrite Rinv_mult.
    rewrite sqrt_square by (left; apply Rinv_0_lt_compat; exact Hp).
    field. lra.
  Qed.

  Lemma iwls_propose_density : forall z x,
    iwls_q score F s x (iwls_propose score ch s z x) = std_normal_pdf z / (/ iwls_prec ch s x)
    /\ is_derive (fun t => iwls_propose score ch s t x) z (/ iwls_prec ch s x).
  Proof.
    intros z x. pose proof (iwls_prec_pos x) as Hp. split.
    - rewrite <- iwls_logq_is_q. unfold iwls_propose.
      rewrite gauss_logpdf_prec_is_pdf by exact Hp.
      apply gauss_density_of_draw. exact Hp.
    - unfold iwls_propose. apply gauss_sample_derive. lra.
  Qed.

  (* exp of the log acceptance ratio handed to clip(exp(.)) is the MH ratio *)
  Lemma iwls_ratio : forall x x',
    exp (iwls_log_acc lp score ch s x x') = mh_ratio (target lp) (iwls_q score F s) x x'.
  Proof.
    intros x x'. unfold iwls_log_acc, iwls_corr, mh_ratio, target.
    rewrite <- (iwls_bwd_is_q x x'), <- (iwls_fwd_is_q x x').
    rewrite <- (ln_exp (iwls_bwd score ch s x x')) at 1.
    rewrite <- (ln_exp (iwls_fwd score ch s x x')) at 1.
    apply mh_step_is_ratio; apply exp_pos.
  Qed.

  Lemma iwls_acceptance_is_mh : forall x x',
    iwls_alpha lp score ch s x x' = mh_alpha (target lp) (iwls_q score F s) x x'.
  Proof. intros x x'. unfold iwls_alpha, accept_prob, mh_alpha. rewrite iwls_ratio. reflexivity. Qed.

  Lemma iwls_detailed_balance : forall x x',
    target lp x * iwls_q score F s x x' * iwls_alpha lp score ch s x x'
    = target lp x' * iwls_q score F s x' x * iwls_alpha lp score ch s x' x.
  Proof.
    intros x x'. rewrite !iwls_acceptance_is_mh.
    apply mh_alpha_detailed_balance; try apply iwls_q_pos; apply exp_pos.
  Qed.

  (* the correction is antisymmetric: the backward move's correction is minus the forward one *)
  Lemma iwls_corr_antisym : forall x x', iwls_corr score ch s x' x = - iwls_corr score ch s x x'.
  Proof. intros x x'. unfold iwls_corr, iwls_bwd, iwls_fwd. ring. Qed.
End IWLS.

(* default Cholesky factor: sqrt of the negative Hessian / information *)
Section IWLSDefault.
  Variables (lp score info : R -> R) (s : R).
  Hypothesis s_pos : 0 < s.
  Hypothesis info_pos : forall x, 0 < info x.

  Lemma chol_of_info_pos : forall x, 0 < chol_of_info info x.
  Proof. intros x. unfold chol_of_info. apply sqrt_lt_R0, info_pos. Qed.

  Lemma info_of_chol_of_info : forall x, info_of_chol (chol_of_info info) x = info x.
  Proof.
    intros x. unfold info_of_chol, chol_of_info. apply sqrt_sqrt. left. apply info_pos.
  Qed.

  Lemma iwls_q_default : forall a b,
    iwls_q score (info_of_chol (chol_of_info info)) s a b = iwls_q score info s a b.
  Proof.
    intros a b. unfold iwls_q, iwls_mean, iwls_var. rewrite info_of_chol_of_info. reflexivity.
  Qed.

  (* proposal moments as the property states them: mean x + s^2/2 F^-1 grad log pi,
     covariance s^2 F^-1, F = information (negative Hessian) *)
  Lemma iwls_proposal_moments : forall x x',
    exp (iwls_fwd score (chol_of_info info) s x x')
    = gauss_pdf x' (x + s * s / 2 * (/ info x) * score x) (s * s * / info x).
  Proof.
    intros x x'.
    rewrite (iwls_fwd_is_q score (chol_of_info info) s s_pos chol_of_info_pos).
    rewrite iwls_q_default. reflexivity.
  Qed.

  Lemma iwls_default_acceptance_is_mh : forall x x',
    iwls_alpha lp score (chol_of_info info) s x x' = mh_alpha (target lp) (iwls_q score info s) x x'.
  Proof.
    intros x x'.
    rewrite (iwls_acceptance_is_mh lp score (chol_of_info info) s s_pos chol_of_info_pos).
    unfold mh_alpha, mh_ratio. rewrite !iwls_q_default. reflexivity.
  Qed.

  Lemma iwls_default_detailed_balance : forall x x',
    target lp x * iwls_q score info s x x' * iwls_alpha lp score (chol_of_info info) s x x'
    = target lp x' * iwls_q score info s x' x * iwls_alpha lp score (chol_of_info info) s x' x.
  Proof.
    intros x x'.
    pose proof (iwls_detailed_balance lp score (chol_of_info info) s s_pos chol_of_info_pos x x') as H.
    rewrite !iwls_q_default in H. exact H.
  Qed.
End IWLSDefault.

(* ------------------------------------------------------------------------------------------ *)
(* random walk                                                                                  *)
(* ------------------------------------------------------------------------------------------ *)
Section RW.
  Variables (lp : R -> R) (s : R).
  Hypothesis s_pos : 0 < s.

  Lemma rw_q_pos : forall a b, 0 < rw_q s a b.
  Proof. intros a b. unfold rw_q. apply gauss_pdf_pos, Rmult_lt_0_compat; exact s_pos. Qed.

  Lemma rw_q_symmetric : forall a b, rw_q s a b = rw_q s b a.
  Proof. intros a b. unfold rw_q. apply gauss_pdf_sym. Qed.

  (* the kernel's proposal x + s * z is the mvn_sample-style draw with Cholesky factor 1/s, so
     its density is rw_q *)
  Lemma rw_propose_is_sample : forall z x, rw_propose s z x = gauss_sample z x (/ s).
  Proof. intros z x. unfold rw_propose, gauss_sample. field. lra. Qed.

  Lemma rw_propose_density : forall z x,
    rw_q s x (rw_propose s z x) = std_normal_pdf z / s
    /\ is_derive (fun t => rw_propose s t x) z s.
  Proof.
    intros z x. split.
    - unfold rw_q. rewrite rw_propose_is_sample.
      assert (Hi : 0 < / s) by (apply Rinv_0_lt_compat; exact s_pos).
      replace (s * s) with (/ (/ s * / s)) by (field; lra).
      rewrite gauss_density_of_draw by exact Hi.
      field. lra.
    - unfold rw_propose. auto_derive; [ exact I | ring ].
  Qed.

  (* zero is the right correction: ln (q(x|x') / q(x'|x)) = 0 *)
  Lemma rw_zero_correction : forall x x', rw_corr x x' = ln (rw_q s x' x) - ln (rw_q s x x').
  Proof. intros x x'. unfold rw_corr. rewrite (rw_q_symmetric x' x). ring. Qed.

  Lemma rw_ratio : forall x x', exp (rw_log_acc lp x x') = mh_ratio (target lp) (rw_q s) x x'.
  Proof.
    intros x x'. unfold rw_log_acc. rewrite rw_zero_correction.
    unfold mh_ratio, target. apply mh_step_is_ratio; apply rw_q_pos.
  Qed.

  Lemma rw_acceptance_is_mh : forall x x', rw_alpha lp x x' = mh_alpha (target lp) (rw_q s) x x'.
  Proof. intros x x'. unfold rw_alpha, accept_prob, mh_alpha. rewrite rw_ratio. reflexivity. Qed.

  Lemma rw_detailed_balance : forall x x',
    target lp x * rw_q s x x' * rw_alpha lp x x' = target lp x' * rw_q s x' x * rw_alpha lp x' x.
  Proof.
    intros x x'. rewrite !rw_acceptance_is_mh.
    apply mh_alpha_detailed_balance; try apply rw_q_pos; apply exp_pos.
  Qed.
End RW.

(* ------------------------------------------------------------------------------------------ *)
(* MHKernel: the user's declared log-correction is forwarded unchanged                           *)
(* ------------------------------------------------------------------------------------------ *)
Section MHUser.
  Variables (lp : R -> R) (q : R -> R -> R) (user_corr : R -> R -> R).
  Hypothesis q_pos : forall a b, 0 < q a b.
  (* the declaration mh_step documents: log_correction = log [ q(x | x') / q(x' | x) ] *)
  Hypothesis declared : forall x x', user_corr x x' = ln (q x' x / q x x').

  Lemma mhk_ratio : forall x x', exp (mhk_log_acc lp user_corr x x') = mh_ratio (target lp) q x x'.
  Proof.
    intros x x'. unfold mhk_log_acc. rewrite declared.
    unfold Rdiv at 1. rewrite ln_mult, ln_Rinv; try apply q_pos; [ | apply Rinv_0_lt_compat, q_pos ].
    unfold mh_ratio, target.
    replace (ln (q x' x) + - ln (q x x')) with (ln (q x' x) - ln (q x x')) by ring.
    apply mh_step_is_ratio; apply q_pos.
  Qed.

  Lemma mhk_acceptance_is_mh : forall x x', mhk_alpha lp user_corr x x' = mh_alpha (target lp) q x x'.
  Proof. intros x x'. unfold mhk_alpha, accept_prob, mh_alpha. rewrite mhk_ratio. reflexivity. Qed.

  Lemma mhk_detailed_balance : forall x x',
    target lp x * q x x' * mhk_alpha lp user_corr x x' = target lp x' * q x' x * mhk_alpha lp user_corr x' x.
  Proof.
    intros x x'. rewrite !mhk_acceptance_is_mh.
    apply mh_alpha_detailed_balance; try apply q_pos; apply exp_pos.
  Qed.
End MHUser.

(* ------------------------------------------------------------------------------------------ *)
(* what goes wrong with the other sign / order (the slips the property text names)              *)
(* ------------------------------------------------------------------------------------------ *)
(* a kernel that used fwd - bwd instead of bwd - fwd reports exp(lp' - lp - corr); on the
   quartic target below this differs from the MH probability *)
Definition iwls_log_acc_swapped (lp score ch : R -> R) (s x x' : R) : R :=
  mh_log_acc (lp x) (lp x') (- iwls_corr score ch s x x').

(* the sign convention written in MHProposal's docstring, log (q(x'|x) / q(x|x')), is the negative
   of what mh_step adds: a user who follows it does not get the MH rule *)
Definition docstring_corr (q : R -> R -> R) (x x' : R) : R := ln (q x x' / q x' x).
