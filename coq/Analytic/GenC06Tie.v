(* Support library for the C06 source tie (tools/py2gallina_c06.py).

   On every run of the check the translator turns the Python source of liesel/goose/iwls_utils.py
   (solve, mvn_log_prob, mvn_sample), of IWLSKernel._standard_transition (iwls.py) and of
   RWKernel._standard_transition (rw.py) into Gallina definitions (gen_...); the generated file (work
   directory, never this directory) proves them extensionally equal to the hand-written model of
   Analytic/Gauss.v / Analytic/IWLS.v and re-states main C06 theorems for them.  This file holds exactly
   what that generated file needs: the shape in which a translated function is compared with the model,
   the hand-written composition of the model's functions that a whole transition is compared with, the
   real-valued reading of what mh_step does with the arguments it is handed (IWLS.v's mh_log_acc /
   accept_prob), the restriction of the n-dimensional model to blocks of size one, the transfer theorems,
   and the tactic of the generated equality proofs.  Hand-written; no generated text here. *)
From Coq Require Import Reals List Lra.
From Coquelicot Require Import Coquelicot.
From LV Require Import Analytic.Gauss Analytic.GaussProofs Analytic.IWLS Analytic.IWLSProofs.
Import ListNotations.
Open Scope R_scope.

(* ---- the shape in which translated functions are compared with the model ---------------------- *)
(* arrays are [vec] / [tri]; a PRNG key is an element of an arbitrary type K; jax.random.normal and
   jax.random.split are arguments (oracles) of the translated functions; a model state is the flat
   position of the kernel's block; mh_step is an argument [mh : key -> proposal -> state -> correction ->
   info * state]; a TransitionOutcome is (info, step size of the kernel state, model state). *)
Definition solve_fn := tri -> vec -> vec.
Definition logprob_fn := vec -> vec -> tri -> R.
Definition sample_fn := forall K : Type, (K -> nat -> vec) -> K -> vec -> tri -> vec.
Definition iwls_fn := forall K I : Type, (K -> K * K) -> (K -> nat -> vec) -> (K -> vec -> vec -> R -> I * vec) ->
  (vec -> vec) -> (vec -> tri) -> K -> R -> vec -> I * R * vec.
Definition rw_fn := forall K I : Type, (K -> K * K) -> (K -> nat -> vec) -> (K -> vec -> vec -> R -> I * vec) ->
  K -> R -> vec -> I * R * vec.

Definition solve_eq (g : solve_fn) : Prop := forall L r, g L r = solve L r.
Definition logprob_eq (g : logprob_fn) : Prop := forall x m L, g x m L = mvn_log_prob x m L.
Definition sample_eq (g : sample_fn) : Prop :=
  forall K (o : K -> nat -> vec) k m L, g K o k m L = mvn_sample (o k (length m)) m L.

(* IWLSKernel._standard_transition as IWLS.v composes it: split the key, draw z of the shape of the mean,
   propose, hand (subkey, proposal, current state, bwd - fwd) to mh_step, keep the kernel state *)
Definition iwls_transition_model {K I : Type} (split : K -> K * K) (normal : K -> nat -> vec)
    (mh : K -> vec -> vec -> R -> I * vec) (score : vec -> vec) (ch : vec -> tri) (key : K) (s : R) (x : vec)
    : I * R * vec :=
  let z := normal (fst (split key)) (length (iwls_mu_n score ch s x)) in
  let x' := iwls_propose_n score ch s z x in
  let r := mh (snd (split key)) x' x (iwls_corr_n score ch s x x') in
  (fst r, s, snd r).

(* RWKernel._standard_transition: proposal x + s z, no correction (mh_step's default 0) *)
Definition rw_transition_model {K I : Type} (split : K -> K * K) (normal : K -> nat -> vec)
    (mh : K -> vec -> vec -> R -> I * vec) (key : K) (s : R) (x : vec) : I * R * vec :=
  let z := normal (fst (split key)) (length x) in
  let r := mh (snd (split key)) (rw_propose_n s z x) x 0 in
  (fst r, s, snd r).

Definition iwls_eq (g : iwls_fn) : Prop :=
  forall K I split normal mh score ch key s x,
    g K I split normal mh score ch key s x = iwls_transition_model split normal mh score ch key s x.
Definition rw_eq (g : rw_fn) : Prop :=
  forall K I split normal mh key s x, g K I split normal mh key s x = rw_transition_model split normal mh key s x.

(* ---- what mh_step does with its arguments, over R (finite values; IWLS.v's mh_log_acc / accept_prob;
   the IEEE corner cases and the source of mh_step itself are C05's) ------------------------------ *)
Definition mh_step_R {K : Type} (lp : vec -> R) (u : K -> R) (k : K) (prop cur : vec) (corr : R) : R * vec :=
  let a := accept_prob (mh_log_acc (lp cur) (lp prop) corr) in
  (a, if Rlt_dec (u k) a then prop else cur).

(* ---- blocks of size one ----------------------------------------------------------------------- *)
Definition lift_v (f : R -> R) (v : vec) : vec := [f (hd 0 v)].
Definition lift_t (f : R -> R) (v : vec) : tri := [[f (hd 0 v)]].
Definition lift_lp (f : R -> R) (v : vec) : R := f (hd 0 v).

Lemma iwls_mu_n_dim1 : forall score ch s x,
  iwls_mu_n (lift_v score) (lift_t ch) s [x] = [iwls_mu score ch s x].
Proof.
  intros. unfold iwls_mu_n, lift_v, lift_t, iwls_mu. cbn [hd]. rewrite solve_dim1.
  cbn [vscale map vadd]. reflexivity.
Qed.

Lemma iwls_prec_n_dim1 : forall ch s x, iwls_prec_n (lift_t ch) s [x] = [[iwls_prec ch s x]].
Proof. intros. reflexivity. Qed.

Lemma iwls_propose_n_dim1 : forall score ch s z x,
  iwls_propose_n (lift_v score) (lift_t ch) s [z] [x] = [iwls_propose score ch s z x].
Proof.
  intros. unfold iwls_propose_n, iwls_propose. rewrite iwls_mu_n_dim1, iwls_prec_n_dim1.
  apply mvn_sample_dim1.
Qed.

Lemma iwls_corr_n_dim1 : forall score ch s x x',
  iwls_corr_n (lift_v score) (lift_t ch) s [x] [x'] = iwls_corr score ch s x x'.
Proof.
  intros. unfold iwls_corr_n, iwls_bwd_n, iwls_fwd_n, iwls_corr, iwls_bwd, iwls_fwd.
  rewrite !iwls_mu_n_dim1, !iwls_prec_n_dim1, !mvn_log_prob_dim1. reflexivity.
Qed.

Lemma rw_propose_n_dim1 : forall s z x, rw_propose_n s [z] [x] = [rw_propose s z x].
Proof. intros. reflexivity. Qed.

(* the acceptance probability a translated transition reports on a block of size one, current point x,
   normal draw z (keys are immaterial: unit) *)
Definition g_iwls_out (g : iwls_fn) (lp score ch : R -> R) (s x z u : R) : R * R * vec :=
  g unit R (fun k => (k, k)) (fun _ _ => [z]) (mh_step_R (lift_lp lp) (fun _ => u)) (lift_v score) (lift_t ch) tt s [x].
Definition g_rw_out (g : rw_fn) (lp : R -> R) (s x z u : R) : R * R * vec :=
  g unit R (fun k => (k, k)) (fun _ _ => [z]) (mh_step_R (lift_lp lp) (fun _ => u)) tt s [x].
Definition out_alpha (o : R * R * vec) : R := fst (fst o).
Definition out_step (o : R * R * vec) : R := snd (fst o).
Definition out_state (o : R * R * vec) : vec := snd o.

Lemma g_iwls_out_model : forall g, iwls_eq g -> forall lp score ch s x z u,
  g_iwls_out g lp score ch s x z u =
  (iwls_alpha lp score ch s x (iwls_propose score ch s z x), s,
   if Rlt_dec u (iwls_alpha lp score ch s x (iwls_propose score ch s z x))
   then [iwls_propose score ch s z x] else [x]).
Proof.
  intros g Hg lp score ch s x z u. unfold g_iwls_out. rewrite Hg.
  unfold iwls_transition_model. cbv zeta. cbn [fst snd].
  rewrite iwls_propose_n_dim1, iwls_corr_n_dim1.
  unfold mh_step_R, lift_lp. cbn [fst snd hd]. reflexivity.
Qed.

Lemma g_rw_out_model : forall g, rw_eq g -> forall lp s x z u,
  g_rw_out g lp s x z u =
  (rw_alpha lp x (rw_propose s z x), s,
   if Rlt_dec u (rw_alpha lp x (rw_propose s z x)) then [rw_propose s z x] else [x]).
Proof.
  intros g Hg lp s x z u. unfold g_rw_out. rewrite Hg.
  unfold rw_transition_model. cbv zeta. cbn [fst snd]. rewrite rw_propose_n_dim1.
  unfold mh_step_R, lift_lp, rw_alpha, rw_log_acc, rw_corr. cbn [fst snd hd]. reflexivity.
Qed.

(* ---- transfer theorems: the C06 theorems for any functions equal to the model ------------------ *)
(* C06_nd_dim1_is_scalar *)
Theorem tie_nd_dim1_is_scalar (gs : solve_fn) (gl : logprob_fn) (gm : sample_fn) :
  solve_eq gs -> logprob_eq gl -> sample_eq gm ->
  forall x m l z r K (o : K -> nat -> vec) k, o k 1%nat = [z] ->
  gl [x] [m] [[l]] = gauss_logpdf_prec x m l
  /\ gm K o k [m] [[l]] = [gauss_sample z m l]
  /\ gs [[l]] [r] = [solve1 l r].
Proof.
  intros Hs Hl Hm x m l z r K o k Ho. rewrite Hs, Hl, Hm. cbn [length]. rewrite Ho.
  split; [ apply mvn_log_prob_dim1 | split; [ apply mvn_sample_dim1 | apply solve_dim1 ] ].
Qed.

(* C06_logpdf_is_density_of_sample: what mvn_log_prob evaluates at what mvn_sample returns *)
Theorem tie_logpdf_is_density_of_sample (gl : logprob_fn) (gm : sample_fn) :
  logprob_eq gl -> sample_eq gm ->
  forall K (o : K -> nat -> vec) k z m l, l <> 0 -> o k 1%nat = [z] ->
  gl (gm K o k [m] [[l]]) [m] [[l]] = std_normal_logpdf z + ln l.
Proof.
  intros Hl Hm K o k z m l Hne Ho. rewrite Hm, Hl. cbn [length]. rewrite Ho.
  rewrite mvn_sample_dim1, mvn_log_prob_dim1. apply gauss_logpdf_of_sample. exact Hne.
Qed.

(* C06_logpdf_is_gaussian *)
Theorem tie_logpdf_is_gaussian (gl : logprob_fn) : logprob_eq gl ->
  forall y m l, 0 < l -> exp (gl [y] [m] [[l]]) = gauss_pdf y m (/ (l * l)).
Proof. intros Hl y m l H. rewrite Hl, mvn_log_prob_dim1. apply gauss_logpdf_prec_is_pdf. exact H. Qed.

(* C06_acceptance_is_mh + the kernel state is kept + the new state is the proposal or the old state *)
Theorem tie_iwls_acceptance_is_mh (g : iwls_fn) : iwls_eq g ->
  forall lp score ch s, 0 < s -> (forall x, 0 < ch x) -> forall x z u,
  let o := g_iwls_out g lp score ch s x z u in
  let x' := iwls_propose score ch s z x in
  out_alpha o = mh_alpha (target lp) (iwls_q score (info_of_chol ch) s) x x'
  /\ out_step o = s
  /\ (out_state o = [x'] \/ out_state o = [x])
  /\ iwls_q score (info_of_chol ch) s x x' = std_normal_pdf z / (/ iwls_prec ch s x).
Proof.
  intros Hg lp score ch s Hs Hc x z u. cbv zeta. rewrite (g_iwls_out_model g Hg).
  unfold out_alpha, out_step, out_state. cbn [fst snd].
  split; [ apply iwls_acceptance_is_mh; assumption | split; [ reflexivity | split ] ].
  - destruct (Rlt_dec _ _); [ left | right ]; reflexivity.
  - apply (iwls_propose_density score ch s Hs Hc z x).
Qed.

(* C06_detailed_balance: the flow x -> x' with the draw z equals the flow x' -> x with the draw z' that
   leads back (which always exists: z' = (x - mu x') * prec x') *)
Theorem tie_iwls_detailed_balance (g : iwls_fn) : iwls_eq g ->
  forall lp score ch s, 0 < s -> (forall x, 0 < ch x) -> forall x z u u',
  let x' := iwls_propose score ch s z x in
  let z' := (x - iwls_mu score ch s x') * iwls_prec ch s x' in
  iwls_propose score ch s z' x' = x
  /\ target lp x * iwls_q score (info_of_chol ch) s x x' * out_alpha (g_iwls_out g lp score ch s x z u)
     = target lp x' * iwls_q score (info_of_chol ch) s x' x * out_alpha (g_iwls_out g lp score ch s x' z' u').
Proof.
  intros Hg lp score ch s Hs Hc x z u u'. cbv zeta.
  assert (Hback : iwls_propose score ch s
            ((x - iwls_mu score ch s (iwls_propose score ch s z x)) * iwls_prec ch s (iwls_propose score ch s z x))
            (iwls_propose score ch s z x) = x).
  { unfold iwls_propose at 1. apply gauss_sample_inv.
    apply Rgt_not_eq, Rlt_gt, (iwls_prec_pos ch s Hs Hc). }
  split; [ exact Hback | ].
  rewrite !(g_iwls_out_model g Hg). unfold out_alpha. cbn [fst]. rewrite Hback.
  apply iwls_detailed_balance; assumption.
Qed.

(* C06_rw / C06_rw_proposal_is_draw *)
Theorem tie_rw (g : rw_fn) : rw_eq g -> forall lp s, 0 < s -> forall x z u u',
  let x' := rw_propose s z x in
  out_alpha (g_rw_out g lp s x z u) = mh_alpha (target lp) (rw_q s) x x'
  /\ out_step (g_rw_out g lp s x z u) = s
  /\ (out_state (g_rw_out g lp s x z u) = [x'] \/ out_state (g_rw_out g lp s x z u) = [x])
  /\ rw_q s x x' = std_normal_pdf z / s
  /\ rw_propose s (- z) x' = x
  /\ target lp x * rw_q s x x' * out_alpha (g_rw_out g lp s x z u)
     = target lp x' * rw_q s x' x * out_alpha (g_rw_out g lp s x' (- z) u').
Proof.
  intros Hg lp s Hs x z u u'. cbv zeta.
  assert (Hback : rw_propose s (- z) (rw_propose s z x) = x) by (unfold rw_propose; ring).
  rewrite !(g_rw_out_model g Hg). unfold out_alpha, out_step, out_state. cbn [fst snd]. rewrite Hback.
  split; [ apply rw_acceptance_is_mh; assumption | split; [ reflexivity | split ] ].
  - destruct (Rlt_dec _ _); [ left | right ]; reflexivity.
  - split; [ apply (rw_propose_density s Hs z x) | split; [ reflexivity | ] ].
    apply rw_detailed_balance; assumption.
Qed.

(* C06_proposal_moments for the default factor: the forward log-density the translated transition hands on is
   that of the documented Gaussian; stated through the model equality for the translated mvn_log_prob *)
Theorem tie_proposal_moments (gl : logprob_fn) : logprob_eq gl ->
  forall score info s, 0 < s -> (forall x, 0 < info x) -> forall x x',
  exp (gl [x'] (iwls_mu_n (lift_v score) (lift_t (chol_of_info info)) s [x])
             (iwls_prec_n (lift_t (chol_of_info info)) s [x]))
  = gauss_pdf x' (x + s * s / 2 * (/ info x) * score x) (s * s * / info x).
Proof.
  intros Hl score info s Hs Hi x x'. rewrite Hl, iwls_mu_n_dim1, iwls_prec_n_dim1, mvn_log_prob_dim1.
  exact (iwls_proposal_moments score info s Hs Hi x x').
Qed.

(* ---- tactic of the generated equality proofs --------------------------------------------------- *)
Lemma vadd_comm : forall a b, vadd a b = vadd b a.
Proof.
  induction a as [|x a IH]; intros [|y b]; cbn [vadd]; try reflexivity.
  rewrite (IH b). f_equal. ring.
Qed.

(* both sides are built from the same model primitives; [tie06] closes the goal by reflexivity / ring where
   it can and otherwise descends through equal head symbols (one application at a time, as few differing
   arguments as possible); vector addition may have its operands swapped *)
Ltac tie06 :=
  first
    [ reflexivity
    | ring
    | match goal with
      | |- ?f ?a = ?f ?b => apply (f_equal f); solve [tie06]
      | |- ?f ?a ?b = ?f ?c ?d => apply (f_equal2 f); solve [tie06]
      | |- ?f ?a ?b ?c = ?f ?a' ?b' ?c' => apply (f_equal3 f); solve [tie06]
      | |- ?f ?a ?b ?c ?d = ?f ?a' ?b' ?c' ?d' => apply (f_equal4 f); solve [tie06]
      | |- vadd ?a ?b = vadd ?c ?d => rewrite (vadd_comm a b); apply (f_equal2 vadd); solve [tie06]
      | |- @eq R _ _ => progress (tie06_unify rsum; tie06_unify ln; tie06_unify sqrt; tie06_unify exp); ring
      end ]
(* two occurrences [f a], [f b] of a non-ring function symbol whose arguments are provably equal are made
   syntactically equal, so that [ring] sees one atom (a sum rewritten as a negated difference, a mean
   computed in another order inside both log-densities, ...) *)
with tie06_unify f :=
  repeat match goal with
  | |- context [f ?a] =>
      match goal with
      | |- context [f ?b] =>
          tryif constr_eq a b then fail else
          (let H := fresh "Hu" in assert (H : b = a) by tie06; rewrite H; clear H)
      end
  end.

Ltac tie06_unfold :=
  unfold iwls_transition_model, rw_transition_model, iwls_propose_n, iwls_corr_n, iwls_bwd_n, iwls_fwd_n,
         iwls_mu_n, iwls_prec_n, rw_propose_n, mvn_log_prob, mvn_sample, solve;
  cbv zeta.
