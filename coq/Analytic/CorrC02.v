(* Glue for the R-lemmas of the C02 correspondence: closed-form log-densities (Analytic/Gibbs.v) of the
   scalar families used by the generated models, at the current values of a distribution node's
   inputs.  ln Gamma(a) is supplied per goal as a number lg (ln (a-1)! for integer a). *)
From Coq Require Import Reals.
From LV Require Import Analytic.Gibbs.
Open Scope R_scope.

(* tfd.Normal(loc=m, scale=s).log_prob(y) *)
Definition c02_normal (m s y : R) : R := normal_logpdf m s y.
(* tfd.InverseGamma(concentration=a, scale=b).log_prob(t) *)
Definition c02_ig (lg a b t : R) : R := ig_logpdf (fun _ => lg) a b t.
(* tfd.Gamma(concentration=a, rate=r).log_prob(x) *)
Definition c02_gamma (lg a r x : R) : R := gamma_logpdf (fun _ => lg) a r x.
(* Var.transform(tfb.Exp): density of u = ln t when t has density p:  ln p(exp u) + u *)
Definition c02_ig_exp (lg a b u : R) : R := c02_ig lg a b (exp u) + u.
Definition c02_gamma_exp (lg a r u : R) : R := c02_gamma lg a r (exp u) + u.
