(* C18 - proofs for MvnMatrix.v: the matrix-level quadratic form is the eigen-coordinate one. *)
From Coq Require Import Reals Lra Lia Arith Bool.
From LV Require Import Analytic.MvnDegen Analytic.MvnDegenProofs Analytic.MvnMatrix.
Open Scope R_scope.

Lemma rsum_plus : forall n f g, rsum n (fun i => f i + g i) = rsum n f + rsum n g.
Proof. induction n as [|k IH]; intros f g; cbn [rsum]; [ lra | ]. rewrite IH. lra. Qed.

Lemma rsum_scal_l : forall n a f, rsum n (fun i => a * f i) = a * rsum n f.
Proof. induction n as [|k IH]; intros a f; cbn [rsum]; [ lra | ]. rewrite IH. lra. Qed.

Lemma rsum_scal_r : forall n a f, rsum n (fun i => f i * a) = rsum n f * a.
Proof. induction n as [|k IH]; intros a f; cbn [rsum]; [ lra | ]. rewrite IH. lra. Qed.

Lemma rsum_swap : forall n m (f : nat -> nat -> R),
  rsum n (fun a => rsum m (fun b => f a b)) = rsum m (fun b => rsum n (fun a => f a b)).
Proof.
  induction n as [|k IH]; intros m f; cbn [rsum].
  - symmetry. apply rsum_zero.
  - rewrite IH. rewrite <- rsum_plus. reflexivity.
Qed.

(* (sum_a u_a) * (sum_b w_b) = sum_a sum_b u_a w_b *)
Lemma rsum_mult : forall n m u w,
  rsum n u * rsum m w = rsum n (fun a => rsum m (fun b => u a * w b)).
Proof.
  intros n m u w. rewrite <- rsum_scal_r. apply rsum_ext. intros a _.
  rewrite rsum_scal_l. reflexivity.
Qed.

(* x (H diag(lam) H^T) x^T = sum_i lam_i (H^T x)_i^2 : no orthogonality needed *)
Theorem quadform_eigen : forall n H lam x,
  quadform n (prec_of n H lam) x = quad n lam (coords n H x).
Proof.
  intros n H lam x. unfold quadform, prec_of, quad, coords.
  (* right-hand side: lam_i * (sum_a H_ai x_a)^2 = sum_a sum_b lam_i H_ai x_a H_bi x_b *)
  assert (R1 : forall i,
    lam i * rsum n (fun a => H a i * x a) ^ 2
    = rsum n (fun a => rsum n (fun b => x a * (H a i * lam i * H b i) * x b))).
  { intros i. replace (rsum n (fun a => H a i * x a) ^ 2)
      with (rsum n (fun a => H a i * x a) * rsum n (fun b => H b i * x b)) by ring.
    rewrite rsum_mult. rewrite <- rsum_scal_l. apply rsum_ext. intros a _.
    rewrite <- rsum_scal_l. apply rsum_ext. intros b _. ring. }
  rewrite (rsum_ext n (fun i => lam i * rsum n (fun a => H a i * x a) ^ 2) _ (fun i _ => R1 i)).
  (* left-hand side: push x_a, x_b inside the sum over i, then swap the sums *)
  rewrite (rsum_ext n
    (fun a => rsum n (fun b => x a * rsum n (fun i => H a i * lam i * H b i) * x b))
    (fun a => rsum n (fun b => rsum n (fun i => x a * (H a i * lam i * H b i) * x b)))).
  2:{ intros a _. apply rsum_ext. intros b _. rewrite <- rsum_scal_l, <- rsum_scal_r. reflexivity. }
  rewrite (rsum_ext n
    (fun a => rsum n (fun b => rsum n (fun i => x a * (H a i * lam i * H b i) * x b)))
    (fun a => rsum n (fun i => rsum n (fun b => x a * (H a i * lam i * H b i) * x b)))).
  2:{ intros a _. apply rsum_swap. }
  rewrite rsum_swap. reflexivity.
Qed.

(* the log-density computed from the matrix is the eigen-coordinate model *)
Theorem logpdf_matrix_eigen : forall d H xc,
  logpdf_matrix d H xc = logpdf d (coords (dim d) H xc).
Proof. intros d H xc. unfold logpdf_matrix, logpdf. rewrite quadform_eigen. reflexivity. Qed.

(* coordinates are linear *)
Lemma coords_plus : forall n H x v i,
  coords n H (fun a => x a + v a) i = coords n H x i + coords n H v i.
Proof.
  intros n H x v i. unfold coords. rewrite <- rsum_plus. apply rsum_ext. intros a _. ring.
Qed.

(* H^T (H c) = c for orthonormal columns *)
Lemma rsum_delta : forall n j (c : nat -> R), (j < n)%nat ->
  rsum n (fun i => (if Nat.eqb j i then 1 else 0) * c i) = c j.
Proof.
  induction n as [|k IH]; intros j c Hj; [ lia | ]. cbn [rsum].
  destruct (Nat.eq_dec j k) as [->|Hne].
  - rewrite Nat.eqb_refl.
    rewrite (rsum_ext k _ (fun _ => 0)).
    + rewrite rsum_zero. lra.
    + intros i Hi. assert (E : Nat.eqb k i = false) by (apply Nat.eqb_neq; lia). rewrite E. ring.
  - assert (E : Nat.eqb j k = false) by (apply Nat.eqb_neq; exact Hne). rewrite E.
    rewrite IH by lia. lra.
Qed.

Lemma coords_from_coords : forall n H c j, orthonormal_cols n H -> (j < n)%nat ->
  coords n H (from_coords n H c) j = c j.
Proof.
  intros n H c j Ho Hj. unfold coords, from_coords.
  rewrite (rsum_ext n (fun a => H a j * rsum n (fun i => H a i * c i))
                      (fun a => rsum n (fun i => H a j * H a i * c i))).
  2:{ intros a _. rewrite <- rsum_scal_l. apply rsum_ext. intros i _. ring. }
  rewrite rsum_swap.
  rewrite (rsum_ext n (fun i => rsum n (fun a => H a j * H a i * c i))
                      (fun i => (if Nat.eqb j i then 1 else 0) * c i)).
  2:{ intros i Hi. rewrite rsum_scal_r. rewrite (Ho j i Hj Hi). reflexivity. }
  apply rsum_delta; exact Hj.
Qed.

(* a vector  v = H nv  with nv supported on the zero eigenvalues is annihilated by the precision matrix *)
Theorem null_vector_annihilated : forall n H lam nv a, orthonormal_cols n H ->
  null_vector n lam nv ->
  mat_vec n (prec_of n H lam) (from_coords n H nv) a = 0.
Proof.
  intros n H lam nv a Ho Hn. unfold mat_vec, prec_of.
  (* sum_b (sum_i H_ai lam_i H_bi) v_b = sum_i H_ai lam_i (H^T v)_i = sum_i H_ai lam_i nv_i = 0 *)
  rewrite (rsum_ext n
    (fun b => rsum n (fun i => H a i * lam i * H b i) * from_coords n H nv b)
    (fun b => rsum n (fun i => H a i * lam i * (H b i * from_coords n H nv b)))).
  2:{ intros b _. rewrite <- rsum_scal_r. apply rsum_ext. intros i _. ring. }
  rewrite rsum_swap.
  rewrite (rsum_ext n _ (fun _ => 0)); [ apply rsum_zero | ].
  intros i Hi. rewrite rsum_scal_l.
  fold (coords n H (from_coords n H nv) i). rewrite (coords_from_coords n H nv i Ho Hi).
  destruct (Req_dec (lam i) 0) as [H0|Hne].
  - rewrite H0. ring.
  - rewrite (Hn i Hi Hne). ring.
Qed.

(* matrix-level null-space invariance: adding  H nv  to the point does not change the log-density *)
Theorem logpdf_matrix_nullspace_invariant : forall d H xc nv,
  orthonormal_cols (dim d) H -> null_vector (dim d) (evals d) nv ->
  logpdf_matrix d H (fun a => xc a + from_coords (dim d) H nv a) = logpdf_matrix d H xc.
Proof.
  intros d H xc nv Ho Hn. rewrite !logpdf_matrix_eigen.
  assert (Hq : quad (dim d) (evals d) (coords (dim d) H (fun a => xc a + from_coords (dim d) H nv a))
               = quad (dim d) (evals d) (coords (dim d) H xc)).
  { unfold quad. apply rsum_ext. intros i Hi.
    rewrite coords_plus, (coords_from_coords (dim d) H nv i Ho Hi).
    cbv beta.
    destruct (Req_dec (evals d i) 0) as [H0|Hne].
    - rewrite H0, !Rmult_0_l. reflexivity.
    - rewrite (Hn i Hi Hne). ring. }
  unfold logpdf. rewrite Hq. reflexivity.
Qed.

(* non-vacuity: a 2x2 rotation-reflection with rational entries *)
Definition ex_H : mat := fun a b =>
  match a, b with
  | O, O => 3 / 5 | O, S O => 4 / 5
  | S O, O => 4 / 5 | S O, S O => - 3 / 5
  | _, _ => 0
  end.

Example ex_H_orthonormal : orthonormal_cols 2 ex_H.
Proof.
  intros i j Hi Hj. destruct i as [|[|i]]; [ | | lia ]; destruct j as [|[|j]]; try lia;
    cbn [rsum ex_H Nat.eqb]; field.
Qed.

Example quadform_eigen_example : forall x,
  quadform 2 (prec_of 2 ex_H (fun i => match i with O => 0 | _ => 5 end)) x
  = 5 * (4 / 5 * x 0%nat - 3 / 5 * x 1%nat) ^ 2.
Proof.
  intros x. rewrite quadform_eigen. cbv beta iota delta [quad coords rsum ex_H]. field.
Qed.

Example matrix_example :
  orthonormal_cols 2 ex_H /\
  forall x, quadform 2 (prec_of 2 ex_H (fun i => match i with O => 0 | _ => 5 end)) x
            = 5 * (4 / 5 * x 0%nat - 3 / 5 * x 1%nat) ^ 2.
Proof. exact (conj ex_H_orthonormal quadform_eigen_example). Qed.
