(* C06 - model of the proposal / correction / acceptance computations of
     liesel/goose/iwls.py   IWLSKernel._standard_transition   (lines 141-185)
     liesel/goose/rw.py     RWKernel._standard_transition     (lines 95-118)
     liesel/goose/mh_kernel.py MHKernel._standard_transition  (lines 88-111)
     liesel/goose/mh.py     mh_step  (finite values only; the IEEE corner cases are C05's model)
   over R, composed exactly as the code composes them.  Model only; proofs in IWLSProofs.v. *)
From Coq Require Import Reals List.
Import ListNotations.
From LV Require Import Analytic.Gauss.
Open Scope R_scope.

(* mh_step:  log_acc = proposed_log_prob - current_log_prob + log_correction ;
             acceptance_prob = clip(exp(log_acc), max = 1) *)
Definition mh_log_acc (lp_cur lp_prop corr : R) : R := lp_prop - lp_cur + corr.
Definition accept_prob (l : R) : R := Rmin 1 (exp l).

(* ------------------------------------------------------------------------------------------ *)
(* scalar block                                                                               *)
(*   lp    : log-density of the model as a function of the block (everything else fixed)       *)
(*   score : what grad(flat_log_prob_fn) returns                                               *)
(*   ch    : what _chol_info returns: cholesky(-hessian) by default, or the user's chol_info_fn *)
(*   s     : kernel_state.step_size                                                            *)
(* ------------------------------------------------------------------------------------------ *)
Section Scalar.
  Variables (lp score ch : R -> R) (s : R).

  (* mu = flat_pos + ((step_size**2) / 2) * solve(chol_info, score) *)
  Definition iwls_mu (x : R) : R := x + (s * s) / 2 * solve1 (ch x) (score x).
  (* chol_info / step_size : Cholesky factor of the inverse proposal covariance *)
  Definition iwls_prec (x : R) : R := ch x / s.
  (* flat_prop = mvn_sample(key, mu_pos, chol_info_pos / step_size) *)
  Definition iwls_propose (z x : R) : R := gauss_sample z (iwls_mu x) (iwls_prec x).
  (* fwd_log_prob = mvn_log_prob(flat_prop, mu_pos, chol_info_pos / step_size) *)
  Definition iwls_fwd (x x' : R) : R := gauss_logpdf_prec x' (iwls_mu x) (iwls_prec x).
  (* bwd_log_prob = mvn_log_prob(flat_pos, mu_prop, chol_info_prop / step_size) *)
  Definition iwls_bwd (x x' : R) : R := gauss_logpdf_prec x (iwls_mu x') (iwls_prec x').
  (* correction = bwd_log_prob - fwd_log_prob *)
  Definition iwls_corr (x x' : R) : R := iwls_bwd x x' - iwls_fwd x x'.
  Definition iwls_log_acc (x x' : R) : R := mh_log_acc (lp x) (lp x') (iwls_corr x x').
  Definition iwls_alpha (x x' : R) : R := accept_prob (iwls_log_acc x x').

  (* random walk: flat_proposal = flat_position + step_size * normal ; mh_step(..) without correction *)
  Definition rw_propose (z x : R) : R := x + s * z.
  Definition rw_corr (x x' : R) : R := 0.
  Definition rw_log_acc (x x' : R) : R := mh_log_acc (lp x) (lp x') (rw_corr x x').
  Definition rw_alpha (x x' : R) : R := accept_prob (rw_log_acc x x').

  (* MHKernel: proposal.log_correction is handed to mh_step unchanged *)
  Definition mhk_log_acc (user_corr : R -> R -> R) (x x' : R) : R :=
    mh_log_acc (lp x) (lp x') (user_corr x x').
  Definition mhk_alpha (user_corr : R -> R -> R) (x x' : R) : R :=
    accept_prob (mhk_log_acc user_corr x x').
End Scalar.

(* default _chol_info for a scalar block: cholesky of the 1x1 matrix [-hessian] *)
Definition chol_of_info (info : R -> R) (x : R) : R := sqrt (info x).

(* ------------------------------------------------------------------------------------------ *)
(* n-dimensional block (flat position = ravel_pytree of the block, keys in sorted order)        *)
(* ------------------------------------------------------------------------------------------ *)
Section Vector.
  Variables (lp : vec -> R) (score : vec -> vec) (ch : vec -> tri) (s : R).

  Definition iwls_mu_n (x : vec) : vec := vadd x (vscale ((s * s) / 2) (solve (ch x) (score x))).
  Definition iwls_prec_n (x : vec) : tri := tri_div (ch x) s.
  Definition iwls_propose_n (z x : vec) : vec := mvn_sample z (iwls_mu_n x) (iwls_prec_n x).
  Definition iwls_fwd_n (x x' : vec) : R := mvn_log_prob x' (iwls_mu_n x) (iwls_prec_n x).
  Definition iwls_bwd_n (x x' : vec) : R := mvn_log_prob x (iwls_mu_n x') (iwls_prec_n x').
  Definition iwls_corr_n (x x' : vec) : R := iwls_bwd_n x x' - iwls_fwd_n x x'.
  Definition iwls_log_acc_n (x x' : vec) : R := mh_log_acc (lp x) (lp x') (iwls_corr_n x x').
  Definition iwls_alpha_n (x x' : vec) : R := accept_prob (iwls_log_acc_n x x').

  Definition rw_propose_n (z x : vec) : vec := vadd x (vscale s z).
  Definition rw_log_acc_n (x x' : vec) : R := mh_log_acc (lp x) (lp x') 0.
End Vector.

(* default _chol_info for an n-dimensional block: cholesky(-hessian), the information matrix
   being given by the trimmed columns of its lower triangle *)
Definition chol_of_info_n (info : vec -> tri) (x : vec) : tri := chol (length x) (info x).
