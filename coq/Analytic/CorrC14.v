(* Executable glue for the generated C14 correspondence shards.
   R side: goals `obs_close (model term) observed tol`, discharged by cbv + interval.
   D side: flags / errors / auto-transform, discharged by vm_compute. *)
From Coq Require Import Reals List Bool String Arith.
From Interval Require Import Tactic.
From LV Require Import Base.ListAux Analytic.Bijector.
Import ListNotations.
Open Scope R_scope.

(* ---- R side ------------------------------------------------------------------------------- *)
(* the model must produce a value (the code did not raise) and it is within tol of the observed one *)
Definition obs_close (o : option R) (v tol : R) : Prop :=
  match o with Some x => Rabs (x - v) <= tol | None => False end.

(* the model says the code raises *)
Definition obs_none (o : option R) : Prop :=
  match o with Some _ => False | None => True end.

(* bijector classes with their constructor arguments as the code receives them *)
Definition clsScale : R -> bijector := fun a => bScale a.
Definition clsShift : R -> bijector := fun a => bShift a.
Definition clsSoftplusH : R -> bijector := fun a => bSoftplusH a.
Definition clsSigmoidLH : R * R -> bijector := fun a => bSigmoidLH (fst a) (snd a).
Definition clsExp : unit -> bijector := fun _ => bExp.

(* the rest of the model's log-probability: an observed child  y ~ Normal(loc = x, scale = s) *)
Definition child_normal (s y : R) : R -> R := fun x => normal_logpdf x s y.
Definition no_child : R -> R := fun _ => 0.

(* evaluate an observation function at the model's own initial value of the new variable *)
Definition at_init {P A} (r : tresult P A) (f : R -> option R) : option R :=
  match r_init r with Some t0 => f t0 | None => None end.

(* ---- chained transformations: bijector inputs of every link are a pair (unused components 0) --- *)
Definition cScale : R * R -> bijector := fun a => bScale (fst a).
Definition cShift : R * R -> bijector := fun a => bShift (fst a).
Definition cSoftplusH : R * R -> bijector := fun a => bSoftplusH (fst a).
Definition cSigmoidLH : R * R -> bijector := fun a => bSigmoidLH (fst a) (snd a).

Definition at_val (o : option R) (f : R -> option R) : option R :=
  match o with Some t0 => f t0 | None => None end.

(* value of the k-th older variable (0: the variable transformed last, ...; the original is the last) *)
Definition nth_val (o : option (list R)) (k : nat) : option R :=
  match o with Some l => nth_error l k | None => None end.

(* Model.log_prob with a chain: the rest of the model reads the ORIGINAL variable's value *)
Definition chain_model_lp {P A} (others : R -> R) (D : P -> dist_inst) (ls : list (@link A)) (p : P)
    (args : list A) (t : R) : option R :=
  match chain_up D ls p args t, chain_logpdf D ls p args t with
  | Some vals, Some l => Some (others (last vals t) + l)
  | _, _ => None
  end.

Ltac c14_unfold :=
  cbv beta iota zeta delta
    [obs_close obs_none at_init at_val nth_val chain_model_lp cScale cShift cSoftplusH cSigmoidLH
     link_tdist chain_dist chain_logpdf chain_up chain_up_v chain_init dist_of_td td_default l_path l_spec nth_error last
     clsScale clsShift clsSoftplusH clsSigmoidLH clsExp child_normal no_child
     transform_by var_transform transform_inst transform_cls transform_dep
     inst_tdist cls_tdist dep_tdist resolve
     model_lp_after model_lp_before r_init r_logpdf r_value
     td_log_prob transformed_logpdf td_base td_bij d_logpdf d_default
     Invert Chain fwd inv fldj ildj
     bIdentity bExp bSoftplus bSigmoid bScale bShift bReciprocal bRecipSoftplus bShiftExp
     bSoftplusH bSigmoidLH softplus sigmoid
     dNormal dHalfNormal dHalfCauchy dGamma dInvGamma dBeta dExponential dLogNormal dNoDefault dOracle
     normal_logpdf halfnormal_logpdf halfcauchy_logpdf gamma_logpdf invgamma_logpdf beta_logpdf
     exponential_logpdf lognormal_logpdf
     option_map fst snd].

Ltac c14_close := c14_unfold; repeat split; interval with (i_prec 90).

(* ---- D side ------------------------------------------------------------------------------- *)
(* comparison of what is observable on a liesel Var (v_default is a modelling input only) *)
Definition var_eqb (a b : var) : bool :=
  String.eqb (v_name a) (v_name b)
  && Bool.eqb (v_parameter a) (v_parameter b)
  && Bool.eqb (v_observed a) (v_observed b)
  && Bool.eqb (v_has_dist a) (v_has_dist b)
  && Bool.eqb (v_weak a) (v_weak b)
  && Bool.eqb (v_auto a) (v_auto b).

(* exception classes: 1 RuntimeError, 2 ValueError, 3 TypeError, 0 any other exception *)
Definition err_code_var (e : terr) : nat :=
  match e with
  | EWeak | ENoDist | EInstArgs => 1
  | EClsNoArgs => 2
  | EBadType => 3
  | ENoDefault | EDupName | EBadArgs => 0
  end%nat.

Definition err_code_gb (e : terr) : nat :=
  match e with
  | EWeak | ENoDist | EInstArgs => 1
  | _ => 0
  end%nat.

Inductive sobs := OErr (code : nat) | OOk (v' tv : var).

Record scase := mkS {
  s_var_path : bool;        (* true: Var.transform, false: GraphBuilder.transform *)
  s_kind : bkind;
  s_var : var;
  s_obs : sobs
}.

(* an unspecific model error class (0) matches every observed exception *)
Definition code_ok (want got : nat) : bool := Nat.eqb want 0 || Nat.eqb want got.

Definition agrees_s (c : scase) : bool :=
  let m := if s_var_path c then var_transform_s (s_kind c) (s_var c) else gb_transform_s (s_kind c) (s_var c) in
  let ec := if s_var_path c then err_code_var else err_code_gb in
  match m, s_obs c with
  | inl e, OErr k => code_ok (ec e) k
  | inr (v', tv), OOk w' tw => var_eqb v' w' && var_eqb tv tw
  | _, _ => false
  end.

Record acase := mkA {
  a_vars : list var;                 (* the builder's variables, in the order the loop visits them *)
  a_obs : option (list var)          (* the built model's variables (any order), None: build raised *)
}.

Definition agrees_a (c : acase) : bool :=
  match build_model_s (a_vars c), a_obs c with
  | inl _, None => true
  | inr out, Some obs =>
      Nat.eqb (List.length out) (List.length obs)
      && forallb (fun v => existsb (var_eqb v) obs) out
      && forallb (fun w => existsb (fun v => var_eqb v w) out) obs
  | _, _ => false
  end.

Record ccase := mkC {
  c_kinds : list (bool * bkind);     (* entry point (true: Var.transform) and argument shape, oldest first *)
  c_var : var;
  c_obs : option (list var)          (* original, intermediates, newest; None: some transformation raised *)
}.

Definition agrees_c (c : ccase) : bool :=
  match chain_s (c_kinds c) (c_var c), c_obs c with
  | inl _, None => true
  | inr l, Some obs => list_eqb var_eqb l obs
  | _, _ => false
  end.

(* histories: calls on one variable (refused ones, then a successful one); observed: the variable's flags
   after every call, the new variable of the last call, and whether the new variable's log-density is the
   model's log_prior (it must be iff the new variable carries the parameter flag) *)
Record hcase := mkH {
  h_calls : list (bool * bkind);
  h_var : var;
  h_after : list var;                (* the variable after each call *)
  h_new : option var;                (* new variable handed out by the last call *)
  h_in_prior : bool                  (* Model.log_prior = log_prob of the new variable (else 0) *)
}.

Fixpoint states_s (ks : list (bool * bkind)) (v : var) : list var :=
  match ks with
  | [] => []
  | (vp, k) :: rest =>
      match attempt_s vp k v with
      | (v1, None) => v1 :: states_s rest v1
      | (v1, Some _) => [v1]
      end
  end.

Definition agrees_h (c : hcase) : bool :=
  list_eqb var_eqb (states_s (h_calls c) (h_var c)) (h_after c)
  && match snd (history_s (h_calls c) (h_var c)), h_new c with
     | Some tv, Some w => var_eqb tv w && Bool.eqb (v_parameter tv) (h_in_prior c)
     | None, None => true
     | _, _ => false
     end.
