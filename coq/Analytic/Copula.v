(* C18 - model of liesel/distributions/copulas.py (GaussianCopula) over R.

   GaussianCopula(dependence, validate_args) =
     TransformedDistribution(
        distribution = MultivariateNormalTriL(loc = 0, scale_tril = [[1, 0], [rho, sqrt(1 - rho**2)]]),
        bijector     = NormalCDF)
   after the constructor guard
        if validate_args: assert all(dependence >= LO); assert all(dependence <= HI)
   (LO, HI) = (-1, 1) in the repaired tree (commit 65c9673), (0, 1) in the tree as found.

   log_prob(u, v) = mvn.log_prob(x, y) + ildj_NormalCDF(u) + ildj_NormalCDF(v)   with x = Phi^-1 u, y = Phi^-1 v
                  = mvn.log_prob(x, y) - log phi(x) - log phi(y).
   The multivariate normal with lower-triangular scale L evaluates
        log_prob(w) = sum_i log phi(z_i) - sum_i log |L_ii| ,  z = L^-1 w   (forward substitution).
   The normal quantile function Phi^-1 is an oracle: the (u,v)-level model takes it as an argument. *)
From Coq Require Import Reals List.
Import ListNotations.
Open Scope R_scope.

(* log-density of the standard normal *)
Definition phi_log (z : R) : R := - (z ^ 2) / 2 - ln (2 * PI) / 2.

(* 2-d normal, mean 0, scale_tril [[l11, 0], [l21, l22]] *)
Definition mvn_tril2_logpdf (l11 l21 l22 x y : R) : R :=
  let z1 := x / l11 in
  let z2 := (y - l21 * z1) / l22 in
  phi_log z1 + phi_log z2 - (ln (Rabs l11) + ln (Rabs l22)).

Definition tril22 (rho : R) : R := sqrt (1 - rho ^ 2).

(* the copula log-density at the normal scores x = Phi^-1 u, y = Phi^-1 v *)
Definition copula_logpdf (rho x y : R) : R :=
  mvn_tril2_logpdf 1 rho (tril22 rho) x y - phi_log x - phi_log y.

(* the same on the unit square, for a given quantile function *)
Definition copula_logpdf_uv (qnorm : R -> R) (rho u v : R) : R :=
  copula_logpdf rho (qnorm u) (qnorm v).

(* closed form of the bivariate Gaussian copula density (the specification) *)
Definition copula_closed_form (rho x y : R) : R :=
  - (1 / 2) * ln (1 - rho ^ 2)
  - (rho ^ 2 * (x ^ 2 + y ^ 2) - 2 * rho * x * y) / (2 * (1 - rho ^ 2)).

(* ---------------------------------------------------------------- constructor guard *)
Inductive ctor_result := CtorOk | CtorAssertionError.

Definition in_bounds (lo hi rho : R) : bool :=
  if Rle_dec lo rho then (if Rle_dec rho hi then true else false) else false.

(* batched dependence: np.all over the batch *)
Definition copula_ctor_batch (lo hi : R) (validate : bool) (rhos : list R) : ctor_result :=
  if validate then (if forallb (in_bounds lo hi) rhos then CtorOk else CtorAssertionError)
  else CtorOk.

Definition copula_ctor (lo hi : R) (validate : bool) (rho : R) : ctor_result :=
  copula_ctor_batch lo hi validate [rho].

(* the two variants of the guard *)
Definition copula_ctor_repaired := copula_ctor (-1) 1.
Definition copula_ctor_asfound := copula_ctor 0 1.
