(* C13 - the finite-discrete Gibbs kernel (liesel/model/goose.py: finite_discrete_gibbs_kernel)
   on the cached-graph machine of Graph/Graph.v.  No proofs in this file.

     model = model._copy_computational_model(); model.auto_update = False       (construction)
     def transition_fn(prng_key, model_state):
         model.state = model_state                        restore
         for node in model.nodes.values(): node._outdated = False           clear_flags
         def conditional_log_prob_fn(value):
             model.vars[name].value = value               Assign v value   (auto-update is off)
             model.update("_model_log_prob")              Update [lp]
             return model.log_prob                        value of node lp
         conditional_log_probs = jax.vmap(conditional_log_prob_fn)(outcomes)      map (DESIGN 4.4)
         draw_index = jax.random.categorical(prng_key, logits=conditional_log_probs)
         draw = outcomes[draw_index]
         return {name: draw}                                                                  *)
From Coq Require Import Reals List Bool Arith.
From LV Require Import Graph.Graph Analytic.Gibbs.
Import ListNotations.

Section FD.
Variables (V F : Type) (interp : F -> list V -> V) (dflt : V).
Variable g : graph F.
Variables (v lp : nat).          (* positions of the sampled variable's value node and of _model_log_prob *)

(* for node in model.nodes.values(): node._outdated = False *)
Definition clear_flags (s : mstate V) : mstate V :=
  {| vals := vals s; dirty := map (fun _ => false) (dirty s); touched := touched s; auto := auto s |}.

(* state of the kernel's private model copy [km] after the first two statements of transition_fn;
   sn = the incoming model_state (values and reported flags of every node) *)
Definition fd_enter (km : mstate V) (sn : snap V) : mstate V := clear_flags (restore km sn).

(* conditional_log_prob_fn(o) run from state s; None = the code raises *)
Definition fd_after (s : mstate V) (o : V) : option (mstate V) :=
  let o1 := step interp dflt g (mkR s []) (Assign v o) in
  if err o1 then None else
  let o2 := step interp dflt g (st' o1) (Update [lp]) in
  if err o2 then None else Some (cur (st' o2)).
Definition fd_cond (s : mstate V) (o : V) : option V :=
  option_map (fun s' => value interp dflt g s' lp) (fd_after s o).

(* the same, total (used to instantiate Gibbs.Discrete; fd_after never fails under the hypotheses
   of the theorems) *)
Definition fd_set (s : mstate V) (o : V) : mstate V :=
  cur (run interp dflt g [Assign v o; Update [lp]] (mkR s [])).

Section ToR.
Variable toR : V -> R.
Definition fd_log_prob (s : mstate V) : R := toR (value interp dflt g s lp).

(* the kernel: categorical weights over the outcome indices, and the value returned for an index *)
Definition fd_weights (km : mstate V) (sn : snap V) (outcomes : list V) : list R :=
  disc_weights (mstate V) V fd_set fd_log_prob (fd_enter km sn) outcomes.
Definition fd_draw (outcomes : list V) (idx : nat) : option V := disc_draw V outcomes idx.

(* specification, independent of the cache: the model's joint density exp(_model_log_prob computed
   from scratch) as a function of the variable alone, all other inputs as in ext; normalised *)
Definition joint_spec (ext : list V) (o : V) : R := exp (toR (denote interp dflt g (upd ext v o) lp)).
Definition full_conditional_spec (ext : list V) (outcomes : list V) : list R :=
  map (fun o => joint_spec ext o / sumR (map (joint_spec ext) outcomes)) outcomes.
End ToR.
End FD.
