(* C18 - proofs about the degenerate multivariate normal model (MvnDegen.v). *)
From Coq Require Import Reals Lra Lia Arith Bool.
From LV Require Import Analytic.MvnDegen.
Open Scope R_scope.

(* ---------------------------------------------------------------- finite sums *)
Lemma rsum_ext : forall n f g, (forall i, (i < n)%nat -> f i = g i) -> rsum n f = rsum n g.
Proof.
  induction n as [|k IH]; intros f g H; cbn [rsum]; [ reflexivity | ].
  rewrite (IH f g) by (intros i Hi; apply H; lia). rewrite (H k) by lia. reflexivity.
Qed.

Lemma rsum_minus : forall n f g, rsum n (fun i => f i - g i) = rsum n f - rsum n g.
Proof. induction n as [|k IH]; intros f g; cbn [rsum]; [ lra | ]. rewrite IH. lra. Qed.

Lemma rsum_zero : forall n, rsum n (fun _ => 0) = 0.
Proof. induction n as [|k IH]; cbn [rsum]; [ reflexivity | ]. rewrite IH. lra. Qed.

Lemma rsum_lin3 : forall n A B C,
  1 / 2 * (- rsum n A - (rsum n B - rsum n C)) = rsum n (fun i => 1 / 2 * (- A i - (B i - C i))).
Proof. induction n as [|k IH]; intros A B C; cbn [rsum]; [ lra | ]. rewrite <- IH. lra. Qed.

Lemma rsum_indicator : forall n (p : nat -> bool) a,
  rsum n (fun i => if p i then a else 0) = INR (ncount n p) * a.
Proof.
  induction n as [|k IH]; intros p a; cbn [rsum ncount]; [ cbn [INR]; lra | ].
  rewrite IH, plus_INR. destruct (p k); cbn [INR]; lra.
Qed.

Lemma ncount_ext : forall n p q, (forall i, (i < n)%nat -> p i = q i) -> ncount n p = ncount n q.
Proof.
  induction n as [|k IH]; intros p q H; cbn [ncount]; [ reflexivity | ].
  rewrite (IH p q) by (intros i Hi; apply H; lia). rewrite (H k) by lia. reflexivity.
Qed.

Lemma ncount_none : forall n p, (forall i, (i < n)%nat -> p i = false) -> ncount n p = 0%nat.
Proof.
  induction n as [|k IH]; intros p H; cbn [ncount]; [ reflexivity | ].
  rewrite (IH p) by (intros i Hi; apply H; lia). rewrite (H k) by lia. reflexivity.
Qed.

Lemma ncount_le : forall n p, (ncount n p <= n)%nat.
Proof. induction n as [|k IH]; intros p; cbn [ncount]; [ lia | ]. specialize (IH p). destruct (p k); lia. Qed.

(* a mask that is upward closed on [0,n) is "the last (count) indices" *)
Definition monotone (n : nat) (p : nat -> bool) : Prop :=
  forall i j, (i <= j)%nat -> (j < n)%nat -> p i = true -> p j = true.

Lemma mono_mask : forall n p, monotone n p ->
  forall i, (i < n)%nat -> p i = (n - ncount n p <=? i)%nat.
Proof.
  induction n as [|k IH]; intros p Hm i Hi; [ lia | ].
  cbn [ncount]. destruct (p k) eqn:Epk.
  - assert (Hm' : monotone k p) by (intros a b Hab Hb; apply Hm; lia).
    replace (S k - (ncount k p + 1))%nat with (k - ncount k p)%nat by lia.
    destruct (Nat.eq_dec i k) as [Heq|Hne].
    + subst i. rewrite Epk. symmetry. apply Nat.leb_le. lia.
    + apply IH; [ exact Hm' | lia ].
  - assert (Hall : forall a, (a < k)%nat -> p a = false).
    { intros a Ha. destruct (p a) eqn:E; [ | reflexivity ].
      rewrite (Hm a k) in Epk; [ discriminate | lia | lia | exact E ]. }
    rewrite (ncount_none k p Hall).
    assert (Hpi : p i = false).
    { destruct (Nat.eq_dec i k) as [Heq|Hne]; [ subst i; exact Epk | apply Hall; lia ]. }
    rewrite Hpi. symmetry. apply Nat.leb_gt. lia.
Qed.

(* ---------------------------------------------------------------- comparisons *)
Lemma gtb_true_iff : forall t l, gtb t l = true <-> t < l.
Proof.
  intros t l. unfold gtb. destruct (Rlt_dec t l) as [H|H]; split; intros H';
    try reflexivity; try discriminate; try exact H; exfalso; lra.
Qed.

Lemma gtb_false_iff : forall t l, gtb t l = false <-> l <= t.
Proof.
  intros t l. unfold gtb. destruct (Rlt_dec t l) as [H|H]; split; intros H';
    try reflexivity; try discriminate; try lra; exfalso; lra.
Qed.

Lemma ltb_true_iff : forall l t, ltb l t = true <-> l < t.
Proof.
  intros l t. unfold ltb. destruct (Rlt_dec l t) as [H|H]; split; intros H';
    try reflexivity; try discriminate; try exact H; exfalso; lra.
Qed.

Lemma ltb_false_iff : forall l t, ltb l t = false <-> t <= l.
Proof.
  intros l t. unfold ltb. destruct (Rlt_dec l t) as [H|H]; split; intros H';
    try reflexivity; try discriminate; try lra; exfalso; lra.
Qed.

Lemma ascending_mask_monotone : forall tol n lam,
  ascending n lam -> monotone n (fun i => gtb tol (lam i)).
Proof.
  intros tol n lam Ha i j Hij Hj Hi. apply gtb_true_iff in Hi. apply gtb_true_iff.
  pose proof (Ha i j Hij Hj). lra.
Qed.

(* ---------------------------------------------------------------- rank / log-pdet *)
(* with ascending eigenvalues and the true rank, the rank-based mask of _log_pdet selects exactly
   the eigenvalues above the tolerance *)
Lemma log_pdet_rank_tol : forall tol n lam, ascending n lam ->
  log_pdet_rank (rank_of tol n lam) n lam = log_pdet_tol tol n lam.
Proof.
  intros tol n lam Ha. unfold log_pdet_rank, log_pdet_tol, rank_of. apply rsum_ext. intros i Hi.
  rewrite <- (mono_mask n (fun i => gtb tol (lam i)) (ascending_mask_monotone tol n lam Ha) i Hi).
  reflexivity.
Qed.

Lemma rank_of_le : forall tol n lam, (rank_of tol n lam <= n)%nat.
Proof. intros. apply ncount_le. Qed.

Lemma d_rank_consistent : forall n lam rk lp tol, rank_consistent tol n lam rk ->
  d_rank (ctor_prec n lam rk lp tol) = rank_of tol n lam.
Proof. intros n lam rk lp tol [H|H]; subst rk; reflexivity. Qed.

Lemma d_log_pdet_consistent : forall n lam rk lp tol, ascending n lam ->
  rank_consistent tol n lam rk -> lpd_consistent tol n lam lp ->
  d_log_pdet (ctor_prec n lam rk lp tol) = log_pdet_tol tol n lam.
Proof.
  intros n lam rk lp tol Ha Hr [H|H]; subst lp; [ | reflexivity ].
  unfold d_log_pdet. cbn [lpd_arg ctor_prec]. rewrite (d_rank_consistent n lam rk None tol Hr).
  cbn [dim evals ctor_prec]. apply log_pdet_rank_tol; exact Ha.
Qed.

(* ---------------------------------------------------------------- Gaussian on the range space *)
Theorem mvn_range_gaussian : forall n lam rk lp tol c,
  0 <= tol -> ascending n lam -> gap tol n lam ->
  rank_consistent tol n lam rk -> lpd_consistent tol n lam lp ->
  logpdf (ctor_prec n lam rk lp tol) c = range_gaussian_logpdf n lam c.
Proof.
  intros n lam rk lp tol c Ht Ha Hg Hr Hl. unfold logpdf.
  rewrite (d_rank_consistent n lam rk lp tol Hr), (d_log_pdet_consistent n lam rk lp tol Ha Hr Hl).
  cbn [dim evals ctor_prec]. unfold quad, rank_of, log_pdet_tol, range_gaussian_logpdf.
  rewrite <- (rsum_indicator n (fun i => gtb tol (lam i)) (ln (2 * PI))).
  rewrite rsum_lin3. apply rsum_ext. intros i Hi. cbv beta.
  destruct (Hg i Hi) as [H0|Hpos].
  - rewrite H0.
    assert (E1 : gtb tol 0 = false) by (apply gtb_false_iff; lra).
    assert (E2 : gtb 0 0 = false) by (apply gtb_false_iff; lra).
    rewrite E1, E2, ln_1. lra.
  - assert (E1 : gtb tol (lam i) = true) by (apply gtb_true_iff; lra).
    assert (E2 : gtb 0 (lam i) = true) by (apply gtb_true_iff; lra).
    rewrite E1, E2. unfold normal_logpdf_prec.
    assert (Hl0 : 0 < lam i) by lra.
    assert (Hpi : 0 < 2 * PI) by (pose proof PI_RGT_0; lra).
    assert (Hln : ln (2 * PI / lam i) = ln (2 * PI) - ln (lam i)).
    { unfold Rdiv. rewrite ln_mult; [ | exact Hpi | apply Rinv_0_lt_compat; exact Hl0 ].
      rewrite ln_Rinv by exact Hl0. lra. }
    rewrite Hln. lra.
Qed.

(* ---------------------------------------------------------------- null-space invariance *)
Lemma quad_null_shift : forall n lam c v, null_vector n lam v ->
  quad n lam (fun i => c i + v i) = quad n lam c.
Proof.
  intros n lam c v Hv. unfold quad. apply rsum_ext. intros i Hi. cbv beta.
  destruct (Req_dec (lam i) 0) as [H0|Hn].
  - rewrite H0. ring.
  - rewrite (Hv i Hi Hn). ring.
Qed.

Theorem mvn_nullspace_invariant : forall d c v, null_vector (dim d) (evals d) v ->
  logpdf d (fun i => c i + v i) = logpdf d c.
Proof.
  intros d c v Hv. unfold logpdf. rewrite (quad_null_shift (dim d) (evals d) c v Hv). reflexivity.
Qed.

(* ---------------------------------------------------------------- constructors *)
Lemma pen_rank_consistent : forall n pen rk, rank_consistent tol_default n pen rk ->
  pen_rank n pen rk = rank_of tol_default n pen.
Proof. intros n pen rk [H|H]; subst rk; reflexivity. Qed.

Lemma pen_log_pdet_consistent : forall n pen rk lp, ascending n pen ->
  rank_consistent tol_default n pen rk -> lpd_consistent tol_default n pen lp ->
  pen_log_pdet n pen rk lp = log_pdet_tol tol_default n pen.
Proof.
  intros n pen rk lp Ha Hr [H|H]; subst lp; [ | reflexivity ].
  unfold pen_log_pdet. rewrite (pen_rank_consistent n pen rk Hr). apply log_pdet_rank_tol; exact Ha.
Qed.

Lemma tol_default_pos : 0 < tol_default.
Proof. unfold tol_default. lra. Qed.

Lemma rank_scale : forall n pen var, 0 < var -> pen_gap n pen var ->
  rank_of tol_default n (fun i => pen i / var) = rank_of tol_default n pen.
Proof.
  intros n pen var Hv Hg. unfold rank_of. apply ncount_ext. intros i Hi. cbv beta.
  pose proof tol_default_pos as Ht.
  destruct (Hg i Hi) as [H0|[H1 H2]].
  - rewrite H0. replace (0 / var) with 0 by (field; lra).
    assert (E : gtb tol_default 0 = false) by (apply gtb_false_iff; lra). rewrite E. reflexivity.
  - assert (E1 : gtb tol_default (pen i) = true) by (apply gtb_true_iff; exact H1).
    assert (E2 : gtb tol_default (pen i / var) = true) by (apply gtb_true_iff; exact H2).
    rewrite E1, E2. reflexivity.
Qed.

Lemma ascending_scale : forall n pen var, 0 < var -> ascending n pen ->
  ascending n (fun i => pen i / var).
Proof.
  intros n pen var Hv Ha i j Hij Hj. cbv beta. pose proof (Ha i j Hij Hj) as H.
  unfold Rdiv. apply Rmult_le_compat_r; [ left; apply Rinv_0_lt_compat; exact Hv | exact H ].
Qed.

Lemma lpt_scale : forall n pen var, 0 < var -> pen_gap n pen var ->
  log_pdet_tol tol_default n (fun i => pen i / var)
  = log_pdet_tol tol_default n pen - INR (rank_of tol_default n pen) * ln var.
Proof.
  intros n pen var Hv Hg. unfold log_pdet_tol, rank_of.
  rewrite <- (rsum_indicator n (fun i => gtb tol_default (pen i)) (ln var)).
  rewrite <- rsum_minus. apply rsum_ext. intros i Hi. cbv beta.
  pose proof tol_default_pos as Ht.
  destruct (Hg i Hi) as [H0|[H1 H2]].
  - rewrite H0. replace (0 / var) with 0 by (field; lra).
    assert (E : gtb tol_default 0 = false) by (apply gtb_false_iff; lra). rewrite E, ln_1. lra.
  - assert (E1 : gtb tol_default (pen i) = true) by (apply gtb_true_iff; exact H1).
    assert (E2 : gtb tol_default (pen i / var) = true) by (apply gtb_true_iff; exact H2).
    rewrite E1, E2. unfold Rdiv.
    rewrite ln_mult by (try lra; apply Rinv_0_lt_compat; exact Hv).
    rewrite ln_Rinv by exact Hv. lra.
Qed.

(* from_penalty(var, pen) = plain constructor on pen / var *)
Theorem mvn_from_penalty_agrees : forall n pen var rk lp c,
  0 < var -> ascending n pen -> pen_gap n pen var ->
  rank_consistent tol_default n pen rk -> lpd_consistent tol_default n pen lp ->
  logpdf (from_penalty n pen var rk lp) c
  = logpdf (ctor_prec n (fun i => pen i / var) None None tol_default) c.
Proof.
  intros n pen var rk lp c Hv Ha Hg Hr Hl.
  unfold logpdf, from_penalty, ctor_prec, d_log_pdet, d_rank.
  cbn [dim evals rank_arg lpd_arg tolv].
  rewrite (pen_rank_consistent n pen rk Hr), (pen_log_pdet_consistent n pen rk lp Ha Hr Hl).
  rewrite (log_pdet_rank_tol tol_default n (fun i => pen i / var) (ascending_scale n pen var Hv Ha)).
  rewrite (rank_scale n pen var Hv Hg).
  rewrite (lpt_scale n pen var Hv Hg). reflexivity.
Qed.

(* from_penalty_smooth(smooth, pen) = from_penalty(1 / smooth, pen): needs only smooth > 0 *)
Theorem mvn_from_penalty_smooth_agrees : forall n pen s rk lp c, 0 < s ->
  logpdf (from_penalty_smooth n pen s rk lp) c = logpdf (from_penalty n pen (/ s) rk lp) c.
Proof.
  intros n pen s rk lp c Hs.
  unfold logpdf, from_penalty_smooth, from_penalty, d_log_pdet, d_rank.
  cbn [dim evals rank_arg lpd_arg tolv].
  rewrite ln_Rinv by exact Hs.
  assert (Hq : quad n (fun i => pen i * s) c = quad n (fun i => pen i / / s) c).
  { unfold quad. apply rsum_ext. intros i Hi. cbv beta. unfold Rdiv. rewrite Rinv_inv. reflexivity. }
  rewrite Hq. lra.
Qed.

(* ---- the from_penalty family: rank and log-pdet come from the PENALTY (eigenvalues of pen against the
   tolerance) and are rescaled by rank * ln var, so nothing depends on the size of pen / var ---- *)

(* closed form of from_penalty with consistent arguments: no gap, no sign condition on var *)
Lemma from_penalty_closed : forall n pen var rk lp c, ascending n pen ->
  rank_consistent tol_default n pen rk -> lpd_consistent tol_default n pen lp ->
  logpdf (from_penalty n pen var rk lp) c
  = 1 / 2 * (- quad n (fun i => pen i / var) c
             - (INR (rank_of tol_default n pen) * ln (2 * PI)
                - (log_pdet_tol tol_default n pen - INR (rank_of tol_default n pen) * ln var))).
Proof.
  intros n pen var rk lp c Ha Hr Hl.
  unfold logpdf, from_penalty, d_log_pdet, d_rank. cbn [dim evals rank_arg lpd_arg tolv].
  rewrite (pen_rank_consistent n pen rk Hr), (pen_log_pdet_consistent n pen rk lp Ha Hr Hl). reflexivity.
Qed.

(* with or without (true) rank / log-pdet: the same log-density, for EVERY var *)
Theorem mvn_from_penalty_args_agree : forall n pen var rk lp rk' lp' c, ascending n pen ->
  rank_consistent tol_default n pen rk -> lpd_consistent tol_default n pen lp ->
  rank_consistent tol_default n pen rk' -> lpd_consistent tol_default n pen lp' ->
  logpdf (from_penalty n pen var rk lp) c = logpdf (from_penalty n pen var rk' lp') c.
Proof.
  intros n pen var rk lp rk' lp' c Ha Hr Hl Hr' Hl'.
  rewrite (from_penalty_closed n pen var rk lp c Ha Hr Hl), (from_penalty_closed n pen var rk' lp' c Ha Hr' Hl').
  reflexivity.
Qed.

(* the three penalty variants agree for all var > 0, hypotheses on the penalty alone *)
Theorem mvn_from_penalty_family_agree : forall n pen var rk lp rk' lp' c, 0 < var -> ascending n pen ->
  rank_consistent tol_default n pen rk -> lpd_consistent tol_default n pen lp ->
  rank_consistent tol_default n pen rk' -> lpd_consistent tol_default n pen lp' ->
  logpdf (from_penalty n pen var rk lp) c = logpdf (from_penalty n pen var None None) c
  /\ logpdf (from_penalty_smooth n pen (/ var) rk' lp') c = logpdf (from_penalty n pen var None None) c.
Proof.
  intros n pen var rk lp rk' lp' c Hv Ha Hr Hl Hr' Hl'.
  assert (Hn : rank_consistent tol_default n pen None) by (left; reflexivity).
  assert (Hm : lpd_consistent tol_default n pen None) by (left; reflexivity).
  split.
  - apply mvn_from_penalty_args_agree; assumption.
  - rewrite (mvn_from_penalty_smooth_agrees n pen (/ var) rk' lp' c (Rinv_0_lt_compat var Hv)).
    rewrite Rinv_inv. apply mvn_from_penalty_args_agree; assumption.
Qed.

Lemma rsum_lin5 : forall n A B C D,
  1 / 2 * (- rsum n A - (rsum n B - (rsum n C - rsum n D)))
  = rsum n (fun i => 1 / 2 * (- A i - (B i - (C i - D i)))).
Proof. induction n as [|k IH]; intros A B C D; cbn [rsum]; [ lra | ]. rewrite <- IH. lra. Qed.

(* from_penalty is the Gaussian on the range space of pen / var for all var > 0: gap on the penalty only *)
Theorem mvn_from_penalty_range_gaussian : forall n pen var rk lp c,
  0 < var -> ascending n pen -> gap tol_default n pen ->
  rank_consistent tol_default n pen rk -> lpd_consistent tol_default n pen lp ->
  logpdf (from_penalty n pen var rk lp) c = range_gaussian_logpdf n (fun i => pen i / var) c.
Proof.
  intros n pen var rk lp c Hv Ha Hg Hr Hl.
  rewrite (from_penalty_closed n pen var rk lp c Ha Hr Hl).
  unfold quad, rank_of, log_pdet_tol, range_gaussian_logpdf.
  rewrite <- (rsum_indicator n (fun i => gtb tol_default (pen i)) (ln (2 * PI))).
  rewrite <- (rsum_indicator n (fun i => gtb tol_default (pen i)) (ln var)).
  rewrite rsum_lin5. apply rsum_ext. intros i Hi. cbv beta.
  pose proof tol_default_pos as Ht.
  destruct (Hg i Hi) as [H0|Hpos].
  - rewrite H0. replace (0 / var) with 0 by (field; lra).
    assert (E1 : gtb tol_default 0 = false) by (apply gtb_false_iff; lra).
    assert (E2 : gtb 0 0 = false) by (apply gtb_false_iff; lra).
    rewrite E1, E2, ln_1. lra.
  - assert (Hp : 0 < pen i) by lra.
    assert (Hq : 0 < pen i / var) by (apply Rdiv_lt_0_compat; assumption).
    assert (E1 : gtb tol_default (pen i) = true) by (apply gtb_true_iff; exact Hpos).
    assert (E2 : gtb 0 (pen i / var) = true) by (apply gtb_true_iff; exact Hq).
    rewrite E1, E2. unfold normal_logpdf_prec.
    assert (Hpi : 0 < 2 * PI) by (pose proof PI_RGT_0; lra).
    assert (Hln : ln (2 * PI / (pen i / var)) = ln (2 * PI) - (ln (pen i) - ln var)).
    { replace (2 * PI / (pen i / var)) with (2 * PI * (var * / pen i)) by (field; lra).
      rewrite ln_mult; [ | exact Hpi | apply Rmult_lt_0_compat; [ exact Hv | apply Rinv_0_lt_compat; exact Hp ] ].
      rewrite (ln_mult var (/ pen i)); [ | exact Hv | apply Rinv_0_lt_compat; exact Hp ].
      rewrite ln_Rinv by exact Hp. lra. }
    rewrite Hln. lra.
Qed.

(* all constructors, with or without (true) rank / log-pdet arguments, give the same log-density *)
Theorem mvn_constructors_agree : forall n pen var rk lp rk' lp' c,
  0 < var -> ascending n pen -> pen_gap n pen var ->
  rank_consistent tol_default n pen rk -> lpd_consistent tol_default n pen lp ->
  rank_consistent tol_default n (fun i => pen i / var) rk' ->
  lpd_consistent tol_default n (fun i => pen i / var) lp' ->
  let plain := logpdf (ctor_prec n (fun i => pen i / var) None None tol_default) c in
  logpdf (from_penalty n pen var rk lp) c = plain
  /\ logpdf (from_penalty_smooth n pen (/ var) rk lp) c = plain
  /\ logpdf (ctor_prec n (fun i => pen i / var) rk' lp' tol_default) c = plain.
Proof.
  intros n pen var rk lp rk' lp' c Hv Ha Hg Hr Hl Hr' Hl' plain. subst plain.
  assert (H1 := mvn_from_penalty_agrees n pen var rk lp c Hv Ha Hg Hr Hl).
  split; [ exact H1 | split ].
  - rewrite (mvn_from_penalty_smooth_agrees n pen (/ var) rk lp c (Rinv_0_lt_compat var Hv)).
    rewrite Rinv_inv. exact H1.
  - pose proof (ascending_scale n pen var Hv Ha) as Ha'.
    unfold logpdf.
    rewrite (d_rank_consistent _ _ rk' lp' _ Hr'), (d_log_pdet_consistent _ _ rk' lp' _ Ha' Hr' Hl').
    rewrite (d_rank_consistent _ _ None None tol_default (or_introl eq_refl)).
    rewrite (d_log_pdet_consistent _ _ None None tol_default Ha' (or_introl eq_refl) (or_introl eq_refl)).
    reflexivity.
Qed.

(* ---------------------------------------------------------------- sampling *)
Theorem mvn_sample_null : forall d z i, 0 < tolv d -> evals d i = 0 -> sample_coord d z i = 0.
Proof.
  intros d z i Ht H0. unfold sample_coord, sqrt_pcov_diag.
  assert (E : ltb (evals d i) (tolv d) = true) by (apply ltb_true_iff; lra).
  rewrite E. ring.
Qed.

Theorem mvn_sample_range : forall d z i, 0 < tolv d -> tolv d <= evals d i ->
  sample_coord d z i = z i / sqrt (evals d i) /\ (sqrt_pcov_diag d i) ^ 2 = 1 / evals d i.
Proof.
  intros d z i Ht Hl. unfold sample_coord, sqrt_pcov_diag.
  assert (E : ltb (evals d i) (tolv d) = false) by (apply ltb_false_iff; exact Hl).
  rewrite E.
  assert (Hp : 0 < evals d i) by lra.
  assert (Hs : 0 < sqrt (evals d i)) by (apply sqrt_lt_R0; exact Hp).
  split.
  - unfold Rdiv. rewrite Rmult_1_l, sqrt_inv. field. lra.
  - replace (sqrt (1 / evals d i) ^ 2) with (sqrt (1 / evals d i) * sqrt (1 / evals d i)) by ring.
    apply sqrt_sqrt. unfold Rdiv. rewrite Rmult_1_l. left. apply Rinv_0_lt_compat; exact Hp.
Qed.

(* sqrt_pcov sqrt_pcov^T is the pseudo-inverse (diagonal in eigen-coordinates) *)
Theorem mvn_sample_pinv : forall d i, 0 < tolv d -> (evals d i = 0 \/ tolv d <= evals d i) ->
  (sqrt_pcov_diag d i) ^ 2 = pinv_diag (evals d) i.
Proof.
  intros d i Ht [H0|Hl]; unfold pinv_diag.
  - assert (E0 : gtb 0 (evals d i) = false) by (apply gtb_false_iff; lra). rewrite E0.
    unfold sqrt_pcov_diag.
    assert (E : ltb (evals d i) (tolv d) = true) by (apply ltb_true_iff; lra).
    rewrite E. ring.
  - assert (E0 : gtb 0 (evals d i) = true) by (apply gtb_true_iff; lra). rewrite E0.
    apply (mvn_sample_range d (fun _ => 0) i Ht Hl).
Qed.

(* samples are orthogonal to the null space, i.e. lie in the range space *)
Theorem mvn_sample_orthogonal_null : forall d z v, 0 < tolv d ->
  null_vector (dim d) (evals d) v ->
  rsum (dim d) (fun i => v i * sample_coord d z i) = 0.
Proof.
  intros d z v Ht Hv. rewrite (rsum_ext (dim d) _ (fun _ => 0)); [ apply rsum_zero | ].
  intros i Hi. cbv beta. destruct (Req_dec (evals d i) 0) as [H0|Hn].
  - rewrite (mvn_sample_null d z i Ht H0). ring.
  - rewrite (Hv i Hi Hn). ring.
Qed.

Theorem mvn_sample_support : forall d z, 0 < tolv d ->
  (forall i, evals d i = 0 -> sample_coord d z i = 0)
  /\ (forall i, tolv d <= evals d i ->
        sample_coord d z i = z i / sqrt (evals d i) /\ (sqrt_pcov_diag d i) ^ 2 = 1 / evals d i)
  /\ (forall i, evals d i = 0 \/ tolv d <= evals d i -> (sqrt_pcov_diag d i) ^ 2 = pinv_diag (evals d) i)
  /\ (forall v, null_vector (dim d) (evals d) v -> rsum (dim d) (fun i => v i * sample_coord d z i) = 0).
Proof.
  intros d z Ht.
  exact (conj (fun i H => mvn_sample_null d z i Ht H)
        (conj (fun i H => mvn_sample_range d z i Ht H)
        (conj (fun i H => mvn_sample_pinv d i Ht H)
              (fun v H => mvn_sample_orthogonal_null d z v Ht H)))).
Qed.

(* ---------------------------------------------------------------- the gap hypotheses are needed *)
(* an eigenvalue in (0, tol] is dropped from rank and log-pdet but still enters the quadratic form *)
Theorem mvn_range_gaussian_needs_gap :
  exists n lam c, ascending n lam /\ (forall i, (i < n)%nat -> 0 < lam i) /\
    logpdf (ctor_prec n lam None None tol_default) c <> range_gaussian_logpdf n lam c.
Proof.
  exists 1%nat, (fun _ => 1 / 2000000), (fun _ => 0).
  split; [ intros i j _ _; lra | split; [ intros i _; lra | ] ].
  unfold logpdf, d_log_pdet, d_rank, ctor_prec, range_gaussian_logpdf, log_pdet_rank, rank_of, quad.
  cbn [dim evals rank_arg lpd_arg tolv rsum ncount].
  assert (E1 : gtb tol_default (1 / 2000000) = false) by (apply gtb_false_iff; unfold tol_default; lra).
  assert (E2 : gtb 0 (1 / 2000000) = true) by (apply gtb_true_iff; lra).
  rewrite E1, E2. cbn [Nat.add Nat.sub Nat.leb INR]. unfold normal_logpdf_prec. rewrite ln_1.
  intros H.
  assert (Hpos : 0 < ln (2 * PI / (1 / 2000000))).
  { rewrite <- ln_1. apply ln_increasing; [ lra | ]. pose proof PI2_1. lra. }
  lra.
Qed.

(* for a large variance the plain constructor drops the eigenvalue 1/var of pen/var *)
Theorem mvn_constructors_agree_needs_gap :
  exists n pen var c, 0 < var /\ ascending n pen /\ gap tol_default n pen /\
    logpdf (from_penalty n pen var None None) c
    <> logpdf (ctor_prec n (fun i => pen i / var) None None tol_default) c.
Proof.
  exists 1%nat, (fun _ => 1), 2000000, (fun _ => 0).
  split; [ lra | split; [ intros i j _ _; lra | split ] ].
  - intros i _. right. unfold tol_default. lra.
  - unfold logpdf, from_penalty, pen_log_pdet, pen_rank, d_log_pdet, d_rank, ctor_prec,
      log_pdet_rank, rank_of, quad.
    cbn [dim evals rank_arg lpd_arg tolv rsum ncount].
    assert (E1 : gtb tol_default 1 = true) by (apply gtb_true_iff; unfold tol_default; lra).
    assert (E2 : gtb tol_default (1 / 2000000) = false) by (apply gtb_false_iff; unfold tol_default; lra).
    rewrite E1, E2. cbn [Nat.add Nat.sub Nat.leb INR]. rewrite ln_1.
    intros H.
    assert (Hp1 : 0 < ln (2 * PI)).
    { rewrite <- ln_1. apply ln_increasing; [ lra | ]. pose proof PI2_1. lra. }
    assert (Hp2 : 0 < ln 2000000).
    { rewrite <- ln_1. apply ln_increasing; lra. }
    lra.
Qed.

(* ---------------------------------------------------------------- non-vacuity *)
Definition ex_pen (i : nat) : R := match i with O => 0 | S O => 1 | S (S O) => 4 | _ => 0 end.

Lemma ex_pen_ascending : ascending 3 ex_pen.
Proof.
  intros i j Hij Hj.
  destruct j as [|[|[|j]]]; [ | | | lia ]; destruct i as [|[|[|i]]]; try lia; cbn [ex_pen]; lra.
Qed.

Lemma ex_pen_gap : pen_gap 3 ex_pen 2.
Proof.
  intros i Hi. destruct i as [|[|[|i]]]; [ | | | lia ]; cbn [ex_pen]; unfold tol_default;
    [ left; reflexivity | right; split; lra | right; split; lra ].
Qed.

Lemma ex_pen_gap0 : gap tol_default 3 ex_pen.
Proof.
  intros i Hi. destruct (ex_pen_gap i Hi) as [H|[H _]]; [ left; exact H | right; exact H ].
Qed.

Example mvn_constructors_agree_example : forall c,
  logpdf (from_penalty 3 ex_pen 2 None None) c
  = logpdf (ctor_prec 3 (fun i => ex_pen i / 2) None None tol_default) c
  /\ logpdf (from_penalty_smooth 3 ex_pen (/ 2) None None) c
  = logpdf (ctor_prec 3 (fun i => ex_pen i / 2) None None tol_default) c.
Proof.
  intros c.
  destruct (mvn_constructors_agree 3 ex_pen 2 None None None None c) as [H1 [H2 _]];
    try (left; reflexivity); [ lra | exact ex_pen_ascending | exact ex_pen_gap | ].
  split; [ exact H1 | exact H2 ].
Qed.

Example mvn_range_gaussian_example : forall c,
  logpdf (ctor_prec 3 ex_pen None None tol_default) c = range_gaussian_logpdf 3 ex_pen c
  /\ rank_of tol_default 3 ex_pen = 2%nat.
Proof.
  intros c. split.
  - apply mvn_range_gaussian; try (left; reflexivity);
      [ left; exact tol_default_pos | exact ex_pen_ascending | exact ex_pen_gap0 ].
  - unfold rank_of. cbn [ncount ex_pen].
    assert (E0 : gtb tol_default 0 = false) by (apply gtb_false_iff; unfold tol_default; lra).
    assert (E1 : gtb tol_default 1 = true) by (apply gtb_true_iff; unfold tol_default; lra).
    assert (E4 : gtb tol_default 4 = true) by (apply gtb_true_iff; unfold tol_default; lra).
    rewrite E0, E1, E4. reflexivity.
Qed.

Example mvn_nullspace_example : forall c t,
  logpdf (ctor_prec 3 ex_pen None None tol_default) (fun i => c i + (match i with O => t | _ => 0 end))
  = logpdf (ctor_prec 3 ex_pen None None tol_default) c.
Proof.
  intros c t. apply (mvn_nullspace_invariant (ctor_prec 3 ex_pen None None tol_default) c
                       (fun i => match i with O => t | _ => 0 end)).
  intros i Hi Hn. destruct i as [|i]; [ exfalso; apply Hn; reflexivity | reflexivity ].
Qed.

(* non-vacuity far outside the gap of the plain constructor: pen = [0,1,4], var = 10^7 *)
Example mvn_from_penalty_large_var_example : forall c,
  logpdf (from_penalty 3 ex_pen 10000000 None None) c
  = range_gaussian_logpdf 3 (fun i => ex_pen i / 10000000) c
  /\ logpdf (from_penalty_smooth 3 ex_pen (/ 10000000) None None) c
     = logpdf (from_penalty 3 ex_pen 10000000 None None) c.
Proof.
  intros c. split.
  - apply mvn_from_penalty_range_gaussian; try (left; reflexivity);
      [ lra | exact ex_pen_ascending | exact ex_pen_gap0 ].
  - apply (mvn_from_penalty_family_agree 3 ex_pen 10000000 None None None None c); try (left; reflexivity);
      [ lra | exact ex_pen_ascending ].
Qed.
