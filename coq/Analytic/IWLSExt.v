(* C06 - extended-real layer: what the kernels report when the target density is ZERO at the current point
   or at the proposal (log-density -inf: bounded-support targets, chains started outside the support).
   The real-valued model IWLS.v only covers positive densities; here the Metropolis-Hastings ratio is taken
   in the extended reals, on C05's IEEE special-value model of mh_step (Goose/MH.v, Base/Xnum.v):
     pi(x) = 0 < pi(x')  :  log ratio = +inf, no error, acceptance probability min(1, +inf) = 1, accepted;
     pi(x) > 0 = pi(x')  :  log ratio = -inf, no error, acceptance probability 0, rejected.
   RWKernel, MHKernel and IWLSKernel all hand (proposal, log_correction) to mh_step, so with a finite
   correction these are statements about every one of them. *)
From Coq Require Import QArith Bool List Arith.
From LV Require Import Base.Xnum Goose.MH Goose.MHProofs.
Import ListNotations.
Open Scope Q_scope.

Section Ext.
  Variable exp_o : xnum -> xnum.          (* jnp.exp, an oracle *)
  Hypothesis Hexp : exp_ok exp_o.
  Hypothesis Hinf : exp_o XPosInf = XPosInf.   (* jnp.exp(+inf) = +inf *)

  Theorem from_zero_density : forall a c u, unit_interval u ->
    let o := mh_decide exp_o Lt XNegInf (XFin a) (XFin c) u in
    code o = 0%nat /\ prob o = XFin 1 /\ accept o = true.
  Proof.
    intros a c u Hu. cbv zeta.
    assert (Hp : prob (mh_decide exp_o Lt XNegInf (XFin a) (XFin c) u) = XFin 1).
    { unfold mh_decide. cbn. rewrite Hinf. reflexivity. }
    split; [ reflexivity | split; [ exact Hp | ] ].
    apply (one_always exp_o); assumption.
  Qed.

  Theorem to_zero_density : forall a c u, unit_interval u ->
    let o := mh_decide exp_o Lt (XFin a) XNegInf (XFin c) u in
    code o = 0%nat /\ prob o = XFin 0 /\ accept o = false.
  Proof.
    intros a c u Hu. cbv zeta.
    assert (Hp : prob (mh_decide exp_o Lt (XFin a) XNegInf (XFin c) u) = XFin 0).
    { unfold mh_decide. cbn. destruct Hexp as [-> _]. reflexivity. }
    split; [ reflexivity | split; [ exact Hp | ] ].
    apply (zero_never exp_o); assumption.
  Qed.
End Ext.

(* non-vacuity: the stub of MHProofs satisfies both hypotheses *)
Lemma exp_stub_posinf : exp_stub XPosInf = XPosInf.
Proof. reflexivity. Qed.

Lemma ext_instance :
  let o := mh_decide exp_stub Lt XNegInf (XFin (-(1#2))) (XFin 0) (XFin 0) in
  code o = 0%nat /\ prob o = XFin 1 /\ accept o = true.
Proof.
  apply (from_zero_density exp_stub exp_stub_posinf).
  exists 0. split; [ reflexivity | split; [ apply Qle_refl | reflexivity ] ].
Qed.

(* a version of mh_step that treats a +inf log ratio as an error (the isfinite|isneginf slip) is refuted *)
Definition mh_decide_inf_is_error (exp_o : xnum -> xnum) (cur prop corr u : xnum) : mh_out :=
  let l0 := xadd (xsub prop cur) corr in
  let ok := match l0 with XFin _ | XNegInf => true | _ => false end in
  let '(l, ec) := if ok then (l0, 0%nat) else (XNegInf, 90%nat) in
  let p := xclip_max1 (exp_o l) in
  mkMH ec p (xlt u p).

Lemma inf_is_error_refuted :
  exists cur prop corr u, unit_interval u /\
    prob (mh_decide exp_stub Lt cur prop corr u) = XFin 1 /\
    prob (mh_decide_inf_is_error exp_stub cur prop corr u) = XFin 0 /\
    code (mh_decide_inf_is_error exp_stub cur prop corr u) = 90%nat.
Proof.
  exists XNegInf, (XFin 0), (XFin 0), (XFin 0).
  split; [ | repeat split ].
  exists 0. split; [ reflexivity | split; [ apply Qle_refl | reflexivity ] ].
Qed.

(* ---------------------------------------------------------------- glue for the shards *)
Record extcase := mkExt {
  e_cur : xnum; e_prop : xnum; e_corr : xnum; e_u : xnum;   (* log pi(x), log pi(x'), log correction, uniform draw *)
  o_code : nat; o_p : xnum; o_moved : bool                  (* the kernel's transition info *)
}.

(* only cases whose log ratio is +-inf are admitted: the finite branch of the stub is never consulted *)
Definition ext_agrees (k : extcase) : bool :=
  let o := mh_decide exp_stub Lt (e_cur k) (e_prop k) (e_corr k) (e_u k) in
  match xadd (xsub (e_prop k) (e_cur k)) (e_corr k) with
  | XPosInf | XNegInf =>
      Nat.eqb (code o) (o_code k) && xeqb (prob o) (o_p k) && Bool.eqb (accept o) (o_moved k)
  | _ => false
  end.
