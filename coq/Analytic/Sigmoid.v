(* C18 - model of liesel/bijectors/algebraic_sigmoid.py (AlgebraicSigmoid) over R.

   class AlgebraicSigmoid(tfb.Bijector):
       def _forward(self, x):                     return x / np.sqrt(1.0 + x**2)
       def _inverse(self, y):                     return y / np.sqrt(1.0 - y**2)
       def _inverse_log_det_jacobian(self, y):    return -1.5 * np.log(1.0 - y**2)
       def _forward_log_det_jacobian(self, x):    return -1.5 * np.log(1.0 + x**2)

   Floating point is treated as real arithmetic (the correspondence lemmas carry the tolerance).
   Coq's [sqrt] and [ln] are total (0 outside their domain); every theorem about them states
   the domain condition it needs, so no statement is true by virtue of the totalisation. *)
From Coq Require Import Reals.
Open Scope R_scope.

Definition asig (x : R) : R := x / sqrt (1 + x ^ 2).
Definition asig_inv (y : R) : R := y / sqrt (1 - y ^ 2).
Definition asig_fldj (x : R) : R := - (3 / 2) * ln (1 + x ^ 2).
Definition asig_ildj (y : R) : R := - (3 / 2) * ln (1 - y ^ 2).

(* the derivatives the log-det-Jacobians are claimed to be the logarithms of *)
Definition asig_deriv (x : R) : R := 1 / (sqrt (1 + x ^ 2) * (1 + x ^ 2)).
Definition asig_inv_deriv (y : R) : R := 1 / (sqrt (1 - y ^ 2) * (1 - y ^ 2)).
