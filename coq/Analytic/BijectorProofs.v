(* C14 - proofs over the model in Bijector.v. *)
From Coq Require Import Reals Lra Lia List Bool String.
From Coquelicot Require Import Coquelicot.
From LV Require Import Analytic.Bijector.
Import ListNotations.
Open Scope R_scope.

(* ------------------------------------------------------------------------------------------ *)
(* 1. lawful bijectors                                                                          *)
(* ------------------------------------------------------------------------------------------ *)
(* b maps the (unconstrained) set T one-to-one onto the support X, its forward log-det-Jacobian
   is ln |fwd'| and its inverse log-det-Jacobian is the negative of that at the preimage. *)
Record lawful (b : bijector) (T X : R -> Prop) : Prop := mkLawful {
  law_fwd_dom : forall t, T t -> X (fwd b t);
  law_inv_dom : forall x, X x -> T (inv b x);
  law_inv_fwd : forall t, T t -> inv b (fwd b t) = t;
  law_fwd_inv : forall x, X x -> fwd b (inv b x) = x;
  law_fldj : forall t, T t -> exists d, is_derive (fwd b) t d /\ d <> 0 /\ fldj b t = ln (Rabs d);
  law_ildj : forall x, X x -> ildj b x = - fldj b (inv b x)
}.

Definition all_R : R -> Prop := fun _ => True.
Definition pos_R : R -> Prop := fun x => 0 < x.
Definition unit_R : R -> Prop := fun x => 0 < x < 1.
Definition nonzero_R : R -> Prop := fun x => x <> 0.
Definition above (lo : R) : R -> Prop := fun x => lo < x.
Definition between (lo hi : R) : R -> Prop := fun x => lo < x < hi.

(* ------------------------------------------------------------------------------------------ *)
(* 2. the change-of-variables theorems for the three code paths                                 *)
(* ------------------------------------------------------------------------------------------ *)
Section Main.
  Context {P A : Type}.
  Variable D : P -> dist_inst.

  (* log-density and value of the three paths, purely by computation: whatever bijector the
     specification resolves to at the CURRENT inputs is the one used *)
  Lemma paths_compute : forall (pa : path) (bs : bij_spec A) p0 a0 v0 p a t b,
    resolve D bs p a = Some b ->
    r_logpdf (transform_by pa D bs p0 a0 v0) p a t = Some (d_logpdf (D p) (fwd b t) + fldj b t)
    /\ r_value (transform_by pa D bs p0 a0 v0) p a t = Some (fwd b t).
  Proof.
    intros pa bs p0 a0 v0 p a t b Hres.
    destruct pa; destruct bs as [b' | Bc | ]; cbn in Hres |- *.
    - inversion Hres; subst. split; reflexivity.
    - inversion Hres; subst. split; reflexivity.
    - rewrite Hres. cbn. split; reflexivity.
    - inversion Hres; subst. split; reflexivity.
    - inversion Hres; subst. split; reflexivity.
    - rewrite Hres. cbn. split; reflexivity.
  Qed.

  Lemma paths_init : forall (pa : path) (bs : bij_spec A) p0 a0 v0 b,
    resolve D bs p0 a0 = Some b ->
    r_init (transform_by pa D bs p0 a0 v0) = Some (inv b v0).
  Proof.
    intros pa bs p0 a0 v0 b Hres.
    destruct pa; destruct bs as [b' | Bc | ]; cbn in Hres |- *;
      try (inversion Hres; subst; reflexivity); rewrite Hres; reflexivity.
  Qed.

  (* no bijector to resolve (default requested, the distribution has none): the code raises *)
  Lemma paths_none : forall (pa : path) (bs : bij_spec A) p0 a0 v0 p a t,
    resolve D bs p a = None ->
    r_logpdf (transform_by pa D bs p0 a0 v0) p a t = None
    /\ r_value (transform_by pa D bs p0 a0 v0) p a t = None.
  Proof.
    intros pa bs p0 a0 v0 p a t Hres.
    destruct pa; destruct bs as [b' | Bc | ]; cbn in Hres |- *; try discriminate;
      rewrite Hres; split; reflexivity.
  Qed.

  Theorem change_of_variables : forall (pa : path) (bs : bij_spec A) p0 a0 v0 p a t b T X,
    resolve D bs p a = Some b -> lawful b T X -> T t ->
    exists d, is_derive (fwd b) t d /\ d <> 0
      /\ r_logpdf (transform_by pa D bs p0 a0 v0) p a t
         = Some (d_logpdf (D p) (fwd b t) + ln (Rabs d))
      /\ r_value (transform_by pa D bs p0 a0 v0) p a t = Some (fwd b t)
      /\ X (fwd b t).
  Proof.
    intros pa bs p0 a0 v0 p a t b T X Hres Hlaw Ht.
    destruct (law_fldj _ _ _ Hlaw t Ht) as [d [Hd [Hnz Hf]]].
    destruct (paths_compute pa bs p0 a0 v0 p a t b Hres) as [Hl Hv].
    exists d. split; [exact Hd | split; [exact Hnz | split; [ | split; [exact Hv | ]]]].
    - rewrite Hl, Hf. reflexivity.
    - exact (law_fwd_dom _ _ _ Hlaw t Ht).
  Qed.

  (* the derivative in the statement is THE derivative: any other witness is the same number *)
  Lemma derive_unique : forall (f : R -> R) t d1 d2, is_derive f t d1 -> is_derive f t d2 -> d1 = d2.
  Proof.
    intros f t d1 d2 H1 H2.
    apply is_derive_unique in H1. apply is_derive_unique in H2. congruence.
  Qed.

  Theorem value_preserved : forall (pa : path) (bs : bij_spec A) p0 a0 v0 b T X,
    resolve D bs p0 a0 = Some b -> lawful b T X -> X v0 ->
    exists t0, r_init (transform_by pa D bs p0 a0 v0) = Some t0 /\ T t0
      /\ t0 = inv b v0
      /\ r_value (transform_by pa D bs p0 a0 v0) p0 a0 t0 = Some v0.
  Proof.
    intros pa bs p0 a0 v0 b T X Hres Hlaw Hx.
    exists (inv b v0). split; [ | split; [ | split; [reflexivity | ]]].
    - apply paths_init; assumption.
    - exact (law_inv_dom _ _ _ Hlaw v0 Hx).
    - destruct (paths_compute pa bs p0 a0 v0 p0 a0 (inv b v0) b Hres) as [_ Hv].
      rewrite Hv. f_equal. exact (law_fwd_inv _ _ _ Hlaw v0 Hx).
  Qed.

  (* the log-density of the new variable at its initial value: original log-density at the
     original value, corrected by -ildj (so the model's log-probability moves by the Jacobian only) *)
  Theorem initial_logpdf : forall (pa : path) (bs : bij_spec A) p0 a0 v0 b T X,
    resolve D bs p0 a0 = Some b -> lawful b T X -> X v0 ->
    r_logpdf (transform_by pa D bs p0 a0 v0) p0 a0 (inv b v0)
    = Some (d_logpdf (D p0) v0 - ildj b v0).
  Proof.
    intros pa bs p0 a0 v0 b T X Hres Hlaw Hx.
    destruct (paths_compute pa bs p0 a0 v0 p0 a0 (inv b v0) b Hres) as [Hl _].
    rewrite Hl, (law_fwd_inv _ _ _ Hlaw v0 Hx), (law_ildj _ _ _ Hlaw v0 Hx). f_equal. lra.
  Qed.

  Theorem three_paths_agree : forall (bs : bij_spec A) p0 a0 v0 p a t,
    r_init (transform_by PVar D bs p0 a0 v0) = r_init (transform_by PDeprecated D bs p0 a0 v0)
    /\ r_logpdf (transform_by PVar D bs p0 a0 v0) p a t
       = r_logpdf (transform_by PDeprecated D bs p0 a0 v0) p a t
    /\ r_value (transform_by PVar D bs p0 a0 v0) p a t
       = r_value (transform_by PDeprecated D bs p0 a0 v0) p a t.
  Proof.
    intros bs p0 a0 v0 p a t.
    destruct (resolve D bs p a) as [b | ] eqn:Hres.
    - destruct (paths_compute PVar bs p0 a0 v0 p a t b Hres) as [H1 H2].
      destruct (paths_compute PDeprecated bs p0 a0 v0 p a t b Hres) as [H3 H4].
      rewrite H1, H2, H3, H4. repeat split; try reflexivity.
      destruct bs as [b' | Bc | ]; cbn; reflexivity.
    - destruct (paths_none PVar bs p0 a0 v0 p a t Hres) as [H1 H2].
      destruct (paths_none PDeprecated bs p0 a0 v0 p a t Hres) as [H3 H4].
      rewrite H1, H2, H3, H4. repeat split; try reflexivity.
      destruct bs as [b' | Bc | ]; cbn; reflexivity.
  Qed.

  (* an instance, the constant class returning that instance, and a distribution whose default
     is that instance give the same new variable *)
  Theorem spec_forms_agree : forall (pa : path) (b : bijector) p0 a0 v0 p a t,
    d_default (D p) = Some b -> d_default (D p0) = Some b ->
    let r1 := transform_by pa D (BInst b) p0 a0 v0 in
    let r2 := transform_by pa D (BCls (fun _ : A => b)) p0 a0 v0 in
    let r3 := transform_by pa D BDefault p0 a0 v0 in
    r_init r1 = r_init r2 /\ r_init r1 = r_init r3
    /\ r_logpdf r1 p a t = r_logpdf r2 p a t /\ r_logpdf r1 p a t = r_logpdf r3 p a t
    /\ r_value r1 p a t = r_value r2 p a t /\ r_value r1 p a t = r_value r3 p a t.
  Proof.
    intros pa b p0 a0 v0 p a t Hd Hd0 r1 r2 r3. subst r1 r2 r3.
    rewrite (paths_init pa (BInst b) p0 a0 v0 b eq_refl).
    rewrite (paths_init pa (BCls (fun _ => b)) p0 a0 v0 b eq_refl).
    rewrite (paths_init pa BDefault p0 a0 v0 b Hd0).
    destruct (paths_compute pa (BInst b) p0 a0 v0 p a t b eq_refl) as [H1 H2].
    destruct (paths_compute pa (BCls (fun _ => b)) p0 a0 v0 p a t b eq_refl) as [H3 H4].
    destruct (paths_compute pa BDefault p0 a0 v0 p a t b Hd) as [H5 H6].
    rewrite H1, H2, H3, H4, H5, H6. repeat split; reflexivity.
  Qed.

  (* Model.log_prob after, at t, is Model.log_prob before, at x = b(t), plus ln |b'(t)| *)
  Theorem model_log_prob_shift : forall (pa : path) (bs : bij_spec A) others p0 a0 v0 p a t b T X,
    resolve D bs p a = Some b -> lawful b T X -> T t ->
    exists d, is_derive (fwd b) t d /\ d <> 0 /\
      model_lp_after others (transform_by pa D bs p0 a0 v0) p a t
      = Some (model_lp_before others (D p) (fwd b t) + ln (Rabs d)).
  Proof.
    intros pa bs others p0 a0 v0 p a t b T X Hres Hlaw Ht.
    destruct (change_of_variables pa bs p0 a0 v0 p a t b T X Hres Hlaw Ht) as [d [Hd [Hnz [Hl [Hv _]]]]].
    exists d. split; [exact Hd | split; [exact Hnz | ]].
    unfold model_lp_after, model_lp_before. rewrite Hv, Hl. f_equal. lra.
  Qed.
End Main.

(* ------------------------------------------------------------------------------------------ *)
(* 3. lawfulness of the concrete bijectors                                                      *)
(* ------------------------------------------------------------------------------------------ *)
Lemma exp_pos_1 : forall t, 0 < 1 + exp t.
Proof. intro t. pose proof (exp_pos t). lra. Qed.

Lemma is_derive_exp' : forall t, is_derive exp t (exp t).
Proof. intro t. apply is_derive_Reals. apply derivable_pt_lim_exp. Qed.

Lemma is_derive_ln' : forall x, 0 < x -> is_derive ln x (/ x).
Proof. intros x Hx. apply is_derive_Reals. apply derivable_pt_lim_ln. exact Hx. Qed.

Ltac ex_d d := exists d; split; [ | split ].

Lemma lawful_identity : lawful bIdentity all_R all_R.
Proof.
  constructor; cbn; unfold all_R; intros; auto.
  - ex_d 1.
    + auto_derive; [ exact I | reflexivity ].
    + lra.
    + rewrite Rabs_R1, ln_1. reflexivity.
  - lra.
Qed.

Lemma lawful_exp : lawful bExp all_R pos_R.
Proof.
  constructor; cbn; unfold all_R, pos_R; intros; auto.
  - apply exp_pos.
  - apply ln_exp.
  - apply exp_ln; assumption.
  - ex_d (exp t).
    + apply is_derive_exp'.
    + pose proof (exp_pos t); lra.
    + rewrite Rabs_pos_eq by (left; apply exp_pos). rewrite ln_exp. reflexivity.
Qed.

Lemma lawful_shift : forall s, lawful (bShift s) all_R all_R.
Proof.
  intro s. constructor; cbn; unfold all_R; intros; auto; try lra.
  ex_d 1.
  - auto_derive; [ exact I | reflexivity ].
  - lra.
  - rewrite Rabs_R1, ln_1. reflexivity.
Qed.

Lemma lawful_shift_above : forall s lo, lawful (bShift s) (above lo) (above (lo + s)).
Proof.
  intros s lo. constructor; cbn; unfold above; intros; auto; try lra.
  ex_d 1.
  - auto_derive; [ exact I | reflexivity ].
  - lra.
  - rewrite Rabs_R1, ln_1. reflexivity.
Qed.

Lemma lawful_scale : forall c, c <> 0 -> lawful (bScale c) all_R all_R.
Proof.
  intros c Hc. constructor; cbn; unfold all_R; intros; auto.
  - field; assumption.
  - field; assumption.
  - ex_d c; auto.
    auto_derive; [ exact I | lra ].
Qed.

Lemma lawful_scale_pos : forall c, 0 < c -> lawful (bScale c) pos_R pos_R.
Proof.
  intros c Hc. constructor; cbn; unfold pos_R; intros; auto.
  - apply Rmult_lt_0_compat; assumption.
  - apply Rdiv_lt_0_compat; assumption.
  - field; lra.
  - field; lra.
  - ex_d c; auto; try lra.
    auto_derive; [ exact I | lra ].
Qed.

Lemma lawful_reciprocal : lawful bReciprocal pos_R pos_R.
Proof.
  constructor; cbn; unfold pos_R; intros; auto.
  - apply Rinv_0_lt_compat; assumption.
  - apply Rinv_0_lt_compat; assumption.
  - apply Rinv_inv.
  - apply Rinv_inv.
  - assert (Hp : 0 < t * t) by nra.
    ex_d (- / (t * t)).
    + auto_derive; [ lra | lra ].
    + assert (0 < / (t * t)) by (apply Rinv_0_lt_compat; exact Hp). lra.
    + rewrite Rabs_Ropp.
      rewrite (Rabs_pos_eq (/ (t * t))) by (left; apply Rinv_0_lt_compat; exact Hp).
      rewrite ln_Rinv by exact Hp. rewrite ln_mult by assumption.
      rewrite Rabs_pos_eq by lra. lra.
  - assert (0 < / x) by (apply Rinv_0_lt_compat; assumption).
    rewrite (Rabs_pos_eq x) by lra. rewrite (Rabs_pos_eq (/ x)) by lra.
    rewrite ln_Rinv by assumption. lra.
Qed.

(* softplus *)
Lemma softplus_pos : forall t, 0 < softplus t.
Proof.
  intro t. unfold softplus. rewrite <- ln_1. apply ln_increasing; [lra | pose proof (exp_pos t); lra].
Qed.

Lemma exp_gt_1 : forall x, 0 < x -> 1 < exp x.
Proof. intros x Hx. rewrite <- exp_0. apply exp_increasing. exact Hx. Qed.

Lemma softplus_inv_fwd : forall t, ln (exp (softplus t) - 1) = t.
Proof.
  intro t. unfold softplus. rewrite exp_ln by apply exp_pos_1.
  replace (1 + exp t - 1) with (exp t) by lra. apply ln_exp.
Qed.

Lemma softplus_fwd_inv : forall x, 0 < x -> softplus (ln (exp x - 1)) = x.
Proof.
  intros x Hx. unfold softplus. pose proof (exp_gt_1 x Hx).
  rewrite exp_ln by lra. replace (1 + (exp x - 1)) with (exp x) by lra. apply ln_exp.
Qed.

(* d/dt softplus t = 1 / (1 + exp (-t)) *)
Lemma is_derive_softplus : forall t, is_derive softplus t (/ (1 + exp (- t))).
Proof.
  intro t. unfold softplus. pose proof (exp_pos t) as Hp.
  auto_derive; [ lra | ].
  rewrite exp_Ropp. field. split; lra.
Qed.

Lemma neg_softplus_neg : forall t, - softplus (- t) = ln (/ (1 + exp (- t))).
Proof.
  intro t. unfold softplus. rewrite ln_Rinv by apply exp_pos_1. reflexivity.
Qed.

Lemma softplus_ildj : forall x, 0 < x -> - ln (1 - exp (- x)) = softplus (- ln (exp x - 1)).
Proof.
  intros x H.
  pose proof (exp_gt_1 x H) as H1. pose proof (exp_pos x) as Hp.
  unfold softplus.
  rewrite exp_Ropp. rewrite exp_Ropp. rewrite exp_ln by lra.
  assert (Hlt : / exp x < 1).
  { rewrite <- Rinv_1. apply Rinv_lt_contravar; lra. }
  replace (1 + / (exp x - 1)) with (/ (1 - / exp x)).
  - rewrite ln_Rinv by lra. reflexivity.
  - field. split; lra.
Qed.

Lemma lawful_softplus : lawful bSoftplus all_R pos_R.
Proof.
  constructor; cbn; unfold all_R, pos_R; intros; auto.
  - apply softplus_pos.
  - apply softplus_inv_fwd.
  - apply softplus_fwd_inv; assumption.
  - ex_d (/ (1 + exp (- t))).
    + apply is_derive_softplus.
    + pose proof (Rinv_0_lt_compat _ (exp_pos_1 (- t))). lra.
    + rewrite Rabs_pos_eq by (left; apply Rinv_0_lt_compat; apply exp_pos_1).
      apply neg_softplus_neg.
  - rewrite Ropp_involutive. apply softplus_ildj. assumption.
Qed.

(* sigmoid *)
Lemma sigmoid_range : forall t, 0 < sigmoid t < 1.
Proof.
  intro t. unfold sigmoid. pose proof (exp_pos (- t)) as Hp.
  split.
  - apply Rinv_0_lt_compat. lra.
  - rewrite <- Rinv_1. apply Rinv_lt_contravar; lra.
Qed.

Lemma one_minus_sigmoid : forall t, 1 - sigmoid t = / (1 + exp t).
Proof.
  intro t. unfold sigmoid. rewrite exp_Ropp. pose proof (exp_pos t). field. split; lra.
Qed.

Lemma is_derive_sigmoid : forall t, is_derive sigmoid t (sigmoid t * (1 - sigmoid t)).
Proof.
  intro t. unfold sigmoid. pose proof (exp_pos (- t)) as Hp.
  auto_derive; [ lra | ].
  field. lra.
Qed.

Lemma sigmoid_inv_fwd : forall t, ln (sigmoid t) - ln (1 - sigmoid t) = t.
Proof.
  intro t. rewrite one_minus_sigmoid. unfold sigmoid.
  rewrite ln_Rinv by apply exp_pos_1. rewrite ln_Rinv by apply exp_pos_1.
  rewrite exp_Ropp. pose proof (exp_pos t) as Hp.
  replace (1 + / exp t) with ((1 + exp t) * / exp t) by (field; lra).
  rewrite ln_mult; [ | lra | apply Rinv_0_lt_compat; lra ].
  rewrite ln_Rinv by lra. rewrite ln_exp. lra.
Qed.

Lemma sigmoid_fwd_inv : forall x, 0 < x < 1 -> sigmoid (ln x - ln (1 - x)) = x.
Proof.
  intros x [H0 H1]. unfold sigmoid.
  replace (- (ln x - ln (1 - x))) with (ln (1 - x) - ln x) by lra.
  unfold Rminus at 1. rewrite exp_plus, exp_Ropp, exp_ln, exp_ln by lra.
  field. lra.
Qed.

Lemma lawful_sigmoid : lawful bSigmoid all_R unit_R.
Proof.
  constructor; cbn; unfold all_R, unit_R; intros; auto.
  - apply sigmoid_range.
  - apply sigmoid_inv_fwd.
  - apply sigmoid_fwd_inv; assumption.
  - pose proof (sigmoid_range t) as [H0 H1].
    ex_d (sigmoid t * (1 - sigmoid t)).
    + apply is_derive_sigmoid.
    + assert (0 < sigmoid t * (1 - sigmoid t)) by (apply Rmult_lt_0_compat; lra). lra.
    + rewrite Rabs_pos_eq by (left; apply Rmult_lt_0_compat; lra).
      rewrite ln_mult by lra. rewrite one_minus_sigmoid.
      rewrite neg_softplus_neg. unfold sigmoid, softplus.
      rewrite (ln_Rinv (1 + exp t)) by apply exp_pos_1. lra.
  - (* -ln x - ln(1-x) = softplus(-u) + softplus u with u = logit x *)
    destruct H as [H0 H1].
    set (u := ln x - ln (1 - x)).
    assert (Hs : sigmoid u = x) by (apply sigmoid_fwd_inv; split; assumption).
    assert (E1 : - softplus (- u) = ln x) by (rewrite neg_softplus_neg; fold (sigmoid u); rewrite Hs; reflexivity).
    assert (E2 : - softplus u = ln (1 - x)).
    { rewrite <- Hs, one_minus_sigmoid. unfold softplus. rewrite ln_Rinv by apply exp_pos_1. reflexivity. }
    lra.
Qed.

(* composition *)
Lemma lawful_chain : forall b1 b2 T M X,
  lawful b2 T M -> lawful b1 M X -> lawful (Chain b1 b2) T X.
Proof.
  intros b1 b2 T M X L2 L1. constructor; cbn; intros.
  - apply (law_fwd_dom _ _ _ L1). apply (law_fwd_dom _ _ _ L2). assumption.
  - apply (law_inv_dom _ _ _ L2). apply (law_inv_dom _ _ _ L1). assumption.
  - rewrite (law_inv_fwd _ _ _ L1) by (apply (law_fwd_dom _ _ _ L2); assumption).
    apply (law_inv_fwd _ _ _ L2). assumption.
  - rewrite (law_fwd_inv _ _ _ L2) by (apply (law_inv_dom _ _ _ L1); assumption).
    apply (law_fwd_inv _ _ _ L1). assumption.
  - destruct (law_fldj _ _ _ L2 t H) as [d2 [Hd2 [Hn2 Hf2]]].
    destruct (law_fldj _ _ _ L1 (fwd b2 t) (law_fwd_dom _ _ _ L2 t H)) as [d1 [Hd1 [Hn1 Hf1]]].
    ex_d (d2 * d1).
    + apply (is_derive_comp (fwd b1) (fwd b2) t d1 d2); assumption.
    + apply Rmult_integral_contrapositive_currified; assumption.
    + rewrite Hf2, Hf1, Rabs_mult.
      rewrite ln_mult by (apply Rabs_pos_lt; assumption). reflexivity.
  - pose proof (law_inv_dom _ _ _ L1 x H) as Hm.
    rewrite (law_ildj _ _ _ L1 x H), (law_ildj _ _ _ L2 _ Hm).
    rewrite (law_fwd_inv _ _ _ L2 _ Hm). lra.
Qed.

Lemma lawful_recip_softplus : lawful bRecipSoftplus all_R pos_R.
Proof. exact (lawful_chain _ _ _ _ _ lawful_softplus lawful_reciprocal). Qed.

Lemma lawful_shift_exp : forall loc, lawful (bShiftExp loc) all_R (above loc).
Proof.
  intro loc. unfold bShiftExp.
  apply (lawful_chain _ _ all_R (above 0) (above loc)).
  - exact lawful_exp.
  - pose proof (lawful_shift_above loc 0) as L. replace (0 + loc) with loc in L by lra. exact L.
Qed.

(* the two Jacobian identities of the sigmoid, as stand-alone lemmas *)
Lemma sigmoid_fldj : forall t, - softplus (- t) - softplus t = ln (sigmoid t * (1 - sigmoid t)).
Proof.
  intro t. pose proof (sigmoid_range t) as [H0 H1].
  rewrite ln_mult by lra. rewrite one_minus_sigmoid.
  rewrite neg_softplus_neg. unfold sigmoid, softplus.
  rewrite (ln_Rinv (1 + exp t)) by apply exp_pos_1. lra.
Qed.

Lemma sigmoid_ildj : forall x, 0 < x < 1 ->
  - ln x - ln (1 - x) = - (- softplus (- (ln x - ln (1 - x))) - softplus (ln x - ln (1 - x))).
Proof.
  intros x [H0 H1].
  set (u := ln x - ln (1 - x)).
  assert (Hs : sigmoid u = x) by (apply sigmoid_fwd_inv; split; assumption).
  assert (E1 : - softplus (- u) = ln x) by (rewrite neg_softplus_neg; fold (sigmoid u); rewrite Hs; reflexivity).
  assert (E2 : - softplus u = ln (1 - x)).
  { rewrite <- Hs, one_minus_sigmoid. unfold softplus. rewrite ln_Rinv by apply exp_pos_1. reflexivity. }
  lra.
Qed.

(* tfb.Softplus(hinge_softness = h) *)
Lemma lawful_softplus_h : forall h, 0 < h -> lawful (bSoftplusH h) all_R pos_R.
Proof.
  intros h Hh. constructor; cbn; unfold all_R, pos_R; intros; auto.
  - apply Rmult_lt_0_compat; [assumption | apply softplus_pos].
  - replace (h * softplus (t / h) / h) with (softplus (t / h)) by (field; lra).
    rewrite softplus_inv_fwd. field; lra.
  - replace (h * ln (exp (x / h) - 1) / h) with (ln (exp (x / h) - 1)) by (field; lra).
    rewrite softplus_fwd_inv by (apply Rdiv_lt_0_compat; assumption). field; lra.
  - ex_d (/ (1 + exp (- (t / h)))).
    + unfold softplus. pose proof (exp_pos (t / h)) as Hp.
      auto_derive; [ lra | ].
      rewrite exp_Ropp. unfold Rdiv. field. repeat split; lra.
    + pose proof (Rinv_0_lt_compat _ (exp_pos_1 (- (t / h)))). lra.
    + rewrite Rabs_pos_eq by (left; apply Rinv_0_lt_compat; apply exp_pos_1).
      apply neg_softplus_neg.
  - replace (h * ln (exp (x / h) - 1) / h) with (ln (exp (x / h) - 1)) by (field; lra).
    rewrite Ropp_involutive. apply softplus_ildj. apply Rdiv_lt_0_compat; assumption.
Qed.

(* tfb.Sigmoid(low = lo, high = hi) *)
Lemma lawful_sigmoid_lh : forall lo hi, lo < hi -> lawful (bSigmoidLH lo hi) all_R (between lo hi).
Proof.
  intros lo hi Hlh. constructor; cbn; unfold all_R, between; intros; auto.
  - pose proof (sigmoid_range t) as [H0 H1]. split; nra.
  - replace ((lo + (hi - lo) * sigmoid t - lo) / (hi - lo)) with (sigmoid t) by (field; lra).
    apply sigmoid_inv_fwd.
  - assert (Hu : 0 < (x - lo) / (hi - lo) < 1).
    { destruct H as [Ha Hb]. split.
      - apply Rdiv_lt_0_compat; lra.
      - apply (Rmult_lt_reg_r (hi - lo)); [lra | ]. unfold Rdiv. rewrite Rmult_assoc, Rinv_l by lra. lra. }
    rewrite sigmoid_fwd_inv by exact Hu. field; lra.
  - pose proof (sigmoid_range t) as [H0 H1].
    assert (Hp : 0 < sigmoid t * (1 - sigmoid t)) by (apply Rmult_lt_0_compat; lra).
    ex_d ((hi - lo) * (sigmoid t * (1 - sigmoid t))).
    + evar_last.
      * apply @is_derive_plus; [ apply @is_derive_const | ].
        apply @is_derive_scal. apply is_derive_sigmoid.
      * unfold plus, zero, scal, mult; cbn. unfold mult; cbn. lra.
    + assert (0 < (hi - lo) * (sigmoid t * (1 - sigmoid t))) by (apply Rmult_lt_0_compat; lra). lra.
    + rewrite Rabs_pos_eq by (left; apply Rmult_lt_0_compat; lra).
      rewrite ln_mult by lra. rewrite sigmoid_fldj. lra.
  - assert (Hu : 0 < (x - lo) / (hi - lo) < 1).
    { destruct H as [Ha Hb]. split.
      - apply Rdiv_lt_0_compat; lra.
      - apply (Rmult_lt_reg_r (hi - lo)); [lra | ]. unfold Rdiv. rewrite Rmult_assoc, Rinv_l by lra. lra. }
    pose proof (sigmoid_ildj _ Hu) as E. lra.
Qed.

Lemma lawful_instances :
  lawful bIdentity all_R all_R
  /\ lawful bExp all_R pos_R
  /\ lawful bSoftplus all_R pos_R
  /\ lawful bSigmoid all_R unit_R
  /\ (forall c, c <> 0 -> lawful (bScale c) all_R all_R)
  /\ (forall c, 0 < c -> lawful (bScale c) pos_R pos_R)
  /\ (forall s, lawful (bShift s) all_R all_R)
  /\ lawful bReciprocal pos_R pos_R
  /\ (forall h, 0 < h -> lawful (bSoftplusH h) all_R pos_R)
  /\ (forall lo hi, lo < hi -> lawful (bSigmoidLH lo hi) all_R (between lo hi))
  /\ (forall b1 b2 T M X, lawful b2 T M -> lawful b1 M X -> lawful (Chain b1 b2) T X)
  /\ lawful bRecipSoftplus all_R pos_R
  /\ (forall loc, lawful (bShiftExp loc) all_R (above loc)).
Proof.
  split; [exact lawful_identity | ]. split; [exact lawful_exp | ].
  split; [exact lawful_softplus | ]. split; [exact lawful_sigmoid | ].
  split; [exact lawful_scale | ]. split; [exact lawful_scale_pos | ].
  split; [exact lawful_shift | ]. split; [exact lawful_reciprocal | ].
  split; [exact lawful_softplus_h | ]. split; [exact lawful_sigmoid_lh | ].
  split; [exact lawful_chain | ]. split; [exact lawful_recip_softplus | exact lawful_shift_exp].
Qed.

(* ------------------------------------------------------------------------------------------ *)
(* 4. structural side: flags, errors, auto-transform                                            *)
(* ------------------------------------------------------------------------------------------ *)
Definition flags_ok (v v' tv : var) : Prop :=
  v_parameter tv = v_parameter v /\ v_parameter v' = false
  /\ v_has_dist v' = false /\ v_weak v' = true
  /\ v_has_dist tv = true /\ v_weak tv = false
  /\ v_name v' = v_name v /\ v_name tv = tname (v_name v)
  /\ v_observed v' = v_observed v /\ v_observed tv = false
  /\ v_auto v' = false /\ v_auto tv = false.

Lemma flags_of_result : forall v, flags_ok v (orig_after v) (new_var v).
Proof. intro v. unfold flags_ok; cbn. repeat split; reflexivity. Qed.

Lemma var_transform_s_ok : forall k v v' tv,
  var_transform_s k v = inr (v', tv) ->
  v' = orig_after v /\ tv = new_var v /\ v_weak v = false /\ v_has_dist v = true.
Proof.
  intros k v v' tv H. unfold var_transform_s in H.
  destruct (v_weak v) eqn:Hw; [discriminate | ].
  destruct (v_has_dist v) eqn:Hd; cbn in H; [ | discriminate].
  destruct k as [[ | ] | [ | ] | | | ]; try discriminate;
    try (inversion H; subst; auto; fail).
  destruct (v_default v); [ | discriminate]. inversion H; subst; auto.
Qed.

Lemma gb_transform_s_ok : forall k v v' tv,
  gb_transform_s k v = inr (v', tv) ->
  v' = orig_after v /\ tv = new_var v /\ v_weak v = false /\ v_has_dist v = true.
Proof.
  intros k v v' tv H. unfold gb_transform_s in H.
  destruct (v_weak v) eqn:Hw; [discriminate | ].
  destruct (v_has_dist v) eqn:Hd; cbn in H; [ | discriminate].
  destruct k as [[ | ] | [ | ] | | | ]; try discriminate;
    try (inversion H; subst; auto; fail).
  destruct (v_default v); [ | discriminate]. inversion H; subst; auto.
Qed.

Theorem flags : forall k v v' tv,
  var_transform_s k v = inr (v', tv) \/ gb_transform_s k v = inr (v', tv) ->
  flags_ok v v' tv /\ v_weak v = false /\ v_has_dist v = true.
Proof.
  intros k v v' tv [H | H];
    [apply var_transform_s_ok in H | apply gb_transform_s_ok in H];
    destruct H as [E1 [E2 [Hw Hd]]]; subst; split; auto using flags_of_result.
Qed.

(* when the entry points refuse *)
Theorem transform_refuses : forall k v,
  (v_weak v = true -> var_transform_s k v = inl EWeak /\ gb_transform_s k v = inl EWeak)
  /\ (v_weak v = false -> v_has_dist v = false ->
        var_transform_s k v = inl ENoDist /\ gb_transform_s k v = inl ENoDist)
  /\ (v_weak v = false -> v_has_dist v = true -> v_default v = false ->
        var_transform_s KDefault v = inl ENoDefault /\ gb_transform_s KDefault v = inl ENoDefault)
  /\ (v_weak v = false -> v_has_dist v = true ->
        var_transform_s (KInst true) v = inl EInstArgs /\ gb_transform_s (KInst true) v = inl EInstArgs
        /\ var_transform_s (KCls false) v = inl EClsNoArgs).
Proof.
  intros k v. unfold var_transform_s, gb_transform_s. repeat split; intros;
    repeat match goal with H : _ = _ |- _ => rewrite H; clear H end; cbn; reflexivity.
Qed.

Theorem transform_accepts : forall k v,
  v_weak v = false -> v_has_dist v = true ->
  (k = KInst false \/ k = KCls true \/ (k = KDefault /\ v_default v = true)) ->
  var_transform_s k v = inr (orig_after v, new_var v)
  /\ gb_transform_s k v = inr (orig_after v, new_var v).
Proof.
  intros k v Hw Hd Hk. unfold var_transform_s, gb_transform_s. rewrite Hw, Hd. cbn.
  destruct Hk as [-> | [-> | [-> Hdef]]]; try rewrite Hdef; split; reflexivity.
Qed.

(* auto-transform at build time *)
Definition expand (v : var) : list var := if v_auto v then [orig_after v; new_var v] else [v].
Definition transformable (v : var) : bool := negb (v_weak v) && v_has_dist v && v_default v.
Definition auto_ready (vs : list var) : bool :=
  forallb (fun v => implb (v_auto v) (transformable v)) vs.

Lemma default_ok_iff : forall v,
  (exists r, var_transform_s KDefault v = inr r) <-> transformable v = true.
Proof.
  intro v. unfold var_transform_s, transformable.
  destruct (v_weak v), (v_has_dist v), (v_default v); cbn; split; intro H;
    try discriminate; try (destruct H as [r H]; discriminate); eauto.
Qed.

Theorem auto_loop_spec : forall vs,
  (auto_ready vs = true -> auto_loop vs = inr (flat_map expand vs))
  /\ (forall out, auto_loop vs = inr out -> auto_ready vs = true /\ out = flat_map expand vs).
Proof.
  induction vs as [ | v rest [IH1 IH2]]; cbn.
  - split; [reflexivity | intros out H; inversion H; auto].
  - unfold expand at 1 3. destruct (v_auto v) eqn:Ha; cbn.
    + unfold var_transform_s, transformable.
      destruct (v_weak v), (v_has_dist v), (v_default v); cbn;
        try (split; [discriminate | intros out H; discriminate]).
      split.
      * intro Hr. rewrite (IH1 Hr). reflexivity.
      * intros out H. destruct (auto_loop rest) as [e | o] eqn:Hl; [discriminate | ].
        inversion H; subst. destruct (IH2 o eq_refl) as [Hr Ho]. subst. auto.
    + split.
      * intro Hr. rewrite (IH1 Hr). reflexivity.
      * intros out H. destruct (auto_loop rest) as [e | o] eqn:Hl; [discriminate | ].
        inversion H; subst. destruct (IH2 o eq_refl) as [Hr Ho]. subst. auto.
Qed.

Lemma expand_clears : forall v, forallb (fun w => negb (v_auto w)) (expand v) = negb (v_auto v) || true.
Proof. intro v. unfold expand. destruct (v_auto v) eqn:Ha; cbn; rewrite ?Ha; reflexivity. Qed.

Theorem auto_transform : forall vs out,
  build_model_s vs = inr out ->
  out = flat_map expand vs
  /\ forallb (fun w => negb (v_auto w)) out = true
  /\ (forall v, In v vs -> v_auto v = false -> In v out)
  /\ (forall v, In v vs -> v_auto v = true ->
        In (orig_after v) out /\ In (new_var v) out /\ flags_ok v (orig_after v) (new_var v)
        /\ var_transform_s KDefault v = inr (orig_after v, new_var v))
  /\ (forall w, In w out -> exists v, In v vs /\
        (w = v /\ v_auto v = false \/ v_auto v = true /\ (w = orig_after v \/ w = new_var v)))
  /\ nodupb (map v_name out) = true.
Proof.
  intros vs out H. unfold build_model_s in H.
  destruct (auto_loop vs) as [e | o] eqn:Hl; [discriminate | ].
  destruct (nodupb (map v_name o)) eqn:Hn; [ | discriminate].
  inversion H; subst o. clear H.
  destruct (proj2 (auto_loop_spec vs) out Hl) as [Hr Ho].
  split; [exact Ho | ]. subst out.
  split; [ | split; [ | split; [ | split]]].
  - clear. induction vs as [ | v rest IH]; cbn; [reflexivity | ].
    rewrite forallb_app, IH, expand_clears. destruct (v_auto v); reflexivity.
  - intros v Hin Ha. apply in_flat_map. exists v. split; [exact Hin | ].
    unfold expand. rewrite Ha. left. reflexivity.
  - intros v Hin Ha.
    assert (Ht : transformable v = true).
    { unfold auto_ready in Hr. rewrite forallb_forall in Hr. specialize (Hr v Hin).
      rewrite Ha in Hr. exact Hr. }
    repeat split; try reflexivity.
    + apply in_flat_map. exists v. split; [exact Hin | ]. unfold expand. rewrite Ha. left. reflexivity.
    + apply in_flat_map. exists v. split; [exact Hin | ]. unfold expand. rewrite Ha. right. left. reflexivity.
    + unfold transformable in Ht. unfold var_transform_s.
      destruct (v_weak v), (v_has_dist v), (v_default v); try discriminate. reflexivity.
  - intros w Hw. apply in_flat_map in Hw. destruct Hw as [v [Hin Hx]]. exists v. split; [exact Hin | ].
    unfold expand in Hx. destruct (v_auto v) eqn:Ha.
    + right. split; [reflexivity | ]. destruct Hx as [<- | [<- | []]]; auto.
    + left. destruct Hx as [<- | []]. auto.
  - exact Hn.
Qed.

(* a variable that asks for auto-transform but cannot be transformed makes the build fail *)
Theorem auto_transform_fails : forall vs,
  auto_ready vs = false -> exists e, build_model_s vs = inl e.
Proof.
  intros vs Hr. unfold build_model_s.
  destruct (auto_loop vs) as [e | o] eqn:Hl; [eauto | ].
  destruct (proj2 (auto_loop_spec vs) o Hl) as [Hr' _]. congruence.
Qed.

(* ------------------------------------------------------------------------------------------ *)
(* 5. the hypotheses are satisfiable: concrete instances                                        *)
(* ------------------------------------------------------------------------------------------ *)
(* InverseGamma(3, 2) transformed with its default bijector Reciprocal o Softplus, through the
   deprecated builder method, evaluated at other parameter values (5, 7) and t = 1/2 *)
Example ex_change_of_variables :
  exists d, is_derive (fwd bRecipSoftplus) (1 / 2) d /\ d <> 0
    /\ r_logpdf (transform_by PDeprecated dInvGamma (@BDefault unit) (3, 2, ln 2) tt 1) (5, 7, ln 24) tt (1 / 2)
       = Some (invgamma_logpdf 5 7 (ln 24) (/ softplus (1 / 2)) + ln (Rabs d))
    /\ r_value (transform_by PDeprecated dInvGamma (@BDefault unit) (3, 2, ln 2) tt 1) (5, 7, ln 24) tt (1 / 2)
       = Some (/ softplus (1 / 2))
    /\ pos_R (/ softplus (1 / 2)).
Proof.
  exact (change_of_variables dInvGamma PDeprecated (@BDefault unit) (3, 2, ln 2) tt 1 (5, 7, ln 24) tt (1 / 2)
           bRecipSoftplus all_R pos_R eq_refl lawful_recip_softplus I).
Qed.

(* HalfCauchy(loc, 2): the default bijector Shift(loc) o Exp follows the CURRENT loc *)
Example ex_model_dependent_default : forall loc t,
  exists d, is_derive (fwd (bShiftExp loc)) t d /\ d <> 0
    /\ r_logpdf (transform_by PVar dHalfCauchy (@BDefault unit) (0, 2) tt 1) (loc, 2) tt t
       = Some (halfcauchy_logpdf loc 2 (exp t + loc) + ln (Rabs d))
    /\ r_value (transform_by PVar dHalfCauchy (@BDefault unit) (0, 2) tt 1) (loc, 2) tt t
       = Some (exp t + loc)
    /\ above loc (exp t + loc).
Proof.
  intros loc t.
  exact (change_of_variables dHalfCauchy PVar (@BDefault unit) (0, 2) tt 1 (loc, 2) tt t
           (bShiftExp loc) all_R (above loc) eq_refl (lawful_shift_exp loc) I).
Qed.

(* a bijector class whose argument is a model variable: Scale(a) *)
Example ex_class_with_var_argument : forall a t, 0 < a -> 0 < t ->
  exists d, is_derive (fwd (bScale a)) t d /\ d <> 0
    /\ r_logpdf (transform_by PVar dGamma (BCls (fun a => bScale a)) (3, 2, ln 2) 1 1) (3, 2, ln 2) a t
       = Some (gamma_logpdf 3 2 (ln 2) (a * t) + ln (Rabs d))
    /\ r_value (transform_by PVar dGamma (BCls (fun a => bScale a)) (3, 2, ln 2) 1 1) (3, 2, ln 2) a t
       = Some (a * t)
    /\ pos_R (a * t).
Proof.
  intros a t Ha Ht.
  exact (change_of_variables dGamma PVar (BCls (fun a => bScale a)) (3, 2, ln 2) 1 1 (3, 2, ln 2) a t
           (bScale a) pos_R pos_R eq_refl (lawful_scale_pos a Ha) Ht).
Qed.

Example ex_value_preserved :
  exists t0, r_init (transform_by PVar dBeta (@BInst unit bSigmoid) (3, 2, ln (1 / 12)) tt (1 / 4)) = Some t0
    /\ all_R t0 /\ t0 = ln (1 / 4) - ln (1 - 1 / 4)
    /\ r_value (transform_by PVar dBeta (@BInst unit bSigmoid) (3, 2, ln (1 / 12)) tt (1 / 4))
         (3, 2, ln (1 / 12)) tt t0 = Some (1 / 4).
Proof.
  assert (Hx : unit_R (1 / 4)) by (unfold unit_R; lra).
  exact (value_preserved dBeta PVar (@BInst unit bSigmoid) (3, 2, ln (1 / 12)) tt (1 / 4)
           bSigmoid all_R unit_R eq_refl lawful_sigmoid Hx).
Qed.

Example ex_no_default :
  r_logpdf (transform_by PVar dNoDefault (@BDefault unit) (0, 1) tt 1) (0, 1) tt 0 = None
  /\ r_value (transform_by PVar dNoDefault (@BDefault unit) (0, 1) tt 1) (0, 1) tt 0 = None.
Proof. exact (paths_none dNoDefault PVar (@BDefault unit) (0, 1) tt 1 (0, 1) tt 0 eq_refl). Qed.

Definition ex_sigma : var := mkVar "sigma" true false true false true true.
Definition ex_mu : var := mkVar "mu" true false true false false true.
Definition ex_y : var := mkVar "y" false true true false false true.

Example ex_flags :
  var_transform_s (KCls true) ex_sigma
  = inr (mkVar "sigma" false false false true false false,
         mkVar "sigma_transformed" true false true false false true).
Proof. reflexivity. Qed.

Example ex_auto_transform :
  build_model_s [ex_sigma; ex_mu; ex_y]
  = inr [mkVar "sigma" false false false true false false;
         mkVar "sigma_transformed" true false true false false true; ex_mu; ex_y].
Proof. reflexivity. Qed.

Example ex_auto_transform_name_clash :
  build_model_s [ex_sigma; mkVar "sigma_transformed" false false false false false false] = inl EDupName.
Proof. reflexivity. Qed.

(* ------------------------------------------------------------------------------------------ *)
(* 6. chained transformations                                                                   *)
(* ------------------------------------------------------------------------------------------ *)
Lemma lawful_identity_on : forall X : R -> Prop, lawful bIdentity X X.
Proof.
  intro X. constructor; cbn; intros; auto.
  - ex_d 1.
    + auto_derive; [ exact I | reflexivity ].
    + lra.
    + rewrite Rabs_R1, ln_1. reflexivity.
  - lra.
Qed.

(* each link's bijector maps its set onto the set of the next older variable *)
Inductive lawful_list : list bijector -> (R -> Prop) -> (R -> Prop) -> Prop :=
| ll_nil : forall X, lawful_list [] X X
| ll_cons : forall b older T M X,
    lawful b T M -> lawful_list older M X -> lawful_list (b :: older) T X.

Lemma lawful_compose : forall bs T X, lawful_list bs T X -> lawful (compose bs) T X.
Proof.
  intros bs T X H. induction H as [X | b older T M X Hb Ho IH]; cbn.
  - apply lawful_identity_on.
  - exact (lawful_chain _ _ _ _ _ Hb IH).
Qed.

Lemma last_default : forall (l : list R) x d d', last (x :: l) d = last (x :: l) d'.
Proof.
  induction l as [ | y l IH]; intros x d d'; [reflexivity | ].
  change (last (y :: l) d = last (y :: l) d'). apply IH.
Qed.

Lemma last_images : forall bs t, last (images bs t) t = fwd (compose bs) t.
Proof.
  induction bs as [ | b older IH]; intro t; [reflexivity | ].
  cbn [images compose Chain fwd]. specialize (IH (fwd b t)).
  destruct (images older (fwd b t)) as [ | y l] eqn:E.
  - cbn in IH |- *. exact IH.
  - change (last (y :: l) t = fwd (compose older) (fwd b t)).
    rewrite <- IH. apply last_default.
Qed.

Lemma images_in_sets : forall bs T X, lawful_list bs T X -> forall t, T t -> X (last (images bs t) t).
Proof.
  intros bs T X H t Ht. rewrite last_images.
  exact (law_fwd_dom _ _ _ (lawful_compose bs T X H) t Ht).
Qed.

Section ChainedProofs.
  Context {P A : Type}.
  Variable D : P -> dist_inst.

  (* a link whose argument resolves to b builds TransformedDistribution(d, Invert b) *)
  Lemma link_tdist_resolved : forall (l : @link A) d a b,
    resolve (fun _ : unit => d) (l_spec l) tt a = Some b ->
    link_tdist l d a = Some (mkTD d (Invert b)).
  Proof.
    intros [pa bs] d a b Hres. unfold link_tdist; cbn [l_path l_spec] in *.
    destruct pa; destruct bs as [b' | Bc | ]; cbn in Hres |- *;
      try (inversion Hres; subst; reflexivity); rewrite Hres; reflexivity.
  Qed.

  Lemma chain_compute : forall (ls : list (@link A)) p args bs,
    chain_resolve D ls p args = Some bs ->
    exists dk, chain_dist D ls p args = Some dk
      /\ (forall t, d_logpdf dk t = d_logpdf (D p) (fwd (compose bs) t) + fldj (compose bs) t)
      /\ (forall t, chain_up D ls p args t = Some (images bs t))
      /\ (forall v0, chain_init D ls p args v0 = Some (inv (compose bs) v0)).
  Proof.
    induction ls as [ | l older IH]; intros p args bs Hres.
    - destruct args; cbn in Hres; [ | discriminate]. inversion Hres; subst bs.
      exists (D p). cbn. repeat split; intros; try reflexivity. lra.
    - destruct args as [ | a args']; cbn in Hres; [discriminate | ].
      destruct (chain_dist D older p args') as [d | ] eqn:Hd; [ | discriminate].
      destruct (chain_resolve D older p args') as [bs' | ] eqn:Hr; [ | discriminate].
      destruct (resolve (fun _ : unit => d) (l_spec l) tt a) as [b | ] eqn:Hb; [ | discriminate].
      cbn in Hres. inversion Hres; subst bs. clear Hres.
      destruct (IH p args' bs' Hr) as [d' [Hd' [Hlp [Hup Hin]]]].
      rewrite Hd in Hd'. inversion Hd'; subst d'. clear Hd'.
      exists (dist_of_td (mkTD d (Invert b))).
      split; [ | split; [ | split]].
      + cbn. rewrite Hd. rewrite (link_tdist_resolved l d a b Hb). reflexivity.
      + intro t. cbn. unfold td_log_prob, transformed_logpdf. cbn. rewrite Hlp. lra.
      + intro t. cbn. rewrite Hd.
        destruct (paths_compute (fun _ : unit => d) (l_path l) (l_spec l) tt a 0 tt a t b Hb) as [_ Hv].
        rewrite Hv. rewrite Hup. reflexivity.
      + intro v0. cbn. rewrite Hin, Hd.
        apply (paths_init (fun _ : unit => d) (l_path l) (l_spec l) tt a _ b Hb).
  Qed.

  (* if some link cannot resolve its bijector (default requested, none available) the chain fails *)
  Lemma chain_none : forall (ls : list (@link A)) p args t,
    List.length ls = List.length args -> chain_resolve D ls p args = None ->
    chain_logpdf D ls p args t = None.
  Proof.
    induction ls as [ | l older IH]; intros p args t Hlen Hres.
    - destruct args; cbn in *; discriminate.
    - destruct args as [ | a args']; cbn in Hlen; [discriminate | ]. injection Hlen as Hlen.
      unfold chain_logpdf. cbn in Hres |- *.
      destruct (chain_dist D older p args') as [d | ] eqn:Hd; [ | reflexivity].
      destruct (chain_resolve D older p args') as [bs' | ] eqn:Hr.
      + destruct (resolve (fun _ : unit => d) (l_spec l) tt a) as [b | ] eqn:Hb; [discriminate | ].
        destruct l as [pa bs]. unfold link_tdist; cbn [l_path l_spec] in *.
        destruct pa; destruct bs as [b' | Bc | ]; cbn in Hb |- *; try discriminate; rewrite Hb; reflexivity.
      + specialize (IH p args' t Hlen Hr). unfold chain_logpdf in IH. rewrite Hd in IH. discriminate.
  Qed.

  Theorem chained_change_of_variables : forall (ls : list (@link A)) p args bs T X t,
    chain_resolve D ls p args = Some bs -> lawful_list bs T X -> T t ->
    exists d, is_derive (fwd (compose bs)) t d /\ d <> 0
      /\ chain_logpdf D ls p args t = Some (d_logpdf (D p) (fwd (compose bs) t) + ln (Rabs d))
      /\ chain_up D ls p args t = Some (images bs t)
      /\ last (images bs t) t = fwd (compose bs) t
      /\ X (fwd (compose bs) t).
  Proof.
    intros ls p args bs T X t Hres Hlaw Ht.
    pose proof (lawful_compose bs T X Hlaw) as Hc.
    destruct (law_fldj _ _ _ Hc t Ht) as [d [Hd [Hnz Hf]]].
    destruct (chain_compute ls p args bs Hres) as [dk [Hdk [Hlp [Hup _]]]].
    exists d. split; [exact Hd | split; [exact Hnz | split; [ | split; [apply Hup | split]]]].
    - unfold chain_logpdf. rewrite Hdk. cbn. rewrite Hlp, Hf. reflexivity.
    - apply last_images.
    - exact (law_fwd_dom _ _ _ Hc t Ht).
  Qed.

  Theorem chained_value_preserved : forall (ls : list (@link A)) p args bs T X v0,
    chain_resolve D ls p args = Some bs -> lawful_list bs T X -> X v0 ->
    exists t0, chain_init D ls p args v0 = Some t0 /\ T t0 /\ t0 = inv (compose bs) v0
      /\ chain_up D ls p args t0 = Some (images bs t0)
      /\ last (images bs t0) t0 = v0.
  Proof.
    intros ls p args bs T X v0 Hres Hlaw Hx.
    pose proof (lawful_compose bs T X Hlaw) as Hc.
    destruct (chain_compute ls p args bs Hres) as [dk [_ [_ [Hup Hin]]]].
    exists (inv (compose bs) v0).
    split; [apply Hin | split; [exact (law_inv_dom _ _ _ Hc v0 Hx) | split; [reflexivity | split; [apply Hup | ]]]].
    rewrite last_images. exact (law_fwd_inv _ _ _ Hc v0 Hx).
  Qed.
End ChainedProofs.

(* structural side of a chain: only the newest variable keeps a distribution and carries the
   parameter flag of the original; every older variable is weak without distribution *)
Theorem chained_flags : forall ks v l,
  chain_s ks v = inr l ->
  exists front newest, l = front ++ [newest]
    /\ List.length front = List.length ks
    /\ v_parameter newest = v_parameter v
    /\ (ks <> [] -> v_has_dist newest = true /\ v_weak newest = false /\ v_auto newest = false)
    /\ List.Forall (fun w => v_parameter w = false /\ v_has_dist w = false /\ v_weak w = true /\ v_auto w = false) front.
Proof.
  induction ks as [ | [vp k] rest IH]; intros v l H; cbn in H.
  - inversion H; subst. exists [], v. cbn.
    split; [reflexivity | split; [reflexivity | split; [reflexivity | split; [ | constructor]]]].
    intro C. exfalso. apply C. reflexivity.
  - destruct (if vp then var_transform_s k v else gb_transform_s k v) as [e | [v' tv]] eqn:Ht; [discriminate | ].
    destruct (chain_s rest tv) as [e | l'] eqn:Hc; [discriminate | ]. inversion H; subst l. clear H.
    assert (Hf : flags_ok v v' tv).
    { apply (flags k v v' tv). destruct vp; [left | right]; exact Ht. }
    destruct Hf as [Hp [Hp' [Hd' [Hw' [Hdt [Hwt [_ [_ [_ [_ [Ha' Hat]]]]]]]]]]].
    destruct (IH tv l' Hc) as [front [newest [El [Elen [Epar [Enew Efa]]]]]].
    exists (v' :: front), newest. subst l'. cbn.
    split; [reflexivity | split; [congruence | split; [congruence | split]]].
    + intros _. destruct rest as [ | kk rest'].
      * cbn in Hc. inversion Hc as [E]. destruct front as [ | f1 front']; cbn in E.
        -- inversion E; subst. auto.
        -- destruct front'; cbn in E; discriminate.
      * apply Enew. discriminate.
    + constructor; auto.
Qed.

Example ex_chained : 
  exists d, is_derive (fwd (compose [bScale 2; bExp])) (1 / 4) d /\ d <> 0
    /\ chain_logpdf dGamma [mkLink PVar (@BInst unit (bScale 2)); mkLink PVar (BInst bExp)] (2, 1, ln 1) [tt; tt] (1 / 4)
       = Some (gamma_logpdf 2 1 (ln 1) (exp (2 * (1 / 4))) + ln (Rabs d))
    /\ chain_up dGamma [mkLink PVar (@BInst unit (bScale 2)); mkLink PVar (BInst bExp)] (2, 1, ln 1) [tt; tt] (1 / 4)
       = Some [2 * (1 / 4); exp (2 * (1 / 4))]
    /\ last [2 * (1 / 4); exp (2 * (1 / 4))] (1 / 4) = exp (2 * (1 / 4))
    /\ pos_R (exp (2 * (1 / 4))).
Proof.
  assert (Hl : lawful_list [bScale 2; bExp] all_R pos_R).
  { apply (ll_cons _ _ all_R all_R pos_R); [apply lawful_scale; lra | ].
    apply (ll_cons _ _ all_R pos_R pos_R); [apply lawful_exp | apply ll_nil]. }
  exact (chained_change_of_variables dGamma
           [mkLink PVar (@BInst unit (bScale 2)); mkLink PVar (BInst bExp)] (2, 1, ln 1) [tt; tt]
           [bScale 2; bExp] all_R pos_R (1 / 4) eq_refl Hl I).
Qed.

(* a default transformation on top of an Exp transformation of a Gamma variable resolves to
   tfp's Chain([Invert(Exp), Softplus]) *)
Example ex_chained_default :
  chain_resolve dGamma [mkLink PVar (@BDefault unit); mkLink PVar (BInst bExp)] (2, 1, ln 1) [tt; tt]
  = Some [Chain (Invert bExp) bSoftplus; bExp].
Proof. reflexivity. Qed.

Example ex_chained_flags :
  chain_s [(true, KInst false); (true, KCls true)] ex_sigma
  = inr [mkVar "sigma" false false false true false false;
         mkVar "sigma_transformed" false false false true false false;
         mkVar "sigma_transformed_transformed" true false true false false true].
Proof. reflexivity. Qed.

(* ------------------------------------------------------------------------------------------ *)
(* 7. the code variant of _transform_back (deprecated path, chained)                            *)
(* ------------------------------------------------------------------------------------------ *)
Section Variant.
  Context {P A : Type}.
  Variable D : P -> dist_inst.

  (* the repaired variant is the chain_up the positive theorems are about *)
  Theorem chain_up_proxy : forall (ls : list (@link A)) newest p0 args0 v0 p args t,
    List.length args0 = List.length args ->
    chain_up_v D Proxy newest ls p0 args0 v0 p args t = chain_up D ls p args t.
  Proof.
    induction ls as [ | l older IH]; intros newest p0 args0 v0 p args t Hlen.
    - destruct args, args0; cbn in *; try discriminate; reflexivity.
    - destruct args as [ | a args'], args0 as [ | a0 args0']; cbn in Hlen; try discriminate.
      + reflexivity.
      + injection Hlen as Hlen. cbn [chain_up_v chain_up].
        replace (if newest then Some t else Some t) with (Some t) by (destruct newest; reflexivity).
        destruct (chain_dist D older p args') as [d | ]; [ | reflexivity].
        destruct (r_value (transform_by (l_path l) (fun _ : unit => d) (l_spec l) tt a 0) tt a t) as [v | ];
          [ | reflexivity].
        rewrite (IH false p0 args0' v0 p args' v Hlen). reflexivity.
  Qed.

  (* as long as no variable created by the deprecated method is transformed again, the as-found
     variant behaves identically (in particular: every single transformation) *)
  Lemma chain_up_rawnode_pvar : forall (ls : list (@link A)) newest p0 args0 v0 p args t,
    List.length args0 = List.length args ->
    List.Forall (fun l => l_path l = PVar) ls ->
    chain_up_v D RawNode newest ls p0 args0 v0 p args t = chain_up D ls p args t.
  Proof.
    induction ls as [ | l older IH]; intros newest p0 args0 v0 p args t Hlen Hall.
    - destruct args, args0; cbn in *; try discriminate; reflexivity.
    - destruct args as [ | a args'], args0 as [ | a0 args0']; cbn in Hlen; try discriminate.
      + reflexivity.
      + injection Hlen as Hlen. inversion Hall as [ | l' older' Hl Ho]; subst.
        cbn [chain_up_v chain_up]. rewrite Hl.
        replace (if newest then Some t else Some t) with (Some t) by (destruct newest; reflexivity).
        destruct (chain_dist D older p args') as [d | ]; [ | reflexivity].
        destruct (r_value (transform_by PVar (fun _ : unit => d) (l_spec l) tt a 0) tt a t) as [v | ];
          [ | reflexivity].
        rewrite (IH false p0 args0' v0 p args' v Hlen Ho). reflexivity.
  Qed.

  Theorem variants_agree_unless_rechained : forall (l : @link A) (older : list (@link A)) p0 args0 v0 p args t,
    List.length args0 = List.length args ->
    List.Forall (fun l => l_path l = PVar) older ->
    chain_up_v D RawNode true (l :: older) p0 args0 v0 p args t = chain_up D (l :: older) p args t.
  Proof.
    intros l older p0 args0 v0 p args t Hlen Hall.
    destruct args as [ | a args'], args0 as [ | a0 args0']; cbn in Hlen; try discriminate; [reflexivity | ].
    injection Hlen as Hlen. cbn [chain_up_v chain_up].
    destruct (chain_dist D older p args') as [d | ]; [ | reflexivity].
    destruct (r_value (transform_by (l_path l) (fun _ : unit => d) (l_spec l) tt a 0) tt a t) as [v | ];
      [ | reflexivity].
    rewrite (chain_up_rawnode_pvar older false p0 args0' v0 p args' v Hlen Hall). reflexivity.
  Qed.
End Variant.

(* the code as found: x ~ Gamma(2, 1) with value 3, GraphBuilder.transform(x, Exp()) then
   GraphBuilder.transform(t1, Scale(2)); after assigning t2 = 1/4 the intermediate variable follows
   (t1 = 1/2) but the original stays frozen at 3, which is not the image exp(2 * 1/4) *)
Theorem dep_chain_rawnode_refuted :
  exists (ls : list (@link unit)) p args v0 t bs vals,
    chain_resolve dGamma ls p args = Some bs
    /\ lawful_list bs all_R pos_R
    /\ pos_R v0
    /\ chain_up_v dGamma RawNode true ls p args v0 p args t = Some vals
    /\ last vals t = v0
    /\ last vals t <> fwd (compose bs) t
    /\ chain_up_v dGamma Proxy true ls p args v0 p args t = Some (images bs t).
Proof.
  exists [mkLink PDeprecated (@BInst unit (bScale 2)); mkLink PDeprecated (BInst bExp)].
  exists (2, 1, ln 1), [tt; tt], 3, (1 / 4), [bScale 2; bExp], [2 * (1 / 4); exp (ln 3)].
  assert (E3 : exp (ln 3) = 3) by (apply exp_ln; lra).
  split; [reflexivity | split; [ | split; [unfold pos_R; lra | split; [reflexivity | split; [exact E3 | split]]]]].
  - apply (ll_cons _ _ all_R all_R pos_R); [apply lawful_scale; lra | ].
    apply (ll_cons _ _ all_R pos_R pos_R); [apply lawful_exp | apply ll_nil].
  - cbn. rewrite E3. intro Heq.
    assert (Hlt : exp (2 * (1 / 4)) < 3).
    { apply Rlt_le_trans with (exp 1); [apply exp_increasing; lra | apply exp_le_3]. }
    lra.
  - rewrite chain_up_proxy by reflexivity.
    destruct (chain_compute dGamma
                [mkLink PDeprecated (@BInst unit (bScale 2)); mkLink PDeprecated (BInst bExp)]
                (2, 1, ln 1) [tt; tt] [bScale 2; bExp] eq_refl) as [dk [_ [_ [Hup _]]]].
    apply Hup.
Qed.

(* ------------------------------------------------------------------------------------------ *)
(* 8. refused transformations and continued use                                                 *)
(* ------------------------------------------------------------------------------------------ *)
(* everything but (possibly) the auto_transform flag is as before *)
Definition same_but_auto (v1 v : var) : Prop :=
  v_name v1 = v_name v /\ v_parameter v1 = v_parameter v /\ v_observed v1 = v_observed v
  /\ v_has_dist v1 = v_has_dist v /\ v_weak v1 = v_weak v /\ v_default v1 = v_default v
  /\ (v_auto v1 = v_auto v \/ v_auto v1 = false).

Lemma same_but_auto_refl : forall v, same_but_auto v v.
Proof. intro v. unfold same_but_auto. repeat split; auto. Qed.

Lemma same_but_auto_clear : forall v, same_but_auto (clear_auto v) v.
Proof. intro v. unfold same_but_auto; cbn. repeat split; auto. Qed.

Lemma same_but_auto_trans : forall a b c, same_but_auto a b -> same_but_auto b c -> same_but_auto a c.
Proof.
  intros a b c (H1 & H2 & H3 & H4 & H5 & H6 & H7) (G1 & G2 & G3 & G4 & G5 & G6 & G7).
  unfold same_but_auto. repeat split; try congruence.
  destruct H7 as [H7 | H7]; [ | right; exact H7].
  destruct G7 as [G7 | G7]; [left | right]; congruence.
Qed.

Lemma refusal_state_same : forall vp e v, same_but_auto (refusal_state vp e v) v.
Proof.
  intros vp e v. unfold refusal_state.
  destruct vp, e; auto using same_but_auto_refl, same_but_auto_clear.
Qed.

(* a refused call hands out no new variable and leaves the variable as it was: name, parameter and
   observed flags, distribution, strength untouched (auto_transform may have been switched off) *)
Theorem refused_transform_is_noop : forall vp k v e,
  transform_s vp k v = inl e ->
  attempt_s vp k v = (refusal_state vp e v, None)
  /\ same_but_auto (refusal_state vp e v) v.
Proof.
  intros vp k v e H. unfold attempt_s. rewrite H. split; [reflexivity | apply refusal_state_same].
Qed.

(* the entry points do not read the auto_transform flag *)
Lemma transform_s_same : forall vp k v1 v, same_but_auto v1 v -> transform_s vp k v1 = transform_s vp k v.
Proof.
  intros vp k [n1 p1 o1 h1 w1 a1 d1] [n p o h w a d] (H1 & H2 & H3 & H4 & H5 & H6 & _).
  cbn in H1, H2, H3, H4, H5, H6. subst. reflexivity.
Qed.

Lemma history_refused : forall ks v v1,
  history_s ks v = (v1, None) -> same_but_auto v1 v.
Proof.
  induction ks as [ | [vp k] rest IH]; intros v v1 H; cbn in H.
  - inversion H; subst. apply same_but_auto_refl.
  - unfold attempt_s in H. destruct (transform_s vp k v) as [e | [v' tv]] eqn:Ht.
    + apply (same_but_auto_trans _ (refusal_state vp e v)); [apply IH; exact H | apply refusal_state_same].
    + discriminate.
Qed.

Lemma history_app : forall ks l v v1,
  history_s ks v = (v1, None) -> history_s (ks ++ l) v = history_s l v1.
Proof.
  induction ks as [ | [vp k] rest IH]; intros l v v1 H; cbn in H |- *.
  - inversion H; subst. reflexivity.
  - destruct (attempt_s vp k v) as [v2 [tv | ]] eqn:Ha; [discriminate | ].
    apply IH. exact H.
Qed.

(* any number of refused calls followed by a call that would have been accepted at once: the outcome is
   the outcome of that call alone - the parameter flag moves to the new variable *)
Theorem rejected_then_correct : forall ks v v1 vp k v' tv,
  history_s ks v = (v1, None) ->
  transform_s vp k v = inr (v', tv) ->
  history_s (ks ++ [(vp, k)]) v = (v', Some tv)
  /\ transform_s vp k v1 = inr (v', tv)
  /\ flags_ok v v' tv.
Proof.
  intros ks v v1 vp k v' tv Hh Ht.
  pose proof (history_refused ks v v1 Hh) as Hs.
  pose proof (transform_s_same vp k v1 v Hs) as He. rewrite Ht in He.
  split; [ | split; [exact He | ]].
  - rewrite (history_app ks [(vp, k)] v v1 Hh). cbn. unfold attempt_s. rewrite He. reflexivity.
  - apply (flags k v v' tv). unfold transform_s in Ht. destruct vp; [left | right]; exact Ht.
Qed.

Example ex_rejected_then_correct :
  history_s [(true, KInst true); (true, KClsBad); (true, KOther); (true, KCls false); (false, KOther);
             (true, KCls true)] ex_sigma
  = (mkVar "sigma" false false false true false false,
     Some (mkVar "sigma_transformed" true false true false false true)).
Proof. reflexivity. Qed.
