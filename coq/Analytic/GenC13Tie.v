(* Support library for the C13 source tie (tools/py2gallina_c13.py).

   On every run of the check the translator turns the Python source of
     liesel/model/distreg.py : tau2_gibbs_kernel (its nested transition function)
     liesel/model/goose.py   : finite_discrete_gibbs_kernel (its nested transition_fn and
                               conditional_log_prob_fn)
   into Gallina definitions (gen_...); the generated file (work directory, never this directory)
   proves them extensionally equal to the hand-written models of Analytic/Gibbs.v and
   Analytic/GibbsDiscrete.v and re-states the main C13 theorems for them.  This file holds exactly
   what that generated file needs: the primitives of the translated subset that the model files do
   not have (vector @ matrix on lists, the model-object operations of the discrete kernel as
   option-valued steps of the graph machine, vmap as an all-or-nothing map), the shape in which a
   translated function is compared with the model, the transfer theorems and the tactics of the
   generated equality proofs.  The samplers (jax.random.gamma, jax.random.categorical) are
   universally quantified function parameters of the translated functions (oracles), never
   assumptions of the global context. *)
From Coq Require Import Reals Lra Lia List Bool Arith.
From Coquelicot Require Import Coquelicot.
From LV Require Import Graph.Graph Graph.GraphProofs.
From LV Require Import Analytic.Gibbs Analytic.GibbsProofs Analytic.GibbsDiscrete Analytic.GibbsDiscreteProofs.
Import ListNotations.

(* ================================================================================================ *)
(* 1. tau2_gibbs_kernel                                                                             *)
(* ================================================================================================ *)
Local Open Scope R_scope.

(* ---- primitives of the translated subset: the operator @ on lists ------------------------------
   u @ v (vector, vector) -> dot u v (Gibbs.v);  M @ w (matrix, vector) -> matvec M w;
   u @ M (vector, matrix) -> vecmat u M = sum_i u_i * M[i, :].
   jnp raises on operands whose shapes do not fit; these functions are total (they truncate like
   the model's [dot]), so they say nothing wrong about well-shaped operands and nothing at all
   about ill-shaped ones. *)
Definition vscale (c : R) (v : list R) : list R := map (Rmult c) v.
Fixpoint vadd (u v : list R) : list R :=
  match u, v with
  | [], _ => v
  | _, [] => u
  | x :: u', y :: v' => (x + y) :: vadd u' v'
  end.
Fixpoint vecmat (u : list R) (M : list (list R)) : list R :=
  match u, M with
  | x :: u', row :: M' => vadd (vscale x row) (vecmat u' M')
  | _, _ => []
  end.
Definition matvec (M : list (list R)) (w : list R) : list R := map (fun row => dot row w) M.

Lemma dot_nil_l v : dot [] v = 0.
Proof. reflexivity. Qed.
Lemma dot_nil_r u : dot u [] = 0.
Proof. destruct u; reflexivity. Qed.
Lemma dot_cons x u y v : dot (x :: u) (y :: v) = x * y + dot u v.
Proof. reflexivity. Qed.

Lemma dot_comm u : forall v, dot u v = dot v u.
Proof.
  induction u as [|x u IH]; intros [|y v]; try reflexivity.
  rewrite !dot_cons, IH. ring.
Qed.

Lemma dot_vadd u : forall v w, dot (vadd u v) w = dot u w + dot v w.
Proof.
  induction u as [|x u IH]; intros v w.
  - cbn [vadd]. rewrite dot_nil_l. ring.
  - destruct v as [|y v].
    + cbn [vadd]. rewrite dot_nil_l. ring.
    + cbn [vadd]. destruct w as [|z w].
      * rewrite !dot_nil_r. ring.
      * rewrite !dot_cons, IH. ring.
Qed.

Lemma dot_vscale c v : forall w, dot (vscale c v) w = c * dot v w.
Proof.
  induction v as [|y v IH]; intros w.
  - cbn. unfold dot. cbn. ring.
  - destruct w as [|z w].
    + rewrite !dot_nil_r. ring.
    + unfold vscale in *. cbn [map]. rewrite !dot_cons, IH. ring.
Qed.

(* (u @ M) @ w = u @ (M @ w), for all lists *)
Lemma dot_vecmat u : forall M w, dot (vecmat u M) w = dot u (matvec M w).
Proof.
  induction u as [|x u IH]; intros M w.
  - reflexivity.
  - destruct M as [|row M].
    + cbn [vecmat matvec map]. rewrite dot_nil_l, dot_nil_r. reflexivity.
    + cbn [vecmat matvec map]. rewrite dot_vadd, dot_vscale, dot_cons, IH. reflexivity.
Qed.

Lemma dot_matvec_quad u M : dot u (matvec M u) = quad_form u M.
Proof. reflexivity. Qed.
Lemma dot_matvec_quad' u M : dot (matvec M u) u = quad_form u M.
Proof. rewrite dot_comm. reflexivity. Qed.
Lemma dot_vecmat_quad u M : dot (vecmat u M) u = quad_form u M.
Proof. rewrite dot_vecmat. reflexivity. Qed.

(* ---- the shape in which the translated transition is compared with the model --------------------
   gen_tau2_transition Key gamma prng_key a b rank tau2 beta K : R
     Key / gamma : the type of PRNG keys and the oracle for jax.random.gamma(key, concentration);
     a, b, rank, tau2, beta, K : group.value_from(model_state, "<key>") for the six group keys
   returns the value stored under position_key.  The model's reading: the sampler is asked for the
   concentration of tau2_transition, and its variate g gives ts_draw (tau2_transition ... g). *)
Definition tau2_fn := forall Key : Type, (Key -> R -> R) -> Key -> R -> R -> R -> R -> list R -> list (list R) -> R.

Definition tau2_kernel_model : tau2_fn := fun Key gamma key a b r _ beta K =>
  ts_draw (tau2_transition a b r beta K (gamma key (ts_concentration (tau2_transition a b r beta K 1)))).

Definition tau2_eq (f : tau2_fn) : Prop :=
  forall Key gamma key a b r t beta K, f Key gamma key a b r t beta K = tau2_kernel_model Key gamma key a b r t beta K.

(* ---- transfer theorems -------------------------------------------------------------------------- *)
(* C13_tau2_conjugacy (+ the shape of the returned value): the translated kernel returns
   scale / gamma(key, conc) for a pair (conc, scale) that is the inverse-gamma form of the joint density
   as a function of tau2 *)
Theorem tie_tau2_conjugacy (f : tau2_fn) : tau2_eq f ->
  forall (lgam : R -> R) (a b r lpd rest : R) (beta : list R) (K : list (list R)),
  exists conc scale,
    (forall Key gamma key t, f Key gamma key a b r t beta K = scale / gamma key conc)
    /\ exists c, forall t, 0 < t ->
         joint_tau2 lgam a b (quad_form beta K) r lpd rest t = ig_logpdf lgam conc scale t + c.
Proof.
  intros Hf lgam a b r lpd rest beta K.
  exists (a_gibbs a r), (b_gibbs b (quad_form beta K)). split.
  - intros Key gamma key t. rewrite Hf. reflexivity.
  - exact (tau2_conjugacy lgam a b (quad_form beta K) r lpd rest).
Qed.

(* C13_tau2_conjugacy_unique: no other pair has that property, so a translated kernel of the form
   scale / gamma(key, conc) that samples the full conditional has the model's parameters *)
Theorem tie_tau2_conjugacy_unique (f : tau2_fn) : tau2_eq f ->
  forall (lgam : R -> R) (a b r lpd rest : R) (beta : list R) (K : list (list R)) (conc scale c' : R),
  (forall t, 0 < t -> joint_tau2 lgam a b (quad_form beta K) r lpd rest t = ig_logpdf lgam conc scale t + c') ->
  forall Key gamma key t, f Key gamma key a b r t beta K = b_gibbs b (quad_form beta K) / gamma key (a_gibbs a r)
  /\ conc = a_gibbs a r /\ scale = b_gibbs b (quad_form beta K).
Proof.
  intros Hf lgam a b r lpd rest beta K conc scale c' H Key gamma key t. split.
  - rewrite Hf. reflexivity.
  - exact (tau2_conjugacy_unique lgam a b (quad_form beta K) r lpd rest conc scale c' H).
Qed.

(* C13_tau2_kernel_exact for the translated kernel: with a gamma sampler whose variate for the requested
   concentration has distribution function FG (derivative = the Gamma(conc, 1) density), the event
   {returned value <= t} is the event {variate >= scale / t}, whose probability 1 - FG(scale / t) has the
   normalised joint density as derivative *)
Theorem tie_tau2_kernel_exact (f : tau2_fn) : tau2_eq f ->
  forall (lgam : R -> R) (a b r lpd rest : R) (beta : list R) (K : list (list R)),
  0 < b -> 0 <= quad_form beta K ->
  exists conc scale,
    (forall Key gamma key t, f Key gamma key a b r t beta K = scale / gamma key conc)
    /\ forall FG : R -> R,
       (forall g, 0 < g -> is_derive FG g (exp (gamma_logpdf lgam conc 1 g))) ->
       exists c, forall t, 0 < t ->
         is_derive (fun t => 1 - FG (scale / t)) t
                   (exp (joint_tau2 lgam a b (quad_form beta K) r lpd rest t - c))
         /\ forall Key (gamma : Key -> R -> R) key t0, 0 < gamma key conc ->
              (f Key gamma key a b r t0 beta K <= t <-> scale / t <= gamma key conc).
Proof.
  intros Hf lgam a b r lpd rest beta K Hb Hq.
  exists (a_gibbs a r), (b_gibbs b (quad_form beta K)). split.
  - intros Key gamma key t. rewrite Hf. reflexivity.
  - intros FG HFG.
    destruct (tau2_kernel_exact lgam a b r lpd rest beta K Hb Hq FG HFG) as [c Hc].
    exists c. intros t Ht. destruct (Hc t Ht) as [Hd He]. split.
    + exact Hd.
    + intros Key gamma key t0 Hg. rewrite Hf. exact (He (gamma key (a_gibbs a r)) Hg).
Qed.

(* C13_example_tau2: the numbers of the worked example (the first corpus case of the check) *)
Theorem tie_tau2_example (f : tau2_fn) : tau2_eq f ->
  f unit (fun _ _ => / 2) tt 2 (/ 2) 2 1 ex_beta ex_K = 49 / 4
  /\ f unit (fun _ c => c) tt 2 (/ 2) 2 1 ex_beta ex_K = 49 / 24.
Proof.
  intros Hf. rewrite !Hf. unfold tau2_kernel_model.
  destruct ex_tau2_kernel as [_ [_ [_ H2]]]. split; [exact H2|].
  unfold tau2_transition, a_gibbs, b_gibbs, tau2_draw. cbn [ts_concentration ts_draw].
  rewrite ex_quad. field.
Qed.

Close Scope R_scope.

(* ================================================================================================ *)
(* 2. finite_discrete_gibbs_kernel                                                                  *)
(* ================================================================================================ *)
Local Open Scope nat_scope.

(* ---- primitives of the translated subset: operations on the kernel's private Model object --------
   The translated functions thread the state of the model object explicitly (m_ : mstate V);
   an operation that can raise returns an option (None = the Python code raises). *)
Definition py_bind {A B : Type} (x : option A) (k : A -> option B) : option B :=
  match x with Some a => k a | None => None end.

(* jax.vmap(f)(xs) -> every element is evaluated from the same state of the closure (DESIGN 4.4:
   vmap = map); it raises when one evaluation raises *)
Fixpoint vmap {A B : Type} (f : A -> option B) (xs : list A) : option (list B) :=
  match xs with
  | [] => Some []
  | x :: r => py_bind (f x) (fun y => py_bind (vmap f r) (fun ys => Some (y :: ys)))
  end.

Section FDprims.
Variables (V F : Type) (interp : F -> list V -> V) (dflt : V) (g : graph F).

(* model.state = model_state *)
Definition model_set_state (m : mstate V) (sn : snap V) : mstate V := restore m sn.
(* for node in model.nodes.values(): node._outdated = False *)
Definition model_clear_outdated (m : mstate V) : mstate V := clear_flags V m.
(* model.vars[name].value = value   (v = position of the variable's value node) *)
Definition model_set_value (v : nat) (m : mstate V) (x : V) : option (mstate V) :=
  let o := step interp dflt g (mkR m []) (Assign v x) in if err o then None else Some (cur (st' o)).
(* model.update( *names )           (ts = positions of the named nodes; [] = full update) *)
Definition model_update (ts : list nat) (m : mstate V) : option (mstate V) :=
  let o := step interp dflt g (mkR m []) (Update ts) in if err o then None else Some (cur (st' o)).
(* model.log_prob / model.log_lik / model.log_prior  (k = position of _model_log_prob / ...) *)
Definition model_node_value (k : nat) (m : mstate V) : V := value interp dflt g m k.

(* one step of the machine started without saved snapshots ends without saved snapshots *)
Lemma step_no_snaps (m : mstate V) (o : op V) : (forall k, o <> Restore k) -> o <> Save ->
  st' (step interp dflt g (mkR m []) o) = mkR (cur (st' (step interp dflt g (mkR m []) o))) [].
Proof.
  intros Hr Hs. unfold step, step_with. cbn [cur snaps].
  destruct o as [i x|b|ts| |k].
  - destruct (nth_error g i) as [n|]; [|reflexivity]. destruct (kd n); try reflexivity.
    destruct (auto m); reflexivity.
  - reflexivity.
  - destruct ts as [|t ts]; [reflexivity|]. destruct (forallb _ _); reflexivity.
  - exfalso. apply Hs. reflexivity.
  - exfalso. exact (Hr k eq_refl).
Qed.

(* ---- the shape in which the translated functions are compared with the model -------------------
   gen_conditional_log_prob_fn v lp ll lpr m_ value : option V
       (v, lp, ll, lpr = positions of the sampled variable's value node and of _model_log_prob,
        _model_log_lik, _model_log_prior; m_ = state of the model object when the closure is called)
   gen_transition_fn v lp ll lpr Key categorical km prng_key model_state outcomes : option V
       (categorical = oracle for jax.random.categorical(key, logits = ...); km = state of the
        kernel's private model copy before the call; returns the value stored under name) *)
Definition cond_fn := nat -> nat -> nat -> nat -> mstate V -> V -> option V.
Definition trans_fn := nat -> nat -> nat -> nat -> forall Key : Type, (Key -> list V -> nat) ->
                       mstate V -> Key -> snap V -> list V -> option V.

Definition cond_eq (f : cond_fn) : Prop :=
  forall v lp ll lpr m x, f v lp ll lpr m x = fd_cond V F interp dflt g v lp m x.

(* the model's kernel: logits by fd_cond from the entered state, index from the sampler, fd_draw *)
Definition fd_kernel_model : trans_fn := fun v lp _ _ Key categorical km key sn outcomes =>
  py_bind (vmap (fd_cond V F interp dflt g v lp (fd_enter V km sn)) outcomes)
          (fun ls => fd_draw V outcomes (categorical key ls)).

Definition trans_eq (f : trans_fn) : Prop :=
  forall v lp ll lpr Key categorical km key sn outcomes,
    f v lp ll lpr Key categorical km key sn outcomes
    = fd_kernel_model v lp ll lpr Key categorical km key sn outcomes.

(* the hand-written model in terms of the primitives *)
Lemma fd_cond_prims v lp m x :
  fd_cond V F interp dflt g v lp m x
  = py_bind (model_set_value v m x) (fun m1 =>
    py_bind (model_update [lp] m1) (fun m2 => Some (model_node_value lp m2))).
Proof.
  unfold fd_cond, fd_after, model_set_value, model_update, model_node_value.
  rewrite (step_no_snaps m (Assign v x)) by discriminate.
  destruct (err (step interp dflt g (mkR m []) (Assign v x))); cbn [py_bind option_map]; [reflexivity|].
  destruct (err _); reflexivity.
Qed.

Lemma vmap_ext {A B : Type} (f h : A -> option B) xs : (forall x, f x = h x) -> vmap f xs = vmap h xs.
Proof. intros E. induction xs as [|x r IH]; cbn [vmap]; [reflexivity|]. rewrite E, IH. reflexivity. Qed.

Lemma vmap_all_some {A B : Type} (f : A -> option B) (h : A -> B) xs :
  (forall x, f x = Some (h x)) -> vmap f xs = Some (map h xs).
Proof.
  intros E. induction xs as [|x r IH]; cbn [vmap map]; [reflexivity|]. rewrite E, IH. reflexivity.
Qed.

(* ---- transfer theorems -------------------------------------------------------------------------- *)
Section Transfer.
Hypothesis W : wf g.
Variables (v lp ll lpr : nat).

(* C13_discrete_logits_from_scratch for the translated closure *)
Theorem tie_logits_from_scratch (f : cond_fn) : cond_eq f ->
  forall (km : mstate V) (sn : snap V) (nv : node F),
  clean_state V F interp dflt g sn -> auto km = false ->
  nth_error g v = Some nv -> kd nv = KValue -> lp < length g ->
  forall o, f v lp ll lpr (model_clear_outdated (model_set_state km sn)) o
            = Some (denote interp dflt g (upd (sn_vals sn) v o) lp).
Proof.
  intros Hf km sn nv C Ha E K Hlp o. rewrite Hf.
  exact (fd_cond_denote V F interp dflt g W v lp km sn nv C Ha E K Hlp o).
Qed.

(* C13_discrete_logits_from_scratch + C13_discrete_conditional + C13_discrete_weights_distribution for the
   translated transition: it hands the sampler exactly the from-scratch log-probabilities of the outcomes
   (whatever the sampler is), returns the outcome at the sampled index, and the categorical weights of those
   logits are the normalised joint density as a function of the variable alone: a probability vector *)
Theorem tie_kernel_exact (f : trans_fn) : trans_eq f ->
  forall (km : mstate V) (sn : snap V) (nv : node F) (outcomes : list V),
  clean_state V F interp dflt g sn -> auto km = false ->
  nth_error g v = Some nv -> kd nv = KValue -> lp < length g ->
  let ls := map (fun o => denote interp dflt g (upd (sn_vals sn) v o) lp) outcomes in
  (forall Key categorical key,
     f v lp ll lpr Key categorical km key sn outcomes = nth_error outcomes (categorical key ls))
  /\ forall toR : V -> R,
       cat_weights (map toR ls) = full_conditional_spec V F interp dflt g v lp toR (sn_vals sn) outcomes
       /\ (outcomes <> [] ->
           length (cat_weights (map toR ls)) = length outcomes
           /\ List.Forall (fun w => (0 < w)%R) (cat_weights (map toR ls))
           /\ sumR (cat_weights (map toR ls)) = 1%R).
Proof.
  intros Hf km sn nv outcomes C Ha E K Hlp ls. split.
  - intros Key categorical key. rewrite Hf. unfold fd_kernel_model.
    rewrite (vmap_all_some _ (fun o => denote interp dflt g (upd (sn_vals sn) v o) lp)).
    + reflexivity.
    + exact (fd_cond_denote V F interp dflt g W v lp km sn nv C Ha E K Hlp).
  - intros toR.
    assert (Hw : cat_weights (map toR ls) = fd_weights V F interp dflt g v lp toR km sn outcomes).
    { unfold fd_weights, disc_weights, logits, ls. rewrite map_map. f_equal. apply map_ext. intros o.
      unfold fd_log_prob.
      destruct (fd_after_spec V F interp dflt g W v lp (fd_enter V km sn) nv o
                  (fd_enter_Inv V F interp dflt g km sn C) Ha E K Hlp) as [s' [E1 [Hv _]]].
      rewrite (fd_set_after V F interp dflt g v lp _ _ _ E1), Hv. reflexivity. }
    rewrite Hw. split.
    + exact (fd_weights_full_conditional V F interp dflt g W v lp toR km sn nv outcomes C Ha E K Hlp).
    + intros Hne. exact (fd_weights_distribution V F interp dflt g v lp toR km sn outcomes Hne).
Qed.

(* C13_discrete_draw_member for the translated transition *)
Theorem tie_draw_member (f : trans_fn) : trans_eq f ->
  forall (km : mstate V) (sn : snap V) (nv : node F) (outcomes : list V),
  clean_state V F interp dflt g sn -> auto km = false ->
  nth_error g v = Some nv -> kd nv = KValue -> lp < length g ->
  forall Key (categorical : Key -> list V -> nat) key,
  (forall ls, length ls = length outcomes -> categorical key ls < length outcomes) ->
  exists o, f v lp ll lpr Key categorical km key sn outcomes = Some o /\ In o outcomes.
Proof.
  intros Hf km sn nv outcomes C Ha E K Hlp Key categorical key Hidx.
  destruct (tie_kernel_exact f Hf km sn nv outcomes C Ha E K Hlp) as [H _].
  rewrite H.
  apply fd_draw_member. apply Hidx. apply map_length.
Qed.
End Transfer.
End FDprims.

(* C13_example_discrete / C13_example_discrete_needs_clean_state on the translated closure *)
Theorem tie_discrete_example (f : cond_fn nat) : cond_eq nat exf exi 0 exg f ->
  map (f 0 5 4 3 (model_clear_outdated nat (model_set_state nat ex_km ex_sn))) [0; 1; 2; 3]
  = [Some 1; Some 22; Some 43; Some 64]
  /\ map (f 0 5 4 3 (model_clear_outdated nat (model_set_state nat ex_km ex_sn_stale))) [0; 1; 2]
     = [Some 1; Some 22; Some 43].
Proof.
  intros Hf. split.
  - rewrite (map_ext _ _ (Hf 0 5 4 3 _)). exact (proj1 ex_logits).
  - rewrite (map_ext _ _ (Hf 0 5 4 3 _)). exact (proj1 (proj2 ex_stale_state_differs)).
Qed.

(* ================================================================================================ *)
(* 3. tactics of the generated equality proofs                                                      *)
(* ================================================================================================ *)
(* tau2: both sides are built from + - * / over the same atoms, the quadratic form and one call of the
   sampler oracle.  The products with @ are brought to the model's quad_form, the two concentrations
   handed to the oracle are proved equal by ring/field and made syntactically equal, then ring/field. *)
Ltac tie_quad :=
  rewrite ?dot_vecmat_quad, ?dot_matvec_quad', ?dot_matvec_quad, ?dot_vecmat; fold matvec;
  rewrite ?dot_matvec_quad', ?dot_matvec_quad.

Ltac tie_arith :=
  first [ reflexivity | ring | (unfold Rdiv; ring) | lra ].

Ltac tie_unify_oracle gamma :=
  repeat match goal with
  | |- context [gamma ?k ?a] =>
      match goal with
      | |- context [gamma k ?b] =>
          tryif constr_eq a b then fail else
          (let H := fresh "Hu" in assert (H : b = a) by tie_arith; rewrite H; clear H)
      end
  end.

Ltac tie_tau2 gamma :=
  unfold tau2_kernel_model, tau2_transition, a_gibbs, b_gibbs, tau2_draw; cbv zeta;
  cbn [ts_concentration ts_draw];
  tie_quad; tie_unify_oracle gamma;
  tryif tie_arith then idtac
  else (match goal with |- ?G => fail 1 "the translated transition is not the model's:" G end).

(* discrete: the model's fd_cond is rewritten into the primitives; then both sides are the same term *)
Ltac tie_cond :=
  rewrite fd_cond_prims;
  tryif reflexivity then idtac
  else (match goal with |- ?G => fail 1 "the translated closure is not the model's:" G end).

(* transition_fn: after the closure has been replaced by the model's fd_cond (vmap_ext with the closure's
   equality lemma), the remaining differences are the option plumbing of the translated statements *)
Ltac tie_trans_close :=
  unfold fd_kernel_model, model_clear_outdated, model_set_state, fd_enter, fd_draw, disc_draw; cbv zeta;
  repeat first [ reflexivity
               | match goal with |- context [py_bind ?x _] => destruct x; cbn [py_bind] end ];
  match goal with |- ?G => fail 1 "the translated transition_fn is not the model's:" G end.
