(* C13 - proofs over the models in Gibbs.v (inverse-gamma kernel, categorical weights). *)
From Coq Require Import Reals Lra Lia List.
From Coquelicot Require Import Coquelicot.
From LV Require Import Analytic.Gibbs.
Import ListNotations.
Open Scope R_scope.

(* ------------------------------------------------------------------------------------------ *)
(* 1. conjugacy: the joint density as a function of tau2 is an inverse-gamma kernel            *)
(* ------------------------------------------------------------------------------------------ *)
Definition conj_const (lgam : R -> R) (a b q r lpd rest : R) : R :=
  a * ln b - lgam a + / 2 * (lpd - r * ln (2 * PI)) + rest
  - (a_gibbs a r * ln (b_gibbs b q) - lgam (a_gibbs a r)).

Lemma tau2_conjugacy_at : forall lgam a b q r lpd rest t, t <> 0 ->
  joint_tau2 lgam a b q r lpd rest t
  = ig_logpdf lgam (a_gibbs a r) (b_gibbs b q) t + conj_const lgam a b q r lpd rest.
Proof.
  intros lgam a b q r lpd rest t Ht.
  unfold joint_tau2, ig_logpdf, mvn_pen_logpdf, conj_const, a_gibbs, b_gibbs.
  field. exact Ht.
Qed.

Theorem tau2_conjugacy : forall lgam a b q r lpd rest,
  exists c, forall t, 0 < t ->
    joint_tau2 lgam a b q r lpd rest t = ig_logpdf lgam (a_gibbs a r) (b_gibbs b q) t + c.
Proof.
  intros. exists (conj_const lgam a b q r lpd rest). intros t Ht.
  apply tau2_conjugacy_at. lra.
Qed.

Lemma ln2_pos : 0 < ln 2.
Proof. rewrite <- ln_1. apply ln_increasing; lra. Qed.

Lemma ln4 : ln 4 = 2 * ln 2.
Proof. replace 4 with (2 * 2) by ring. rewrite ln_mult by lra. ring. Qed.

(* two inverse-gamma log-densities that differ by a constant on (0, inf) have the same parameters *)
Lemma ig_params_unique : forall lgam a1 b1 a2 b2 c,
  (forall t, 0 < t -> ig_logpdf lgam a1 b1 t = ig_logpdf lgam a2 b2 t + c) ->
  a1 = a2 /\ b1 = b2.
Proof.
  intros lgam a1 b1 a2 b2 c H.
  pose proof (H 1 ltac:(lra)) as H1. pose proof (H 2 ltac:(lra)) as H2. pose proof (H 4 ltac:(lra)) as H4.
  unfold ig_logpdf in H1, H2, H4. rewrite ln_1 in H1. rewrite ln4 in H4.
  pose proof ln2_pos as L.
  set (A := a1 - a2) in *. set (B := b1 - b2) in *.
  set (k := a1 * ln b1 - lgam a1 - (a2 * ln b2 - lgam a2) - c) in *.
  assert (E1 : k - B = 0) by (unfold k, B; lra).
  assert (E2 : k - A * ln 2 - B / 2 = 0) by (unfold k, A, B; lra).
  assert (E4 : k - 2 * (A * ln 2) - B / 4 = 0) by (unfold k, A, B; lra).
  assert (HB : B = 0) by lra.
  assert (HA : A * ln 2 = 0) by lra.
  assert (HA0 : A = 0).
  { destruct (Rmult_integral _ _ HA) as [Z|Z]; [exact Z|lra]. }
  unfold A, B in *. split; lra.
Qed.

(* the parameters the kernel uses are the only ones for which the statement holds *)
Theorem tau2_conjugacy_unique : forall lgam a b q r lpd rest a' b' c',
  (forall t, 0 < t -> joint_tau2 lgam a b q r lpd rest t = ig_logpdf lgam a' b' t + c') ->
  a' = a_gibbs a r /\ b' = b_gibbs b q.
Proof.
  intros lgam a b q r lpd rest a' b' c' H.
  apply (ig_params_unique lgam a' b' (a_gibbs a r) (b_gibbs b q)
           (conj_const lgam a b q r lpd rest - c')).
  intros t Ht. pose proof (H t Ht) as E.
  rewrite (tau2_conjugacy_at lgam a b q r lpd rest t) in E by lra. lra.
Qed.

(* differences of the joint along tau2, in closed form *)
Lemma cond_diff_spec : forall lgam a b q r lpd rest t0 t1, t0 <> 0 -> t1 <> 0 ->
  joint_tau2 lgam a b q r lpd rest t1 - joint_tau2 lgam a b q r lpd rest t0 = cond_diff a b q r t0 t1.
Proof.
  intros. unfold joint_tau2, ig_logpdf, mvn_pen_logpdf, cond_diff. field. split; assumption.
Qed.

Lemma ig_diff_spec : forall lgam a' b' t0 t1, t0 <> 0 -> t1 <> 0 ->
  ig_logpdf lgam a' b' t1 - ig_logpdf lgam a' b' t0 = ig_diff a' b' t0 t1.
Proof. intros. unfold ig_logpdf, ig_diff. field. split; assumption. Qed.

Lemma cond_diff_is_ig_diff : forall a b q r t0 t1,
  cond_diff a b q r t0 t1 = ig_diff (a_gibbs a r) (b_gibbs b q) t0 t1.
Proof. intros. unfold cond_diff, ig_diff, a_gibbs, b_gibbs. ring. Qed.

(* ------------------------------------------------------------------------------------------ *)
(* 2. change of variables: b' / Gamma(a', rate 1) is inverse-gamma(a', b')                     *)
(* ------------------------------------------------------------------------------------------ *)
Lemma draw_derive : forall b' t, t <> 0 ->
  is_derive (fun t => tau2_draw b' t) t (- b' / (t * t)).
Proof.
  intros b' t Ht. unfold tau2_draw. auto_derive.
  - exact Ht.
  - field. exact Ht.
Qed.

(* log-density of the gamma variate at g = b'/t plus the log of |dg/dt| is the IG log-density *)
Theorem draw_change_of_variables : forall lgam a' b' t, 0 < b' -> 0 < t ->
  gamma_logpdf lgam a' 1 (tau2_draw b' t) + ln (Rabs (- b' / (t * t))) = ig_logpdf lgam a' b' t.
Proof.
  intros lgam a' b' t Hb Ht. unfold gamma_logpdf, ig_logpdf, tau2_draw.
  assert (Htt : 0 < t * t) by (apply Rmult_lt_0_compat; exact Ht).
  assert (Hq : 0 < b' / (t * t)) by (apply Rdiv_lt_0_compat; assumption).
  replace (- b' / (t * t)) with (- (b' / (t * t))) by (field; lra).
  rewrite Rabs_Ropp, Rabs_pos_eq by lra.
  assert (E1 : ln (b' / t) = ln b' - ln t) by (apply ln_div; assumption).
  assert (E2 : ln (b' / (t * t)) = ln b' - 2 * ln t).
  { rewrite ln_div by assumption. rewrite ln_mult by assumption. ring. }
  rewrite E1, E2, ln_1. field. lra.
Qed.

(* t -> b'/t is a decreasing bijection of (0, inf) onto itself; it is its own inverse *)
Lemma draw_involutive : forall b' t, 0 < b' -> 0 < t -> tau2_draw b' (tau2_draw b' t) = t.
Proof. intros. unfold tau2_draw. field. split; lra. Qed.

Lemma draw_pos : forall b' g, 0 < b' -> 0 < g -> 0 < tau2_draw b' g.
Proof. intros. unfold tau2_draw. apply Rdiv_lt_0_compat; assumption. Qed.

(* the event  {draw <= t}  is the event  {g >= b'/t}  of the gamma variate *)
Lemma draw_event : forall b' g t, 0 < b' -> 0 < g -> 0 < t ->
  (tau2_draw b' g <= t <-> tau2_draw b' t <= g).
Proof.
  intros b' g t Hb Hg Ht. unfold tau2_draw. split; intros H.
  - apply (Rmult_le_reg_r t); [exact Ht|]. replace (b' / t * t) with b' by (field; lra).
    apply (Rmult_le_compat_r g) in H; [|lra]. replace (b' / g * g) with b' in H by (field; lra). lra.
  - apply (Rmult_le_reg_r g); [exact Hg|]. replace (b' / g * g) with b' by (field; lra).
    apply (Rmult_le_compat_r t) in H; [|lra]. replace (b' / t * t) with b' in H by (field; lra). lra.
Qed.

(* Distribution function of the draw.  FG = distribution function of the gamma variate, i.e. any
   function whose derivative on (0, inf) is the Gamma(a', 1) density.  By draw_event,
   P(draw <= t) = P(g >= b'/t) = 1 - FG (b'/t); its derivative is the IG(a', b') density. *)
Theorem draw_cdf_has_ig_density : forall lgam a' b' (FG : R -> R), 0 < b' ->
  (forall g, 0 < g -> is_derive FG g (exp (gamma_logpdf lgam a' 1 g))) ->
  forall t, 0 < t ->
    is_derive (fun t => 1 - FG (tau2_draw b' t)) t (exp (ig_logpdf lgam a' b' t)).
Proof.
  intros lgam a' b' FG Hb HFG t Ht.
  assert (Hg : 0 < tau2_draw b' t) by (apply draw_pos; assumption).
  pose proof (HFG _ Hg) as D1.
  pose proof (draw_derive b' t ltac:(lra)) as D2.
  pose proof (is_derive_comp FG (fun t => tau2_draw b' t) t _ _ D1 D2) as D3.
  pose proof (is_derive_minus (fun _ : R => 1) (fun t => FG (tau2_draw b' t)) t 0 _
                (is_derive_const 1 t) D3) as D4.
  assert (E : exp (ig_logpdf lgam a' b' t)
              = minus 0 (scal (- b' / (t * t)) (exp (gamma_logpdf lgam a' 1 (tau2_draw b' t))))).
  { rewrite <- (draw_change_of_variables lgam a' b' t Hb Ht).
    assert (Htt : 0 < t * t) by (apply Rmult_lt_0_compat; exact Ht).
    assert (Hq : 0 < b' / (t * t)) by (apply Rdiv_lt_0_compat; assumption).
    replace (- b' / (t * t)) with (- (b' / (t * t))) by (field; lra).
    rewrite Rabs_Ropp, Rabs_pos_eq by lra.
    rewrite exp_plus, exp_ln by exact Hq.
    unfold minus, plus, opp, scal; cbn. unfold mult; cbn. ring. }
  rewrite E. exact D4.
Qed.

Lemma draw_is_inverse_gamma : forall (lgam : R -> R) (a' b' t : R), 0 < b' -> 0 < t ->
  is_derive (fun t => tau2_draw b' t) t (- b' / (t * t))
  /\ gamma_logpdf lgam a' 1 (tau2_draw b' t) + ln (Rabs (- b' / (t * t))) = ig_logpdf lgam a' b' t
  /\ tau2_draw b' (tau2_draw b' t) = t.
Proof.
  intros lgam a' b' t Hb Ht. split; [apply draw_derive; apply Rgt_not_eq; exact Ht|].
  split; [apply draw_change_of_variables; assumption|apply draw_involutive; assumption].
Qed.

Lemma profile_difference : forall (lgam : R -> R) (a b q r lpd rest t0 t1 : R), t0 <> 0 -> t1 <> 0 ->
  joint_tau2 lgam a b q r lpd rest t1 - joint_tau2 lgam a b q r lpd rest t0 = cond_diff a b q r t0 t1
  /\ cond_diff a b q r t0 t1 = ig_diff (a_gibbs a r) (b_gibbs b q) t0 t1.
Proof. intros. split; [apply cond_diff_spec; assumption|apply cond_diff_is_ig_diff]. Qed.


(* ------------------------------------------------------------------------------------------ *)
(* 3. the kernel: what it asks the gamma sampler for, and the law of what it returns            *)
(* ------------------------------------------------------------------------------------------ *)
Lemma b_gibbs_pos : forall b q, 0 < b -> 0 <= q -> 0 < b_gibbs b q.
Proof. intros. unfold b_gibbs. lra. Qed.

(* Main statement for tau2_gibbs_kernel.  If the sampler's variate has the Gamma(concentration, 1)
   law for the concentration the kernel passes, the returned value has a law whose density is
   exp (joint t - c): proportional to the model's joint density as a function of tau2 alone. *)
Theorem tau2_kernel_exact : forall lgam a b r lpd rest beta K,
  0 < b -> 0 <= quad_form beta K ->
  let conc := ts_concentration (tau2_transition a b r beta K 1) in
  forall FG : R -> R,
  (forall g, 0 < g -> is_derive FG g (exp (gamma_logpdf lgam conc 1 g))) ->
  exists c, forall t, 0 < t ->
    (* distribution function of  ts_draw (tau2_transition ... g)  at t, as a function of t *)
    is_derive (fun t => 1 - FG (tau2_draw (b_gibbs b (quad_form beta K)) t)) t
              (exp (joint_tau2 lgam a b (quad_form beta K) r lpd rest t - c))
    /\ (forall g, 0 < g ->
          (ts_draw (tau2_transition a b r beta K g) <= t
           <-> tau2_draw (b_gibbs b (quad_form beta K)) t <= g)).
Proof.
  intros lgam a b r lpd rest beta K Hb Hq conc FG HFG.
  exists (conj_const lgam a b (quad_form beta K) r lpd rest). intros t Ht.
  pose proof (b_gibbs_pos b _ Hb Hq) as Hbg.
  split.
  - rewrite (tau2_conjugacy_at lgam a b (quad_form beta K) r lpd rest t) by lra.
    replace (ig_logpdf lgam (a_gibbs a r) (b_gibbs b (quad_form beta K)) t
             + conj_const lgam a b (quad_form beta K) r lpd rest
             - conj_const lgam a b (quad_form beta K) r lpd rest)
      with (ig_logpdf lgam (a_gibbs a r) (b_gibbs b (quad_form beta K)) t) by ring.
    apply draw_cdf_has_ig_density; assumption.
  - intros g Hg. cbn [ts_draw tau2_transition]. apply draw_event; assumption.
Qed.

(* a penalty of the form D'D (difference penalties, any Gram matrix) gives a non-negative
   quadratic form; stated on the level of the model's list arithmetic for the scalar products *)
Lemma dot_self_nonneg : forall u, 0 <= dot u u.
Proof.
  induction u as [|x u IH]; unfold dot in *; cbn; [lra|].
  pose proof (Rle_0_sqr x) as Hx. unfold Rsqr in Hx. lra.
Qed.

(* non-vacuity: a = 2, b = 1/2, beta = (1/2, -1, 2), K = second-difference-free D'D of rank 2 *)
Definition ex_K : list (list R) := [[1; -1; 0]; [-1; 2; -1]; [0; -1; 1]].
Definition ex_beta : list R := [/ 2; -1; 2].

Lemma ex_quad : quad_form ex_beta ex_K = 45 / 4.
Proof. unfold quad_form, dot, ex_beta, ex_K. cbn. field. Qed.

Lemma ex_tau2_kernel :
  0 < / 2 /\ 0 <= quad_form ex_beta ex_K
  /\ ts_concentration (tau2_transition 2 (/ 2) 2 ex_beta ex_K (/ 2)) = 3
  /\ ts_draw (tau2_transition 2 (/ 2) 2 ex_beta ex_K (/ 2)) = 49 / 4.
Proof.
  rewrite ex_quad. split; [lra|]. split; [lra|].
  unfold tau2_transition, a_gibbs, b_gibbs, tau2_draw. cbn [ts_concentration ts_draw].
  rewrite ex_quad. split; field.
Qed.

(* ------------------------------------------------------------------------------------------ *)
(* 4. categorical weights                                                                       *)
(* ------------------------------------------------------------------------------------------ *)
Lemma sum_exp_pos : forall ls, ls <> [] -> 0 < sum_exp ls.
Proof.
  intros ls H. destruct ls as [|l r]; [congruence|]. clear H. unfold sum_exp. cbn.
  assert (0 <= fold_right Rplus 0 (map exp r)).
  { induction r as [|x r IH]; cbn; [lra|]. pose proof (exp_pos x). lra. }
  pose proof (exp_pos l). lra.
Qed.

Lemma cat_weight_pos : forall ls l, ls <> [] -> 0 < cat_weight ls l.
Proof.
  intros. unfold cat_weight. apply Rdiv_lt_0_compat; [apply exp_pos|apply sum_exp_pos; assumption].
Qed.

Lemma sumR_map_div : forall (l : list R) s, sumR (map (fun x => x / s) l) = sumR l / s.
Proof. induction l as [|x l IH]; intros s; unfold sumR in *; cbn; [unfold Rdiv; ring|]. rewrite IH. unfold Rdiv. ring. Qed.

Lemma cat_weights_sum : forall ls, ls <> [] -> sumR (cat_weights ls) = 1.
Proof.
  intros ls H. unfold cat_weights, cat_weight.
  rewrite <- (map_map exp (fun e => e / sum_exp ls)). rewrite sumR_map_div.
  unfold sum_exp, sumR. field. pose proof (sum_exp_pos ls H) as P. unfold sum_exp in P. lra.
Qed.

Lemma cat_weights_length : forall ls, length (cat_weights ls) = length ls.
Proof. intros. unfold cat_weights. apply map_length. Qed.

(* adding one constant to all logits does not change the weights *)
Lemma cat_weights_shift : forall ls c, cat_weights (map (fun l => l + c) ls) = cat_weights ls.
Proof.
  intros ls c. unfold cat_weights. rewrite map_map. apply map_ext_in. intros l _.
  unfold cat_weight, sum_exp. rewrite map_map.
  assert (E : fold_right Rplus 0 (map (fun x => exp (x + c)) ls)
              = exp c * fold_right Rplus 0 (map exp ls)).
  { induction ls as [|x r IH]; cbn; [ring|]. rewrite IH, exp_plus. ring. }
  rewrite E, exp_plus.
  destruct ls as [|x r].
  - cbn. unfold Rdiv. rewrite Rmult_0_r, Rinv_0. ring.
  - pose proof (sum_exp_pos (x :: r) ltac:(congruence)) as P. unfold sum_exp in P.
    pose proof (exp_pos c). field. split; lra.
Qed.

(* over an abstract state: the kernel's weights are the normalised joint - by definition of the
   kernel, with the model's log_prob at the state with the variable set to each outcome *)
Lemma disc_weights_full_conditional : forall (S V : Type) (set_var : S -> V -> S) (log_prob : S -> R) s outcomes,
  disc_weights S V set_var log_prob s outcomes = full_conditional S V set_var log_prob s outcomes.
Proof.
  intros. unfold disc_weights, full_conditional, cat_weights, logits, cat_weight, sum_exp, joint.
  rewrite !map_map. reflexivity.
Qed.
