(* Glue for the generated C13 correspondence shards (R-lemmas discharged by interval).
   Only definitions and one tactic; the statements mention the model constants of Gibbs.v. *)
From Coq Require Import Reals List.
From Interval Require Import Tactic.
From LV Require Import Analytic.Gibbs.
(* the source tie's support library (tools/py2gallina_c13.py, harness/lv/c13_tie.py) is built with this file;
   Require without Import: nothing of it is visible in the correspondence shards *)
From LV Require Analytic.GenC13Tie.
Import ListNotations.
Open Scope R_scope.

Definition close (x v tol : R) : Prop := Rabs (x - v) <= tol.

(* tau2_gibbs_kernel: the concentration handed to jax.random.gamma and the value returned when the
   sampler's variate is g *)
Definition tau2_ok (a b r : R) (beta : list R) (K : list (list R)) (g conc draw tc td : R) : Prop :=
  let st := tau2_transition a b r beta K g in
  close (ts_concentration st) conc tc /\ close (ts_draw st) draw td.

(* d = log_prob of the real model at tau2 = t1 minus log_prob at tau2 = t0 (everything else fixed) *)
Definition profile_ok (a b r : R) (beta : list R) (K : list (list R)) (t0 t1 d tol : R) : Prop :=
  close (cond_diff a b (quad_form beta K) r t0 t1) d tol.

(* finite-discrete kernel on the generated models:
     z ~ prior (probability p(o) of outcome o),  y_i ~ Normal(c0 + c1 z, s),  n_j ~ Poisson(exp(d0 + d1 z))
   logit of outcome o up to the terms that do not depend on o *)
Definition disc_model (p c0 c1 s : R) (ys : list R) (d0 d1 : R) (ns : list R) (o : R) : R :=
  disc_logit p (c0 + c1 * o) s ys (exp (d0 + d1 * o)) ns.

(* d = logit captured for outcome ok minus logit captured for outcome o0 *)
Definition logit_ok (pk p0 c0 c1 s : R) (ys : list R) (d0 d1 : R) (ns : list R) (ok o0 d tol : R) : Prop :=
  close (disc_model pk c0 c1 s ys d0 d1 ns ok - disc_model p0 c0 c1 s ys d0 d1 ns o0) d tol.

Ltac c13_close :=
  cbv [tau2_ok profile_ok logit_ok close tau2_transition ts_concentration ts_draw a_gibbs b_gibbs
       tau2_draw quad_form dot cond_diff disc_model disc_logit normal_logpdf poisson_logker sumR
       fold_right map combine fst snd];
  repeat split; interval with (i_prec 80).
