(* C13 - proofs for the finite-discrete Gibbs kernel on the cached-graph machine. *)
From Coq Require Import Reals Lra Lia List Bool Arith.
From LV Require Import Graph.Graph Graph.GraphProofs Analytic.Gibbs Analytic.GibbsProofs Analytic.GibbsDiscrete.
Import ListNotations.
Local Open Scope nat_scope.

Section P.
Variables (V F : Type) (interp : F -> list V -> V) (dflt : V).
Variable g : graph F.
Hypothesis W : wf g.
Variables (v lp : nat).

Notation denote := (denote interp dflt).
Notation value := (value interp dflt).
Notation getv := (getv dflt).
Notation cached := (cached F g).
Notation Inv := (Inv V F interp dflt g).
Notation RInv := (RInv V F interp dflt g).

(* the incoming model state is complete and fully updated: every cached node holds the
   from-scratch value for the input values of that state (what Model.update() / update_state
   establish: C01_full_update_clean + C01_coherent) *)
Definition clean_state (sn : snap V) : Prop :=
  length (sn_vals sn) = length g /\ length (sn_flags sn) = length g
  /\ length (sn_touched sn) = length g
  /\ forall k, cached k -> getv (sn_vals sn) k = denote g (sn_vals sn) k.

Lemma getb_all_false (l : list bool) k : getb (map (fun _ => false) l) k = false.
Proof.
  unfold getb. revert k. induction l as [|x l IH]; intros [|k]; cbn; auto.
Qed.

Lemma fd_enter_Inv km sn : clean_state sn -> Inv (fd_enter V km sn).
Proof.
  intros [L1 [L2 [L3 C]]]. unfold fd_enter, clear_flags, restore. split; [|split].
  - unfold lens. cbn. rewrite map_length. auto.
  - intros k Ck _. cbn [vals]. apply C. exact Ck.
  - intros k _ D. cbn [dirty] in D. rewrite getb_all_false in D. discriminate.
Qed.

Lemma fd_enter_vals km sn : vals (fd_enter V km sn) = sn_vals sn.
Proof. reflexivity. Qed.

Lemma fd_enter_auto km sn : auto (fd_enter V km sn) = auto km.
Proof. reflexivity. Qed.

(* no operation but SetAuto changes Model._auto_update *)
Lemma sweep_auto tgt (s : mstate V) : auto (fst (sweep_lit interp dflt g tgt s)) = auto s.
Proof.
  unfold sweep_lit.
  assert (H : forall l st, auto (fst (fold_left (sweep1 interp dflt g tgt) l st)) = auto (fst st)).
  { induction l as [|k l IH]; intros st; cbn [fold_left]; [reflexivity|]. rewrite IH.
    unfold sweep1. destruct (nth_error g k) as [n|]; [|reflexivity].
    destruct (tgt k && outdated g (fst st) k); [|reflexivity]. destruct (kd n); reflexivity. }
  rewrite H. reflexivity.
Qed.

Lemma step_auto rs o : (forall b, o <> SetAuto b) ->
  auto (cur (st' (step interp dflt g rs o))) = auto (cur rs).
Proof.
  intros Hne. unfold step, step_with. destruct o as [i x|b|ts| |k].
  - destruct (nth_error g i) as [n|]; [|reflexivity]. destruct (kd n); try reflexivity.
    destruct (auto (cur rs)) eqn:A; cbn [ok_out st' with_cur cur fst i_sweep lit].
    + rewrite sweep_auto. exact A.
    + exact A.
  - exfalso. exact (Hne b eq_refl).
  - destruct ts as [|t ts]; cbn [ok_out st' with_cur cur fst i_sweep lit].
    + apply sweep_auto.
    + destruct (forallb _ _); cbn [ok_out err_out st' with_cur cur fst i_sweep lit]; [apply sweep_auto|reflexivity].
  - reflexivity.
  - destruct (nth_error (snaps rs) k); reflexivity.
Qed.

(* from any state that satisfies the cache invariant and has auto-update off: assigning o and
   updating the log-probability node shows the from-scratch log-probability at o *)
Lemma fd_after_spec s nv o : Inv s -> auto s = false ->
  nth_error g v = Some nv -> kd nv = KValue -> lp < length g ->
  exists s', fd_after V F interp dflt g v lp s o = Some s'
    /\ value g s' lp = denote g (upd (vals s) v o) lp
    /\ Inv s' /\ auto s' = false.
Proof.
  intros I Ha E K Hlp.
  assert (R0 : RInv (mkR s [])) by (split; [exact I|constructor]).
  pose proof (assign_frame V F interp dflt g W (mkR s []) v o nv R0 E K Ha) as [E1 [_ [Hv [Hoth _]]]].
  cbn [cur] in Hv, Hoth.
  pose proof (step_RInv V F interp dflt g W (mkR s []) (Assign v o) R0) as R1.
  set (o1 := step interp dflt g (mkR s []) (Assign v o)) in *.
  assert (Hall : forallb (fun t => t <? length g) [lp] = true).
  { cbn. rewrite andb_true_r. apply Nat.ltb_lt. exact Hlp. }
  pose proof (targeted_update V F interp dflt g W (st' o1) [lp] R1 ltac:(discriminate) Hall)
    as [Hc [_ [Hvals E2]]].
  pose proof (step_RInv V F interp dflt g W (st' o1) (Update [lp]) R1) as R2.
  set (o2 := step interp dflt g (st' o1) (Update [lp])) in *.
  exists (cur (st' o2)). split; [|split; [|split]].
  - unfold fd_after. fold o1. rewrite E1. fold o2. rewrite E2. reflexivity.
  - destruct (Hc lp lp (or_introl eq_refl) (path_refl F g lp Hlp)) as [_ Hval].
    rewrite Hval. apply den_agree; [exact W|].
    intros i n Ei Ki. rewrite (Hvals i n Ei Ki).
    destruct (Nat.eq_dec i v) as [->|Hne].
    + rewrite Hv. symmetry. unfold Graph.getv. apply nth_upd_eq.
      destruct I as [[L _] _]. rewrite L. eapply wf_lt; eauto.
    + rewrite (Hoth i Hne). symmetry. unfold Graph.getv. apply nth_upd_neq. exact Hne.
  - exact (proj1 R2).
  - subst o2 o1. rewrite !step_auto by discriminate. exact Ha.
Qed.

(* ---- the kernel's conditional log-probabilities are the from-scratch ones ---------------------- *)
Theorem fd_cond_denote km sn nv : clean_state sn -> auto km = false ->
  nth_error g v = Some nv -> kd nv = KValue -> lp < length g ->
  forall o, fd_cond V F interp dflt g v lp (fd_enter V km sn) o
            = Some (denote g (upd (sn_vals sn) v o) lp).
Proof.
  intros C Ha E K Hlp o.
  destruct (fd_after_spec (fd_enter V km sn) nv o (fd_enter_Inv km sn C) Ha E K Hlp)
    as [s' [E1 [Hv _]]].
  unfold fd_cond. rewrite E1. cbn [option_map]. rewrite Hv. reflexivity.
Qed.

Lemma fd_set_after s o s' : fd_after V F interp dflt g v lp s o = Some s' ->
  fd_set V F interp dflt g v lp s o = s'.
Proof.
  unfold fd_after, fd_set, run, run_with. cbn [fold_left]. unfold step.
  destruct (err _); [discriminate|]. destruct (err _); [discriminate|]. intros H. inversion H. reflexivity.
Qed.

(* ---- categorical weights = the model's full conditional ----------------------------------------- *)
Section ToR.
Variable toR : V -> R.

Theorem fd_weights_full_conditional km sn nv outcomes : clean_state sn -> auto km = false ->
  nth_error g v = Some nv -> kd nv = KValue -> lp < length g ->
  fd_weights V F interp dflt g v lp toR km sn outcomes
  = full_conditional_spec V F interp dflt g v lp toR (sn_vals sn) outcomes.
Proof.
  intros C Ha E K Hlp. unfold fd_weights. rewrite disc_weights_full_conditional.
  unfold full_conditional, full_conditional_spec, joint, joint_spec, fd_log_prob.
  assert (J : forall o, exp (toR (value g (fd_set V F interp dflt g v lp (fd_enter V km sn) o) lp))
                        = exp (toR (denote g (upd (sn_vals sn) v o) lp))).
  { intros o.
    destruct (fd_after_spec (fd_enter V km sn) nv o (fd_enter_Inv km sn C) Ha E K Hlp)
      as [s' [E1 [Hv _]]].
    rewrite (fd_set_after _ _ _ E1), Hv. reflexivity. }
  unfold sumR. rewrite (map_ext _ _ J). apply map_ext. intros o. rewrite J. reflexivity.
Qed.

(* the weights form a probability vector over the outcome indices *)
Theorem fd_weights_distribution km sn outcomes : outcomes <> [] ->
  length (fd_weights V F interp dflt g v lp toR km sn outcomes) = length outcomes
  /\ Forall (fun w => (0 < w)%R) (fd_weights V F interp dflt g v lp toR km sn outcomes)
  /\ sumR (fd_weights V F interp dflt g v lp toR km sn outcomes) = 1%R.
Proof.
  intros Hne. unfold fd_weights, disc_weights.
  set (ls := logits _ _ _ _ _ _).
  assert (Hl : ls <> []).
  { unfold ls, logits. destruct outcomes; [congruence|]. cbn. discriminate. }
  split; [|split].
  - rewrite cat_weights_length. unfold ls, logits. apply map_length.
  - unfold cat_weights. apply Forall_forall. intros w Hw. apply in_map_iff in Hw.
    destruct Hw as [l [<- _]]. apply cat_weight_pos. exact Hl.
  - apply cat_weights_sum. exact Hl.
Qed.

(* the kernel returns the outcome at the sampled index, hence a member of the outcome set *)
Lemma fd_draw_member outcomes idx : idx < length outcomes ->
  exists o, fd_draw V outcomes idx = Some o /\ In o outcomes.
Proof.
  intros H. unfold fd_draw, disc_draw. destruct (nth_error outcomes idx) as [o|] eqn:E.
  - exists o. split; [reflexivity|]. eapply nth_error_In; eauto.
  - apply nth_error_None in E. lia.
Qed.
End ToR.

(* ---- where clean states come from --------------------------------------------------------------- *)
(* the state dict of a model after a full update (what LieselInterface.update_state returns) *)
Lemma snapshot_after_full_update_clean rs : RInv rs ->
  clean_state (snapshot (lit interp dflt) g (cur (st' (step interp dflt g rs (Update []))))).
Proof.
  intros R.
  pose proof (step_RInv V F interp dflt g W rs (Update []) R) as R1.
  pose proof (full_update_clean V F interp dflt g W rs (Update []) R (or_introl eq_refl) eq_refl) as Cl.
  set (s1 := cur (st' (step interp dflt g rs (Update [])))) in *.
  destruct R1 as [[[L1 [L2 L3]] [I G]] _]. fold s1 in L1, L2, L3, I, G.
  unfold clean_state, snapshot. cbn [sn_vals sn_flags sn_touched i_flags lit].
  split; [exact L1|]. split; [unfold flags_lit; rewrite map_length, seq_length; reflexivity|].
  split; [exact L3|].
  intros k Ck. apply I; [exact Ck|].
  pose proof (cached_lt F g k Ck) as Hk. specialize (Cl k Hk).
  destruct Ck as [n [E K]]. rewrite (outdated_unfold V F g W s1 k n E), K in Cl. exact Cl.
Qed.

End P.

(* ================================================================================================ *)
(* A concrete model (nat-valued so that everything computes):                                       *)
(*   0 z      Value   (the discrete variable)        3 c = 10 * w      Calc                          *)
(*   1 w      Value   (another parameter)            4 lik = z * c     Dist (cached)                 *)
(*   2 prior = z + 1  Dist (cached)                  5 lp = prior + lik   _model_log_prob            *)
(* ================================================================================================ *)
Inductive exf := Fin | Fprior | Fc | Flik | Flp.
Definition exi (f : exf) (a : list nat) : nat :=
  match f, a with
  | Fprior, [z] => z + 1
  | Fc, [w] => 10 * w
  | Flik, [z; c] => z * c
  | Flp, [p; l] => p + l
  | _, _ => 0
  end.
Definition exg : graph exf :=
  [mkNode KValue [] Fin; mkNode KValue [] Fin; mkNode KCached [0] Fprior;
   mkNode KCached [1] Fc; mkNode KCached [0; 3] Flik; mkNode KCached [2; 4] Flp].

Lemma exg_wf : wf exg.
Proof. apply wfb_wf. reflexivity. Qed.

(* a clean incoming state (z = 1, w = 2) and the kernel's private copy with auto-update off *)
Definition ex_rs := init exi 0 exg [1; 2].
Definition ex_sn := snapshot (lit exi 0) exg (cur ex_rs).
Definition ex_km : mstate nat := cur (st' (step exi 0 exg (init exi 0 exg [0; 0]) (SetAuto false))).

Lemma ex_clean : clean_state nat exf exi 0 exg ex_sn /\ auto ex_km = false
  /\ nth_error exg 0 = Some (mkNode KValue [] Fin) /\ 5 < length exg.
Proof.
  split; [|split; [reflexivity|split; [reflexivity|cbn; lia]]].
  unfold clean_state. cbn. repeat split; auto.
  intros k [n [E K]].
  destruct k as [|[|[|[|[|[|k]]]]]]; cbn in E; try (destruct k; discriminate E);
    inversion E; subst; cbn in K; try discriminate; reflexivity.
Qed.

(* the conditional log-probabilities at the outcomes 0, 1, 2, 3 are z + 1 + 20 z *)
Lemma ex_logits :
  map (fd_cond nat exf exi 0 exg 0 5 (fd_enter nat ex_km ex_sn)) [0; 1; 2; 3]
  = [Some 1; Some 22; Some 43; Some 64]
  /\ map (fun o => denote exi 0 exg (upd (sn_vals ex_sn) 0 o) 5) [0; 1; 2; 3] = [1; 22; 43; 64].
Proof. split; vm_compute; reflexivity. Qed.

(* The hypothesis clean_state is needed.  A state in which w was assigned (2 -> 7) without an update
   still carries the old c = 20 with its flag up; the kernel clears the flag and then evaluates the
   likelihood with the stale c: it reports 1 + z + 20 z where the model's density has 1 + z + 70 z. *)
Definition ex_rs_stale := run exi 0 exg [SetAuto false; Assign 1 7] (init exi 0 exg [1; 2]).
Definition ex_sn_stale := snapshot (lit exi 0) exg (cur ex_rs_stale).

Lemma ex_stale_state_differs :
  sn_flags ex_sn_stale = [false; false; false; true; true; true]
  /\ map (fd_cond nat exf exi 0 exg 0 5 (fd_enter nat ex_km ex_sn_stale)) [0; 1; 2]
     = [Some 1; Some 22; Some 43]
  /\ map (fun o => denote exi 0 exg (upd (sn_vals ex_sn_stale) 0 o) 5) [0; 1; 2] = [1; 72; 143].
Proof. repeat split; vm_compute; reflexivity. Qed.
