(* C10 - sampling is reproducible; chains are independent; initial values are honoured.
   Statements only; the proofs are in Goose/KeysProofs.v, the model in Goose/Keys.v. *)
From Coq Require Import List ZArith NArith Bool Arith.
Import ListNotations.
From LV Require Import Goose.Epoch Goose.Keys Goose.KeysProofs.
Close Scope Z_scope.
Open Scope nat_scope.

(* every key that is consumed (kernel method, quantity generator, jitter function) anywhere in a complete
   run - builder, every chain, every epoch, every iteration - is consumed once, is never split, has no
   descendant in the run, and descends from the seed key; no key is split twice *)
Theorem C10_key_hygiene : forall root nch jit p sched evs,
  run_events root nch jit p sched = Some evs ->
  NoDup (map snd (uses evs))
  /\ (forall l k n, In (EUse l k) evs -> ~ In (ESplit k n) evs)
  /\ NoDup (map fst (splits evs))
  /\ (forall l k e, In (EUse l k) evs -> In e evs -> prefix k (ekey e) -> e = EUse l k)
  /\ (forall e, In e evs -> prefix root (ekey e)).
Proof. exact key_hygiene. Qed.
Print Assumptions C10_key_hygiene.

(* two different calls (chain, method, kernel / generator / jitter index, epoch, iteration) never
   receive the same key *)
Theorem C10_calls_distinct_keys : forall root nch jit p sched calls l1 k1 l2 k2,
  run_calls root nch jit p sched = Some calls ->
  In (l1, k1) calls -> In (l2, k2) calls -> l1 <> l2 -> k1 <> k2.
Proof. exact calls_distinct_keys. Qed.
Print Assumptions C10_calls_distinct_keys.

(* the keys the machine with states hands out in chain c are exactly the key flow the hygiene theorem
   is about (started from the chain's own key) *)
Theorem C10_trace_is_key_flow : forall (w : world) root nch jit c i0 s,
  W_run_single w root nch jit c i0 = Some s ->
  exists prog, program (w_p w) (w_sched w) = Some prog
               /\ W_trace w s = chain_events (w_p w) c prog (chain_key root nch c).
Proof. exact W_trace_is_key_flow. Qed.
Print Assumptions C10_trace_is_key_flow.

(* a complete run with states: its key events are the run_events of the hygiene theorem *)
Theorem C10_run_hygiene : forall (w : world) v root nch jit a r,
  W_run_batched w v root nch jit a = Some r ->
  exists evs, run_events root nch jit (w_p w) (w_sched w) = Some evs
              /\ evs = builder_events root nch jit ++ flat_map (W_trace w) r
              /\ NoDup (map snd (uses evs))
              /\ (forall l k n, In (EUse l k) evs -> ~ In (ESplit k n) evs).
Proof. exact W_run_hygiene. Qed.
Print Assumptions C10_run_hygiene.

(* an integer seed is the corresponding PRNG key: same root, hence same key flow and same run *)
Theorem C10_int_seed_equiv : forall (prngkey : Z -> key) z,
  seed_root prngkey (IntSeed z) = seed_root prngkey (KeySeed (prngkey z))
  /\ (forall nch jit p sched,
        run_events (seed_root prngkey (IntSeed z)) nch jit p sched
        = run_events (seed_root prngkey (KeySeed (prngkey z))) nch jit p sched)
  /\ (forall (w : world) v nch jit a,
        W_run_batched w v (seed_root prngkey (IntSeed z)) nch jit a
        = W_run_batched w v (seed_root prngkey (KeySeed (prngkey z))) nch jit a).
Proof. exact int_seed_equiv_full. Qed.
Print Assumptions C10_int_seed_equiv.

(* a run is a function of (seed key, chain count, jitter configuration, initial values, world = model +
   kernels + generators + schedule + chunk): the engine model keeps no other state *)
Theorem C10_deterministic : forall (w : world) v root nch jit a r1 r2,
  W_run_batched w v root nch jit a = Some r1 -> W_run_batched w v root nch jit a = Some r2 -> r1 = r2.
Proof. exact W_deterministic. Qed.
Print Assumptions C10_deterministic.

(* the keys a chain's calls receive depend on neither the model, the kernels nor the initial values *)
Theorem C10_keys_state_independent : forall (w w' : world) root nch jit c i0 i0' s s',
  w_p w = w_p w' -> w_sched w = w_sched w' ->
  W_run_single w root nch jit c i0 = Some s -> W_run_single w' root nch jit c i0' = Some s' ->
  W_trace w s = W_trace w' s'.
Proof. exact W_keys_state_independent. Qed.
Print Assumptions C10_keys_state_independent.

(* the batched (vmapped) engine is, chain by chain, the single-chain engine run on
   (root key, chain count, jitter configuration, c, initial value of chain c) *)
Theorem C10_batched_is_per_chain : forall (w : world) v root nch jit a r,
  W_run_batched w v root nch jit a = Some r ->
  length r = nch
  /\ forall c, c < nch ->
       exists i0 s, W_init_of w nch a c = Some i0 /\ nth_error r c = Some s
                    /\ W_run_single w root nch jit c i0 = Some s.
Proof. exact W_batched_chain. Qed.
Print Assumptions C10_batched_is_per_chain.

(* ... hence a chain's complete result (kernel states, model state, trajectory, infos, quantities, keys)
   is unaffected by the initial values of the other chains *)
Theorem C10_chain_independent : forall (w : world) v root nch jit a a' r r' c,
  W_run_batched w v root nch jit a = Some r -> W_run_batched w v root nch jit a' = Some r' ->
  W_init_of w nch a c = W_init_of w nch a' c ->
  nth_error r c = nth_error r' c.
Proof. exact W_chain_independent. Qed.
Print Assumptions C10_chain_independent.

(* the first stored sample of chain c is (epoch 0, time 1, position of jitter_c (init_c)), for a replicated
   single state and for per-chain states alike *)
Theorem C10_first_sample : forall (w : world) v root nch jit a r c s i0,
  valid (w_sched w) = true -> w_sched w <> [] ->
  W_run_batched w v root nch jit a = Some r -> nth_error r c = Some s -> W_init_of w nch a c = Some i0 ->
  nth_error (W_stored w s) 0 = Some (0, 1, w_extract w (W_jittered w root nch jit c i0)).
Proof. exact W_first_sample. Qed.
Print Assumptions C10_first_sample.

(* defect F2: set_initial_values as found raised for every per-chain argument ... *)
Theorem C10_per_chain_as_found_raises : forall (w : world) root nch jit l,
  W_run_batched w SivAsFound root nch jit (PerChain l) = None.
Proof. exact W_per_chain_as_found_raises. Qed.
Print Assumptions C10_per_chain_as_found_raises.

(* ... the repaired one runs every valid schedule with the builder's chunk, for both kinds of argument *)
Theorem C10_repaired_defined : forall (w : world) root nch jit a,
  valid (w_sched w) = true -> chunk (w_p w) = Z.to_nat (chunk_len (w_sched w)) ->
  (match a with Replicate _ => True | PerChain l => length l = nch end) ->
  W_run_batched w SivRepaired root nch jit a <> None.
Proof. exact W_repaired_defined. Qed.
Print Assumptions C10_repaired_defined.

(* the numeric code used by the correspondence shards identifies the path *)
Theorem C10_encode_injective : forall k1 k2,
  bounded k1 = true -> bounded k2 = true -> encode k1 = encode k2 -> k1 = k2.
Proof. exact encode_inj. Qed.
Print Assumptions C10_encode_injective.

(* the hypotheses are satisfiable on a concrete non-trivial world (2 kernels, 1 generator, 5 epochs,
   per-chain initial values, 2 jitter functions) *)
Example C10_toy_runs :
  valid (w_sched toy) = true /\ w_sched toy <> []
  /\ chunk (w_p toy) = Z.to_nat (chunk_len (w_sched toy))
  /\ exists r s0 s1,
       W_run_batched toy SivRepaired [] 2 (Some 2) (PerChain [5; 7]%Z) = Some r
       /\ nth_error r 0 = Some s0 /\ nth_error r 1 = Some s1
       /\ length (W_stored toy s0) = 9 /\ length (W_trace toy s0) = 128
       /\ W_stored toy s0 <> W_stored toy s1.
Proof. exact toy_runs. Qed.

Example C10_toy_events :
  exists evs, run_events [] 3 (Some 2) (mkP 2 1 2) toy_sched = Some evs /\ length (uses evs) = 189.
Proof. exact toy_events. Qed.

Example C10_toy_replicated :
  exists r, W_run_batched toy SivRepaired [(5, 2)] 3 None (Replicate 4%Z) = Some r
            /\ map (fun s => nth_error (W_stored toy s) 0) r = repeat (Some (0, 1, 4%Z)) 3
            /\ W_init_of toy 3 (Replicate 4%Z) 2 = Some 4%Z.
Proof. exact toy_replicated. Qed.
