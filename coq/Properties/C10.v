(* C10 - sampling is reproducible; chains are independent; initial values are honoured.
   Statements only; the proofs are in Goose/KeysProofs.v, the model in Goose/Keys.v. *)
From Coq Require Import List ZArith NArith Bool Arith.
Import ListNotations.
From LV Require Import Goose.Epoch Goose.Keys Goose.KeysProofs Goose.Builder Goose.BuilderProofs.
Close Scope Z_scope.
Open Scope nat_scope.

(* every key that is consumed (kernel method, quantity generator, jitter function) anywhere in a complete
   run - builder, every chain, every epoch, every iteration - is consumed once, is never split, has no
   descendant in the run, and descends from the seed key; no key is split twice *)
Theorem C10_key_hygiene : forall root nch jit p sched evs,
  run_events root nch jit p sched = Some evs ->
  NoDup (map snd (uses evs))
  /\ (forall l k n, In (EUse l k) evs -> ~ In (ESplit k n) evs)
  /\ NoDup (map fst (splits evs))
  /\ (forall l k e, In (EUse l k) evs -> In e evs -> prefix k (ekey e) -> e = EUse l k)
  /\ (forall e, In e evs -> prefix root (ekey e)).
Proof. exact key_hygiene. Qed.
Print Assumptions C10_key_hygiene.

(* two different calls (chain, method, kernel / generator / jitter index, epoch, iteration) never
   receive the same key *)
Theorem C10_calls_distinct_keys : forall root nch jit p sched calls l1 k1 l2 k2,
  run_calls root nch jit p sched = Some calls ->
  In (l1, k1) calls -> In (l2, k2) calls -> l1 <> l2 -> k1 <> k2.
Proof. exact calls_distinct_keys. Qed.
Print Assumptions C10_calls_distinct_keys.

(* the keys the machine with states hands out in chain c are exactly the key flow the hygiene theorem
   is about (started from the chain's own key) *)
Theorem C10_trace_is_key_flow : forall (w : world) root nch jit c i0 s,
  W_run_single w root nch jit c i0 = Some s ->
  exists prog, program (w_p w) (w_sched w) = Some prog
               /\ W_trace w s = chain_events (w_p w) c prog (chain_key root nch c).
Proof. exact W_trace_is_key_flow. Qed.
Print Assumptions C10_trace_is_key_flow.

(* a complete run with states: its key events are the run_events of the hygiene theorem *)
Theorem C10_run_hygiene : forall (w : world) v root nch jit a r,
  W_run_batched w v root nch jit a = Some r ->
  exists evs, run_events root nch jit (w_p w) (w_sched w) = Some evs
              /\ evs = builder_events root nch jit ++ flat_map (W_trace w) r
              /\ NoDup (map snd (uses evs))
              /\ (forall l k n, In (EUse l k) evs -> ~ In (ESplit k n) evs).
Proof. exact W_run_hygiene. Qed.
Print Assumptions C10_run_hygiene.

(* an integer seed is the corresponding PRNG key: same root, hence same key flow and same run *)
Theorem C10_int_seed_equiv : forall (prngkey : Z -> key) z,
  seed_root prngkey (IntSeed z) = seed_root prngkey (KeySeed (prngkey z))
  /\ (forall nch jit p sched,
        run_events (seed_root prngkey (IntSeed z)) nch jit p sched
        = run_events (seed_root prngkey (KeySeed (prngkey z))) nch jit p sched)
  /\ (forall (w : world) v nch jit a,
        W_run_batched w v (seed_root prngkey (IntSeed z)) nch jit a
        = W_run_batched w v (seed_root prngkey (KeySeed (prngkey z))) nch jit a).
Proof. exact int_seed_equiv_full. Qed.
Print Assumptions C10_int_seed_equiv.

(* a run is a function of (seed key, chain count, jitter configuration, initial values, world = model +
   kernels + generators + schedule + chunk): the engine model keeps no other state *)
Theorem C10_deterministic : forall (w : world) v root nch jit a r1 r2,
  W_run_batched w v root nch jit a = Some r1 -> W_run_batched w v root nch jit a = Some r2 -> r1 = r2.
Proof. exact W_deterministic. Qed.
Print Assumptions C10_deterministic.

(* the keys a chain's calls receive depend on neither the model, the kernels nor the initial values *)
Theorem C10_keys_state_independent : forall (w w' : world) root nch jit c i0 i0' s s',
  w_p w = w_p w' -> w_sched w = w_sched w' ->
  W_run_single w root nch jit c i0 = Some s -> W_run_single w' root nch jit c i0' = Some s' ->
  W_trace w s = W_trace w' s'.
Proof. exact W_keys_state_independent. Qed.
Print Assumptions C10_keys_state_independent.

(* the batched (vmapped) engine is, chain by chain, the single-chain engine run on
   (root key, chain count, jitter configuration, c, initial value of chain c) *)
Theorem C10_batched_is_per_chain : forall (w : world) v root nch jit a r,
  W_run_batched w v root nch jit a = Some r ->
  length r = nch
  /\ forall c, c < nch ->
       exists i0 s, W_init_of w nch a c = Some i0 /\ nth_error r c = Some s
                    /\ W_run_single w root nch jit c i0 = Some s.
Proof. exact W_batched_chain. Qed.
Print Assumptions C10_batched_is_per_chain.

(* ... hence a chain's complete result (kernel states, model state, trajectory, infos, quantities, keys)
   is unaffected by the initial values of the other chains *)
Theorem C10_chain_independent : forall (w : world) v root nch jit a a' r r' c,
  W_run_batched w v root nch jit a = Some r -> W_run_batched w v root nch jit a' = Some r' ->
  W_init_of w nch a c = W_init_of w nch a' c ->
  nth_error r c = nth_error r' c.
Proof. exact W_chain_independent. Qed.
Print Assumptions C10_chain_independent.

(* the first stored sample of chain c is (epoch 0, time 1, position of jitter_c (init_c)), for a replicated
   single state and for per-chain states alike *)
Theorem C10_first_sample : forall (w : world) v root nch jit a r c s i0,
  valid (w_sched w) = true -> w_sched w <> [] ->
  W_run_batched w v root nch jit a = Some r -> nth_error r c = Some s -> W_init_of w nch a c = Some i0 ->
  nth_error (W_stored w s) 0 = Some (0, 1, w_extract w (W_jittered w root nch jit c i0)).
Proof. exact W_first_sample. Qed.
Print Assumptions C10_first_sample.

(* defect F2: set_initial_values as found raised for every per-chain argument ... *)
Theorem C10_per_chain_as_found_raises : forall (w : world) root nch jit l,
  W_run_batched w SivAsFound root nch jit (PerChain l) = None.
Proof. exact W_per_chain_as_found_raises. Qed.
Print Assumptions C10_per_chain_as_found_raises.

(* ... the repaired one runs every valid schedule with the builder's chunk, for both kinds of argument *)
Theorem C10_repaired_defined : forall (w : world) root nch jit a,
  valid (w_sched w) = true -> chunk (w_p w) = Z.to_nat (chunk_len (w_sched w)) ->
  (match a with Replicate _ => True | PerChain l => length l = nch end) ->
  W_run_batched w SivRepaired root nch jit a <> None.
Proof. exact W_repaired_defined. Qed.
Print Assumptions C10_repaired_defined.

(* the numeric code used by the correspondence shards identifies the path *)
Theorem C10_encode_injective : forall k1 k2,
  bounded k1 = true -> bounded k2 = true -> encode k1 = encode k2 -> k1 = k2.
Proof. exact encode_inj. Qed.
Print Assumptions C10_encode_injective.

(* the hypotheses are satisfiable on a concrete non-trivial world (2 kernels, 1 generator, 5 epochs,
   per-chain initial values, 2 jitter functions) *)
Example C10_toy_runs :
  valid (w_sched toy) = true /\ w_sched toy <> []
  /\ chunk (w_p toy) = Z.to_nat (chunk_len (w_sched toy))
  /\ exists r s0 s1,
       W_run_batched toy SivRepaired [] 2 (Some 2) (PerChain [5; 7]%Z) = Some r
       /\ nth_error r 0 = Some s0 /\ nth_error r 1 = Some s1
       /\ length (W_stored toy s0) = 9 /\ length (W_trace toy s0) = 128
       /\ W_stored toy s0 <> W_stored toy s1.
Proof. exact toy_runs. Qed.

Example C10_toy_events :
  exists evs, run_events [] 3 (Some 2) (mkP 2 1 2) toy_sched = Some evs /\ length (uses evs) = 189.
Proof. exact toy_events. Qed.

Example C10_toy_replicated :
  exists r, W_run_batched toy SivRepaired [(5, 2)] 3 None (Replicate 4%Z) = Some r
            /\ map (fun s => nth_error (W_stored toy s) 0) r = repeat (Some (0, 1, 4%Z)) 3
            /\ W_init_of toy 3 (Replicate 4%Z) 2 = Some 4%Z.
Proof. exact toy_replicated. Qed.

(* ---- the builder: set_engine_seed, build() twice, builder reuse (model: Goose/Builder.v) ---- *)
(* set_engine_seed: an integer seed is the corresponding PRNG key - same builder, hence the same result of
   every later sequence of builder calls *)
Theorem C10_engine_seed_int_equiv : forall mstate (prngkey : Z -> key) jdict jn jitter_apply z (b : builder mstate jdict),
  b_set_engine_seed mstate prngkey jdict (IntSeed z) b = b_set_engine_seed mstate prngkey jdict (KeySeed (prngkey z)) b
  /\ forall sv bv s nch pre post,
       b_script mstate prngkey jdict jn jitter_apply sv bv s nch (pre ++ BSetEngineSeed (IntSeed z) :: post)
       = b_script mstate prngkey jdict jn jitter_apply sv bv s nch (pre ++ BSetEngineSeed (KeySeed (prngkey z)) :: post).
Proof. exact engine_seed_int_equiv_full. Qed.
Print Assumptions C10_engine_seed_int_equiv.

(* the installed engine key is the given key itself, split once per chain; the constructor's own engine
   key handed back changes nothing *)
Theorem C10_engine_seed_is_used_as_given : forall mstate (prngkey : Z -> key) jdict jn jitter_apply bv s
    (b b' : builder mstate jdict) e,
  b_build mstate jdict jn jitter_apply bv (b_set_engine_seed mstate prngkey jdict s b) = Some (e, b') ->
  ei_seeds e = map (fun c => split (seed_root prngkey s) (bd_nch _ _ b) c) (seq 0 (bd_nch _ _ b)).
Proof. exact set_engine_seed_seeds. Qed.
Print Assumptions C10_engine_seed_is_used_as_given.

Theorem C10_engine_seed_default_noop : forall mstate (prngkey : Z -> key) jdict s nch,
  b_set_engine_seed mstate prngkey jdict (KeySeed (b_engine (seed_root prngkey s))) (b_new mstate prngkey jdict s nch)
  = b_new mstate prngkey jdict s nch.
Proof. exact set_engine_seed_default_noop. Qed.
Print Assumptions C10_engine_seed_default_noop.

(* build() does not change the builder's configuration; building twice gives the same engine inputs
   (per-chain keys and jittered initial states), also at the end of any sequence of builder calls *)
Theorem C10_build_idempotent : forall mstate jdict jn jitter_apply (b b' : builder mstate jdict) e,
  b_build mstate jdict jn jitter_apply BuildPure b = Some (e, b') ->
  b' = b /\ b_build mstate jdict jn jitter_apply BuildPure b' = Some (e, b').
Proof. exact build_idempotent_full. Qed.
Print Assumptions C10_build_idempotent.

Theorem C10_script_build_twice : forall mstate (prngkey : Z -> key) jdict jn jitter_apply sv s nch ops e,
  b_script mstate prngkey jdict jn jitter_apply sv BuildPure s nch (ops ++ [BBuild]) = Some e ->
  b_script mstate prngkey jdict jn jitter_apply sv BuildPure s nch (ops ++ [BBuild; BBuild]) = Some e.
Proof. exact script_build_twice. Qed.
Print Assumptions C10_script_build_twice.

(* a build() that stores the jittered states back is refuted: the second engine starts from
   initial + 2 x jitter (witness for the variant BuildWritesJitter) *)
Example C10_build_writes_back_refuted :
  exists (b b1 b2 : builder Z nat) e1 e2,
    b_build Z nat (fun n => n) (fun _ ks ms => (ms + Z.of_nat (length ks) + 1)%Z) BuildWritesJitter b = Some (e1, b1)
    /\ b_build Z nat (fun n => n) (fun _ ks ms => (ms + Z.of_nat (length ks) + 1)%Z) BuildWritesJitter b1 = Some (e2, b2)
    /\ ei_seeds e1 = ei_seeds e2 /\ ei_states e1 = [12; 22]%Z /\ ei_states e2 = [14; 24]%Z.
Proof. exact build_writes_back_refuted. Qed.

(* builder reuse: set_initial_values replaces the states the builder held; the next build hands chain c
   jitter_c (init_c) of the NEW argument, whatever was set or built before (both build variants) *)
Theorem C10_build_after_set_initial_values : forall mstate jdict jn jitter_apply sv bv a (b b1 b2 : builder mstate jdict) e c i0,
  b_set_initial_values mstate jdict sv a b = Some b1 -> b_build mstate jdict jn jitter_apply bv b1 = Some (e, b2) ->
  init_of mstate (bd_nch _ _ b) a c = Some i0 ->
  nth_error (ei_states e) c
  = Some (jitter_chain_g mstate jdict jn jitter_apply (bd_jitter _ _ b) (bd_nch _ _ b) (bd_jit _ _ b) c i0).
Proof. exact first_state_after_build. Qed.
Print Assumptions C10_build_after_set_initial_values.

(* set_jitter_fns: the last call wins (for the builder and inside any call sequence); None clears the jitter
   functions set before: the next build hands over the un-jittered states *)
Theorem C10_jitter_fns_last_wins : forall mstate (prngkey : Z -> key) jdict jn jitter_apply sv bv s nch pre post j1 j2,
  b_script mstate prngkey jdict jn jitter_apply sv bv s nch (pre ++ BSetJitter j1 :: BSetJitter j2 :: post)
  = b_script mstate prngkey jdict jn jitter_apply sv bv s nch (pre ++ BSetJitter j2 :: post).
Proof. exact script_jitter_last_wins. Qed.
Print Assumptions C10_jitter_fns_last_wins.

Theorem C10_jitter_fns_none_clears : forall mstate jdict jn jitter_apply bv (b b' : builder mstate jdict) st e,
  bd_states _ _ b = Some st ->
  b_build mstate jdict jn jitter_apply bv (b_set_jitter_fns mstate jdict None b) = Some (e, b') ->
  ei_states e = st /\ bd_jit _ _ b' = None.
Proof. exact set_jitter_fns_none_clears. Qed.
Print Assumptions C10_jitter_fns_none_clears.

(* key hygiene for an engine key installed by set_engine_seed, provided it is unrelated to the builder's
   jitter key (the constructor's own keys are: default_keys_apart) *)
Theorem C10_key_hygiene_engine_seed : forall ek jk nch jit p sched evs,
  ~ prefix ek jk -> ~ prefix jk ek ->
  run_events_g ek jk nch jit p sched = Some evs ->
  NoDup (map snd (uses evs))
  /\ (forall l k n, In (EUse l k) evs -> ~ In (ESplit k n) evs)
  /\ (forall l k e, In (EUse l k) evs -> In e evs -> prefix k (ekey e) -> e = EUse l k).
Proof. exact key_hygiene_g. Qed.
Print Assumptions C10_key_hygiene_engine_seed.

(* the hypothesis is needed: the constructor's seed given again through set_engine_seed makes the engine key
   the root the jitter key was split from; a kernel's init_state call and a jitter function then share a key *)
Example C10_engine_seed_same_seed_collides :
  exists evs l1 l2 k,
    run_events_g [] (b_jitter []) 3 (Some 2) (mkP 3 0 1) [mkE Init 1 1; mkE Post 1 1]%Z = Some evs
    /\ In (EUse l1 k) evs /\ In (EUse l2 k) evs /\ l_meth l1 = MInit /\ l_meth l2 = MJitter.
Proof. exact set_engine_seed_same_seed_collides. Qed.

(* the default builder (constructor seed, set_initial_values, set_jitter_fns, build) followed by
   Engine(...) is the batched run all theorems above are about *)
Theorem C10_built_default_is_batched : forall (w : world) (prngkey : Z -> key) v root nch jit a ei,
  b_script (w_mstate w) prngkey nat (fun n => n) (fun _ => w_jitter_apply w) v BuildPure (KeySeed root) nch
           [BSetInit a; BSetJitter jit; BBuild] = Some ei ->
  W_run_built w ei = W_run_batched w v root nch jit a.
Proof. exact W_built_default_is_batched. Qed.
Print Assumptions C10_built_default_is_batched.

(* Engine.__init__: init_state of kernel i in chain c is handed chain c's OWN initial model state after the
   configured jitter (not another chain's), with the key split (split k_c 2 1) nker i of chain c's key *)
Theorem C10_init_state_sees_own_start : forall (w : world) root nch jit c ms,
  let s0 := init_chain (w_mstate w) (w_kstate w) (w_pos w) (w_info w) (w_tinfo w) (w_quant w)
              (w_jitter_apply w) root nch jit c ms in
  let s1 := exec_op _ _ _ _ _ _ (w_extract w) (w_k_init w) (w_k_start w) (w_k_trans w) (w_k_end w) (w_k_tune w)
              (w_k_endwarmup w) (w_q_gen w) (w_p w) (w_sched w) (w_needs_hist w) OInit s0 in
  m_ks _ _ _ _ _ _ (mach_ _ _ _ _ _ _ s1)
  = map (fun i => w_k_init w i (split (split (chain_key root nch c) 2 1) (nker (w_p w)) i)
                            (W_jittered w root nch jit c ms)) (seq 0 (nker (w_p w)))
  /\ m_ms _ _ _ _ _ _ (mach_ _ _ _ _ _ _ s1) = W_jittered w root nch jit c ms.
Proof. exact W_init_state_sees_own_start. Qed.
Print Assumptions C10_init_state_sees_own_start.
