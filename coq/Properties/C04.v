(* C04 - every built-in kernel leaves the target invariant: the finite-state-space theorems.
   Scope (stated plainly): state spaces are FINITE duplicate-free lists, kernels are stochastic
   matrices over R.  Invariance on continuous spaces and blackjax's HMC/NUTS integrators are not
   covered by these theorems (see notes/C04.md). *)
From Coq Require Import Reals List Bool QArith.
Import ListNotations.
From LV Require Import Base.Xnum Goose.MH Goose.Markov Goose.MarkovProofs Goose.MarkovBridge
  Goose.Keys Goose.MarkovRand Goose.MarkovRandProofs Goose.CorrC04Keys.
Close Scope Q_scope.
Open Scope R_scope.

(* MH with a proposal table q and the log-correction log q(x|x') - log q(x'|x) wherever the
   proposal can go: detailed balance, hence invariance (MHKernel, IWLSKernel skeleton) *)
Theorem C04_mh_invariant :
  forall (X : Type) (eqb : X -> X -> bool), eqb_ok eqb ->
  forall xs : list X, NoDup xs ->
  forall (w : X -> R) (q corr : X -> X -> R),
  positive xs w -> mh_hyps xs q corr ->
  detailed_balance xs w (mh_kernel eqb xs w q corr) /\ invariant xs w (mh_kernel eqb xs w q corr).
Proof. exact thm_mh_invariant. Qed.
Print Assumptions C04_mh_invariant.

(* symmetric proposal, no correction (RWKernel skeleton) *)
Theorem C04_rw_invariant :
  forall (X : Type) (eqb : X -> X -> bool), eqb_ok eqb ->
  forall xs : list X, NoDup xs ->
  forall (w : X -> R) (q : X -> X -> R),
  positive xs w ->
  (forall x y, In x xs -> In y xs -> 0 <= q x y) ->
  (forall x y, In x xs -> In y xs -> q x y = q y x) ->
  invariant xs w (mh_kernel eqb xs w q (fun _ _ => 0)).
Proof. exact thm_rw_invariant. Qed.
Print Assumptions C04_rw_invariant.

Theorem C04_mh_stochastic :
  forall (X : Type) (eqb : X -> X -> bool), eqb_ok eqb ->
  forall xs : list X, NoDup xs ->
  forall (w : X -> R) (q corr : X -> X -> R),
  proposal xs q -> stochastic xs (mh_kernel eqb xs w q corr).
Proof. exact thm_mh_stochastic. Qed.
Print Assumptions C04_mh_stochastic.

(* Gibbs: redraw from the exact full conditional given the untouched rest r(x) *)
Theorem C04_gibbs_invariant :
  forall (X B : Type) (beqb : B -> B -> bool), eqb_ok beqb ->
  forall (xs : list X) (r : X -> B) (w : X -> R), positive xs w ->
  invariant xs w (gibbs_kernel xs beqb r w) /\ stochastic xs (gibbs_kernel xs beqb r w)
  /\ (forall x y, r x <> r y -> gibbs_kernel xs beqb r w x y = 0)
  /\ (forall x y, r x = r y -> gibbs_kernel xs beqb r w x y = w y / cond_norm xs beqb r w (r y)).
Proof. exact thm_gibbs_invariant. Qed.
Print Assumptions C04_gibbs_invariant.

(* deterministic involution accepted with min(1, w(Tz)/w z) (HMC skeleton) *)
Theorem C04_involutive_invariant :
  forall (X : Type) (eqb : X -> X -> bool), eqb_ok eqb ->
  forall xs : list X, NoDup xs ->
  forall (w : X -> R) (T : X -> X), positive xs w ->
  (forall x, In x xs -> In (T x) xs) -> (forall x, In x xs -> T (T x) = x) ->
  detailed_balance xs w (involutive_kernel eqb xs w T)
  /\ invariant xs w (involutive_kernel eqb xs w T)
  /\ stochastic xs (involutive_kernel eqb xs w T).
Proof. exact thm_involutive_invariant. Qed.
Print Assumptions C04_involutive_invariant.

(* momentum refresh (Gibbs on the momentum) followed by the accepted/rejected involution *)
Theorem C04_hmc_skeleton_invariant :
  forall (Q M : Type) (qeqb : Q -> Q -> bool) (meqb : M -> M -> bool),
  eqb_ok qeqb -> eqb_ok meqb ->
  forall (lq : list Q) (lm : list M), NoDup lq -> NoDup lm ->
  forall (w : Q * M -> R) (T : Q * M -> Q * M),
  positive (list_prod lq lm) w ->
  (forall z, In z (list_prod lq lm) -> T (T z) = z) ->
  invariant (list_prod lq lm) w
    (seq_kernel (list_prod lq lm) (gibbs_kernel (list_prod lq lm) qeqb fst w)
                (involutive_kernel (pair_eqb qeqb meqb) (list_prod lq lm) w T)).
Proof. exact thm_hmc_skeleton_invariant. Qed.
Print Assumptions C04_hmc_skeleton_invariant.

(* a kernel acting on one block with the JOINT weight as target: invariant for the joint, never
   changes the rest, and is the one-block MH kernel for the conditional weight *)
Theorem C04_blockwise_mh :
  forall (A B : Type) (aeqb : A -> A -> bool) (beqb : B -> B -> bool),
  eqb_ok aeqb -> eqb_ok beqb ->
  forall (la : list A) (lb : list B), NoDup la -> NoDup lb ->
  forall (w : A * B -> R), positive (list_prod la lb) w ->
  forall qb corrb : B -> A -> A -> R,
  (forall b, In b lb -> mh_hyps la (qb b) (corrb b)) ->
  let P := mh_kernel (pair_eqb aeqb beqb) (list_prod la lb) w (lift_block beqb qb) (lift_block beqb corrb) in
  invariant (list_prod la lb) w P
  /\ (forall a b a' b', b <> b' -> P (a, b) (a', b') = 0)
  /\ (forall a b a', In a la -> In b lb ->
        P (a, b) (a', b) = mh_kernel aeqb la (fun c => w (c, b)) (qb b) (corrb b) a a').
Proof. exact thm_blockwise_mh. Qed.
Print Assumptions C04_blockwise_mh.

Theorem C04_blockwise_gibbs :
  forall (A B : Type) (beqb : B -> B -> bool), eqb_ok beqb ->
  forall (la : list A) (lb : list B), NoDup lb ->
  forall (w : A * B -> R), positive (list_prod la lb) w ->
  let P := gibbs_kernel (list_prod la lb) beqb snd w in
  invariant (list_prod la lb) w P
  /\ stochastic (list_prod la lb) P
  /\ (forall a b a' b', In b lb ->
        P (a, b) (a', b') = if beqb b b' then w (a', b) / rsum la (fun c => w (c, b)) else 0).
Proof. exact thm_blockwise_gibbs. Qed.
Print Assumptions C04_blockwise_gibbs.

(* KernelSequence.transition = matrix product *)
Theorem C04_sequence_invariant :
  forall (X : Type) (eqb : X -> X -> bool), eqb_ok eqb ->
  forall xs : list X, NoDup xs ->
  forall (w : X -> R) (Ps : list (X -> X -> R)),
  Forall (invariant xs w) Ps -> invariant xs w (seq_kernels eqb xs Ps).
Proof. exact thm_sequence_invariant. Qed.
Print Assumptions C04_sequence_invariant.

Theorem C04_sequence_stochastic :
  forall (X : Type) (eqb : X -> X -> bool), eqb_ok eqb ->
  forall xs : list X, NoDup xs ->
  forall (Ps : list (X -> X -> R)),
  Forall (stochastic xs) Ps -> stochastic xs (seq_kernels eqb xs Ps).
Proof. exact thm_sequence_stochastic. Qed.
Print Assumptions C04_sequence_stochastic.

Theorem C04_n_steps :
  forall (X : Type) (eqb : X -> X -> bool), eqb_ok eqb ->
  forall xs : list X, NoDup xs ->
  forall (w : X -> R) (P : X -> X -> R), invariant xs w P ->
  forall n, invariant xs w (iter_kernel eqb xs n P).
Proof. exact thm_n_steps. Qed.
Print Assumptions C04_n_steps.

(* chains started from exact posterior draws are still exactly posterior-distributed after any
   number of transitions *)
Theorem C04_chain_stays_posterior :
  forall (X : Type) (xs : list X) (w : X -> R) (P : X -> X -> R), invariant xs w P ->
  forall n y, In y xs -> push_n xs n (normalised xs w) P y = normalised xs w y.
Proof. exact thm_chain_stays_posterior. Qed.
Print Assumptions C04_chain_stays_posterior.

(* the hypothesis on the correction is needed: the sign written in the docstring of MHProposal
   (log q(x'|x) - log q(x|x')) and a dropped correction both break invariance *)
Theorem C04_correction_needed :
  exists (xs : list nat) (w : nat -> R) (q : nat -> nat -> R),
    NoDup xs /\ positive xs w /\ proposal xs q /\
    (forall x y, In x xs -> In y xs -> q x y = 0 -> q y x = 0) /\
    invariant xs w (mh_kernel Nat.eqb xs w q (fun x y => ln (q y x) - ln (q x y))) /\
    ~ invariant xs w (mh_kernel Nat.eqb xs w q (fun x y => ln (q x y) - ln (q y x))) /\
    ~ invariant xs w (mh_kernel Nat.eqb xs w q (fun _ _ => 0)).
Proof. exact thm_correction_needed. Qed.
Print Assumptions C04_correction_needed.

(* the accept rule of the kernel matrix IS the C05 model of mh_step (Goose/MH.v): on finite
   log-densities, with an exp oracle that is eps-accurate at the log-ratio, the probability
   reported by mh_decide is within eps of accept_prob, and the proposal is accepted iff u < it *)
Theorem C04_accept_rule_is_C05 :
  forall (exp_o : xnum -> xnum) (c : cmp) (cur prop corr : Q) (u : xnum) (e : Q) (eps : R),
  exp_o (XFin (prop - cur + corr)%Q) = XFin e ->
  Rabs (Q2R e - exp (Q2R prop - Q2R cur + Q2R corr)) <= eps ->
  exists p : Q,
    prob (mh_decide exp_o c (XFin cur) (XFin prop) (XFin corr) u) = XFin p
    /\ Rabs (Q2R p - accept_prob (Q2R prop - Q2R cur + Q2R corr)) <= eps
    /\ code (mh_decide exp_o c (XFin cur) (XFin prop) (XFin corr) u) = 0%nat.
Proof. exact accept_rule_is_C05. Qed.
Print Assumptions C04_accept_rule_is_C05.

(* u uniform on a grid k/N: with `<` the accepted fraction of the grid is p up to the grid
   resolution; the kernel matrix entry q x y * accept_prob is this fraction in the limit *)
Theorem C04_accept_fraction :
  forall (N : nat) (p : Q), (0 < N)%nat -> (0 <= p)%Q -> (p <= 1)%Q ->
  (p <= accept_fraction N p)%Q /\ (accept_fraction N p < p + (1 # Pos.of_nat N))%Q.
Proof. exact accept_fraction_bounds. Qed.
Print Assumptions C04_accept_fraction.

(* the accept decision counted by accept_fraction is literally the one of MH.mh_decide *)
Theorem C04_grid_accepts_is_mh_decide :
  forall exp_o c N p k cur prop corr,
  prob (mh_decide exp_o c cur prop corr (XFin (grid_point N k))) = XFin p ->
  accept (mh_decide exp_o c cur prop corr (XFin (grid_point N k))) = grid_accepts c N p k.
Proof. exact grid_accepts_is_mh_decide. Qed.
Print Assumptions C04_grid_accepts_is_mh_decide.

(* non-vacuity: concrete objects satisfying the hypotheses *)
Example C04_ex_mh :
  invariant xs3 w3 (mh_kernel Nat.eqb xs3 w3 q3 (hastings_corr q3))
  /\ stochastic xs3 (mh_kernel Nat.eqb xs3 w3 q3 (hastings_corr q3)).
Proof. exact ex3_mh. Qed.

Example C04_ex_rw : invariant xs3 w3 (mh_kernel Nat.eqb xs3 w3 q3s (fun _ _ => 0)).
Proof. exact ex3_rw. Qed.

Example C04_ex_involutive :
  invariant xs3 w3 (involutive_kernel Nat.eqb xs3 w3 T3)
  /\ involutive_kernel Nat.eqb xs3 w3 T3 0%nat 1%nat = 1/4
  /\ involutive_kernel Nat.eqb xs3 w3 T3 1%nat 0%nat = 1.
Proof. exact ex3_involutive. Qed.

Example C04_ex_gibbs :
  invariant (list_prod la2 xs3) w23 (gibbs_kernel (list_prod la2 xs3) Nat.eqb snd w23)
  /\ gibbs_kernel (list_prod la2 xs3) Nat.eqb snd w23 (0, 2)%nat (1, 2)%nat = 1/5.
Proof. exact ex23_gibbs. Qed.

Example C04_ex_accept_fraction : (accept_fraction 8 (3 # 8) == 3 # 8)%Q.
Proof. exact accept_fraction_example. Qed.

Example C04_ex_sequence_and_steps :
  let zs := list_prod la2 xs3 in
  let G := gibbs_kernel zs Nat.eqb snd w23 in
  let K := mh_kernel (pair_eqb Nat.eqb Nat.eqb) zs w23 (lift_block Nat.eqb qb23)
             (lift_block Nat.eqb (fun _ _ _ => 0)) in
  forall n, invariant zs w23 (iter_kernel (pair_eqb Nat.eqb Nat.eqb) zs n
                                (seq_kernels (pair_eqb Nat.eqb Nat.eqb) zs [G; K; G])).
Proof. exact ex23_sequence_and_steps. Qed.

(* ---- the hypothesis that makes C04_sequence_invariant applicable to KernelSequence ----
   A kernel is a deterministic function of (its randomness, state).  If the kernels of one sequence
   transition draw from INDEPENDENT randomness, the matrix of the sequence is the matrix product
   (seq_kernel) and invariance is inherited; if they SHARE the randomness (same PRNG key) it is not. *)
Theorem C04_independent_randomness_gives_product :
  forall (X W1 W2 : Type) (eqb : X -> X -> bool), eqb_ok eqb ->
  forall xs : list X, NoDup xs ->
  forall (Om1 : list W1) (Om2 : list W2) (pr1 : W1 -> R) (pr2 : W2 -> R)
         (K1 : W1 -> X -> X) (K2 : W2 -> X -> X),
  (forall om x, In om Om1 -> In x xs -> In (K1 om x) xs) ->
  (forall x y, In x xs ->
     mat_of eqb (list_prod Om1 Om2) (pr_indep pr1 pr2) (compose_indep K1 K2) x y
     = seq_kernel xs (mat_of eqb Om1 pr1 K1) (mat_of eqb Om2 pr2 K2) x y)
  /\ (forall w, invariant xs w (mat_of eqb Om1 pr1 K1) -> invariant xs w (mat_of eqb Om2 pr2 K2) ->
        invariant xs w (mat_of eqb (list_prod Om1 Om2) (pr_indep pr1 pr2) (compose_indep K1 K2))).
Proof. exact thm_indep_is_product. Qed.
Print Assumptions C04_independent_randomness_gives_product.

Theorem C04_shared_randomness_refuted :
  exists (xs : list nat) (w : nat -> R) (Om : list nat) (pr : nat -> R) (K1 K2 : nat -> nat -> nat),
    NoDup xs /\ positive xs w /\ rsum Om pr = 1 /\
    invariant xs w (mat_of Nat.eqb Om pr K1) /\ invariant xs w (mat_of Nat.eqb Om pr K2) /\
    invariant xs w (mat_of Nat.eqb (list_prod Om Om) (pr_indep pr pr) (compose_indep K1 K2)) /\
    ~ invariant xs w (mat_of Nat.eqb Om pr (compose_shared K1 K2)).
Proof. exact thm_shared_randomness_refuted. Qed.
Print Assumptions C04_shared_randomness_refuted.

(* keys = jax.random.split(prng_key, n): pairwise distinct, none is the carry (keys as tree paths) *)
Theorem C04_sequence_keys_independent : forall k m, keys_independent k (seq_keys k m).
Proof. exact seq_keys_independent. Qed.
Print Assumptions C04_sequence_keys_independent.

(* `_, subkey = split(prng_key)` per kernel without advancing prng_key: every kernel gets the same key *)
Theorem C04_stale_sequence_keys_refuted : forall k m, (2 <= m)%nat -> ~ keys_independent k (stale_keys k m).
Proof. exact stale_keys_refuted. Qed.
Print Assumptions C04_stale_sequence_keys_refuted.

(* the boolean check evaluated on the keys the real KernelSequence handed out is sound *)
Theorem C04_keys_check_sound : forall carry ks, seq_keys_ok carry ks = true -> keys_independent carry ks.
Proof. exact seq_keys_ok_sound. Qed.
Print Assumptions C04_keys_check_sound.

(* ---- glue hypothesis of HMC/NUTS: the kernel's target is exp(block log-density), ZERO where the
   log-density is undefined or -inf: such a state is never entered from the support ... ---- *)
Theorem C04_zero_weight_never_entered :
  forall (X : Type) (eqb : X -> X -> bool), eqb_ok eqb ->
  forall (xs : list X) (w : X -> R) (T : X -> X) (x y : X),
  0 < w x -> w y = 0 -> x <> y -> involutive_kernel eqb xs w T x y = 0.
Proof. exact thm_zero_weight_never_entered. Qed.
Print Assumptions C04_zero_weight_never_entered.

(* ... and replacing an undefined log-density by a finite number (nan_to_num: 0.0, weight exp 0) is refuted:
   the kernel enters the state outside the support and the true target is not invariant *)
Theorem C04_nan_to_num_target_refuted :
  (forall x, In x xs01 -> swap01 (swap01 x) = x) /\
  involutive_kernel Nat.eqb xs01 w_true swap01 0%nat 1%nat = 0 /\
  involutive_kernel Nat.eqb xs01 w_num swap01 0%nat 1%nat = 1 /\
  ~ invariant xs01 w_true (involutive_kernel Nat.eqb xs01 w_num swap01).
Proof. exact thm_nan_to_num_target_refuted. Qed.
Print Assumptions C04_nan_to_num_target_refuted.
