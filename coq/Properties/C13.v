(* C13 - Gibbs kernels draw from the exact full conditional.
   Models: Analytic/Gibbs.v (tau2_gibbs_kernel, densities, categorical weights),
           Analytic/GibbsDiscrete.v (finite_discrete_gibbs_kernel on the cached graph of Graph/Graph.v).
   lgam = ln Gamma is an arbitrary function (it only contributes constants); the gamma sampler is
   represented by its distribution function FG (hypothesis: its derivative is the Gamma(conc, 1)
   density), the categorical sampler by the weights it is handed. *)
From Coq Require Import Reals List Bool Arith.
From Coquelicot Require Import Coquelicot.
Import ListNotations.
From LV Require Import Graph.Graph Graph.GraphProofs.
From LV Require Import Analytic.Gibbs Analytic.GibbsProofs Analytic.GibbsDiscrete Analytic.GibbsDiscreteProofs.

(* ---- inverse-gamma kernel --------------------------------------------------------------------- *)
(* the joint density (IG prior of tau2, degenerate normal prior of beta with rank r and quadratic
   form q, anything else that does not contain tau2) is, as a function of tau2, the inverse-gamma
   kernel with the parameters the code computes - for every r, so also for deficient rank *)
Theorem C13_tau2_conjugacy : forall (lgam : R -> R) (a b q r lpd rest : R),
  exists c, forall t, (0 < t)%R ->
    joint_tau2 lgam a b q r lpd rest t = (ig_logpdf lgam (a_gibbs a r) (b_gibbs b q) t + c)%R.
Proof. exact tau2_conjugacy. Qed.
Print Assumptions C13_tau2_conjugacy.

(* ... and these are the only parameters for which this holds *)
Theorem C13_tau2_conjugacy_unique : forall (lgam : R -> R) (a b q r lpd rest a' b' c' : R),
  (forall t, (0 < t)%R -> joint_tau2 lgam a b q r lpd rest t = (ig_logpdf lgam a' b' t + c')%R) ->
  a' = a_gibbs a r /\ b' = b_gibbs b q.
Proof. exact tau2_conjugacy_unique. Qed.
Print Assumptions C13_tau2_conjugacy_unique.

(* change of variables g -> b'/g: derivative, and density identity *)
Theorem C13_draw_is_inverse_gamma : forall (lgam : R -> R) (a' b' t : R), (0 < b')%R -> (0 < t)%R ->
  is_derive (fun t => tau2_draw b' t) t (- b' / (t * t))%R
  /\ (gamma_logpdf lgam a' 1 (tau2_draw b' t) + ln (Rabs (- b' / (t * t))))%R = ig_logpdf lgam a' b' t
  /\ tau2_draw b' (tau2_draw b' t) = t.
Proof. exact draw_is_inverse_gamma. Qed.
Print Assumptions C13_draw_is_inverse_gamma.

(* the distribution function of b'/g for g ~ Gamma(a', 1) has the IG(a', b') density *)
Theorem C13_draw_cdf_has_ig_density : forall (lgam : R -> R) (a' b' : R) (FG : R -> R), (0 < b')%R ->
  (forall g, (0 < g)%R -> is_derive FG g (exp (gamma_logpdf lgam a' 1 g))) ->
  forall t, (0 < t)%R ->
    is_derive (fun t => (1 - FG (tau2_draw b' t))%R) t (exp (ig_logpdf lgam a' b' t)).
Proof. exact draw_cdf_has_ig_density. Qed.
Print Assumptions C13_draw_cdf_has_ig_density.

(* the kernel as a whole: given a gamma sampler with the nominal law for the concentration the
   kernel requests, the returned value is distributed with density proportional to the joint *)
Theorem C13_tau2_kernel_exact : forall (lgam : R -> R) (a b r lpd rest : R) (beta : list R) (K : list (list R)),
  (0 < b)%R -> (0 <= quad_form beta K)%R ->
  let conc := ts_concentration (tau2_transition a b r beta K 1) in
  forall FG : R -> R,
  (forall g, (0 < g)%R -> is_derive FG g (exp (gamma_logpdf lgam conc 1 g))) ->
  exists c, forall t, (0 < t)%R ->
    is_derive (fun t => (1 - FG (tau2_draw (b_gibbs b (quad_form beta K)) t))%R) t
              (exp (joint_tau2 lgam a b (quad_form beta K) r lpd rest t - c))
    /\ (forall g, (0 < g)%R ->
          ((ts_draw (tau2_transition a b r beta K g) <= t)%R
           <-> (tau2_draw (b_gibbs b (quad_form beta K)) t <= g)%R)).
Proof. exact tau2_kernel_exact. Qed.
Print Assumptions C13_tau2_kernel_exact.

(* what the correspondence lemmas compare with log_prob differences of the real model *)
Theorem C13_profile_difference : forall (lgam : R -> R) (a b q r lpd rest t0 t1 : R), t0 <> 0%R -> t1 <> 0%R ->
  (joint_tau2 lgam a b q r lpd rest t1 - joint_tau2 lgam a b q r lpd rest t0)%R = cond_diff a b q r t0 t1
  /\ cond_diff a b q r t0 t1 = ig_diff (a_gibbs a r) (b_gibbs b q) t0 t1.
Proof. exact profile_difference. Qed.
Print Assumptions C13_profile_difference.

(* ---- finite-discrete kernel ------------------------------------------------------------------- *)
(* for every graph, every meaning of the node functions, every fully updated incoming state: the
   conditional log-probability the kernel computes for outcome o (restore, clear flags, assign,
   targeted update of _model_log_prob, read) is the from-scratch log-probability with the variable
   set to o and every other input as in the incoming state; no step raises *)
Theorem C13_discrete_logits_from_scratch : forall (V F : Type) (interp : F -> list V -> V) (dflt : V) (g : graph F),
  wf g -> forall (v lp : nat) (km : mstate V) (sn : snap V) (nv : node F),
  clean_state V F interp dflt g sn -> auto km = false ->
  nth_error g v = Some nv -> kd nv = KValue -> (lp < length g)%nat ->
  forall o, fd_cond V F interp dflt g v lp (fd_enter V km sn) o
            = Some (denote interp dflt g (upd (sn_vals sn) v o) lp).
Proof. exact fd_cond_denote. Qed.
Print Assumptions C13_discrete_logits_from_scratch.

(* the categorical weights are the normalised joint density as a function of the variable alone *)
Theorem C13_discrete_conditional : forall (V F : Type) (interp : F -> list V -> V) (dflt : V) (g : graph F),
  wf g -> forall (v lp : nat) (toR : V -> R) (km : mstate V) (sn : snap V) (nv : node F) (outcomes : list V),
  clean_state V F interp dflt g sn -> auto km = false ->
  nth_error g v = Some nv -> kd nv = KValue -> (lp < length g)%nat ->
  fd_weights V F interp dflt g v lp toR km sn outcomes
  = full_conditional_spec V F interp dflt g v lp toR (sn_vals sn) outcomes.
Proof. exact fd_weights_full_conditional. Qed.
Print Assumptions C13_discrete_conditional.

(* they are a probability vector, one entry per outcome; the returned value is the outcome at the index *)
Theorem C13_discrete_weights_distribution : forall (V F : Type) (interp : F -> list V -> V) (dflt : V) (g : graph F)
  (v lp : nat) (toR : V -> R) (km : mstate V) (sn : snap V) (outcomes : list V), outcomes <> [] ->
  length (fd_weights V F interp dflt g v lp toR km sn outcomes) = length outcomes
  /\ List.Forall (fun w => (0 < w)%R) (fd_weights V F interp dflt g v lp toR km sn outcomes)
  /\ sumR (fd_weights V F interp dflt g v lp toR km sn outcomes) = 1%R.
Proof. exact fd_weights_distribution. Qed.
Print Assumptions C13_discrete_weights_distribution.

Theorem C13_discrete_draw_member : forall (V : Type) (outcomes : list V) (idx : nat), (idx < length outcomes)%nat ->
  exists o, fd_draw V outcomes idx = Some o /\ In o outcomes.
Proof. exact fd_draw_member. Qed.
Print Assumptions C13_discrete_draw_member.

(* the hypothesis clean_state holds of the state dict of any model after a full update *)
Theorem C13_clean_state_after_update : forall (V F : Type) (interp : F -> list V -> V) (dflt : V) (g : graph F),
  wf g -> forall rs : rstate V, RInv V F interp dflt g rs ->
  clean_state V F interp dflt g
    (snapshot (lit interp dflt) g (cur (st' (step interp dflt g rs (Update []))))).
Proof. exact snapshot_after_full_update_clean. Qed.
Print Assumptions C13_clean_state_after_update.

(* ---- non-vacuity ------------------------------------------------------------------------------- *)
Example C13_example_tau2 :
  (0 < / 2)%R /\ (0 <= quad_form ex_beta ex_K)%R
  /\ ts_concentration (tau2_transition 2 (/ 2) 2 ex_beta ex_K (/ 2)) = 3%R
  /\ ts_draw (tau2_transition 2 (/ 2) 2 ex_beta ex_K (/ 2)) = (49 / 4)%R.
Proof. exact ex_tau2_kernel. Qed.
Print Assumptions C13_example_tau2.

Local Open Scope nat_scope.
Example C13_example_discrete :
  (clean_state nat exf exi 0 exg ex_sn /\ auto ex_km = false
   /\ nth_error exg 0 = Some (mkNode KValue [] Fin) /\ (5 < length exg)%nat)
  /\ map (fd_cond nat exf exi 0 exg 0 5 (fd_enter nat ex_km ex_sn)) [0; 1; 2; 3]
     = [Some 1; Some 22; Some 43; Some 64].
Proof. exact (conj ex_clean (proj1 ex_logits)). Qed.
Print Assumptions C13_example_discrete.

(* clean_state cannot be dropped: on a state with a raised flag the kernel freezes the stale value *)
Example C13_example_discrete_needs_clean_state :
  sn_flags ex_sn_stale = [false; false; false; true; true; true]
  /\ map (fd_cond nat exf exi 0 exg 0 5 (fd_enter nat ex_km ex_sn_stale)) [0; 1; 2]
     = [Some 1; Some 22; Some 43]
  /\ map (fun o => denote exi 0 exg (upd (sn_vals ex_sn_stale) 0 o) 5) [0; 1; 2] = [1; 72; 143].
Proof. exact ex_stale_state_differs. Qed.
Print Assumptions C13_example_discrete_needs_clean_state.
