(* C17 - simulate() draws a joint ancestral sample.
   Model: Graph/Simulate.v on the cached-graph machine Graph/Graph.v (C01).  For every value type V,
   function symbols F, seeds S, meaning interp of the node functions, sampler
   sample : F -> S -> list V -> V -> V (tfp's Distribution.sample: symbol, seed, parameter values, the
   value currently shown by `at` - used by the code only through its shape), every well-formed graph g,
   every state rs reachable by the public operations (RInv; in particular both auto-update settings and
   states with outdated nodes), every list of Dist descriptions [order] in visiting order, skip set and
   seeds.  [ds] = the visited distributions with their seeds. *)
From Coq Require Import List Bool Arith.
Import ListNotations.
From LV Require Import Graph.Graph Graph.GraphProofs Graph.GraphMemo Graph.Simulate Graph.SimulateProofs
  Graph.SimulateExamples Graph.SimulateOrder.

(* The repaired code (variant RefreshInputs), any auto-update setting: simulate does not raise, keeps the
   auto setting and the invariant of C01; [joint]: every visited variable holds the draw of its sampler
   from its seed and the FROM-SCRATCH values of its parameters under the FINAL (newly drawn) values;
   the final values of the Value nodes are the ancestral recursion (a function of the seeds and of the
   values of the Value nodes only); Value nodes that no visited distribution assigns (skipped variables,
   data, hyper-parameters) keep their values; after a following update() no node is outdated and every
   node shows its from-scratch value for the drawn values. *)
Theorem C17_ancestral :
  forall (V F S : Type) (interp : F -> list V -> V) (dflt : V) (sample : F -> S -> list V -> V -> V)
         (g : graph F), wf g ->
  forall (rs : rstate V) (order : list (dinfo F)) (skip : list nat) (seeds : list S),
  RInv V F interp dflt g rs ->
  let ds := combine (filter (selected skip) order) seeds in
  Forall (dinfo_ok F g) (map fst ds) -> Forall (tgt_value F g) (map fst ds) -> order_ok g (map fst ds) ->
  let r := simulate_lit interp dflt sample RefreshInputs g rs order skip seeds in
  let fin := vals (cur (fst r)) in
  snd r = false
  /\ RInv V F interp dflt g (fst r)
  /\ auto (cur (fst r)) = auto (cur rs)
  /\ joint interp dflt sample g ds (vals (cur rs)) fin
  /\ agreeV V F dflt g fin (ancestral interp dflt sample g (vals (cur rs)) ds)
  /\ (forall k n, nth_error g k = Some n -> kd n = KValue ->
        (forall p, In p ds -> d_tgt (fst p) <> k) -> getv dflt fin k = getv dflt (vals (cur rs)) k)
  /\ (let rs2 := st' (step interp dflt g (fst r) (Update [])) in
      agreeV V F dflt g (vals (cur rs2)) fin
      /\ forall k, k < length g ->
           outdated g (cur rs2) k = false
           /\ value interp dflt g (cur rs2) k = denote interp dflt g fin k).
Proof. exact simulate_spec. Qed.
Print Assumptions C17_ancestral.

(* states reached from a freshly built model by any history of public operations satisfy RInv *)
Theorem C17_reachable_RInv :
  forall (V F : Type) (interp : F -> list V -> V) (dflt : V) (g : graph F), wf g ->
  forall (ext0 : list V) (ops : list (op V)),
  RInv V F interp dflt g (run interp dflt g ops (init interp dflt g ext0)).
Proof. exact reach_RInv. Qed.
Print Assumptions C17_reachable_RInv.

(* the result is determined by the seeds and the values of the Value nodes: two start states that agree
   on the Value nodes (different auto-update settings, different stale cached values) give the same
   drawn values *)
Theorem C17_seed_determined :
  forall (V F S : Type) (interp : F -> list V -> V) (dflt : V) (sample : F -> S -> list V -> V -> V)
         (g : graph F), wf g ->
  forall (rs1 rs2 : rstate V) (order : list (dinfo F)) (skip : list nat) (seeds : list S),
  RInv V F interp dflt g rs1 -> RInv V F interp dflt g rs2 ->
  agreeV V F dflt g (vals (cur rs1)) (vals (cur rs2)) ->
  let ds := combine (filter (selected skip) order) seeds in
  Forall (dinfo_ok F g) (map fst ds) -> Forall (tgt_value F g) (map fst ds) ->
  agreeV V F dflt g
    (vals (cur (fst (simulate_lit interp dflt sample RefreshInputs g rs1 order skip seeds))))
    (vals (cur (fst (simulate_lit interp dflt sample RefreshInputs g rs2 order skip seeds)))).
Proof. exact simulate_determined. Qed.
Print Assumptions C17_seed_determined.

(* the ancestral recursion alone (no hypothesis on the visiting order) *)
Theorem C17_joint_of_valid_order :
  forall (V F S : Type) (interp : F -> list V -> V) (dflt : V) (sample : F -> S -> list V -> V -> V)
         (g : graph F), wf g ->
  forall (ds : list (dinfo F * S)) (now : list V),
  order_ok g (map fst ds) -> Forall (fun p => d_tgt (fst p) < length now) ds ->
  joint interp dflt sample g ds now (ancestral interp dflt sample g now ds).
Proof. exact joint_ancestral. Qed.
Print Assumptions C17_joint_of_valid_order.

(* auto-update on and nothing outdated: the variant as found before c4425c9 coincides with the repaired one *)
Theorem C17_auto_on_no_refresh :
  forall (V F S : Type) (interp : F -> list V -> V) (dflt : V) (sample : F -> S -> list V -> V -> V)
         (g : graph F), wf g ->
  forall (rs : rstate V) (order : list (dinfo F)) (skip : list nat) (seeds : list S),
  RInv V F interp dflt g rs -> auto (cur rs) = true -> clean V F g (cur rs) ->
  simulate_lit interp dflt sample NoRefresh g rs order skip seeds
  = simulate_lit interp dflt sample RefreshInputs g rs order skip seeds.
Proof. exact simulate_auto_on. Qed.
Print Assumptions C17_auto_on_no_refresh.

(* defect F6 (variant as found, auto-update off, intermediate cached node): all hypotheses of
   C17_ancestral hold of graph A, the child is drawn from the stale parent-derived value *)
Theorem C17_stale_refuted :
  let ds := combine (filter (selected []) [DX; DY]) [1; 2] in
  let r := simulate_lit exi 0 exsample NoRefresh gA rsA_off [DX; DY] [] [1; 2] in
  snd r = false
  /\ getv 0 (vals (cur (fst r))) 5 = 282
  /\ ~ joint exi 0 exsample gA ds (vals (cur rsA_off)) (vals (cur (fst r))).
Proof. exact stale_witness. Qed.
Print Assumptions C17_stale_refuted.

(* a visited variable whose value node has no setter (weak Var): simulate raises after refreshing the
   inputs of that distribution, later variables are not drawn *)
Theorem C17_error :
  forall (V F S : Type) (interp : F -> list V -> V) (dflt : V) (sample : F -> S -> list V -> V -> V)
         (g : graph F) (R : refresh) (rs : rstate V) (d : dinfo F) (sd : S) (ds : list (dinfo F * S)),
  ~ tgt_value F g d ->
  let r := sim_loop_lit interp dflt sample R g rs ((d, sd) :: ds) in
  snd r = true /\ fst r = refreshed (lit interp dflt) R g rs d.
Proof. exact sim_error. Qed.
Print Assumptions C17_error.

(* what the correspondence shards execute (table-driven instance) is the literal model *)
Theorem C17_memo_is_lit :
  forall (V F S : Type) (interp : F -> list V -> V) (dflt : V) (sample : F -> S -> list V -> V -> V)
         (g : graph F), wf g ->
  forall (R : refresh) (ds : list (dinfo F * S)) (rs : rstate V), RInv V F interp dflt g rs ->
  sim_loop_memo interp dflt sample R g rs ds = sim_loop_lit interp dflt sample R g rs ds.
Proof. exact sim_memo_lit. Qed.
Print Assumptions C17_memo_is_lit.

(* shapes: the drawn array has shape sample_shape ++ batch_shape ++ event_shape with
   sample_shape = value_shape[: len(value_shape) - len(batch_shape) - len(event_shape)]; this is the shape
   of the current value exactly when the current value ends in batch_shape ++ event_shape *)
Theorem C17_shape_preserved : forall vs b e : list nat,
  sample_shape vs b e ++ b ++ e = vs <-> exists pre, vs = pre ++ b ++ e.
Proof. exact shape_preserved. Qed.
Print Assumptions C17_shape_preserved.

(* shapes, for ANY reachable entry state (auto-update off, outdated cached parameters that still hold values
   of other shapes, ...): with tfp's sampler decomposed as the code uses it - sample shape
   value_shape[: len(value_shape) - len(batch_shape) - len(event_shape)] taken from the value current at the
   draw and from the distribution built on the REFRESHED parameters - and tfp's law
   shape(sample(sh, seed)) = sh ++ batch_shape ++ event_shape, simulate does not raise and every visited
   variable whose current value ends in batch_shape ++ event_shape of its distribution at the newly drawn
   values of its ancestors keeps the shape of its current value ([shapes_kept]) *)
Theorem C17_shape_preserved_stale :
  forall (V F S : Type) (interp : F -> list V -> V) (dflt : V) (g : graph F)
         (shape_of : V -> list nat) (bshape : F -> list V -> list nat) (eshape : F -> list nat)
         (draw : F -> S -> list V -> list nat -> V),
  (forall f sd ps sh, shape_of (draw f sd ps sh) = sh ++ bshape f ps ++ eshape f) ->
  wf g ->
  forall (rs : rstate V) (order : list (dinfo F)) (skip : list nat) (seeds : list S),
  RInv V F interp dflt g rs ->
  let ds := combine (filter (selected skip) order) seeds in
  Forall (dinfo_ok F g) (map fst ds) -> Forall (tgt_value F g) (map fst ds) -> order_ok g (map fst ds) ->
  let r := simulate_lit interp dflt (tfp_sample shape_of bshape eshape draw) RefreshInputs g rs order skip seeds in
  snd r = false
  /\ shapes_kept V F S interp dflt g shape_of bshape eshape draw ds (vals (cur rs)) (vals (cur (fst r))).
Proof. exact simulate_shapes. Qed.
Print Assumptions C17_shape_preserved_stale.

(* sample shapes hoisted out of the drawing loop (computed from the values shown at entry): on graph A in
   shape semantics, auto-update off, x and y assigned vectors of length 3 without update (the cached c
   between them still a scalar), y goes from (3,) to (3, 3); on the updated entry state the variants agree *)
Theorem C17_hoisted_shape_refuted :
  (let r := simulate_hoisted sh_id sh_bshape sh_eshape sh_draw [] (lit shi []) (values_all shi [])
                             gA rsS_stale [DX; DY] [] [0; 0] in
   snd r = false /\ getv [] (vals (cur (fst r))) 1 = [3] /\ getv [] (vals (cur (fst r))) 5 = [3; 3])
  /\ simulate_hoisted sh_id sh_bshape sh_eshape sh_draw [] (lit shi []) (values_all shi [])
                      gA rsS_fresh [DX; DY] [] [0; 0]
     = simulate_lit shi [] sh_sample RefreshInputs gA rsS_fresh [DX; DY] [] [0; 0].
Proof. exact hoisted_witness. Qed.
Print Assumptions C17_hoisted_shape_refuted.

Example C17_example_shapes_hypotheses :
  let ds := combine (filter (selected []) [DX; DY]) [0; 0] in
  wf gA /\ RInv (list nat) nat shi [] gA rsS_stale
  /\ (exists k, outdated gA (cur rsS_stale) k = true)
  /\ Forall (dinfo_ok nat gA) (map fst ds) /\ Forall (tgt_value nat gA) (map fst ds)
  /\ order_ok gA (map fst ds)
  /\ (forall f sd ps sh, sh_id (sh_draw f sd ps sh) = sh ++ sh_bshape f ps ++ sh_eshape f).
Proof. exact exS_hyps. Qed.
Print Assumptions C17_example_shapes_hypotheses.

Example C17_example_shapes_kept :
  let r := simulate_lit shi [] sh_sample RefreshInputs gA rsS_stale [DX; DY] [] [0; 0] in
  snd r = false /\ getv [] (vals (cur (fst r))) 1 = [3] /\ getv [] (vals (cur (fst r))) 5 = [3].
Proof. exact exS_kept. Qed.
Print Assumptions C17_example_shapes_kept.

(* the visiting order: fix 94cdd67.  Without the edge Dist -> value node, y before x is a topological
   order of the simulation graph of graph B (a Calc reads Var.value_node directly); it is not a valid
   order and the repaired simulate (auto-update on) draws y from the old x.  With the edge it is excluded. *)
Theorem C17_order_refuted :
  sim_topob (esB false) 10 [7; 3] = true
  /\ order_okb gB [DY; DX] = false
  /\ (let ds := combine [DY; DX] [1; 2] in
      let r := sim_loop_lit exi 0 exsample RefreshInputs gB rsB_on ds in
      snd r = false /\ ~ joint exi 0 exsample gB ds (vals (cur rsB_on)) (vals (cur (fst r))))
  /\ sim_topob (esB true) 10 [7; 3] = false
  /\ sim_topob (esB true) 10 [3; 7] = true
  /\ order_okb gB [DX; DY] = true.
Proof. exact order_witness. Qed.
Print Assumptions C17_order_refuted.

(* the visiting order of the code: if the visited distributions come in an order that a topological order
   of the code's simulation graph (input edges, at -> Dist reversed, plus Dist -> value node behind a
   VarValue proxy: fix 94cdd67) induces, the order is valid - for hierarchical models in which no
   parameter is the evaluation point, no variable is drawn twice and no parameter depends on a Dist node *)
Theorem C17_sim_graph_order :
  forall (F : Type) (g : graph F), wf g ->
  forall dists : list (dinfo F), forallb (dinfo_okb g) dists = true ->
  forall act : list (dinfo F),
  (forall d, In d act -> In d dists) ->
  (forall d p, In d act -> In p (d_params d) -> p <> d_at d) ->
  (forall d p q, In d act -> In p (d_params d) -> isdist F dists q -> reaches g q p = false) ->
  (forall d p, In d act -> In p (d_params d) -> reaches g (d_tgt d) p = false) ->
  NoDup (map d_tgt act) ->
  sim_topo (sim_edges true g dists) (length g + 2) (map d_node act) -> order_ok g act.
Proof. exact sim_topo_order_ok. Qed.
Print Assumptions C17_sim_graph_order.

Example C17_example_sim_graph :
  let dists := [DX; DY] in let act := [DX; DY] in
  wf gB /\ forallb (dinfo_okb gB) dists = true
  /\ (forall d, In d act -> In d dists)
  /\ (forall d p, In d act -> In p (d_params d) -> p <> d_at d)
  /\ (forall d p q, In d act -> In p (d_params d) -> isdist nat dists q -> reaches gB q p = false)
  /\ (forall d p, In d act -> In p (d_params d) -> reaches gB (d_tgt d) p = false)
  /\ NoDup (map d_tgt act)
  /\ sim_topo (sim_edges true gB dists) (length gB + 2) (map d_node act).
Proof. exact exB_sim_hyps. Qed.
Print Assumptions C17_example_sim_graph.

(* a parameter computed from the log-probability node of another variable: the simulation graph of the
   code (with the 94cdd67 edges) admits the order y, x, which is not valid - see notes/C17.md *)
Theorem C17_logprob_param_refuted :
  wfb gC = true /\ forallb (dinfo_okb gC) [CX; C2; CY] = true
  /\ sim_topob (sim_edges true gC [CX; C2; CY]) 11 [8; 3] = true
  /\ order_okb gC [CY; CX] = false
  /\ (let ds := combine [CY; CX] [1; 2] in
      let r := sim_loop_lit exi 0 exsample RefreshInputs gC rsC_on ds in
      snd r = false /\ ~ joint exi 0 exsample gC ds (vals (cur rsC_on)) (vals (cur (fst r)))).
Proof. exact logprob_witness. Qed.
Print Assumptions C17_logprob_param_refuted.

(* non-vacuity: the hypotheses of C17_ancestral hold of graph A with auto-update off; the repaired variant
   draws x = 111, refreshes c = 117 and draws y = 1372 from it; skipping y by the name of its proxy *)
Example C17_example_hypotheses :
  let ds := combine (filter (selected []) [DX; DY]) [1; 2] in
  wf gA /\ RInv nat nat exi 0 gA rsA_off /\ auto (cur rsA_off) = false
  /\ Forall (dinfo_ok nat gA) (map fst ds) /\ Forall (tgt_value nat gA) (map fst ds)
  /\ order_ok gA (map fst ds) /\ ds <> [].
Proof. exact exA_hyps. Qed.
Print Assumptions C17_example_hypotheses.

Example C17_example_refresh :
  let r := simulate_lit exi 0 exsample RefreshInputs gA rsA_off [DX; DY] [] [1; 2] in
  snd r = false /\ getv 0 (vals (cur (fst r))) 1 = 111 /\ getv 0 (vals (cur (fst r))) 5 = 1372
  /\ denote exi 0 gA (vals (cur (fst r))) 4 = 117.
Proof. exact exA_refresh. Qed.
Print Assumptions C17_example_refresh.

Example C17_example_skip :
  let r := simulate_lit exi 0 exsample RefreshInputs gA rsA_off [DX; DY] [6] [1; 2] in
  snd r = false /\ getv 0 (vals (cur (fst r))) 1 = 111 /\ getv 0 (vals (cur (fst r))) 5 = 3.
Proof. exact exA_skip. Qed.
Print Assumptions C17_example_skip.

(* the boolean order checker run by the correspondence (result code 9 of CorrC17.v) accepts a visiting order
   exactly when the order meets the hypothesis [order_ok] of the theorems above: a rejected order is one the
   theorems do not cover, an accepted one is covered (Graph/SimulateOrder.v) *)
Theorem C17_order_checker_exact : forall F (g : graph F), wf g ->
  forall act, order_okb g act = true <-> order_ok g act.
Proof. intros F g W act. exact (order_okb_iff g W act). Qed.
Print Assumptions C17_order_checker_exact.

(* likewise the per-case test that the node simulate assigns is a Value node *)
Theorem C17_target_checker_exact : forall F (g : graph F) d, tgt_valueb g d = true <-> tgt_value F g d.
Proof. intros F g d. exact (tgt_valueb_iff g d). Qed.
Print Assumptions C17_target_checker_exact.
