(* C14 - transforming a variable preserves the model (change of variables). *)
From Coq Require Import Reals List Bool String.
From Coquelicot Require Import Coquelicot.
From LV Require Import Analytic.Bijector Analytic.BijectorProofs.
Import ListNotations.
Open Scope R_scope.

(* All three entry points (Var.transform with an instance / a class with arguments / the default,
   and the deprecated GraphBuilder.transform), for every distribution family D, all current
   distribution inputs p and bijector inputs a, every lawful bijector b the specification resolves
   to and every t: the new variable's log-density at t is the original log-density at b(t) plus
   ln |b'(t)|, and the original variable's value is b(t), inside the support. *)
Theorem C14_change_of_variables :
  forall (P A : Type) (D : P -> dist_inst) (pa : path) (bs : bij_spec A) p0 a0 v0 p a t b T X,
  resolve D bs p a = Some b -> lawful b T X -> T t ->
  exists d, is_derive (fwd b) t d /\ d <> 0
    /\ r_logpdf (transform_by pa D bs p0 a0 v0) p a t = Some (d_logpdf (D p) (fwd b t) + ln (Rabs d))
    /\ r_value (transform_by pa D bs p0 a0 v0) p a t = Some (fwd b t)
    /\ X (fwd b t).
Proof. exact @change_of_variables. Qed.
Print Assumptions C14_change_of_variables.

Theorem C14_value_preserved :
  forall (P A : Type) (D : P -> dist_inst) (pa : path) (bs : bij_spec A) p0 a0 v0 b T X,
  resolve D bs p0 a0 = Some b -> lawful b T X -> X v0 ->
  exists t0, r_init (transform_by pa D bs p0 a0 v0) = Some t0 /\ T t0 /\ t0 = inv b v0
    /\ r_value (transform_by pa D bs p0 a0 v0) p0 a0 t0 = Some v0.
Proof. exact @value_preserved. Qed.
Print Assumptions C14_value_preserved.

Theorem C14_initial_logpdf :
  forall (P A : Type) (D : P -> dist_inst) (pa : path) (bs : bij_spec A) p0 a0 v0 b T X,
  resolve D bs p0 a0 = Some b -> lawful b T X -> X v0 ->
  r_logpdf (transform_by pa D bs p0 a0 v0) p0 a0 (inv b v0) = Some (d_logpdf (D p0) v0 - ildj b v0).
Proof. exact @initial_logpdf. Qed.
Print Assumptions C14_initial_logpdf.

Theorem C14_model_log_prob :
  forall (P A : Type) (D : P -> dist_inst) (pa : path) (bs : bij_spec A) others p0 a0 v0 p a t b T X,
  resolve D bs p a = Some b -> lawful b T X -> T t ->
  exists d, is_derive (fwd b) t d /\ d <> 0 /\
    model_lp_after others (transform_by pa D bs p0 a0 v0) p a t
    = Some (model_lp_before others (D p) (fwd b t) + ln (Rabs d)).
Proof. exact @model_log_prob_shift. Qed.
Print Assumptions C14_model_log_prob.

Theorem C14_three_paths_agree :
  forall (P A : Type) (D : P -> dist_inst) (bs : bij_spec A) p0 a0 v0 p a t,
  r_init (transform_by PVar D bs p0 a0 v0) = r_init (transform_by PDeprecated D bs p0 a0 v0)
  /\ r_logpdf (transform_by PVar D bs p0 a0 v0) p a t = r_logpdf (transform_by PDeprecated D bs p0 a0 v0) p a t
  /\ r_value (transform_by PVar D bs p0 a0 v0) p a t = r_value (transform_by PDeprecated D bs p0 a0 v0) p a t.
Proof. exact @three_paths_agree. Qed.
Print Assumptions C14_three_paths_agree.

Theorem C14_spec_forms_agree :
  forall (P A : Type) (D : P -> dist_inst) (pa : path) (b : bijector) p0 a0 v0 p a t,
  d_default (D p) = Some b -> d_default (D p0) = Some b ->
  let r1 := transform_by pa D (BInst b) p0 a0 v0 in
  let r2 := transform_by pa D (BCls (fun _ : A => b)) p0 a0 v0 in
  let r3 := transform_by pa D BDefault p0 a0 v0 in
  r_init r1 = r_init r2 /\ r_init r1 = r_init r3
  /\ r_logpdf r1 p a t = r_logpdf r2 p a t /\ r_logpdf r1 p a t = r_logpdf r3 p a t
  /\ r_value r1 p a t = r_value r2 p a t /\ r_value r1 p a t = r_value r3 p a t.
Proof. exact @spec_forms_agree. Qed.
Print Assumptions C14_spec_forms_agree.

Theorem C14_no_default_raises :
  forall (P A : Type) (D : P -> dist_inst) (pa : path) (bs : bij_spec A) p0 a0 v0 p a t,
  resolve D bs p a = None ->
  r_logpdf (transform_by pa D bs p0 a0 v0) p a t = None /\ r_value (transform_by pa D bs p0 a0 v0) p a t = None.
Proof. exact @paths_none. Qed.
Print Assumptions C14_no_default_raises.

(* flags: parameter moves to the new variable, the original keeps no distribution and is weak *)
Theorem C14_flags : forall k v v' tv,
  var_transform_s k v = inr (v', tv) \/ gb_transform_s k v = inr (v', tv) ->
  flags_ok v v' tv /\ v_weak v = false /\ v_has_dist v = true.
Proof. exact flags. Qed.
Print Assumptions C14_flags.

Theorem C14_transform_accepts : forall k v,
  v_weak v = false -> v_has_dist v = true ->
  (k = KInst false \/ k = KCls true \/ (k = KDefault /\ v_default v = true)) ->
  var_transform_s k v = inr (orig_after v, new_var v) /\ gb_transform_s k v = inr (orig_after v, new_var v).
Proof. exact transform_accepts. Qed.
Print Assumptions C14_transform_accepts.

Theorem C14_transform_refuses : forall k v,
  (v_weak v = true -> var_transform_s k v = inl EWeak /\ gb_transform_s k v = inl EWeak)
  /\ (v_weak v = false -> v_has_dist v = false ->
        var_transform_s k v = inl ENoDist /\ gb_transform_s k v = inl ENoDist)
  /\ (v_weak v = false -> v_has_dist v = true -> v_default v = false ->
        var_transform_s KDefault v = inl ENoDefault /\ gb_transform_s KDefault v = inl ENoDefault)
  /\ (v_weak v = false -> v_has_dist v = true ->
        var_transform_s (KInst true) v = inl EInstArgs /\ gb_transform_s (KInst true) v = inl EInstArgs
        /\ var_transform_s (KCls false) v = inl EClsNoArgs).
Proof. exact transform_refuses. Qed.
Print Assumptions C14_transform_refuses.

(* build_model applies the default path to exactly the variables with auto_transform and clears the flag *)
Theorem C14_auto_transform : forall vs out,
  build_model_s vs = inr out ->
  out = flat_map expand vs
  /\ forallb (fun w => negb (v_auto w)) out = true
  /\ (forall v, In v vs -> v_auto v = false -> In v out)
  /\ (forall v, In v vs -> v_auto v = true ->
        In (orig_after v) out /\ In (new_var v) out /\ flags_ok v (orig_after v) (new_var v)
        /\ var_transform_s KDefault v = inr (orig_after v, new_var v))
  /\ (forall w, In w out -> exists v, In v vs /\
        (w = v /\ v_auto v = false \/ v_auto v = true /\ (w = orig_after v \/ w = new_var v)))
  /\ nodupb (map v_name out) = true.
Proof. exact auto_transform. Qed.
Print Assumptions C14_auto_transform.

Theorem C14_auto_transform_fails : forall vs,
  auto_ready vs = false -> exists e, build_model_s vs = inl e.
Proof. exact auto_transform_fails. Qed.
Print Assumptions C14_auto_transform_fails.

(* lawfulness instances: tfp's Identity, Exp, Softplus, Sigmoid, Scale, Shift, Reciprocal, Chain, and
   the default event-space bijectors of InverseGamma (Reciprocal o Softplus) and HalfCauchy (Shift o Exp) *)
Theorem C14_lawful_instances :
  lawful bIdentity all_R all_R
  /\ lawful bExp all_R pos_R
  /\ lawful bSoftplus all_R pos_R
  /\ lawful bSigmoid all_R unit_R
  /\ (forall c, c <> 0 -> lawful (bScale c) all_R all_R)
  /\ (forall c, 0 < c -> lawful (bScale c) pos_R pos_R)
  /\ (forall s, lawful (bShift s) all_R all_R)
  /\ lawful bReciprocal pos_R pos_R
  /\ (forall h, 0 < h -> lawful (bSoftplusH h) all_R pos_R)
  /\ (forall lo hi, lo < hi -> lawful (bSigmoidLH lo hi) all_R (between lo hi))
  /\ (forall b1 b2 T M X, lawful b2 T M -> lawful b1 M X -> lawful (Chain b1 b2) T X)
  /\ lawful bRecipSoftplus all_R pos_R
  /\ (forall loc, lawful (bShiftExp loc) all_R (above loc)).
Proof. exact lawful_instances. Qed.
Print Assumptions C14_lawful_instances.

(* chained transformations: the new variable is transformed again (any number of links, any mix of
   entry points and argument forms).  ls / args / bs are listed newest first; compose bs maps the newest
   variable to the original one.  Every variable of the chain is the image of the newest one under the
   composed forwards, the newest log-density is the original one at the composed image plus ln|(compose)'|
   (= the sum of the links' log-Jacobians, C14_lawful_compose). *)
Theorem C14_chained_change_of_variables :
  forall (P A : Type) (D : P -> dist_inst) (ls : list (@link A)) p args bs T X t,
  chain_resolve D ls p args = Some bs -> lawful_list bs T X -> T t ->
  exists d, is_derive (fwd (compose bs)) t d /\ d <> 0
    /\ chain_logpdf D ls p args t = Some (d_logpdf (D p) (fwd (compose bs) t) + ln (Rabs d))
    /\ chain_up D ls p args t = Some (images bs t)
    /\ last (images bs t) t = fwd (compose bs) t
    /\ X (fwd (compose bs) t).
Proof. exact @chained_change_of_variables. Qed.
Print Assumptions C14_chained_change_of_variables.

Theorem C14_chained_value_preserved :
  forall (P A : Type) (D : P -> dist_inst) (ls : list (@link A)) p args bs T X v0,
  chain_resolve D ls p args = Some bs -> lawful_list bs T X -> X v0 ->
  exists t0, chain_init D ls p args v0 = Some t0 /\ T t0 /\ t0 = inv (compose bs) v0
    /\ chain_up D ls p args t0 = Some (images bs t0)
    /\ last (images bs t0) t0 = v0.
Proof. exact @chained_value_preserved. Qed.
Print Assumptions C14_chained_value_preserved.

Theorem C14_lawful_compose : forall bs T X, lawful_list bs T X -> lawful (compose bs) T X.
Proof. exact lawful_compose. Qed.
Print Assumptions C14_lawful_compose.

Theorem C14_chained_no_default_raises :
  forall (P A : Type) (D : P -> dist_inst) (ls : list (@link A)) p args t,
  List.length ls = List.length args -> chain_resolve D ls p args = None -> chain_logpdf D ls p args t = None.
Proof. exact @chain_none. Qed.
Print Assumptions C14_chained_no_default_raises.

Theorem C14_chained_flags : forall ks v l,
  chain_s ks v = inr l ->
  exists front newest, l = front ++ [newest]
    /\ List.length front = List.length ks
    /\ v_parameter newest = v_parameter v
    /\ (ks <> [] -> v_has_dist newest = true /\ v_weak newest = false /\ v_auto newest = false)
    /\ List.Forall (fun w => v_parameter w = false /\ v_has_dist w = false /\ v_weak w = true /\ v_auto w = false) front.
Proof. exact chained_flags. Qed.
Print Assumptions C14_chained_flags.

(* code variant of model.py:_transform_back (deprecated path).  Proxy = repaired (the original reads the new
   VARIABLE), RawNode = as found (it reads the value node the new variable had at that moment, which is
   orphaned when the new variable is transformed again).  The repaired variant is the chain_up of the
   theorems above; the variants coincide unless a variable created by the deprecated method is transformed
   again; the as-found variant is refuted. *)
Theorem C14_chain_up_proxy :
  forall (P A : Type) (D : P -> dist_inst) (ls : list (@link A)) newest p0 args0 v0 p args t,
  List.length args0 = List.length args ->
  chain_up_v D Proxy newest ls p0 args0 v0 p args t = chain_up D ls p args t.
Proof. exact @chain_up_proxy. Qed.
Print Assumptions C14_chain_up_proxy.

Theorem C14_variants_agree_unless_rechained :
  forall (P A : Type) (D : P -> dist_inst) (l : @link A) (older : list (@link A)) p0 args0 v0 p args t,
  List.length args0 = List.length args ->
  List.Forall (fun l => l_path l = PVar) older ->
  chain_up_v D RawNode true (l :: older) p0 args0 v0 p args t = chain_up D (l :: older) p args t.
Proof. exact @variants_agree_unless_rechained. Qed.
Print Assumptions C14_variants_agree_unless_rechained.

(* defect F-C14-dep-chain (repaired by /repo commit b548a17): Gamma(2, 1), value 3, GraphBuilder.transform with
   Exp() and then with Scale(2): after assigning the newest variable 1/4 the original stays at 3 <> exp(1/2) *)
Theorem C14_dep_chain_rawnode_refuted :
  exists (ls : list (@link unit)) p args v0 t bs vals,
    chain_resolve dGamma ls p args = Some bs
    /\ lawful_list bs all_R pos_R
    /\ pos_R v0
    /\ chain_up_v dGamma RawNode true ls p args v0 p args t = Some vals
    /\ last vals t = v0
    /\ last vals t <> fwd (compose bs) t
    /\ chain_up_v dGamma Proxy true ls p args v0 p args t = Some (images bs t).
Proof. exact dep_chain_rawnode_refuted. Qed.
Print Assumptions C14_dep_chain_rawnode_refuted.

(* refused calls and continued use: a refused transform hands out no variable and leaves name, parameter /
   observed flags, distribution and strength as they were (only auto_transform may have been switched off);
   after any number of refused calls an acceptable call has exactly the outcome it has on a fresh variable *)
Theorem C14_refused_transform_is_noop : forall vp k v e,
  transform_s vp k v = inl e ->
  attempt_s vp k v = (refusal_state vp e v, None) /\ same_but_auto (refusal_state vp e v) v.
Proof. exact refused_transform_is_noop. Qed.
Print Assumptions C14_refused_transform_is_noop.

Theorem C14_rejected_then_correct : forall ks v v1 vp k v' tv,
  history_s ks v = (v1, None) ->
  transform_s vp k v = inr (v', tv) ->
  history_s (ks ++ [(vp, k)]) v = (v', Some tv)
  /\ transform_s vp k v1 = inr (v', tv)
  /\ flags_ok v v' tv.
Proof. exact rejected_then_correct. Qed.
Print Assumptions C14_rejected_then_correct.

(* the hypotheses are satisfiable *)
Example C14_ex_change_of_variables :
  exists d, is_derive (fwd bRecipSoftplus) (1 / 2) d /\ d <> 0
    /\ r_logpdf (transform_by PDeprecated dInvGamma (@BDefault unit) (3, 2, ln 2) tt 1) (5, 7, ln 24) tt (1 / 2)
       = Some (invgamma_logpdf 5 7 (ln 24) (/ softplus (1 / 2)) + ln (Rabs d))
    /\ r_value (transform_by PDeprecated dInvGamma (@BDefault unit) (3, 2, ln 2) tt 1) (5, 7, ln 24) tt (1 / 2)
       = Some (/ softplus (1 / 2))
    /\ pos_R (/ softplus (1 / 2)).
Proof. exact ex_change_of_variables. Qed.

Example C14_ex_model_dependent_default : forall loc t,
  exists d, is_derive (fwd (bShiftExp loc)) t d /\ d <> 0
    /\ r_logpdf (transform_by PVar dHalfCauchy (@BDefault unit) (0, 2) tt 1) (loc, 2) tt t
       = Some (halfcauchy_logpdf loc 2 (exp t + loc) + ln (Rabs d))
    /\ r_value (transform_by PVar dHalfCauchy (@BDefault unit) (0, 2) tt 1) (loc, 2) tt t = Some (exp t + loc)
    /\ above loc (exp t + loc).
Proof. exact ex_model_dependent_default. Qed.

Example C14_ex_class_with_var_argument : forall a t, 0 < a -> 0 < t ->
  exists d, is_derive (fwd (bScale a)) t d /\ d <> 0
    /\ r_logpdf (transform_by PVar dGamma (BCls (fun a => bScale a)) (3, 2, ln 2) 1 1) (3, 2, ln 2) a t
       = Some (gamma_logpdf 3 2 (ln 2) (a * t) + ln (Rabs d))
    /\ r_value (transform_by PVar dGamma (BCls (fun a => bScale a)) (3, 2, ln 2) 1 1) (3, 2, ln 2) a t = Some (a * t)
    /\ pos_R (a * t).
Proof. exact ex_class_with_var_argument. Qed.

Example C14_ex_value_preserved :
  exists t0, r_init (transform_by PVar dBeta (@BInst unit bSigmoid) (3, 2, ln (1 / 12)) tt (1 / 4)) = Some t0
    /\ all_R t0 /\ t0 = ln (1 / 4) - ln (1 - 1 / 4)
    /\ r_value (transform_by PVar dBeta (@BInst unit bSigmoid) (3, 2, ln (1 / 12)) tt (1 / 4))
         (3, 2, ln (1 / 12)) tt t0 = Some (1 / 4).
Proof. exact ex_value_preserved. Qed.

Example C14_ex_flags :
  var_transform_s (KCls true) ex_sigma
  = inr (mkVar "sigma" false false false true false false,
         mkVar "sigma_transformed" true false true false false true).
Proof. exact ex_flags. Qed.

Example C14_ex_auto_transform :
  build_model_s [ex_sigma; ex_mu; ex_y]
  = inr [mkVar "sigma" false false false true false false;
         mkVar "sigma_transformed" true false true false false true; ex_mu; ex_y].
Proof. exact ex_auto_transform. Qed.

Example C14_ex_auto_transform_name_clash :
  build_model_s [ex_sigma; mkVar "sigma_transformed" false false false false false false] = inl EDupName.
Proof. exact ex_auto_transform_name_clash. Qed.

Example C14_ex_chained :
  exists d, is_derive (fwd (compose [bScale 2; bExp])) (1 / 4) d /\ d <> 0
    /\ chain_logpdf dGamma [mkLink PVar (@BInst unit (bScale 2)); mkLink PVar (BInst bExp)] (2, 1, ln 1) [tt; tt] (1 / 4)
       = Some (gamma_logpdf 2 1 (ln 1) (exp (2 * (1 / 4))) + ln (Rabs d))
    /\ chain_up dGamma [mkLink PVar (@BInst unit (bScale 2)); mkLink PVar (BInst bExp)] (2, 1, ln 1) [tt; tt] (1 / 4)
       = Some [2 * (1 / 4); exp (2 * (1 / 4))]
    /\ last [2 * (1 / 4); exp (2 * (1 / 4))] (1 / 4) = exp (2 * (1 / 4))
    /\ pos_R (exp (2 * (1 / 4))).
Proof. exact ex_chained. Qed.

Example C14_ex_chained_default :
  chain_resolve dGamma [mkLink PVar (@BDefault unit); mkLink PVar (BInst bExp)] (2, 1, ln 1) [tt; tt]
  = Some [Chain (Invert bExp) bSoftplus; bExp].
Proof. exact ex_chained_default. Qed.

Example C14_ex_chained_flags :
  chain_s [(true, KInst false); (true, KCls true)] ex_sigma
  = inr [mkVar "sigma" false false false true false false;
         mkVar "sigma_transformed" false false false true false false;
         mkVar "sigma_transformed_transformed" true false true false false true].
Proof. exact ex_chained_flags. Qed.

Example C14_ex_rejected_then_correct :
  history_s [(true, KInst true); (true, KClsBad); (true, KOther); (true, KCls false); (false, KOther);
             (true, KCls true)] ex_sigma
  = (mkVar "sigma" false false false true false false,
     Some (mkVar "sigma_transformed" true false true false false true)).
Proof. exact ex_rejected_then_correct. Qed.
