(* C09 - kernels compose blockwise and keep the model state coherent.
   Model: Graph/Blockwise.v on top of the C01 graph machine Graph/Graph.v:
     pst            the model-state pytree (stored values pv, reported outdated flags pf)
     update_state   LieselInterface.update_state line by line (private copy [internal] arbitrary)
     ktransition    one kernel: KMH = mh_step (RW, IWLS, MH kernels), KAlways = unconditional write-back
                    (Gibbs, NUTS, HMC); the proposal (position, accept) is an arbitrary oracle of the
                    kernel index and the state the kernel receives
     seq_from / seq_transition   KernelSequence.transition;   iterate   the engine's scan
   [good g st]: lengths fit, no flag is raised, every cached node stores the value recomputed from the stored
   Value-node values.  Everything is for every value type V, function symbols F, meaning interp, every
   well-formed graph g, every oracle, every content of the private model copy. *)
From Coq Require Import List Bool Arith.
Import ListNotations.
From LV Require Import Graph.Graph Graph.GraphProofs Graph.GraphMemo Graph.Blockwise Graph.BlockwiseProofs
  Graph.BlockwiseExamples.

(* update_state on an up-to-date coherent state: raises iff a key is not a Value node, otherwise returns
   the from-scratch state over  state | position  (all derived quantities recomputed, flags down) *)
Theorem C09_update_state_spec : forall (V F : Type) (interp : F -> list V -> V) (dflt : V) (g : graph F), wf g ->
  forall (internal : mstate V) (pos : position V) (st : pst V), good V F interp dflt g st ->
  update_state (lit interp dflt) g internal pos st =
    if forallb (is_value g) (map fst pos)
    then Some (mkP (scratch interp dflt g (overlay pos (pv st))) (repeat false (length g)))
    else None.
Proof. exact update_state_eq. Qed.
Print Assumptions C09_update_state_spec.

(* after every iteration - any number of them, any accept / reject pattern, any proposals - the model
   state is coherent *)
Theorem C09_coherent_preserved : forall (V F : Type) (interp : F -> list V -> V) (dflt : V) (g : graph F), wf g ->
  forall (its : list ((nat -> mstate V) * (nat -> pst V -> proposal V))) (ks : list kernel) (st st' : pst V),
  good V F interp dflt g st -> iterate (lit interp dflt) g its ks st = Some st' ->
  good V F interp dflt g st'.
Proof. exact iterate_good. Qed.
Print Assumptions C09_coherent_preserved.

(* within an iteration every kernel receives a coherent state and the result is coherent *)
Theorem C09_sequence_coherent : forall (V F : Type) (interp : F -> list V -> V) (dflt : V) (g : graph F), wf g ->
  forall (internal : nat -> mstate V) (orc : nat -> pst V -> proposal V) (ks : list kernel) (i : nat)
         (st stf : pst V) (tr : list (pst V)),
  good V F interp dflt g st -> seq_from (lit interp dflt) g internal orc i ks st = Some (stf, tr) ->
  good V F interp dflt g stf /\ Forall (good V F interp dflt g) tr.
Proof. exact seq_from_good. Qed.
Print Assumptions C09_sequence_coherent.

(* what coherent means: no flag; every node - stored or computed on the fly, the log-probability node
   included - shows the value recomputed from the stored Value-node values *)
Theorem C09_coherent_meaning : forall (V F : Type) (interp : F -> list V -> V) (dflt : V) (g : graph F), wf g ->
  forall st : pst V, good V F interp dflt g st ->
  forall k, k < length g ->
    getb (pf st) k = false /\ pvalue interp dflt g st k = denote interp dflt g (pv st) k
    /\ (cached F g k -> getv dflt (pv st) k = denote interp dflt g (pv st) k).
Proof. exact good_coherent. Qed.
Print Assumptions C09_coherent_meaning.

(* frame: a kernel whose proposal stays inside its position keys changes no Value node outside them and no
   stored or derived quantity that is not reached from one of them; flags stay down *)
Theorem C09_frame : forall (V F : Type) (interp : F -> list V -> V) (dflt : V) (g : graph F), wf g ->
  forall (internal : mstate V) (k : kernel) (p : proposal V) (st st' : pst V),
  good V F interp dflt g st ->
  ktransition (lit interp dflt) g internal k p st = Some st' -> incl (map fst (fst p)) (keys k) ->
  (forall j n, nth_error g j = Some n -> kd n = KValue -> ~ In j (keys k) ->
      getv dflt (pv st') j = getv dflt (pv st) j)
  /\ (forall j, j < length g -> (forall i, In i (keys k) -> ~ path F g i j) ->
      getv dflt (pv st') j = getv dflt (pv st) j /\ pvalue interp dflt g st' j = pvalue interp dflt g st j)
  /\ pf st' = pf st.
Proof. exact ktransition_frame. Qed.
Print Assumptions C09_frame.

(* order: kernel 0 receives the incoming state, kernel j+1 receives exactly the state kernel j returned,
   the state after the last kernel is the result *)
Theorem C09_order : forall (V F : Type) (g : graph F) (I : impl V F)
  (internal : nat -> mstate V) (orc : nat -> pst V -> proposal V) (ks : list kernel) (i0 : nat)
  (st stf : pst V) (tr : list (pst V)),
  seq_from I g internal orc i0 ks st = Some (stf, tr) ->
  length tr = length ks /\ nth 0 tr stf = st /\
  forall j k, nth_error ks j = Some k ->
    ktransition I g (internal (i0 + j)) k (orc (i0 + j) (nth j tr stf)) (nth j tr stf)
      = Some (nth (S j) tr stf).
Proof. exact seq_from_received. Qed.
Print Assumptions C09_order.

(* the error code a kernel reports (NaN acceptance probability, NUTS "maximum tree depth", a user kernel's own
   codes) goes into the transition infos only: the loop that also carries the infos computes exactly the states
   of [seq_from], i.e. the successor starts from the state its predecessor returned whatever code it reported *)
Theorem C09_order_error_code : forall (V F : Type) (g : graph F) (I : impl V F)
  (internal : nat -> mstate V) (orc : nat -> pst V -> proposal V) (codes : nat -> pst V -> nat)
  (ks : list kernel) (i : nat) (st : pst V),
  seq_from_c I g internal orc codes i ks st =
    match seq_from I g internal orc i ks st with
    | None => None
    | Some (stf, tr) => Some (stf, tr, map (fun js => codes (i + fst js) (snd js)) (combine (seq 0 (length tr)) tr))
    end.
Proof. exact seq_from_c_states. Qed.
Print Assumptions C09_order_error_code.

(* the iteration is the left fold of the kernels *)
Theorem C09_order_fold : forall (V F : Type) (g : graph F) (I : impl V F)
  (internal : nat -> mstate V) (orc : nat -> pst V -> proposal V) (ks1 ks2 : list kernel) (i : nat) (st : pst V),
  seq_from I g internal orc i (ks1 ++ ks2) st =
    match seq_from I g internal orc i ks1 st with
    | None => None
    | Some (s1, tr1) =>
        match seq_from I g internal orc (i + length ks1) ks2 s1 with
        | None => None
        | Some (s2, tr2) => Some (s2, tr1 ++ tr2)
        end
    end.
Proof. exact seq_from_app. Qed.
Print Assumptions C09_order_fold.

(* a rejected MH-type transition returns the very state it received *)
Theorem C09_rejection_identity : forall (V F : Type) (interp : F -> list V -> V) (dflt : V) (g : graph F), wf g ->
  forall (internal : mstate V) (k : kernel) (p : proposal V) (st : pst V),
  good V F interp dflt g st -> kk k = KMH -> snd p = false ->
  forallb (is_value g) (map fst (fst p)) = true ->
  ktransition (lit interp dflt) g internal k p st = Some st.
Proof. exact rejection_identity_mh. Qed.
Print Assumptions C09_rejection_identity.

(* writing back the position extracted from the received state (a rejected HMC / NUTS step) returns it *)
Theorem C09_rejection_identity_always : forall (V F : Type) (interp : F -> list V -> V) (dflt : V) (g : graph F), wf g ->
  forall (internal : mstate V) (k : kernel) (b : bool) (st : pst V),
  good V F interp dflt g st -> forallb (is_value g) (keys k) = true ->
  ktransition (lit interp dflt) g internal k (extract_position dflt (keys k) st, b) st = Some st.
Proof. exact rejection_identity_always. Qed.
Print Assumptions C09_rejection_identity_always.

(* whatever an earlier call left in the interface's private model copy (and its auto_update) is irrelevant *)
Theorem C09_internal_independent : forall (V F : Type) (interp : F -> list V -> V) (dflt : V) (g : graph F), wf g ->
  forall (i1 i2 : mstate V) (pos : position V) (st : pst V), good V F interp dflt g st ->
  update_state (lit interp dflt) g i1 pos st = update_state (lit interp dflt) g i2 pos st.
Proof. exact update_state_internal_indep. Qed.
Print Assumptions C09_internal_independent.

(* no exception when the position keys name Value nodes and the proposals stay inside the keys *)
Theorem C09_no_error : forall (V F : Type) (interp : F -> list V -> V) (dflt : V) (g : graph F), wf g ->
  forall (internal : nat -> mstate V) (orc : nat -> pst V -> proposal V) (ks : list kernel) (i0 : nat) (st : pst V),
  good V F interp dflt g st -> keys_ok F g ks -> dom_ok V orc i0 ks ->
  exists stf tr, seq_from (lit interp dflt) g internal orc i0 ks st = Some (stf, tr).
Proof. exact seq_from_no_error. Qed.
Print Assumptions C09_no_error.

(* the state of a freshly built model, from which the engine starts, is coherent *)
Theorem C09_init_good : forall (V F : Type) (interp : F -> list V -> V) (dflt : V) (g : graph F), wf g ->
  forall ext0 : list V, good V F interp dflt g (to_pst (lit interp dflt) g (cur (init interp dflt g ext0))).
Proof. exact init_good. Qed.
Print Assumptions C09_init_good.

(* what the correspondence shards execute (table-driven instance) is the literal model, and their test
   of the hypothesis [good] is sound *)
Theorem C09_memo_is_lit : forall (V F : Type) (interp : F -> list V -> V) (dflt : V) (g : graph F), wf g ->
  forall (internal : nat -> mstate V) (orc : nat -> pst V -> proposal V) (ks : list kernel) (i : nat) (st : pst V),
  good V F interp dflt g st ->
  seq_from (memo interp dflt) g internal orc i ks st = seq_from (lit interp dflt) g internal orc i ks st.
Proof. exact seq_from_memo. Qed.
Print Assumptions C09_memo_is_lit.

Theorem C09_goodb_sound : forall (V F : Type) (interp : F -> list V -> V) (dflt : V) (g : graph F), wf g ->
  forall (veqb : V -> V -> bool), (forall a b, veqb a b = true -> a = b) ->
  forall st : pst V, goodb interp dflt veqb g st = true -> good V F interp dflt g st.
Proof. exact goodb_good. Qed.
Print Assumptions C09_goodb_sound.

(* non-vacuity: a 7-node model with a transient node, two blocks, an untouched branch *)
Example C09_example_hypotheses :
  wf bxg /\ good nat nat bxi 0 bxg bx_st0 /\ keys_ok nat bxg bx_ks /\ dom_ok nat (bx_orc true) 0 bx_ks
  /\ pv bx_st0 = [1; 2; 4; 0; 124; 7; 19].
Proof. exact bx_hyps. Qed.
Print Assumptions C09_example_hypotheses.

Example C09_example_accept :
  seq_transition (lit bxi 0) bxg bx_int (bx_orc true) bx_ks bx_st0
  = Some (mkP [3; 7; 6; 0; 159; 7; 19] (repeat false 7),
          [bx_st0; mkP [3; 2; 6; 0; 144; 7; 19] (repeat false 7)]).
Proof. exact bx_run_accept. Qed.
Print Assumptions C09_example_accept.

Example C09_example_reject :
  seq_transition (lit bxi 0) bxg bx_int (bx_orc false) bx_ks bx_st0
  = Some (mkP [1; 3; 4; 0; 127; 7; 19] (repeat false 7), [bx_st0; bx_st0]).
Proof. exact bx_run_reject. Qed.
Print Assumptions C09_example_reject.

Example C09_example_order_matters :
  option_map fst (seq_transition (lit bxi 0) bxg bx_int (bx_orc true) bx_ks bx_st0)
  <> option_map fst (seq_transition (lit bxi 0) bxg bx_int bx_orc_swapped (rev bx_ks) bx_st0).
Proof. exact bx_order_matters. Qed.
Print Assumptions C09_example_order_matters.

Example C09_example_bad_key :
  update_state (lit bxi 0) bxg (bx_int 0) [(2, 5)] bx_st0 = None.
Proof. exact bx_bad_key. Qed.
Print Assumptions C09_example_bad_key.
