(* C03 - the state-passing model interface is pure and equals direct assignment. *)
From Coq Require Import List Bool Arith.
Import ListNotations.
From LV Require Import Graph.Graph Graph.GraphProofs Graph.Iface Graph.IfaceProofs.

Theorem C03_internal_only_auto : forall (V F : Type) (I : impl V F) (g : graph F) nm (i1 i2 : mstate V) pos st,
  auto i1 = auto i2 -> update_state I g nm i1 pos st = update_state I g nm i2 pos st.
Proof. exact update_state_internal_irrel. Qed.
Print Assumptions C03_internal_only_auto.
