(* C03 - the state-passing model interface is pure and equals direct assignment.
   Model: Graph/Iface.v over the cached-graph machine Graph/Graph.v (literal instance).
   For every value type V, function symbols F, meaning interp, every well-formed graph g, every pair of
   name spaces nm (node names, variable names -> value node; the node name wins), every state [internal]
   of the interface's private model copy (in particular: after any sequence of earlier calls, and for both
   values of its auto_update flag), every position pos (list of key/value pairs, assigned in order).
   [good_state st] is the precondition the code documents: st is a complete state of this model, every
   cached node holds its from-scratch value and no node is flagged outdated. *)
From Coq Require Import List Bool Arith.
Import ListNotations.
From LV Require Import Graph.Graph Graph.GraphProofs Graph.GraphExamples Graph.Iface Graph.IfaceProofs Graph.IfaceExamples.

(* the result - and the state the private copy is left in - does not depend on the calls made before:
   for EVERY model state and position, raising calls included *)
Theorem C03_history_independent : forall (V F : Type) (interp : F -> list V -> V) (dflt : V) (g : graph F)
  (nm : names) (i0 : mstate V) (calls : list (list (nat * V) * snap V)) (pos : list (nat * V)) (st : snap V),
  update_state (lit interp dflt) g nm (run_calls (lit interp dflt) g nm i0 calls) pos st
  = update_state (lit interp dflt) g nm i0 pos st.
Proof. exact history_independent. Qed.
Print Assumptions C03_history_independent.

(* the private copy influences a call only through its auto_update flag (which no call changes) *)
Theorem C03_internal_only_auto : forall (V F : Type) (I : impl V F) (g : graph F) nm (i1 i2 : mstate V) pos st,
  auto i1 = auto i2 -> update_state I g nm i1 pos st = update_state I g nm i2 pos st.
Proof. exact update_state_internal_irrel. Qed.
Print Assumptions C03_internal_only_auto.

(* the call raises exactly when some key names neither a Value node nor a strong variable *)
Theorem C03_raises_iff : forall (V F : Type) (interp : F -> list V -> V) (dflt : V) (g : graph F)
  (nm : names) (i : mstate V) (pos : list (nat * V)) (st : snap V),
  snd (update_state (lit interp dflt) g nm i pos st) = None <-> pos_ok g nm (map fst pos) = false.
Proof. exact update_state_raises_iff. Qed.
Print Assumptions C03_raises_iff.

(* update_state on an up-to-date state: no flag is left, every non-transient node holds the from-scratch
   value for (input values of st overlaid with pos), the result is again a good state *)
Theorem C03_update_state_spec : forall (V F : Type) (interp : F -> list V -> V) (dflt : V) (g : graph F), wf g ->
  forall (nm : names) (internal : mstate V) (pos : list (nat * V)) (st : snap V),
  good_state V F interp dflt g st -> pos_ok g nm (map fst pos) = true ->
  exists r, snd (update_state (lit interp dflt) g nm internal pos st) = Some r
    /\ (forall k, k < length g -> getb (sn_flags r) k = false)
    /\ (forall k n, nth_error g k = Some n -> kd n <> KTrans ->
          getv dflt (sn_vals r) k = denote interp dflt g (overlay nm (sn_vals st) pos) k)
    /\ good_state V F interp dflt g r.
Proof. exact update_state_spec_explicit. Qed.
Print Assumptions C03_update_state_spec.

(* ... which is the state Model.__init__ computes from scratch for these input values *)
Theorem C03_update_state_is_scratch : forall (V F : Type) (interp : F -> list V -> V) (dflt : V) (g : graph F), wf g ->
  forall (nm : names) (internal : mstate V) (pos : list (nat * V)) (st r : snap V),
  good_state V F interp dflt g st ->
  snd (update_state (lit interp dflt) g nm internal pos st) = Some r ->
  view dflt g r = view dflt g (snapshot (lit interp dflt) g (cur (init interp dflt g (overlay nm (sn_vals st) pos)))).
Proof. exact update_state_init. Qed.
Print Assumptions C03_update_state_is_scratch.

(* ... and the state the model itself shows after the same values are assigned directly (same key
   resolution) and the model is fully updated, whatever auto_update is on either side *)
Theorem C03_equals_direct_assignment : forall (V F : Type) (interp : F -> list V -> V) (dflt : V) (g : graph F), wf g ->
  forall (nm : names) (internal : mstate V) (pos : list (nat * V)) (rs : rstate V) (r : snap V),
  RInv V F interp dflt g rs ->
  (forall k, k < length g -> outdated g (cur rs) k = false) ->
  snd (update_state (lit interp dflt) g nm internal pos (snapshot (lit interp dflt) g (cur rs))) = Some r ->
  view dflt g r = view dflt g (snapshot (lit interp dflt) g (cur (run interp dflt g (direct_ops nm pos) rs))).
Proof. exact equals_direct. Qed.
Print Assumptions C03_equals_direct_assignment.

(* on up-to-date states the result is the same for any two private copies: any earlier calls, auto_update on
   or off when the interface was created; both raise or neither *)
Theorem C03_auto_update_irrelevant : forall (V F : Type) (interp : F -> list V -> V) (dflt : V) (g : graph F), wf g ->
  forall (nm : names) (i1 i2 : mstate V) (pos : list (nat * V)) (st : snap V),
  good_state V F interp dflt g st ->
  match snd (update_state (lit interp dflt) g nm i1 pos st), snd (update_state (lit interp dflt) g nm i2 pos st) with
  | Some r1, Some r2 => view dflt g r1 = view dflt g r2
  | None, None => True
  | _, _ => False
  end.
Proof. exact auto_irrelevant. Qed.
Print Assumptions C03_auto_update_irrelevant.

(* put-get, for every complete state: extracting the keys of the position from the result gives back the
   position, provided the keys name pairwise different nodes *)
Theorem C03_extract_update : forall (V F : Type) (interp : F -> list V -> V) (dflt : V) (g : graph F)
  (nm : names) (internal : mstate V) (pos : list (nat * V)) (st r : snap V),
  length (sn_vals st) = length g ->
  NoDup (map (fun kv : nat * V => resolve nm (fst kv)) pos) ->
  snd (update_state (lit interp dflt) g nm internal pos st) = Some r ->
  extract_position dflt g nm (map fst pos) r = Some (map (fun kv : nat * V => Some (snd kv)) pos).
Proof. exact extract_update. Qed.
Print Assumptions C03_extract_update.

(* get-put: putting back what extract_position returns leaves an up-to-date state as it is *)
Theorem C03_update_extract : forall (V F : Type) (interp : F -> list V -> V) (dflt : V) (g : graph F), wf g ->
  forall (nm : names) (internal : mstate V) (pos : list (nat * V)) (st r : snap V),
  good_state V F interp dflt g st ->
  extract_position dflt g nm (map fst pos) st = Some (map (fun kv : nat * V => Some (snd kv)) pos) ->
  snd (update_state (lit interp dflt) g nm internal pos st) = Some r ->
  view dflt g r = view dflt g st.
Proof. exact update_extract. Qed.
Print Assumptions C03_update_extract.

(* the interface's log-probability of the result is the from-scratch value of the "_model_log_prob" node,
   when that node caches its value (repair 3a71d35) ... *)
Theorem C03_log_prob : forall (V F : Type) (interp : F -> list V -> V) (dflt : V) (g : graph F), wf g ->
  forall (nm : names) (internal : mstate V) (pos : list (nat * V)) (st r : snap V) (lp : nat) (n : node F),
  good_state V F interp dflt g st ->
  snd (update_state (lit interp dflt) g nm internal pos st) = Some r ->
  nth_error g lp = Some n -> kd n = KCached ->
  log_prob dflt g lp r = Some (Some (denote interp dflt g (overlay nm (sn_vals st) pos) lp)).
Proof. exact log_prob_spec. Qed.
Print Assumptions C03_log_prob.

(* ... and None for every state when it is a transient node (the code before the repair) *)
Theorem C03_log_prob_transient_refuted : forall (V F : Type) (dflt : V) (g : graph F) (lp : nat) (n : node F) (r : snap V),
  nth_error g lp = Some n -> kd n = KTrans -> log_prob dflt g lp r = Some None.
Proof. exact log_prob_transient_none. Qed.
Print Assumptions C03_log_prob_transient_refuted.

(* the table-driven instance run by the correspondence shards is the literal model *)
Theorem C03_memo_is_lit : forall (V F : Type) (interp : F -> list V -> V) (dflt : V) (g : graph F), wf g ->
  forall (nm : names) (internal : mstate V) (pos : list (nat * V)) (st : snap V),
  length (sn_vals st) = length g ->
  update_state (memo interp dflt) g nm internal pos st = update_state (lit interp dflt) g nm internal pos st.
Proof. exact update_state_memo_lit. Qed.
Print Assumptions C03_memo_is_lit.

(* dict / dataclass / named-tuple interfaces: put-get, frame, get-put, fields kept *)
Theorem Iface_dict_laws : forall (V : Type) (strict : bool) (pos : list (nat * V)) (st st' : fstate V),
  (NoDup (map fst pos) -> fupdate strict pos st = Some st' -> fextract (map fst pos) st' = Some (map snd pos))
  /\ (fupdate strict pos st = Some st' -> forall k, ~ In k (map fst pos) -> fget st' k = fget st k)
  /\ (fextract (map fst pos) st = Some (map snd pos) -> fupdate strict pos st = Some st)
  /\ (fupdate true pos st = Some st' -> map fst st' = map fst st).
Proof.
  exact (fun V strict pos st st' =>
    conj (flat_put_get V strict pos st st')
      (conj (fun H k => fupdate_frame V strict pos st st' k H)
        (conj (flat_get_put V strict pos st) (flat_strict_fields V pos st st')))).
Qed.
Print Assumptions Iface_dict_laws.

(* ---- non-vacuity and documented limits --------------------------------------------------------------- *)
Example C03_example_hypotheses :
  good_state nat nat exi 0 exg ex_st0 /\ pos_ok exg ex_nm (map fst ex_pos) = true
  /\ NoDup (map (fun kv : nat * nat => resolve ex_nm (fst kv)) ex_pos).
Proof. exact ex_good. Qed.

Example C03_example_call :
  let r1 := snd (update_state ex_lit exg ex_nm (hollow 0 exg true) ex_pos ex_st0) in
  let r2 := snd (update_state ex_lit exg ex_nm (hollow 0 exg false) ex_pos ex_st0) in
  let i3 := run_calls ex_lit exg ex_nm (hollow 0 exg true) [([(0, 9)], ex_st0); ([(33, 1)], ex_st0)] in
  let r3 := snd (update_state ex_lit exg ex_nm i3 ex_pos ex_st0) in
  option_map (view 0 exg) r1 = option_map (view 0 exg) r2 /\ r1 = r3 /\ r1 <> None
  /\ option_map (view 0 exg) r1 <> Some (view 0 exg ex_st0)
  /\ option_map (extract_position 0 exg ex_nm [10; 1; 6; 3]) r1
     = Some (Some [Some 5; Some 7; Some (denote exi 0 exg [5; 7] 6); None])
  /\ option_map (log_prob 0 exg 6) r1 = Some (Some (Some (denote exi 0 exg [5; 7] 6))).
Proof. exact ex_call. Qed.

(* documented limit (the code's docstring states the precondition): on a state that still carries outdated
   flags the result differs from direct assignment + update() *)
Example C03_outdated_input_refuted :
  (exists k, k < length exg /\ getb (sn_flags ex_st_dirty) k = true)
  /\ RInv nat nat exi 0 exg ex_rs_dirty
  /\ exists r, snd (update_state ex_lit exg ex_nm (hollow 0 exg true) [(1, 7)] ex_st_dirty) = Some r
     /\ view 0 exg r
        <> view 0 exg (snapshot ex_lit exg (cur (run exi 0 exg (direct_ops ex_nm [(1, 7)]) ex_rs_dirty))).
Proof. exact ex_outdated_input. Qed.

(* documented limit: a position naming one node twice (node name and variable name): the later key wins *)
Example C03_aliased_keys_last_wins :
  option_map (extract_position 0 exg ex_nm [10; 0])
             (snd (update_state ex_lit exg ex_nm (hollow 0 exg true) [(10, 5); (0, 6)] ex_st0))
  = Some (Some [Some 6; Some 6])
  /\ ~ NoDup (map (fun kv : nat * nat => resolve ex_nm (fst kv)) [(10, 5); (0, 6)]).
Proof. exact ex_aliased_keys. Qed.

Example C03_example_flat :
  fupdate true [(2, 9)] [(1, 5); (2, 6); (3, 7)] = Some [(1, 5); (2, 9); (3, 7)]
  /\ fupdate true [(4, 9)] [(1, 5); (2, 6)] = None
  /\ fupdate false [(4, 9); (1, 0)] [(1, 5); (2, 6)] = Some [(1, 0); (2, 6); (4, 9)]
  /\ fextract [3; 1] [(1, 5); (2, 6); (3, 7)] = Some [7; 5].
Proof. exact ex_flat. Qed.
