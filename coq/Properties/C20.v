(* C20 - optim_flat: stopping rule, restored optimum, history shape, fresh mini-batches. *)
From Coq Require Import List ZArith QArith Bool Arith.
Import ListNotations.
Close Scope Q_scope.
Open Scope nat_scope.
From LV Require Import Goose.Stopper Goose.StopperProofs.

Theorem C20_stop_rule : forall s i h,
  (1 <= patience s)%nat -> (patience s <= length h)%nat -> (i < length h)%nat ->
  stop_now s i h = Some (rule s i h).
Proof. exact stop_rule. Qed.
Print Assumptions C20_stop_rule.

Theorem C20_loop_stops_at_first : forall s loss,
  (1 <= patience s)%nat -> (patience s <= max_iter s)%nat ->
  exists j, optim_loop s loss = Some (j, hist_at s loss j)
    /\ (j < max_iter s)%nat
    /\ rule s j (hist_at s loss j) = true
    /\ forall k, (k < j)%nat -> rule s k (hist_at s loss k) = false.
Proof. exact loop_stops_at_first. Qed.
Print Assumptions C20_loop_stops_at_first.

Theorem C20_best_is_argmin : forall s i h,
  (1 <= patience s)%nat -> (patience s <= S i)%nat -> (i < length h)%nat ->
  exists b : nat, which_best s i h = Some (Z.of_nat b)
    /\ (i + 1 - patience s <= b <= i)%nat
    /\ (forall k, (i + 1 - patience s <= k <= i)%nat -> (nth b h 0%Q <= nth k h 0%Q)%Q)
    /\ (forall k, (i + 1 - patience s <= k < b)%nat -> (nth b h 0%Q < nth k h 0%Q)%Q).
Proof. exact best_is_argmin. Qed.
Print Assumptions C20_best_is_argmin.

(* optim_flat around the loop: with a validation model the loop ends at the first index at which the
   documented rule fires; without one it runs to max_iter - 1; in both cases iteration_best is the first
   minimiser of the (validation) loss within the final window of the USER's patience, and the returned
   position is the one recorded at iteration_best (restore_best_position) or at the last iteration *)
Theorem C20_optim_flat_spec : forall s hv restore loss,
  (1 <= patience s)%nat -> (patience s <= max_iter s)%nat ->
  exists (j b : nat),
    optim_flat_model s hv restore loss
      = Some (mkOut j (Z.of_nat b) (if restore then Z.of_nat b else Z.of_nat j) (hist_at s loss j))
    /\ (j < max_iter s)%nat
    /\ (hv = false -> j = (max_iter s - 1)%nat)
    /\ (hv = true -> rule s j (hist_at s loss j) = true
                     /\ forall k, (k < j)%nat -> rule s k (hist_at s loss k) = false)
    /\ (j + 1 - patience s <= b <= j)%nat
    /\ (forall k, (j + 1 - patience s <= k <= j)%nat ->
          (nth b (hist_at s loss j) 0%Q <= nth k (hist_at s loss j) 0%Q)%Q)
    /\ (forall k, (j + 1 - patience s <= k < b)%nat ->
          (nth b (hist_at s loss j) 0%Q < nth k (hist_at s loss j) 0%Q)%Q).
Proof. exact optim_flat_spec. Qed.
Print Assumptions C20_optim_flat_spec.

Theorem C20_history_shape : forall prune h i, (i < length h)%nat ->
  let r := post_history prune h i in
  (length r = if prune then S i else length h)
  /\ (forall k, (k <= i)%nat -> nth k r None = Some (nth k h 0%Q))
  /\ (forall k, (i < k < length r)%nat -> nth k r None = None).
Proof. exact history_shape. Qed.
Print Assumptions C20_history_shape.

Theorem C20_batches_fresh : forall k i j, i <> j -> batch_key Advance k i <> batch_key Advance k j.
Proof. exact batches_fresh. Qed.
Print Assumptions C20_batches_fresh.

(* the code as found (carry key never advanced): refuted, defect F7 *)
Theorem C20_stale_key_refuted : forall k j, batch_key Stale k j = batch_key Stale k 0.
Proof. exact stale_key_refuted. Qed.
Print Assumptions C20_stale_key_refuted.
