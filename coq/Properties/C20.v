(* C20 - optim_flat: stopping rule, restored optimum, history shape, fresh mini-batches. *)
From Coq Require Import String.
From Coq Require Import List ZArith QArith Bool Arith Permutation.
Import ListNotations.
Close Scope string_scope.
Close Scope Q_scope.
Open Scope nat_scope.
From LV Require Import Goose.Stopper Goose.StopperProofs Goose.StopperPos Goose.StopperPosProofs.

Theorem C20_stop_rule : forall s i h,
  (1 <= patience s)%nat -> (patience s <= length h)%nat -> (i < length h)%nat ->
  stop_now s i h = Some (rule s i h).
Proof. exact stop_rule. Qed.
Print Assumptions C20_stop_rule.

Theorem C20_loop_stops_at_first : forall s loss,
  (1 <= patience s)%nat -> (patience s <= max_iter s)%nat ->
  exists j, optim_loop s loss = Some (j, hist_at s loss j)
    /\ (j < max_iter s)%nat
    /\ rule s j (hist_at s loss j) = true
    /\ forall k, (k < j)%nat -> rule s k (hist_at s loss k) = false.
Proof. exact loop_stops_at_first. Qed.
Print Assumptions C20_loop_stops_at_first.

Theorem C20_best_is_argmin : forall s i h,
  (1 <= patience s)%nat -> (patience s <= S i)%nat -> (i < length h)%nat ->
  exists b : nat, which_best s i h = Some (Z.of_nat b)
    /\ (i + 1 - patience s <= b <= i)%nat
    /\ (forall k, (i + 1 - patience s <= k <= i)%nat -> (nth b h 0%Q <= nth k h 0%Q)%Q)
    /\ (forall k, (i + 1 - patience s <= k < b)%nat -> (nth b h 0%Q < nth k h 0%Q)%Q).
Proof. exact best_is_argmin. Qed.
Print Assumptions C20_best_is_argmin.

(* optim_flat around the loop: with a validation model the loop ends at the first index at which the
   documented rule fires; without one it runs to max_iter - 1; in both cases iteration_best is the first
   minimiser of the (validation) loss within the final window of the USER's patience, and the returned
   position is the one recorded at iteration_best (restore_best_position) or at the last iteration *)
Theorem C20_optim_flat_spec : forall s hv restore loss,
  (1 <= patience s)%nat -> (patience s <= max_iter s)%nat ->
  exists (j b : nat),
    optim_flat_model s hv restore loss
      = Some (mkOut j (Z.of_nat b) (if restore then Z.of_nat b else Z.of_nat j) (hist_at s loss j))
    /\ (j < max_iter s)%nat
    /\ (hv = false -> j = (max_iter s - 1)%nat)
    /\ (hv = true -> rule s j (hist_at s loss j) = true
                     /\ forall k, (k < j)%nat -> rule s k (hist_at s loss k) = false)
    /\ (j + 1 - patience s <= b <= j)%nat
    /\ (forall k, (j + 1 - patience s <= k <= j)%nat ->
          (nth b (hist_at s loss j) 0%Q <= nth k (hist_at s loss j) 0%Q)%Q)
    /\ (forall k, (j + 1 - patience s <= k < b)%nat ->
          (nth b (hist_at s loss j) 0%Q < nth k (hist_at s loss j) 0%Q)%Q).
Proof. exact optim_flat_spec. Qed.
Print Assumptions C20_optim_flat_spec.

Theorem C20_history_shape : forall prune h i, (i < length h)%nat ->
  let r := post_history prune h i in
  (length r = if prune then S i else length h)
  /\ (forall k, (k <= i)%nat -> nth k r None = Some (nth k h 0%Q))
  /\ (forall k, (i < k < length r)%nat -> nth k r None = None).
Proof. exact history_shape. Qed.
Print Assumptions C20_history_shape.

Theorem C20_batches_fresh : forall k i j, i <> j -> batch_key Advance k i <> batch_key Advance k j.
Proof. exact batches_fresh. Qed.
Print Assumptions C20_batches_fresh.

(* the code as found (carry key never advanced): refuted, defect F7 *)
Theorem C20_stale_key_refuted : forall k j, batch_key Stale k j = batch_key Stale k 0.
Proof. exact stale_key_refuted. Qed.
Print Assumptions C20_stale_key_refuted.

(* the returned position, parameter NAME by name: for every list of distinct names, in any order, the value
   returned under a name is the value recorded under that name at iteration_best (restore_best_position) or at
   the last iteration, no other name is returned, and the saved position history has, under each name, the
   recorded values up to the last iteration followed by NaN (or nothing when pruned).  j and b are the ones of
   C20_optim_flat_spec (same equation). *)
Theorem C20_position_restored : forall s hv restore save prune params loss rec,
  (1 <= patience s)%nat -> (patience s <= max_iter s)%nat ->
  NoDup params -> (restore = true -> save = true) ->
  exists (j b : nat) (o : full_out),
    optim_flat_model s hv restore loss
      = Some (mkOut j (Z.of_nat b) (if restore then Z.of_nat b else Z.of_nat j) (hist_at s loss j))
    /\ optim_flat_full s hv restore save prune params loss rec = Ok o
    /\ f_iter o = j /\ f_best o = Z.of_nat b
    /\ (j < max_iter s)%nat /\ (j + 1 - patience s <= b <= j)%nat
    /\ (forall n, In n params ->
          lookup n (f_position o) = Some (rec (if restore then b else j) n))
    /\ (forall n, ~ In n params -> lookup n (f_position o) = None)
    /\ (save = false -> f_poshist o = None)
    /\ (save = true -> exists ph, f_poshist o = Some ph
          /\ (forall n, ~ In n params -> lookup n ph = None)
          /\ forall n, In n params -> exists col, lookup n ph = Some col
               /\ length col = (if prune then S j else max_iter s)
               /\ (forall k, (k <= j)%nat -> nth k col None = Some (rec k n))
               /\ (forall k, (j < k < length col)%nat -> nth k col None = None))
    /\ f_losshist o = post_history prune (hist_at s loss j) j.
Proof. exact position_by_name. Qed.
Print Assumptions C20_position_restored.

Example C20_position_restored_example :
  exists o, optim_flat_full (mkStopper 8 2 0 0) true true true true ex3_params ex3_loss ex3_rec = Ok o
    /\ f_iter o = 3 /\ f_best o = 2%Z
    /\ lookup "w"%string (f_position o) = Some [2; 7]%Q
    /\ lookup "b"%string (f_position o) = Some [2 + 100]%Q
    /\ map fst (f_position o) = ["b"; "m"; "w"]%string.
Proof. exact position_by_name_example. Qed.

Theorem C20_restore_needs_history : forall s hv prune params loss rec,
  optim_flat_full s hv true false prune params loss rec = Err AssertRestoreNeedsHistory.
Proof. exact restore_needs_history. Qed.
Print Assumptions C20_restore_needs_history.

(* pairing the caller's order of names with the (sorted) columns of the history is refuted *)
Theorem C20_restore_by_zip_refuted :
  NoDup ex_params
  /\ map fst ex_hist = ["intercept"; "slope"]%string
  /\ lookup "slope"%string (restore_by_zip ex_params ex_hist 2) = Some (ex_rec 2 "intercept"%string)
  /\ lookup "slope"%string (restore_by_items ex_hist 2) = Some (ex_rec 2 "slope"%string)
  /\ ex_rec 2 "intercept"%string <> ex_rec 2 "slope"%string.
Proof. exact restore_by_zip_refuted. Qed.
Print Assumptions C20_restore_by_zip_refuted.

(* the batches of one iteration: n / bs disjoint rows of bs indices each, together a duplicate-free prefix of the
   permutation, so exactly n mod bs observations are left out *)
Theorem C20_batches_partition : forall perm bs n,
  Permutation perm (seq 0 n) -> (1 <= bs <= n)%nat ->
  exists bt, batch_indices perm bs = Some bt
    /\ length bt = (n / bs)%nat
    /\ Forall (fun r => length r = bs) bt
    /\ concat bt = firstn ((n / bs) * bs) perm
    /\ NoDup (concat bt)
    /\ (forall i, In i (concat bt) -> (i < n)%nat)
    /\ length (concat bt) = (n - n mod bs)%nat.
Proof. exact batches_partition. Qed.
Print Assumptions C20_batches_partition.

Example C20_batches_partition_example :
  batch_indices [1; 4; 3; 0; 2; 6; 5] 3 = Some [[1; 4; 3]; [0; 2; 6]]
  /\ Permutation [1; 4; 3; 0; 2; 6; 5] (seq 0 7).
Proof. exact batches_partition_example. Qed.

(* attributes assigned on an existing Stopper instance: every method follows the CURRENT values *)
Theorem C20_stop_rule_current_attributes : forall s ops i h,
  let s' := apply_ops s ops in
  (1 <= patience s')%nat -> (patience s' <= length h)%nat -> (i < length h)%nat ->
  stop_now s' i h = Some (rule s' i h)
  /\ forall q, rtol (apply_ops s (ops ++ [SetRtol q])) = q.
Proof. exact stop_rule_current. Qed.
Print Assumptions C20_stop_rule_current_attributes.

Theorem C20_assigned_attributes_last_wins : forall ops s,
  apply_ops s ops = mkStopper (last_set get_mi ops (max_iter s)) (last_set get_p ops (patience s))
                              (last_set get_at ops (atol s)) (last_set get_rt ops (rtol s)).
Proof. exact apply_ops_fields. Qed.
Print Assumptions C20_assigned_attributes_last_wins.

Example C20_stop_rule_current_example :
  let s := apply_ops (mkStopper 30 5 (1 # 1000) 0) [SetRtol (1 # 2); SetAtol 0; SetPatience 2; SetMaxIter 8] in
  s = mkStopper 8 2 0 (1 # 2)
  /\ stop_now s 3 [8; 6; 4; 3; 0; 0; 0; 0]%Q = Some true
  /\ stop_now (mkStopper 8 2 0 0) 3 [8; 6; 4; 3; 0; 0; 0; 0]%Q = Some false.
Proof. exact stop_rule_current_example. Qed.
