(* C12 - mass-matrix adaptation is aligned with the parameters it scales. *)
From Coq Require Import String List QArith Bool Arith Permutation Sorted.
Import ListNotations.
From LV Require Import Goose.MM Goose.MMProofs.
Open Scope Q_scope.

(* flat coordinate i of the kernel's position: the listed keys in sorted (pytree) order *)
Theorem C12_flat_order_spec : forall keys,
  Permutation keys (flat_order keys) /\ StronglySorted key_le (flat_order keys).
Proof. exact flat_order_spec. Qed.
Print Assumptions C12_flat_order_spec.

(* diagonal mode: entry i is the regularised sample variance of flat coordinate i *)
Theorem C12_aligned_diag : forall keys h v,
  tune_mm Sorted true keys h = Some (Diag v) ->
  length v = length (flat_coords keys) /\
  forall i name j, nth_error (flat_coords keys) i = Some (name, j) ->
    exists s x, coord_series h name j = Some s /\ var_q s = Some x /\
                nth_error v i = Some (x + reg).
Proof. exact (aligned_diag Sorted). Qed.
Print Assumptions C12_aligned_diag.

(* dense mode: entry (i,i') is the sample covariance of flat coordinates i and i', regularised on
   the diagonal *)
Theorem C12_aligned_dense : forall keys h m,
  tune_mm Sorted false keys h = Some (Dense m) ->
  length m = length (flat_coords keys) /\
  Forall (fun row => length row = length (flat_coords keys)) m /\
  forall i name j i' name' j',
    nth_error (flat_coords keys) i = Some (name, j) ->
    nth_error (flat_coords keys) i' = Some (name', j') ->
    exists s s' c, coord_series h name j = Some s /\ coord_series h name' j' = Some s' /\
                   cov_q s s' = Some c /\
                   entry m i i' = Some (if Nat.eqb i i' then c + reg else c).
Proof. exact (aligned_dense Sorted). Qed.
Print Assumptions C12_aligned_dense.

(* the same, read on the kernel state after TuningMixin.tune on a slow epoch with a history *)
Theorem C12_slow_epoch_aligned_diag : forall sqrt_o keys st h st',
  tune sqrt_o Sorted true keys true st (Some h) = Some st' ->
  exists v, imm st' = Diag v /\
    length v = length (flat_coords keys) /\
    forall i name j, nth_error (flat_coords keys) i = Some (name, j) ->
      exists s x, coord_series h name j = Some s /\ var_q s = Some x /\
                  nth_error v i = Some (x + reg).
Proof. exact slow_epoch_aligned_diag. Qed.
Print Assumptions C12_slow_epoch_aligned_diag.

Theorem C12_slow_epoch_aligned_dense : forall sqrt_o keys st h st',
  tune sqrt_o Sorted false keys true st (Some h) = Some st' ->
  exists m, imm st' = Dense m /\
    length m = length (flat_coords keys) /\
    Forall (fun row => length row = length (flat_coords keys)) m /\
    forall i name j i' name' j',
      nth_error (flat_coords keys) i = Some (name, j) ->
      nth_error (flat_coords keys) i' = Some (name', j') ->
      exists s s' c, coord_series h name j = Some s /\ coord_series h name' j' = Some s' /\
                     cov_q s s' = Some c /\
                     entry m i i' = Some (if Nat.eqb i i' then c + reg else c).
Proof. exact slow_epoch_aligned_dense. Qed.
Print Assumptions C12_slow_epoch_aligned_dense.

(* the tuned state does not depend on the order in which the position keys were listed *)
Theorem C12_order_invariant : forall sqrt_o diag keys keys' slow st h,
  Permutation keys keys' -> NoDup (map fst keys) ->
  tune sqrt_o Sorted diag keys slow st h = tune sqrt_o Sorted diag keys' slow st h.
Proof. exact order_invariant. Qed.
Print Assumptions C12_order_invariant.

(* ... nor on anything in the history but the kernel's own keys *)
Theorem C12_own_keys_only : forall sqrt_o o diag keys slow st h h',
  agree_on keys h h' ->
  tune sqrt_o o diag keys slow st (Some h) = tune sqrt_o o diag keys slow st (Some h').
Proof. exact own_keys_only. Qed.
Print Assumptions C12_own_keys_only.

Theorem C12_other_kernels_irrelevant :
  forall sqrt_o o diag keys slow st own others1 others2 others1' others2',
  (forall k, In k keys -> ~ In (fst k) (map fst (others1 ++ others2 ++ others1' ++ others2'))) ->
  tune sqrt_o o diag keys slow st (Some (others1 ++ own ++ others2)) =
  tune sqrt_o o diag keys slow st (Some (others1' ++ own ++ others2')).
Proof. exact other_kernels_irrelevant. Qed.
Print Assumptions C12_other_kernels_irrelevant.

(* every slow epoch re-tunes from that epoch's history alone; other epochs change nothing *)
Theorem C12_slow_epoch_fresh : forall sqrt_o o diag keys st h st',
  tune sqrt_o o diag keys true st (Some h) = Some st' -> tune_mm o diag keys h = Some (imm st').
Proof. exact slow_epoch_fresh. Qed.
Print Assumptions C12_slow_epoch_fresh.

Theorem C12_not_slow_unchanged : forall sqrt_o o diag keys st h,
  tune sqrt_o o diag keys false st h = Some st /\ tune sqrt_o o diag keys true st None = Some st.
Proof. exact not_slow_unchanged. Qed.
Print Assumptions C12_not_slow_unchanged.

Theorem C12_each_slow_epoch : forall sqrt_o o diag keys st pre h post st',
  run_epochs sqrt_o o diag keys st (pre ++ (true, Some h) :: post) = Some st' ->
  Forall no_retune post ->
  tune_mm o diag keys h = Some (imm st').
Proof. exact last_slow_epoch. Qed.
Print Assumptions C12_each_slow_epoch.

(* kernel sequence + engine: which history reaches which kernel.  In a slow epoch kernel i is tuned on
   the chain recorded for this very epoch, restricted to its own keys - whatever the other kernels
   of the sequence are (needs_history or not, before or after it) and whatever was recorded for
   earlier epochs (equal configs included) *)
Theorem C12_engine_slow_epoch_own_history : forall sqrt_o o ks store e h ks' store' i diag keys st,
  engine_epoch sqrt_o o ks store e h = Some (ks', store') ->
  e_type e = ESlow ->
  nth_error ks i = Some (KMM diag keys, st) ->
  exists st', nth_error ks' i = Some (KMM diag keys, st') /\
    tune sqrt_o o diag keys true st (Some (restrict keys h)) = Some st' /\
    tune_mm o diag keys (restrict keys h) = Some (imm st').
Proof. exact engine_slow_epoch_own_history. Qed.
Print Assumptions C12_engine_slow_epoch_own_history.

Theorem C12_engine_run_kernel : forall sqrt_o o eps ks store ks' store' i diag keys st,
  engine_run sqrt_o o ks store eps = Some (ks', store') ->
  nth_error ks i = Some (KMM diag keys, st) ->
  exists st', nth_error ks' i = Some (KMM diag keys, st') /\
    run_epochs sqrt_o o diag keys st (adapt_view eps) = Some st'.
Proof. exact engine_run_kernel. Qed.
Print Assumptions C12_engine_run_kernel.

Theorem C12_engine_last_slow_epoch : forall sqrt_o o pre e h post ks store ks' store' i diag keys st,
  engine_run sqrt_o o ks store (pre ++ (e, h) :: post) = Some (ks', store') ->
  e_type e = ESlow ->
  Forall (fun eh => e_type (fst eh) <> ESlow) post ->
  nth_error ks i = Some (KMM diag keys, st) ->
  exists st', nth_error ks' i = Some (KMM diag keys, st') /\
    tune_mm o diag keys (restrict keys h) = Some (imm st').
Proof. exact engine_last_slow_epoch. Qed.
Print Assumptions C12_engine_last_slow_epoch.

(* incremental driving: appending epochs after sampling (append_epoch / sample_next_epoch) is the same
   as scheduling them at once, so a slow epoch appended to ANY sampled schedule - e.g. one that had no
   slow epoch when the engine was constructed - tunes kernel i on the appended epoch's own chain *)
Theorem C12_engine_run_app : forall sqrt_o o eps1 eps2 ks store,
  engine_run sqrt_o o ks store (eps1 ++ eps2) =
  match engine_run sqrt_o o ks store eps1 with
  | Some (ks1, store1) => engine_run sqrt_o o ks1 store1 eps2
  | None => None
  end.
Proof. exact engine_run_app. Qed.
Print Assumptions C12_engine_run_app.

Theorem C12_engine_appended_epoch :
  forall sqrt_o o eps1 e h ks store ks1 store1 ks' store' i diag keys st1,
  engine_run sqrt_o o ks store eps1 = Some (ks1, store1) ->
  engine_run sqrt_o o ks store (eps1 ++ [(e, h)]) = Some (ks', store') ->
  e_type e = ESlow ->
  nth_error ks1 i = Some (KMM diag keys, st1) ->
  exists st', nth_error ks' i = Some (KMM diag keys, st') /\
    tune sqrt_o o diag keys true st1 (Some (restrict keys h)) = Some st' /\
    tune_mm o diag keys (restrict keys h) = Some (imm st').
Proof. exact engine_appended_epoch. Qed.
Print Assumptions C12_engine_appended_epoch.

(* the history is the chain RECORDED for the epoch (the thinned samples, if the epoch is thinned):
   duration and thinning of the config play no role *)
Theorem C12_engine_thinned_history : forall sqrt_o o ks store t d th d' th' h,
  option_map fst (engine_epoch sqrt_o o ks store (mkE t d th) h) =
  option_map fst (engine_epoch sqrt_o o ks store (mkE t d' th') h).
Proof. exact engine_thinned_history. Qed.
Print Assumptions C12_engine_thinned_history.

(* the tuned matrix has a positive trace and the step size is rescaled by sqrt(trace old / trace new) *)
Theorem C12_trace_pos : forall o diag keys h new, tune_mm o diag keys h = Some new -> 0 < trace new.
Proof. exact trace_pos. Qed.
Print Assumptions C12_trace_pos.

Theorem C12_step_rescale : forall sqrt_o o diag keys st h st',
  tune_slow sqrt_o o diag keys st (Some h) = Some st' ->
  sqrt_o (trace (imm st) / trace (imm st')) * sqrt_o (trace (imm st) / trace (imm st'))
    == trace (imm st) / trace (imm st') ->
  0 < trace (imm st') /\
  step st' * step st' * trace (imm st') == step st * step st * trace (imm st).
Proof. exact step_rescale. Qed.
Print Assumptions C12_step_rescale.

Theorem C12_keeps_kind : forall sqrt_o o diag keys slow st h st',
  tune sqrt_o o diag keys slow st h = Some st' ->
  kind_ok diag (imm st) = true -> kind_ok diag (imm st') = true.
Proof. exact tune_keeps_kind. Qed.
Print Assumptions C12_keeps_kind.

(* the code as found (history columns in the listed order): refuted, defect F4 *)
Theorem C12_as_listed_refuted :
  exists keys h v s x y,
    tune_mm AsListed true keys h = Some (Diag v) /\
    nth_error (flat_coords keys) 0 = Some ("alpha"%string, 0%nat) /\
    coord_series h "alpha" 0 = Some s /\ var_q s = Some x /\
    nth_error v 0 = Some y /\ ~ (y == x + reg) /\
    (exists sz xz, coord_series h "zeta" 0 = Some sz /\ var_q sz = Some xz /\ y == xz + reg).
Proof. exact as_listed_refuted. Qed.
Print Assumptions C12_as_listed_refuted.

Theorem C12_as_listed_order_dependent :
  exists keys keys' h v v' y y',
    Permutation keys keys' /\ NoDup (map fst keys) /\
    tune_mm AsListed true keys h = Some (Diag v) /\
    tune_mm AsListed true keys' h = Some (Diag v') /\
    nth_error v 0 = Some y /\ nth_error v' 0 = Some y' /\ ~ (y == y').
Proof. exact as_listed_order_dependent. Qed.
Print Assumptions C12_as_listed_order_dependent.

(* non-vacuity: the hypotheses hold on concrete objects (keys zeta/alpha/B with shapes 1/2/4) *)
Example C12_ex_flat_coords :
  flat_coords ex_keys =
  [("B", 0); ("B", 1); ("B", 2); ("B", 3); ("alpha", 0); ("alpha", 1); ("zeta", 0)]%nat%string.
Proof. exact ex_flat_coords. Qed.

Example C12_ex_aligned_diag : exists v,
  tune_mm Sorted true ex_keys ex_hist = Some (Diag v) /\ length v = 7%nat /\
  exists y, nth_error v 6 = Some y /\ y == (20000 # 3) + reg.
Proof. exact ex_aligned_diag. Qed.

Example C12_ex_aligned_dense : exists m,
  tune_mm Sorted false ex_keys ex_hist = Some (Dense m) /\ length m = 7%nat /\
  exists y, entry m 4 6 = Some y /\ y == 200 # 3.
Proof. exact ex_aligned_dense. Qed.

Example C12_ex_slow_epoch_aligned : exists st',
  tune ex_sqrt Sorted true ex_keys true (mkK 1 (Diag [1;1;1;1;1;1;1])) (Some ex_hist) = Some st'.
Proof. exact ex_slow_epoch_aligned. Qed.

Example C12_ex_slow_epoch_aligned_dense : exists st',
  tune ex_sqrt Sorted false ex_keys true (mkK 1 (Dense [[1]])) (Some ex_hist) = Some st'.
Proof. exact ex_slow_epoch_aligned_dense. Qed.

Example C12_ex_order_invariant :
  Permutation ex_keys [("B"%string, 4%nat); ("zeta"%string, 1%nat); ("alpha"%string, 2%nat)] /\
  NoDup (map fst ex_keys).
Proof. exact ex_order_invariant. Qed.

Example C12_ex_own_keys : agree_on ex_keys ex_hist (("other2"%string, [[1]]) :: tl ex_hist).
Proof. exact ex_own_keys. Qed.

Example C12_ex_step_rescale : exists st',
  tune_slow ex_sqrt Sorted true [("a"%string, 1%nat)] ex_st (Some ex_h2) = Some st' /\
  ex_sqrt (trace (imm ex_st) / trace (imm st')) * ex_sqrt (trace (imm ex_st) / trace (imm st'))
    == trace (imm ex_st) / trace (imm st') /\
  step st' == 1.
Proof. exact ex_step_rescale. Qed.

Example C12_ex_each_slow_epoch : exists st',
  run_epochs ex_sqrt Sorted true [("a"%string, 1%nat)] ex_st
    ([(false, Some ex_h2); (true, Some [("a"%string, [[0]; [8]])])] ++ (true, Some ex_h2) :: [(false, None); (true, None)])
    = Some st' /\ Forall no_retune [(false, @None history); (true, None)].
Proof. exact ex_last_slow_epoch. Qed.

(* a non-history kernel first and in the middle, two slow epochs with equal configs *)
Example C12_ex_engine_last_slow_epoch : exists ks' store' st',
  engine_run (fun _ => 1) Sorted ex_kseq [] ex_sched = Some (ks', store') /\
  nth_error ks' 1 = Some (KMM true [("a"%string, 1%nat)], st') /\
  tune_mm Sorted true [("a"%string, 1%nat)] (restrict [("a"%string, 1%nat)] (ex_h 6 8)) = Some (imm st') /\
  imm st' = Diag [Qred (32 + reg)].
Proof. exact ex_engine_last_slow_epoch. Qed.

(* constructed with a fast epoch only; a thinned slow epoch (duration 4, thinning 2) appended afterwards *)
Example C12_ex_engine_appended_thinned : exists ks1 store1 ks' store' st',
  engine_run (fun _ => 1) Sorted ex_kseq [] [(mkE EFast 2 1, ex_h 1 1)] = Some (ks1, store1) /\
  engine_run (fun _ => 1) Sorted ex_kseq [] ([(mkE EFast 2 1, ex_h 1 1)] ++ [(mkE ESlow 4 2, ex_h 6 8)]) = Some (ks', store') /\
  nth_error ks' 3 = Some (KMM false [("z"%string, 1%nat)], st') /\
  imm st' = Dense [[Qred (18 + reg)]].
Proof. exact ex_engine_appended_thinned. Qed.
