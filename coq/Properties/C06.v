(* C06 - proposal corrections of the RW, IWLS and user-proposal MH kernels: the reported
   acceptance probability is min(1, pi(x') q(x|x') / (pi(x) q(x'|x))) for the kernel's actual
   proposal density q, hence detailed balance.  (q a b = density of proposing b from a.) *)
From Coq Require Import QArith Reals List.
From Coquelicot Require Import Coquelicot.
From LV Require Import Analytic.Gauss Analytic.GaussProofs Analytic.IWLS Analytic.IWLSProofs
  Analytic.CorrC06 Analytic.IWLSWitness.
From LV Require Base.Xnum Goose.MH Goose.MHProofs Analytic.IWLSExt.
Import ListNotations.
Open Scope R_scope.

(* ---- iwls_utils: mvn_log_prob is the log-density of what mvn_sample draws ---- *)
Theorem C06_logpdf_is_density_of_sample : forall z m l, l <> 0 ->
  gauss_logpdf_prec (gauss_sample z m l) m l = std_normal_logpdf z + ln l
  /\ is_derive (fun t => gauss_sample t m l) z (/ l).
Proof. exact (fun z m l H => conj (gauss_logpdf_of_sample z m l H) (gauss_sample_derive z m l H)). Qed.
Print Assumptions C06_logpdf_is_density_of_sample.

Theorem C06_logpdf_is_gaussian : forall y m l, 0 < l ->
  exp (gauss_logpdf_prec y m l) = gauss_pdf y m (/ (l * l)).
Proof. exact gauss_logpdf_prec_is_pdf. Qed.
Print Assumptions C06_logpdf_is_gaussian.

Theorem C06_sample_mass : forall a b m l, 0 < l ->
  RInt (fun y => exp (gauss_logpdf_prec y m l)) (gauss_sample a m l) (gauss_sample b m l)
  = RInt (fun z => exp (std_normal_logpdf z)) a b.
Proof. exact gauss_sample_mass. Qed.
Print Assumptions C06_sample_mass.

(* ---- IWLS: proposal moments, ratio, acceptance probability, detailed balance ---- *)
Theorem C06_proposal_moments : forall score info s, 0 < s -> (forall x, 0 < info x) -> forall x x',
  exp (iwls_fwd score (chol_of_info info) s x x')
  = gauss_pdf x' (x + s * s / 2 * (/ info x) * score x) (s * s * / info x).
Proof. exact iwls_proposal_moments. Qed.
Print Assumptions C06_proposal_moments.

Theorem C06_proposal_is_draw : forall score ch s, 0 < s -> (forall x, 0 < ch x) -> forall z x,
  iwls_q score (info_of_chol ch) s x (iwls_propose score ch s z x) = std_normal_pdf z / (/ iwls_prec ch s x)
  /\ is_derive (fun t => iwls_propose score ch s t x) z (/ iwls_prec ch s x).
Proof. exact iwls_propose_density. Qed.
Print Assumptions C06_proposal_is_draw.

Theorem C06_iwls_ratio : forall lp score ch s, 0 < s -> (forall x, 0 < ch x) -> forall x x',
  exp (iwls_log_acc lp score ch s x x') = mh_ratio (target lp) (iwls_q score (info_of_chol ch) s) x x'.
Proof. exact iwls_ratio. Qed.
Print Assumptions C06_iwls_ratio.

Theorem C06_acceptance_is_mh : forall lp score ch s, 0 < s -> (forall x, 0 < ch x) -> forall x x',
  iwls_alpha lp score ch s x x' = mh_alpha (target lp) (iwls_q score (info_of_chol ch) s) x x'.
Proof. exact iwls_acceptance_is_mh. Qed.
Print Assumptions C06_acceptance_is_mh.

Theorem C06_acceptance_is_mh_default : forall lp score info s, 0 < s -> (forall x, 0 < info x) -> forall x x',
  iwls_alpha lp score (chol_of_info info) s x x' = mh_alpha (target lp) (iwls_q score info s) x x'.
Proof. exact iwls_default_acceptance_is_mh. Qed.
(* corollary of the theorem above (same assumptions); no separate Print Assumptions to keep this file fast *)

Theorem C06_detailed_balance : forall lp score ch s, 0 < s -> (forall x, 0 < ch x) -> forall x x',
  target lp x * iwls_q score (info_of_chol ch) s x x' * iwls_alpha lp score ch s x x'
  = target lp x' * iwls_q score (info_of_chol ch) s x' x * iwls_alpha lp score ch s x' x.
Proof. exact iwls_detailed_balance. Qed.
Print Assumptions C06_detailed_balance.

Theorem C06_detailed_balance_default : forall lp score info s, 0 < s -> (forall x, 0 < info x) -> forall x x',
  target lp x * iwls_q score info s x x' * iwls_alpha lp score (chol_of_info info) s x x'
  = target lp x' * iwls_q score info s x' x * iwls_alpha lp score (chol_of_info info) s x' x.
Proof. exact iwls_default_detailed_balance. Qed.
(* corollary of the theorem above (same assumptions); no separate Print Assumptions to keep this file fast *)

(* ---- random walk ---- *)
Theorem C06_rw : forall lp s, 0 < s -> forall x x',
  rw_corr x x' = ln (rw_q s x' x) - ln (rw_q s x x')
  /\ rw_alpha lp x x' = mh_alpha (target lp) (rw_q s) x x'
  /\ target lp x * rw_q s x x' * rw_alpha lp x x' = target lp x' * rw_q s x' x * rw_alpha lp x' x.
Proof.
  exact (fun lp s H x x' => conj (rw_zero_correction s x x')
          (conj (rw_acceptance_is_mh lp s H x x') (rw_detailed_balance lp s H x x'))).
Qed.
Print Assumptions C06_rw.

Theorem C06_rw_proposal_is_draw : forall s, 0 < s -> forall z x,
  rw_q s x (rw_propose s z x) = std_normal_pdf z / s /\ is_derive (fun t => rw_propose s t x) z s.
Proof. exact rw_propose_density. Qed.
Print Assumptions C06_rw_proposal_is_draw.

(* ---- MHKernel: the declared correction is forwarded unchanged ---- *)
Theorem C06_mh_user : forall lp (q user_corr : R -> R -> R),
  (forall a b, 0 < q a b) -> (forall x x', user_corr x x' = ln (q x' x / q x x')) -> forall x x',
  mhk_alpha lp user_corr x x' = mh_alpha (target lp) q x x'
  /\ target lp x * q x x' * mhk_alpha lp user_corr x x' = target lp x' * q x' x * mhk_alpha lp user_corr x' x.
Proof.
  exact (fun lp q uc Hq Hd x x' => conj (mhk_acceptance_is_mh lp q uc Hq Hd x x')
                                        (mhk_detailed_balance lp q uc Hq Hd x x')).
Qed.
Print Assumptions C06_mh_user.

(* ---- the n-dimensional definitions restricted to 1x1 blocks are the scalar ones ---- *)
Theorem C06_nd_dim1_is_scalar : forall x m l z r,
  mvn_log_prob [x] [m] [[l]] = gauss_logpdf_prec x m l
  /\ mvn_sample [z] [m] [[l]] = [gauss_sample z m l]
  /\ solve [[l]] [r] = [solve1 l r].
Proof.
  exact (fun x m l z r => conj (mvn_log_prob_dim1 x m l) (conj (mvn_sample_dim1 z m l) (solve_dim1 l r))).
Qed.
Print Assumptions C06_nd_dim1_is_scalar.

(* ---- non-vacuity ---- *)
Example C06_quartic_hypotheses :
  (forall x, is_derive qt_lp x (qt_score x)) /\ (forall x, is_derive qt_score x (- qt_info x))
  /\ (forall x, 0 < qt_info x).
Proof. exact quartic_hypotheses. Qed.

Example C06_quartic_instance : forall s x x', 0 < s ->
  target qt_lp x * iwls_q qt_score qt_info s x x' * iwls_alpha qt_lp qt_score (chol_of_info qt_info) s x x'
  = target qt_lp x' * iwls_q qt_score qt_info s x' x * iwls_alpha qt_lp qt_score (chol_of_info qt_info) s x' x.
Proof. exact quartic_detailed_balance. Qed.

Example C06_quartic_nontrivial :
  0 < iwls_alpha qt_lp qt_score (chol_of_info qt_info) 1 0 1 < 1.
Proof. exact quartic_alpha_nontrivial. Qed.

Example C06_mh_user_instance : forall rho s x x', 0 < s ->
  target (gs_lp 0 1) x * ar_q rho s x x' * mhk_alpha (gs_lp 0 1) (ar_corr rho s) x x'
  = target (gs_lp 0 1) x' * ar_q rho s x' x * mhk_alpha (gs_lp 0 1) (ar_corr rho s) x' x.
Proof. exact ar_detailed_balance. Qed.

(* ---- what the property text warns about: sign / argument-order slips are not MH ---- *)
Theorem C06_swapped_correction_refuted :
  exists x x' s, 0 < s /\
    accept_prob (iwls_log_acc_swapped (gs_lp 0 1) (gs_score 0 1) (chol_of_info (gs_info 0 1)) s x x')
    <> mh_alpha (target (gs_lp 0 1)) (iwls_q (gs_score 0 1) (gs_info 0 1) s) x x'.
Proof. exact swapped_correction_refuted. Qed.
Print Assumptions C06_swapped_correction_refuted.

(* the sign convention in MHProposal's docstring, log (q(x'|x) / q(x|x')), contradicts mh_step's *)
Theorem C06_mhproposal_docstring_sign_refuted :
  exists rho s x x', 0 < s /\
    mhk_alpha (gs_lp 0 1) (docstring_corr (ar_q rho s)) x x'
    <> mh_alpha (target (gs_lp 0 1)) (ar_q rho s) x x'.
Proof. exact mhproposal_docstring_sign_refuted. Qed.
Print Assumptions C06_mhproposal_docstring_sign_refuted.

(* ---- zero target density (log-density -inf) at the current point or at the proposal: the ratio is taken in
   the extended reals, on C05's special-value model of mh_step that all three kernels call ---- *)
Theorem C06_from_zero_density : forall exp_o : Xnum.xnum -> Xnum.xnum,
  exp_o Xnum.XPosInf = Xnum.XPosInf -> forall (a c : QArith_base.Q) (u : Xnum.xnum), MHProofs.unit_interval u ->
  let o := MH.mh_decide exp_o MH.Lt Xnum.XNegInf (Xnum.XFin a) (Xnum.XFin c) u in
  MH.code o = 0%nat /\ MH.prob o = Xnum.XFin 1%Q /\ MH.accept o = true.
Proof. exact IWLSExt.from_zero_density. Qed.
Print Assumptions C06_from_zero_density.

Theorem C06_to_zero_density : forall exp_o : Xnum.xnum -> Xnum.xnum,
  MHProofs.exp_ok exp_o -> forall (a c : QArith_base.Q) (u : Xnum.xnum), MHProofs.unit_interval u ->
  let o := MH.mh_decide exp_o MH.Lt (Xnum.XFin a) Xnum.XNegInf (Xnum.XFin c) u in
  MH.code o = 0%nat /\ MH.prob o = Xnum.XFin 0%Q /\ MH.accept o = false.
Proof. exact IWLSExt.to_zero_density. Qed.
Print Assumptions C06_to_zero_density.

Example C06_zero_density_instance :
  let o := MH.mh_decide MHProofs.exp_stub MH.Lt Xnum.XNegInf (Xnum.XFin (-(1#2))%Q) (Xnum.XFin 0%Q) (Xnum.XFin 0%Q) in
  MH.code o = 0%nat /\ MH.prob o = Xnum.XFin 1%Q /\ MH.accept o = true.
Proof. exact IWLSExt.ext_instance. Qed.

Theorem C06_inf_ratio_as_error_refuted :
  exists cur prop corr u, MHProofs.unit_interval u /\
    MH.prob (MH.mh_decide MHProofs.exp_stub MH.Lt cur prop corr u) = Xnum.XFin 1%Q /\
    MH.prob (IWLSExt.mh_decide_inf_is_error MHProofs.exp_stub cur prop corr u) = Xnum.XFin 0%Q /\
    MH.code (IWLSExt.mh_decide_inf_is_error MHProofs.exp_stub cur prop corr u) = 90%nat.
Proof. exact IWLSExt.inf_is_error_refuted. Qed.
Print Assumptions C06_inf_ratio_as_error_refuted.
